(* C10 classifier.  0 Agree | 1 ModelMismatch | 2 PropertyFail.
   Spec predicate, recomputed from what the IMPLEMENTATION stored and printed: per account the
   converted report is round_T( sum of the holdings x the spec rate ) — holdings are plain
   sums of the implementation's own posting amounts over the date range, spec rates are the
   brute-force optimum of Model/PriceSpec.v as of `now` (up-to-date) or of each posting's
   transaction date (historical) — and the command fails exactly when some amount that has to
   be converted has no chain.  Agreement: Model/Convert.v `balance_query` gives the same report.
   Where an amount that is converted has several optimal chains with different rates (genuine
   tie) only success/failure and the target commodity are checked. *)
From Coq Require Import List NArith ZArith Bool QArith Qcanon.
From Okv Require Import Base.Maps Base.Dec Model.Amount Model.Book Model.Query Model.PriceDb Model.PriceSpec
     Model.Convert Run.LedgerCase Run.PriceCase.
Import ListNotations.
Open Scope Qc_scope.

Inductive bobs := BOk (rep : list (N * amount)) | BNotFound (c : N) | BOther.

Record bquery := { b_target : N; b_strategy : strategy; b_start : option Z; b_end : option Z;
                   b_api : bobs; b_cli : option bobs }.
Definition BQ (t : N) (st : strategy) (s e : option Z) (api : bobs) (cli : option bobs) : bquery :=
  {| b_target := t; b_strategy := st; b_start := s; b_end := e; b_api := api; b_cli := cli |}.

Record case := { c_entries : list entry; c_db : list pline; c_exact : bool; c_obs : lobs;
                 c_queries : list bquery;
                 (* `okane balance -X T ...` with T unknown to ledger and price DB *)
                 c_unknown : list uobs }.
Definition C (es : list entry) (db : list pline) (exact : bool) (o : lobs) (qs : list bquery) : case :=
  {| c_entries := es; c_db := db; c_exact := exact; c_obs := o; c_queries := qs; c_unknown := [] |}.
Definition CU (es : list entry) (db : list pline) (exact : bool) (o : lobs) (qs : list bquery) (us : list uobs) : case :=
  {| c_entries := es; c_db := db; c_exact := exact; c_obs := o; c_queries := qs; c_unknown := us |}.

(* ---- spec side ---- *)
Definition nz (a : amount) : amount := a_remove_zeros a.
Definition plain_add (b : balance) (a : aid) (x : amount) : balance := set a (a_add (bal_get b a) x) b.

(* Some (value in T, tie seen) | None = an entry of the amount has no chain; missing names it *)
Inductive cspec := CSVal (v : Qc) (tie : bool) | CSMissing (cs : list N).

Definition conv_spec (exact : bool) (evs : list price_event) (db : list pline) (T : N) (D : Z) (a : amount) : cspec :=
  fold_left (fun acc cv =>
               if (fst cv =? T)%N then
                 match acc with CSVal v tie => CSVal (v + snd cv) tie | m => m end
               else match spec_rates evs db D T (fst cv), acc with
                    | [], CSMissing cs => CSMissing (fst cv :: cs)
                    | [], CSVal _ _ => CSMissing [fst cv]
                    | _, CSMissing cs => CSMissing cs
                    | r :: rs, CSVal v tie => CSVal (v + snd cv * r) (tie || is_tie exact (r :: rs))
                    end) a (CSVal 0 false).

(* expected report: per account the unrounded value in T *)
Inductive espec := ESRep (vals : list (N * Qc)) (tie : bool) | ESMissing (cs : list N).

Definition es_add (e : espec) (a : N) (c : cspec) : espec :=
  match e, c with
  | ESMissing cs, CSMissing cs' => ESMissing (cs' ++ cs)
  | ESMissing cs, _ => ESMissing cs
  | ESRep _ _, CSMissing cs' => ESMissing cs'
  | ESRep vals tie, CSVal v t =>
      ESRep (match get a vals with Some x => set a (x + v) vals | None => vals ++ [(a, v)] end) (tie || t)
  end.

Definition in_range_posts (ts : list (Z * list oposting)) (s e : option Z) : list (Z * oposting) :=
  flat_map (fun t => if range_contains s e (fst t) then map (fun p => (fst t, p)) (snd t) else []) ts.

(* historical: every posting in range, every entry of its amount, at the transaction date *)
Definition spec_historical (exact : bool) (evs : list price_event) (db : list pline) (T : N)
           (ts : list (Z * list oposting)) (s e : option Z) : espec :=
  fold_left (fun acc dp => es_add acc (o_account (snd dp)) (conv_spec exact evs db T (fst dp) (o_amount (snd dp))))
            (in_range_posts ts s e) (ESRep [] false).

(* up-to-date: the non-zero holdings per account, at `now` *)
Definition spec_up_to_date (exact : bool) (evs : list price_event) (db : list pline) (T : N) (now : Z)
           (ts : list (Z * list oposting)) (s e : option Z) : espec :=
  let sums := fold_left (fun b dp => plain_add b (o_account (snd dp)) (o_amount (snd dp))) (in_range_posts ts s e) [] in
  fold_left (fun acc ax => es_add acc (fst ax) (conv_spec exact evs db T now (nz (snd ax)))) sums (ESRep [] false).

Definition round_T (f : formats) (T : N) (v : Qc) : Qc :=
  match get T f with Some dp => round_dp dp v | None => v end.

(* value of account a in the printed report; anything not in T must be zero *)
Definition rep_value (rep : list (N * amount)) (T a : N) : Qc :=
  match get a rep with Some amt => a_get amt T | None => 0 end.
Definition rep_only_T (rep : list (N * amount)) (T : N) : bool :=
  forallb (fun ax => forallb (fun cv => (fst cv =? T)%N || qc_zero (snd cv)) (snd ax)) rep.

(* exact stream: rep = round_T v.  Arbitrary-rate stream (Decimal division is rounded, so a
   value can sit a hair off a rounding midpoint): rep is a number with T's decimal places
   within half a unit (+ 1e-15 relative) of v *)
Definition unit_of (dp : nat) : Qc := of_dec 1 dp.
Definition rounded_close (exact : bool) (f : formats) (T : N) (rep v : Qc) : bool :=
  if exact then qc_eqb rep (round_T f T v) else
  match get T f with
  | None => qc_close rep v
  | Some dp =>
      qc_eqb (round_dp dp rep) rep
      && match Qccompare (Qcabs.Qcabs (rep - v))
                         (unit_of dp / of_dec 2 0 + (Qcabs.Qcabs v + 1) * of_dec 1 15) with
         | Gt => false | _ => true end
  end.
(* model vs implementation on the arbitrary-rate stream: at most one unit apart (spec_ok has
   already tied the implementation's value to the spec value) *)
Definition within_unit (f : formats) (T : N) (a b : Qc) : bool :=
  match get T f with
  | None => qc_close a b
  | Some dp => match Qccompare (Qcabs.Qcabs (a - b)) (unit_of dp * (1 + of_dec 1 15)) with Gt => false | _ => true end
  end.

Definition spec_ok (exact : bool) (f : formats) (T : N) (e : espec) (o : bobs) : bool :=
  match e, o with
  | ESMissing cs, BNotFound c => existsb (N.eqb c) cs
  | ESRep vals tie, BOk rep =>
      rep_only_T rep T
      && (tie
          || (forallb (fun av => rounded_close exact f T (rep_value rep T (fst av)) (snd av)) vals
              && forallb (fun ax => mem (fst ax) vals || qc_zero (a_get (snd ax) T)) rep))
  | _, _ => false
  end.

Definition spec_tie (e : espec) : bool := match e with ESRep _ t => t | _ => false end.

(* ---- model side ---- *)
Definition bal_close (exact : bool) (f : formats) (T : N) (rep : list (N * amount)) (b : balance) : bool :=
  list_eqb (fun x y => (fst x =? fst y)%N
                       && (amount_close exact (snd x) (snd y)
                           || (negb exact && within_unit f T (a_get (snd x) T) (a_get (snd y) T))))
           rep (sort_keys b).

Definition model_agrees (exact : bool) (f : formats) (T : N) (m : conv_outcome balance) (o : bobs) : bool :=
  match m, o with
  | COk b, BOk rep => bal_close exact f T rep b
  | CErr _, BNotFound _ => true        (* which missing commodity is named depends on HashMap order *)
  | _, _ => false
  end.

Definition classify_obs (exact : bool) (f : formats) (T : N) (e : espec) (m : conv_outcome balance) (o : bobs) : N :=
  if negb (spec_ok exact f T e o) then 2%N
  else if model_agrees exact f T m o || spec_tie e then 0%N else 1%N.

Definition classify_query (exact : bool) (s : bstate) (evs : list price_event) (db : list pline) (recs : records)
           (ts : list (Z * list oposting)) (q : bquery) : N :=
  let T := b_target q in
  let e := match b_strategy q with
           | Historical => spec_historical exact evs db T ts (b_start q) (b_end q)
           | UpToDate now => spec_up_to_date exact evs db T now ts (b_start q) (b_end q)
           end in
  let m := balance_query run_fuel choose_max recs s
                         (Some {| cv_strategy := b_strategy q; cv_target := T |}) (b_start q) (b_end q) in
  worst (classify_obs exact (s_fmt s) T e m (b_api q))
        (match b_cli q with Some o => classify_obs exact (s_fmt s) T e m o | None => 0%N end).

Definition classify (c : case) : N :=
  let m := process (c_entries c) in
  match m, c_obs c with
  | (Ok s, _), LOk ts _ =>
      if negb (obs_agrees (c_obs c) m) then 1%N else
      let evs := s_events s in
      let recs := repository evs (c_db c) in
      worst (classify_unknowns (c_unknown c))
            (fold_left (fun acc q => worst acc (classify_query (c_exact c) s evs (c_db c) recs ts q)) (c_queries c) 0%N)
  | (Ok _, _), _ => 1%N              (* the implementation rejected a ledger the model accepts *)
  | _, LOk _ _ => 1%N
  | _, _ => 0%N                      (* rejected by both: nothing to convert *)
  end.

Definition verdicts (cs : list case) : list N := map classify cs.

(* per-query verdicts of one case (for replays) *)
Definition detail (c : case) : list N :=
  match process (c_entries c), c_obs c with
  | (Ok s, _), LOk ts _ =>
      let evs := s_events s in
      let recs := repository evs (c_db c) in
      map (classify_query (c_exact c) s evs (c_db c) recs ts) (c_queries c)
  | _, _ => []
  end.
