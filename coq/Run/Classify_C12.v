(* C12 classifier: 0 Agree | 1 ModelMismatch | 2 PropertyFail.
   A case is a pair of named ledgers (the second is the first with declared aliases written
   at some later uses; for a conflict case both are the same ledger) and what the
   implementation showed for each: Ledger::transactions / Ledger::balance through the API,
   and the parsed stdout of `okane balance` and `okane register`.
   The property's predicate is computed from the observations and the written syntax only:
   both observations equal, no declared alias among the reported names, and a ledger with a
   declaration conflict rejected at the conflicting declaration with the right kind. *)
From Coq Require Import List NArith ZArith Bool QArith Qcanon.
From Okv Require Import Base.Maps Base.Dec Model.Amount Model.Book Model.Query Model.Intern Model.Named Run.LedgerCase.
Import ListNotations.

Inductive cliobs :=
| CliOk (bal : list (N * amount)) (reg : list (N * amount * amount))
| CliErr.

(* the first ledger read with `--price-db DB`: `okane balance -X T --now D` and `okane primitive eval
   --date D -X T 'N C'`.  kind: 0 printed | 1 stopped in the ledger (load or book-keeping) |
   2 stopped loading the price DB | 3 stopped in the query / evaluation | 9 panic *)
Record pdbobs := { p_kind : N; p_bal : list (N * amount); p_ekind : N; p_eval : amount }.
Definition PO (k : N) (b : list (N * amount)) (ek : N) (e : amount) : pdbobs :=
  {| p_kind := k; p_bal := b; p_ekind := ek; p_eval := e |}.

Record case := {
  c_a : list nentry; c_b : list nentry;
  c_obs_a : lobs; c_obs_b : lobs;
  c_cli_a : cliobs; c_cli_b : cliobs;
  (* the same price DB spelled with canonical names / with aliases declared by c_a *)
  c_pdb : option (pdbobs * pdbobs) }.
Definition C (a b : list nentry) (oa ob : lobs) (ca cb : cliobs) : case :=
  {| c_a := a; c_b := b; c_obs_a := oa; c_obs_b := ob; c_cli_a := ca; c_cli_b := cb; c_pdb := None |}.
Definition CP (a b : list nentry) (oa ob : lobs) (ca cb : cliobs) (pc pa : pdbobs) : case :=
  {| c_a := a; c_b := b; c_obs_a := oa; c_obs_b := ob; c_cli_a := ca; c_cli_b := cb; c_pdb := Some (pc, pa) |}.

(* ---- model side ---- *)
Definition ierr_code (e : intern_err) : N :=
  match e with AlreadyCanonical => 1 | AlreadyAlias => 2 | ConflictingAlias => 3 end%N.

Definition nerr_eqb (x : xerr) (e : nerr) : bool :=
  match x, e with
  | XInvalidAccount k, NInvalidAccount ie => (k =? ierr_code ie)%N
  | XInvalidCommodity k, NInvalidCommodity ie => (k =? ierr_code ie)%N
  | _, NBook be => err_eqb x be
  | _, _ => false
  end.

Definition nobs_agrees (o : lobs) (m : nres nstate * nat) : bool :=
  match o, m with
  | LOk ts b, (NOk st, _) => list_eqb otxn_eqb ts (s_txns (n_book st)) && bal_eqb b (s_bal (n_book st))
  | LErr k x, (NErr e, k') => Nat.eqb k k' && nerr_eqb x e
  | LPanic, (NPanic, _) => true
  | _, _ => false
  end.

Definition reg_eqb (a : N * amount * amount) (b : aid * amount * amount) : bool :=
  let '(a1, a2, a3) := a in let '(b1, b2, b3) := b in
  (a1 =? b1)%N && amount_eqb a2 b2 && amount_eqb a3 b3.

Definition cli_agrees (o : cliobs) (m : nres nstate * nat) : bool :=
  match o, m with
  | CliOk bal reg, (NOk st, _) =>
      bal_eqb bal (s_bal (n_book st)) && list_eqb reg_eqb reg (register_lines [] (all_postings (n_book st)))
  | CliErr, (NOk _, _) => false
  | CliErr, _ => true
  | _, _ => false
  end.

(* ---- property side: computed from the written syntax and the observations ---- *)
Fixpoint mem_n (x : N) (l : list N) : bool :=
  match l with [] => false | y :: r => (x =? y)%N || mem_n x r end.

(* declared aliases of a ledger, per namespace *)
Fixpoint account_aliases (es : list nentry) : list N :=
  match es with
  | NAccount _ als :: r => als ++ account_aliases r
  | _ :: r => account_aliases r
  | [] => []
  end.
Fixpoint commodity_aliases (es : list nentry) : list N :=
  match es with
  | NCommodity _ als _ :: r => als ++ commodity_aliases r
  | _ :: r => commodity_aliases r
  | [] => []
  end.

Definition amount_clean (bad : list N) (a : amount) : bool := forallb (fun p => negb (mem_n (fst p) bad)) a.
Definition posting_clean (ba bc : list N) (p : oposting) : bool :=
  negb (mem_n (o_account p) ba) && amount_clean bc (o_amount p)
  && match o_converted p with Some (c, _) => negb (mem_n c bc) | None => true end.
Definition lobs_clean (ba bc : list N) (o : lobs) : bool :=
  match o with
  | LOk ts b =>
      forallb (fun t => forallb (posting_clean ba bc) (snd t)) ts
      && forallb (fun x => negb (mem_n (fst x) ba) && amount_clean bc (snd x)) b
  | _ => true
  end.
Definition cli_clean (ba bc : list N) (o : cliobs) : bool :=
  match o with
  | CliOk bal reg =>
      forallb (fun x => negb (mem_n (fst x) ba) && amount_clean bc (snd x)) bal
      && forallb (fun x => let '(a, am, tot) := x in
                           negb (mem_n a ba) && amount_clean bc am && amount_clean bc tot) reg
  | CliErr => true
  end.

(* equality of two observations of the implementation *)
Definition op_eqb (a b : oposting) : bool :=
  (o_account a =? o_account b)%N && amount_eqb (o_amount a) (o_amount b)
  && match o_converted a, o_converted b with
     | None, None => true
     | Some (c1, v1), Some (c2, v2) => (c1 =? c2)%N && qc_eqb v1 v2
     | _, _ => false
     end.
Definition xerr_eqb (a b : xerr) : bool :=
  match a, b with
  | XEval k, XEval k' => (k =? k')%N
  | XBalanceFailure, XBalanceFailure => true
  | XUndeducible i j, XUndeducible i' j' => Nat.eqb i i' && Nat.eqb j j'
  | XUnbalanced r, XUnbalanced r' => amount_eqb r r'
  | XAssertion p c d, XAssertion p' c' d' => Nat.eqb p p' && amount_eqb c c' && amount_eqb d d'
  | XZeroAmountWithExchange, XZeroAmountWithExchange => true
  | XZeroExchangeRate, XZeroExchangeRate => true
  | XExchangeWithAmountCommodity, XExchangeWithAmountCommodity => true
  | XInvalidAccount k, XInvalidAccount k' => (k =? k')%N
  | XInvalidCommodity k, XInvalidCommodity k' => (k =? k')%N
  | _, _ => false
  end.
Definition lobs_same (a b : lobs) : bool :=
  match a, b with
  | LOk ta ba, LOk tb bb =>
      list_eqb (fun x y => (fst x =? fst y)%Z && list_eqb op_eqb (snd x) (snd y)) ta tb
      && list_eqb (fun x y => (fst x =? fst y)%N && amount_eqb (snd x) (snd y)) ba bb
  | LErr k x, LErr k' x' => Nat.eqb k k' && xerr_eqb x x'
  | _, _ => false
  end.
Definition cli_same (a b : cliobs) : bool :=
  match a, b with
  | CliOk ba ra, CliOk bb rb =>
      list_eqb (fun x y => (fst x =? fst y)%N && amount_eqb (snd x) (snd y)) ba bb
      && list_eqb (fun x y => let '(a1, a2, a3) := x in let '(b1, b2, b3) := y in
                              (a1 =? b1)%N && amount_eqb a2 b2 && amount_eqb a3 b3) ra rb
  | CliErr, CliErr => true
  | _, _ => false
  end.

(* ---- declaration conflicts, read off the written syntax with sets of names ----
   canon: names that are canonical so far (declared, or used before any declaration);
   al: (alias, canonical) declared so far.  Returns the entry index, the namespace
   (true = account) and the kind of the first conflict. *)
Fixpoint alias_target (al : list (N * N)) (a : N) : option N :=
  match al with [] => None | (x, c) :: r => if (x =? a)%N then Some c else alias_target r a end.

Fixpoint check_aliases (canon : list N) (al : list (N * N)) (name : N) (als : list N)
  : (list (N * N)) + N :=
  match als with
  | [] => inl al
  | a :: r =>
      if mem_n a canon then inr 1%N
      else match alias_target al a with
           | Some c => if (c =? name)%N then check_aliases canon al name r else inr 3%N
           | None => check_aliases canon ((a, name) :: al) name r
           end
  end.

Definition check_decl (canon : list N) (al : list (N * N)) (name : N) (als : list N)
  : (list N * list (N * N)) + N :=
  match alias_target al name with
  | Some _ => inr 2%N
  | None =>
      let canon' := if mem_n name canon then canon else name :: canon in
      match check_aliases canon' al name als with
      | inl al' => inl (canon', al')
      | inr k => inr k
      end
  end.

Definition use_name (canon : list N) (al : list (N * N)) (n : N) : list N :=
  match alias_target al n with
  | Some _ => canon
  | None => if mem_n n canon then canon else n :: canon
  end.

Fixpoint v_names (v : vexpr) : list N :=
  match v with VParen e => e_names e | VAmt _ None => [] | VAmt _ (Some c) => [c] end
with e_names (e : expr) : list N :=
  match e with
  | EUnaryNeg x => e_names x
  | EBin _ l r => e_names l ++ e_names r
  | EVal v => v_names v
  end.
Definition ov_names (o : option vexpr) := match o with Some v => v_names v | None => [] end.
Definition ox_names (o : option exchange) :=
  match o with Some (XTotal v) | Some (XRate v) => v_names v | None => [] end.
Definition txn_commodities (t : txn) : list N :=
  flat_map (fun p => ov_names (p_amount p) ++ ox_names (p_cost p) ++ ox_names (p_lot p) ++ ov_names (p_balance p)) (t_posts t).
Definition txn_accounts (t : txn) : list N := map p_account (t_posts t).

Fixpoint first_conflict (i : nat) (ca : list N) (aa : list (N * N)) (cc : list N) (ac : list (N * N))
                        (es : list nentry) : option (nat * bool * N) :=
  match es with
  | [] => None
  | NAccount n als :: r =>
      match check_decl ca aa n als with
      | inr k => Some (i, true, k)
      | inl (ca', aa') => first_conflict (S i) ca' aa' cc ac r
      end
  | NCommodity n als _ :: r =>
      match check_decl cc ac n als with
      | inr k => Some (i, false, k)
      | inl (cc', ac') => first_conflict (S i) ca aa cc' ac' r
      end
  | NTxn t :: r =>
      first_conflict (S i) (fold_left (fun c n => use_name c aa n) (txn_accounts t) ca) aa
                           (fold_left (fun c n => use_name c ac n) (txn_commodities t) cc) ac r
  | NNop :: r => first_conflict (S i) ca aa cc ac r
  end.

Definition obs_entry (o : lobs) : option nat := match o with LErr k _ => Some k | _ => None end.

(* a run that stopped before the conflicting declaration (for a book-keeping reason) does not
   speak about the conflict; one that got there must report it; one without conflict must
   not report any *)
Definition conflict_ok (es : list nentry) (o : lobs) : bool :=
  match first_conflict 0 [] [] [] [] es with
  | Some (i, is_acc, k) =>
      match o with
      | LErr j x =>
          if Nat.ltb j i then negb (match x with XInvalidAccount _ | XInvalidCommodity _ => true | _ => false end)
          else Nat.eqb j i && (if is_acc then xerr_eqb x (XInvalidAccount k) else xerr_eqb x (XInvalidCommodity k))
      | _ => false
      end
  | None =>
      match o with
      | LErr _ (XInvalidAccount _) | LErr _ (XInvalidCommodity _) => false
      | _ => true
      end
  end.

Definition cli_consistent (o : lobs) (c : cliobs) : bool :=
  match o, c with
  | LOk _ b, CliOk bal _ => list_eqb (fun x y => (fst x =? fst y)%N && amount_eqb (snd x) (snd y)) b bal
  | LErr _ _, CliErr => true
  | LPanic, _ => true
  | _, _ => false
  end.

(* ---- price DB: the spelling of its `P` lines is immaterial ---- *)
Definition pdb_same (x y : pdbobs) : bool :=
  (p_kind x =? p_kind y)%N && (p_ekind x =? p_ekind y)%N
  && list_eqb (fun u v => (fst u =? fst v)%N && amount_eqb (snd u) (snd v)) (p_bal x) (p_bal y)
  && amount_eqb (p_eval x) (p_eval y).
Definition pdb_clean (ba bc : list N) (x : pdbobs) : bool :=
  forallb (fun u => negb (mem_n (fst u) ba) && amount_clean bc (snd u)) (p_bal x)
  && amount_clean bc (p_eval x).
(* the DB is well formed and is read after the ledger: a run stops in the ledger exactly when the
   same ledger read without a price DB is refused, and never while loading the DB *)
Definition pdb_stage_ok (o : lobs) (x : pdbobs) : bool :=
  let ok k := (k =? 0)%N || (k =? 3)%N in
  match o with
  | LOk _ _ => ok (p_kind x) && ok (p_ekind x)
  | LErr _ _ => (p_kind x =? 1)%N && (p_ekind x =? 1)%N
  | LPanic => false
  end.
Definition pdb_spec (c : case) (ba bc : list N) : bool :=
  match c_pdb c with
  | None => true
  | Some (pc, pa) =>
      pdb_same pc pa && pdb_clean ba bc pc && pdb_clean ba bc pa
      && pdb_stage_ok (c_obs_a c) pc && pdb_stage_ok (c_obs_a c) pa
  end.
Definition pdb_model (c : case) (m : nres nstate * nat) : bool :=
  match c_pdb c with
  | None => true
  | Some (pc, pa) =>
      let ok k := (k =? 0)%N || (k =? 3)%N in
      match m with
      | (NOk _, _) => ok (p_kind pc) && ok (p_ekind pc) && ok (p_kind pa) && ok (p_ekind pa)
      | (NErr _, _) => (p_kind pc =? 1)%N && (p_ekind pc =? 1)%N && (p_kind pa =? 1)%N && (p_ekind pa =? 1)%N
      | (NPanic, _) => (p_kind pc =? 9)%N && (p_kind pa =? 9)%N
      end
  end.

Definition spec_holds (c : case) : bool :=
  let ba := account_aliases (c_a c) ++ account_aliases (c_b c) in
  let bc := commodity_aliases (c_a c) ++ commodity_aliases (c_b c) in
  match c_obs_a c, c_obs_b c with
  | LPanic, _ | _, LPanic => false
  | _, _ =>
      lobs_same (c_obs_a c) (c_obs_b c) && cli_same (c_cli_a c) (c_cli_b c)
      && lobs_clean ba bc (c_obs_a c) && lobs_clean ba bc (c_obs_b c)
      && cli_clean ba bc (c_cli_a c) && cli_clean ba bc (c_cli_b c)
      && cli_consistent (c_obs_a c) (c_cli_a c) && cli_consistent (c_obs_b c) (c_cli_b c)
      && conflict_ok (c_a c) (c_obs_a c) && conflict_ok (c_b c) (c_obs_b c)
      && pdb_spec c ba bc
  end.

Definition classify (c : case) : N :=
  let ma := process_named (c_a c) in
  let mb := process_named (c_b c) in
  let model := nobs_agrees (c_obs_a c) ma && nobs_agrees (c_obs_b c) mb
               && cli_agrees (c_cli_a c) ma && cli_agrees (c_cli_b c) mb
               && pdb_model c ma in
  if spec_holds c then (if model then 0%N else 1%N) else 2%N.

Definition verdicts (cs : list case) : list N := map classify cs.
