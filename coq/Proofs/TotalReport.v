(* C06, report side: book-keeping (Model/Book.v, Model/Named.v) never reaches its Panic value,
   the price repository never divides by zero (Model/PriceHazard.v), the rate-table search ends
   for every pop order with any fuel beyond some bound, and the converted queries
   (Model/Convert.v) then return a value or a conversion error. *)
From Coq Require Import List NArith ZArith Bool QArith Qcanon Lia.
From Okv Require Import Base.Maps Base.Dec Model.Amount Model.Book Model.Query Model.PriceDb Model.Convert
     Model.PriceHazard Model.Intern Model.Named Proofs.BookA_Txn Proofs.PriceTable.
Import ListNotations.
Open Scope Qc_scope.

(* ---------- book-keeping ---------- *)

Theorem process_total : forall es,
  (exists s n, process es = (Ok s, n)) \/ (exists e n, process es = (Err e, n)).
Proof.
  intro es. pose proof (process_no_panic es) as H. destruct (process es) as [[s|e|] n]; cbn [fst] in H.
  - left. exists s, n. reflexivity.
  - right. exists e, n. reflexivity.
  - congruence.
Qed.

Lemma process_named_entry_no_panic : forall st e, process_named_entry st e <> NPanic.
Proof.
  intros st e. destruct e as [name als|name als fmt|t|]; cbn [process_named_entry].
  - destruct (declare (n_acc st) name als) as [[sa c]|err]; discriminate.
  - destruct (declare (n_com st) name als) as [[sc c]|err]; [|discriminate].
    destruct fmt as [dp|]; [|discriminate]. cbn [process_entry lift_book]. discriminate.
  - destruct (res_txn (n_acc st) (n_com st) t) as [[sa sc] t'].
    pose proof (process_entry_no_panic (n_book st) (ETxn t')) as H.
    destruct (process_entry (n_book st) (ETxn t')) as [b|x|]; cbn [lift_book]; [discriminate|discriminate|congruence].
  - discriminate.
Qed.

Lemma process_named_from_no_panic : forall es i st, fst (process_named_from i st es) <> NPanic.
Proof.
  induction es as [|e es IH]; intros i st; cbn [process_named_from]; [cbn; discriminate|].
  pose proof (process_named_entry_no_panic st e) as H.
  destruct (process_named_entry st e) as [st'|x|]; [apply IH|cbn; discriminate|congruence].
Qed.

Theorem process_named_no_panic : forall es, fst (process_named es) <> NPanic.
Proof. intro es. apply process_named_from_no_panic. Qed.

(* ---------- the price repository: no division by zero ---------- *)

Lemma insert_price_chk_total : forall recs e, insert_price_chk recs e = Some (insert_price recs e).
Proof.
  intros recs e. unfold insert_price_chk, insert_price.
  destruct (qc_zero (e_xv e)) eqn:X; [reflexivity|]. destruct (qc_zero (e_yv e)) eqn:Y; [reflexivity|].
  cbn [orb]. unfold insert_impl_chk, div_chk. rewrite X, Y. reflexivity.
Qed.

Lemma insert_prices_chk_total : forall evs recs,
  insert_prices_chk recs evs = Some (fold_left insert_price evs recs).
Proof.
  induction evs as [|e r IH]; intro recs; [reflexivity|].
  cbn [insert_prices_chk fold_left]. rewrite insert_price_chk_total. apply IH.
Qed.

Lemma fold_left_map_event : forall ls recs,
  fold_left insert_price (map pline_event ls) recs = load_price_db recs ls.
Proof.
  unfold load_price_db. induction ls as [|l r IH]; intro recs; [reflexivity|].
  cbn [map fold_left]. apply IH.
Qed.

Theorem repository_chk_total : forall evs db, repository_chk evs db = Some (repository evs db).
Proof.
  intros evs db. unfold repository_chk, load_price_db_chk, repository.
  rewrite insert_prices_chk_total, insert_prices_chk_total, fold_left_map_event. reflexivity.
Qed.

(* the guard is what makes it so: without it a zero amount reaches the division *)
Example unguarded_zero_divides :
  insert_impl_chk [] SLedger 0%Z 1%N 0 2%N 1 = None.
Proof. vm_compute. reflexivity. Qed.

(* ---------- the rate-table search ends, for every pop order ---------- *)

Theorem price_table_total : forall choose recs target date,
  exists fuel0, forall fuel, (fuel0 <= fuel)%nat ->
    exists t, price_table fuel choose recs target date = PTDone t.
Proof.
  intros choose recs target date. destruct (table_terminates choose recs target date) as (f & t & H).
  exists f. intros fuel L. exists t. replace fuel with (f + (fuel - f))%nat by lia.
  unfold price_table in *. apply pt_loop_fuel_mono. exact H.
Qed.

Lemma uniform_fuel_mono : forall choose recs target (dates : list Z),
  exists fuel0, forall fuel, (fuel0 <= fuel)%nat -> forall d, In d dates ->
    exists t, price_table fuel choose recs target d = PTDone t.
Proof.
  intros choose recs target dates. destruct (uniform_fuel choose recs target dates) as [f H].
  exists f. intros fuel L d Hin. destruct (H d Hin) as [t E]. exists t.
  replace fuel with (f + (fuel - f))%nat by lia. unfold price_table in *. apply pt_loop_fuel_mono. exact E.
Qed.

(* ---------- converted queries: a value or a conversion error ---------- *)

Lemma cbind_nf : forall {A B} (x : conv_outcome A) (f : A -> conv_outcome B),
  x <> COutOfFuel -> (forall a, f a <> COutOfFuel) -> cbind x f <> COutOfFuel.
Proof. intros A B x f Hx Hf. destruct x as [a|e|]; cbn [cbind]; [apply Hf|discriminate|congruence]. Qed.

Section NoFuelOut.
  Variable fuel : nat.
  Variable choose : chooser.
  Variable recs : records.

  Definition table_done (target : cid) (date : Z) : Prop :=
    exists t, price_table fuel choose recs target date = PTDone t.

  Lemma convert_single_nf : forall c v target date, table_done target date ->
    convert_single fuel choose recs c v target date <> COutOfFuel.
  Proof.
    intros c v target date [t H]. unfold convert_single. destruct (c =? target)%N; [discriminate|].
    rewrite H. destruct (get c t) as [[d r]|]; discriminate.
  Qed.

  Lemma convert_amount_from_nf : forall target date, table_done target date ->
    forall a acc, convert_amount_from fuel choose recs acc a target date <> COutOfFuel.
  Proof.
    intros target date T. induction a as [|[c v] r IH]; intro acc; cbn [convert_amount_from]; [discriminate|].
    pose proof (convert_single_nf c v target date T) as H.
    destruct (convert_single fuel choose recs c v target date) as [[c' v']|e|]; [apply IH|discriminate|congruence].
  Qed.

  Lemma conv_nf : forall a target date, table_done target date -> conv fuel choose recs a target date <> COutOfFuel.
  Proof. intros. unfold conv, convert_amount. apply convert_amount_from_nf. assumption. Qed.

  Lemma refold_posts_nf : forall hist date, (forall target, hist = Some target -> table_done target date) ->
    forall ps b, refold_posts fuel choose recs hist date ps b <> COutOfFuel.
  Proof.
    intros hist date T. induction ps as [|p r IH]; intro b; cbn [refold_posts]; [discriminate|].
    apply cbind_nf.
    - destruct hist as [target|]; [apply conv_nf; apply T; reflexivity|discriminate].
    - intro delta. apply IH.
  Qed.

  Lemma refold_txns_nf : forall hist start end_ ts,
    (forall target t, hist = Some target -> In t ts -> table_done target (o_date t)) ->
    forall b, refold_txns fuel choose recs hist start end_ ts b <> COutOfFuel.
  Proof.
    intros hist start end_. induction ts as [|t r IH]; intros T b; cbn [refold_txns]; [discriminate|].
    assert (T' : forall target t0, hist = Some target -> In t0 r -> table_done target (o_date t0))
      by (intros target t0 Hh Hin; apply T; [exact Hh|right; exact Hin]).
    destruct (range_contains start end_ (o_date t)); [|apply IH; exact T'].
    apply cbind_nf.
    - apply refold_posts_nf. intros target Hh. apply T; [exact Hh|left; reflexivity].
    - intro b'. apply IH. exact T'.
  Qed.

  Lemma convert_accounts_nf : forall target now, table_done target now ->
    forall b acc, convert_accounts fuel choose recs target now b acc <> COutOfFuel.
  Proof.
    intros target now T. induction b as [|[a amt] r IH]; intro acc; cbn [convert_accounts]; [discriminate|].
    apply cbind_nf; [apply conv_nf; exact T|]. intro x. apply IH.
  Qed.

  Lemma balance_query_nf : forall s cv start end_,
    (forall target t, cv = Some {| cv_strategy := Historical; cv_target := target |} ->
                      In t (s_txns s) -> table_done target (o_date t)) ->
    (forall now target, cv = Some {| cv_strategy := UpToDate now; cv_target := target |} -> table_done target now) ->
    balance_query fuel choose recs s cv start end_ <> COutOfFuel.
  Proof.
    intros s cv start end_ TH TU. unfold balance_query. apply cbind_nf.
    - destruct (negb (require_recompute cv start end_)); [discriminate|].
      apply cbind_nf; [|intro b; discriminate].
      apply refold_txns_nf. intros target t Hh Hin.
      destruct cv as [[[|now] tg]|]; try discriminate. injection Hh as Hh. subst tg.
      apply TH; [reflexivity|exact Hin].
    - intro bal. destruct cv as [[[|now] tg]|]; try discriminate.
      apply cbind_nf; [|intro c; discriminate]. apply convert_accounts_nf. apply TU. reflexivity.
  Qed.

  Lemma eval_exchange_nf : forall a exchange date,
    (forall t, exchange = Some t -> table_done t date) ->
    eval_exchange fuel choose recs a exchange date <> COutOfFuel.
  Proof.
    intros a exchange date T. unfold eval_exchange. destruct exchange as [t|]; [|discriminate].
    apply conv_nf. apply T. reflexivity.
  Qed.
End NoFuelOut.

Theorem balance_query_total : forall choose recs s cv start end_,
  exists fuel0, forall fuel, (fuel0 <= fuel)%nat ->
    (exists b, balance_query fuel choose recs s cv start end_ = COk b) \/
    (exists e, balance_query fuel choose recs s cv start end_ = CErr e).
Proof.
  intros choose recs s cv start end_.
  assert (X : exists fuel0, forall fuel, (fuel0 <= fuel)%nat ->
              balance_query fuel choose recs s cv start end_ <> COutOfFuel).
  { destruct cv as [[st tg]|].
    - destruct (uniform_fuel_mono choose recs tg
                  (match st with UpToDate now => [now] | Historical => map o_date (s_txns s) end)) as [f H].
      exists f. intros fuel L. apply balance_query_nf.
      + intros target t E Hin. injection E as E1 E2. subst st tg. apply (H fuel L). apply in_map. exact Hin.
      + intros now target E. injection E as E1 E2. subst st tg. apply (H fuel L). left. reflexivity.
    - exists O. intros fuel _. apply balance_query_nf; intros; discriminate. }
  destruct X as [f H]. exists f. intros fuel L. specialize (H fuel L).
  destruct (balance_query fuel choose recs s cv start end_) as [b|e|];
    [left; exists b; reflexivity|right; exists e; reflexivity|congruence].
Qed.

Theorem eval_exchange_total : forall choose recs a exchange date,
  exists fuel0, forall fuel, (fuel0 <= fuel)%nat ->
    (exists r, eval_exchange fuel choose recs a exchange date = COk r) \/
    (exists e, eval_exchange fuel choose recs a exchange date = CErr e).
Proof.
  intros choose recs a exchange date.
  assert (X : exists fuel0, forall fuel, (fuel0 <= fuel)%nat ->
              eval_exchange fuel choose recs a exchange date <> COutOfFuel).
  { destruct exchange as [t|].
    - destruct (price_table_total choose recs t date) as [f H]. exists f. intros fuel L.
      apply eval_exchange_nf. intros t' E. injection E as E. subst t'. apply H. exact L.
    - exists O. intros. apply eval_exchange_nf. intros; discriminate. }
  destruct X as [f H]. exists f. intros fuel L. specialize (H fuel L).
  destruct (eval_exchange fuel choose recs a exchange date) as [r|e|];
    [left; exists r; reflexivity|right; exists e; reflexivity|congruence].
Qed.

Theorem price_total :
  (forall recs e, insert_price_chk recs e = Some (insert_price recs e)) /\
  (forall evs db, repository_chk evs db = Some (repository evs db)) /\
  (forall choose recs target date,
     exists fuel0, forall fuel, (fuel0 <= fuel)%nat ->
       exists t, price_table fuel choose recs target date = PTDone t).
Proof.
  split; [exact insert_price_chk_total|]. split; [exact repository_chk_total|exact price_table_total].
Qed.

Theorem query_total : forall choose recs,
  (forall s cv start end_,
     exists fuel0, forall fuel, (fuel0 <= fuel)%nat ->
       (exists b, balance_query fuel choose recs s cv start end_ = COk b) \/
       (exists e, balance_query fuel choose recs s cv start end_ = CErr e)) /\
  (forall a exchange date,
     exists fuel0, forall fuel, (fuel0 <= fuel)%nat ->
       (exists r, eval_exchange fuel choose recs a exchange date = COk r) \/
       (exists e, eval_exchange fuel choose recs a exchange date = CErr e)).
Proof.
  intros choose recs. split; [exact (balance_query_total choose recs)|exact (eval_exchange_total choose recs)].
Qed.
