(* C15 classifier: 0 Agree | 1 ModelMismatch | 2 PropertyFail | 100+k known finding k | 9 harness error.
   A case is one import run: the configured precisions, the number of statement records, the
   transactions to_double_entry built (with the display width of each posting's account), the
   text ImportCmd printed for them, and what parse_ledger read back from that text.
   spec_holds is the property on the observation alone; the model (Model/TxnText.v printer and
   reader) is compared second. *)
From Coq Require Import List NArith ZArith Bool.
From Okv Require Import Model.Lit Model.SingleEntry2 Model.TxnText Model.TxnTextSpec.
Import ListNotations.
Open Scope N_scope.

(* ---- constructors the harness prints ---- *)
Definition DT (y m d : N) : date := {| d_y := y; d_m := m; d_d := d |}.
Definition SA (ng : bool) (m : N) (s : nat) (c : str) : samount := {| sa_value := mkd ng m s; sa_comm := c |}.
Definition SAF (ng : bool) (m : N) (s : nat) (f : N) (c : str) : samount :=
  {| sa_value := {| neg := ng; mant := m; scale := s;
                    pfmt := if f =? 1 then Some Plain else if f =? 2 then Some Comma3Dot else None |};
     sa_comm := c |}.
Definition PA (a : samount) (cost : option samount) : pamount := {| pa_amount := a; pa_cost := cost |}.
Definition PO (a : str) (c : clear) (amt : option pamount) (b : option samount) (m : list metadata) : sposting :=
  {| sp_account := a; sp_clear := c; sp_amount := amt; sp_balance := b; sp_meta := m |}.
Definition TX (d : date) (e : option date) (c : clear) (code : option str) (payee : str)
              (m : list metadata) (ps : list sposting) : stxn :=
  {| tr_date := d; tr_edate := e; tr_clear := c; tr_code := code; tr_payee := payee; tr_meta := m; tr_posts := ps |}.

Inductive case :=
| CRun (prec : precisions) (records : N) (trees : list stxn) (widths : list (list N))
       (text : str) (parsed : rres)
| CPanic.                                  (* the importer itself panicked *)

(* ---- the property on the observation ---- *)
Fixpoint all_same (p : precisions) (ts : list stxn) (items : list item) : bool :=
  match ts, items with
  | [], [] => true
  | t :: r, ITxn u :: s => same_txn p t u && all_same p r s
  | _, _ => false
  end.

Definition spec_holds (c : case) : bool :=
  match c with
  | CRun p records trees _ _ (RItems items false) =>
      (N.of_nat (length trees) =? records) && all_same p trees items
  | _ => false
  end.

(* the first built transaction that was not read back as itself *)
Fixpoint first_bad (p : precisions) (ts : list stxn) (items : list item) : option stxn :=
  match ts, items with
  | [], _ => None
  | t :: r, ITxn u :: s => if same_txn p t u then first_bad p r s else Some t
  | t :: _, _ => Some t
  end.

(* ---- comparison with the model ---- *)
Definition pdec_eqb (a b : pdec) : bool :=
  Bool.eqb (neg a) (neg b) && (mant a =? mant b) && Nat.eqb (scale a) (scale b)
  && match pfmt a, pfmt b with
     | None, None => true | Some Plain, Some Plain => true | Some Comma3Dot, Some Comma3Dot => true
     | _, _ => false
     end.
Definition samount_eqb (a b : samount) : bool := pdec_eqb (sa_value a) (sa_value b) && str_eqb (sa_comm a) (sa_comm b).
Definition sposting_eqb (a b : sposting) : bool :=
  str_eqb (sp_account a) (sp_account b) && clear_eqb (sp_clear a) (sp_clear b)
  && opt_same (fun x y => samount_eqb (pa_amount x) (pa_amount y) && opt_same samount_eqb (pa_cost x) (pa_cost y))
              (sp_amount a) (sp_amount b)
  && opt_same samount_eqb (sp_balance a) (sp_balance b)
  && list_same meta_eqb (sp_meta a) (sp_meta b).
Definition stxn_eqb (a b : stxn) : bool :=
  date_eqb (tr_date a) (tr_date b) && opt_same date_eqb (tr_edate a) (tr_edate b)
  && clear_eqb (tr_clear a) (tr_clear b) && opt_same str_eqb (tr_code a) (tr_code b)
  && str_eqb (tr_payee a) (tr_payee b) && list_same meta_eqb (tr_meta a) (tr_meta b)
  && list_same sposting_eqb (tr_posts a) (tr_posts b).
Definition item_eqb (a b : item) : bool :=
  match a, b with ITxn x, ITxn y => stxn_eqb x y | IOther, IOther => true | _, _ => false end.
Definition rres_eqb (a b : rres) : bool :=
  match a, b with
  | RItems x e, RItems y e' => list_same item_eqb x y && Bool.eqb e e'
  | RHang, RHang => true
  | RPanic, RPanic => true
  | _, _ => false
  end.

Definition model_agrees (c : case) : bool :=
  match c with
  | CRun p _ trees widths text parsed =>
      str_eqb (print_all p (map (map N.to_nat) widths) trees) text && rres_eqb (read_all text) parsed
  | CPanic => false
  end.

Definition classify (c : case) : N :=
  if spec_holds c then (if model_agrees c then 0 else 1)
  else
    match c with
    | CRun p _ trees _ _ (RItems items _) =>
        match first_bad p trees items with
        | Some t => match known_class t with Some k => 100 + k | None => 2 end
        | None => 2                         (* extra entries, or the wrong number of transactions *)
        end
    | _ => 2
    end.

Definition verdicts (cs : list case) : list N := map classify cs.
