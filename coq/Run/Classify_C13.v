(* C13 classifier.  A case = one ledger, and for each command the number of DISTINCT
   (exit status, stdout, stderr) triples seen over N fresh processes plus the parsed content of
   the first run, in printing order; or one CSV import (header, configured field positions) with
   the same count and what the first run did.  0 Agree | 1 ModelMismatch | 2 PropertyFail. *)
From Coq Require Import List NArith ZArith Bool QArith Qcanon.
From Okv Require Import Base.Maps Base.Dec Model.Amount Model.Book Model.Query Model.Render
     Model.PriceDb Model.Convert Model.CanonState Run.LedgerCase.
From Okv Require Model.ImpConfig Model.ImpCsv Run.ImpCase.
(* layered import configurations travel in case files of their own, classified by
   Run/Classify_C13L.v (required here so that it is built with this classifier) *)
From Okv Require Run.Classify_C13L.
Import ListNotations.

Definition seq := list (cid * Qc).

Inductive out_obs :=
| OBalance (lines : list (aid * seq))
| ORegister (lines : list (aid * seq * seq))
| OUnbalanced (residual : seq)
(* a failed run that names a place `--> file:line:col`: the entry that contains the line, the
   kind of message (1 unbalanced, 2 assertion, 3 other) and the printed residual when unbalanced *)
| OBookErr (entry : nat) (kind : N) (residual : option seq)
(* `balance -X`: printed something and succeeded | "commodity rate V C into T at D not found" *)
| OConvOk
| OConvErr (c : cid) (v : Qc) (target : cid) (date : Z)
| OOpaque.                         (* compared across runs only *)

(* the query of a `balance -X T [--historical | --now D] [--start S] [--end E]` run, or of
   `primitive eval --date D -X T "(v1 C1 + v2 C2 ...)"` (distinct commodities, non-zero values) *)
Inductive xquery :=
| XBal (target : cid) (st : strategy) (s e : option Z)
| XEval (a : amount) (target : cid) (date : Z).
Definition XQ (t : cid) (now : option Z) (s e : option Z) : xquery :=
  XBal t (match now with Some d => UpToDate d | None => Historical end) s e.
Definition XE (a : seq) (t : cid) (d : Z) : xquery := XEval a t d.

Record run_obs := { r_distinct : N; r_ok : bool; r_query : option xquery; r_out : out_obs }.
Definition R (d : N) (ok : bool) (o : out_obs) : run_obs :=
  {| r_distinct := d; r_ok := ok; r_query := None; r_out := o |}.
Definition RX (d : N) (ok : bool) (q : xquery) (o : out_obs) : run_obs :=
  {| r_distinct := d; r_ok := ok; r_query := Some q; r_out := o |}.

(* ---- CSV import: FieldMap::try_new on the header the statement really has ---- *)
(* a configured field: a header label, or a template that does not parse *)
Inductive cpos := CLabel (l : list N) | CBadTemplate.
Definition LBL (l : list N) : cpos := CLabel l.
Definition BADT : cpos := CBadTemplate.
(* status: 0 transactions printed, exit 0 | 1 "specified labels not found" | 3 an invalid
   template is reported | 2 any other failure;
   picks: for a field whose cells identify their column, the column the printed values came from;
   bad: the field whose template the message quotes *)
Record imp_obs := { i_distinct : N; i_status : N; i_picks : list (N * nat); i_bad : option N }.
Definition IO (d st : N) (picks : list (N * nat)) (bad : option N) : imp_obs :=
  {| i_distinct := d; i_status := st; i_picks := picks; i_bad := bad |}.

Inductive case :=
| C (es : list entry) (rs : list run_obs)
| CI (header : list (list N)) (fields : list (N * cpos)) (o : imp_obs).

Fixpoint seq_eqb (a b : seq) : bool :=
  match a, b with
  | [], [] => true
  | (c1, v1) :: r1, (c2, v2) :: r2 => (c1 =? c2)%N && qc_eqb v1 v2 && seq_eqb r1 r2
  | _, _ => false
  end.

Definition bk_kind (e : bk_err) : N :=
  match e with UnbalancedPostings _ => 1 | BalanceAssertionFailure _ _ _ => 2 | _ => 3 end%N.

Definition book_err_agrees (k : nat) (kind : N) (res : option seq) (m : outcome bstate * nat) : bool :=
  match m with
  | (Err e, k') =>
      Nat.eqb k k' && (kind =? bk_kind e)%N
      && match res, render_unbalanced e with
         | Some sq, Some sq' => seq_eqb sq sq'
         | None, None => true
         | _, _ => false
         end
  | _ => false
  end.

(* the model of Ledger::balance with a conversion, every map walked in key order *)
Definition forget {A} (x : conv_outcome A) : conv_outcome unit :=
  match x with COk _ => COk tt | CErr e => CErr e | COutOfFuel => COutOfFuel end.
Definition model_query (s : bstate) (q : xquery) : conv_outcome unit :=
  let recs := repository (s_events s) [] in
  match q with
  | XBal t st b e =>
      forget (balance_query_keyed run_fuel choose_max recs s
                                  (Some {| cv_strategy := st; cv_target := t |}) b e)
  | XEval a t d => forget (eval_exchange run_fuel choose_max recs (sort_keys a) (Some t) d)
  end.

Definition agrees (m : outcome bstate * nat) (r : run_obs) : bool :=
  match r_out r, m with
  | OOpaque, _ => true
  | OBalance ls, (Ok s, _) =>
      r_ok r && list_eqb (fun x y => (fst x =? fst y)%N && seq_eqb (snd x) (snd y)) ls
                         (render_balance (balance_report s None None))
  | ORegister ls, (Ok s, _) =>
      r_ok r && list_eqb (fun x y => (fst (fst x) =? fst (fst y))%N && seq_eqb (snd (fst x)) (snd (fst y)) && seq_eqb (snd x) (snd y))
                         ls (render_register (all_postings s))
  | OUnbalanced sq, (Err e, _) =>
      negb (r_ok r) && match render_unbalanced e with Some sq' => seq_eqb sq sq' | None => false end
  | OBookErr k kind res, _ => negb (r_ok r) && book_err_agrees k kind res m
  | OConvOk, (Ok s, _) =>
      r_ok r && match r_query r with
                | Some q => match model_query s q with COk _ => true | _ => false end
                | None => false
                end
  | OConvErr c v t d, (Ok s, _) =>
      negb (r_ok r) && match r_query r with
                       | Some q => match model_query s q with
                                   | CErr (RateNotFound c' v' t' d') =>
                                       (c =? c')%N && qc_eqb v v' && (t =? t')%N && (d =? d')%Z
                                   | _ => false
                                   end
                       | None => false
                       end
  | _, _ => false
  end.

(* ---- import ---- *)
(* FieldMap::try_new: labels that are not in the header are reported first; then the fields are
   visited in FieldKey declaration order (4bf0224) and the first template that does not parse
   is reported; then Model/ImpCsv.v fieldmap_new (exact label match, last column wins) *)
Definition label_fields (fields : list (N * cpos)) : list (ImpConfig.field_key * ImpConfig.field_pos) :=
  flat_map (fun kp => match snd kp with
                      | CLabel l => [(ImpCase.FK (fst kp), ImpConfig.PLabel l)]
                      | CBadTemplate => []
                      end) fields.
Definition first_bad (fields : list (N * cpos)) : option N :=
  fold_left (fun acc kp => match snd kp with
                           | CBadTemplate => match acc with
                                             | Some k => Some (N.min k (fst kp))
                                             | None => Some (fst kp)
                                             end
                           | _ => acc
                           end) fields None.

Definition imp_agrees (header : list (list N)) (fields : list (N * cpos)) (o : imp_obs) : bool :=
  let m := ImpCsv.fieldmap_new (label_fields fields) header in
  match m, first_bad fields with
  | ImpCsv.IErr ImpCsv.ELabelsNotFound, _ => (i_status o =? 1)%N
  | ImpCsv.IPanic, _ => false
  | _, Some k => (i_status o =? 3)%N && match i_bad o with Some k' => (k =? k')%N | None => false end
  | ImpCsv.IErr _, None => (i_status o =? 2)%N
  | ImpCsv.IOk fm, None =>
      (i_status o =? 0)%N
      && forallb (fun kc => match ImpCsv.fget (ImpCase.FK (fst kc)) (ImpCsv.fm_all fm) with
                            | Some (ImpCsv.ColumnIndex i) => Nat.eqb i (snd kc)
                            | _ => false
                            end) (i_picks o)
  end.

Definition classify (c : case) : N :=
  match c with
  | C es rs =>
      if negb (forallb (fun r => (r_distinct r =? 1)%N) rs) then 2%N
      else let m := process es in
           if forallb (agrees m) rs then 0%N else 1%N
  | CI header fields o =>
      if negb (i_distinct o =? 1)%N then 2%N
      else if imp_agrees header fields o then 0%N else 1%N
  end.

Definition verdicts (cs : list case) : list N := map classify cs.
