(* C05 round trip, the image of the parser: posting_account, posting and transaction only
   return well-formed trees (wf_account, wf_posting, wf_txn of Model/RoundTripSpec.v).
   The three facts about value expressions, posting amounts and dates are premises here
   (Proofs/RoundTripImageExpr.v proves them). *)
From Coq Require Import List NArith ZArith Bool Lia Arith.
From Okv Require Import Model.Lit Model.LitSpec Model.Syntax Model.Comb Model.ParseExpr Model.ParseMeta
  Model.ParsePosting Model.ParseTxn Model.Display Model.DocGrammar Model.RoundTripSpec
  Proofs.CombSpec Proofs.DocAccept Proofs.RoundTripBase Proofs.RoundTripMeta Proofs.RoundTripPosting.
Import ListNotations.
Open Scope N_scope.

(* ---- generic inversions of successful runs ---- *)
Lemma im_bind_inv : forall A B (p : parser A) (k : A -> parser B) i v r,
  bind p k i = POk v r -> exists a m, p i = POk a m /\ k a m = POk v r.
Proof.
  intros A B p k i v r H. unfold bind in H. destruct (p i) as [a m | | |]; try discriminate. eauto.
Qed.

Lemma im_pmap_inv : forall A B (f : A -> B) (p : parser A) i v r,
  pmap f p i = POk v r -> exists x, v = f x /\ p i = POk x r.
Proof.
  intros A B f p i v r H. unfold pmap, bind, ret in H. destruct (p i) as [a m | | |]; try discriminate.
  inversion H; subst. eauto.
Qed.

Lemma im_context_inv : forall A l (p : parser A) i v r, context l p i = POk v r -> p i = POk v r.
Proof.
  intros A l p i v r H. unfold context in H. destruct (p i) as [a m | c l0 m | w |]; try discriminate; auto.
  destruct l0; discriminate.
Qed.

Lemma im_cut_err_inv : forall A (p : parser A) i v r, cut_err p i = POk v r -> p i = POk v r.
Proof.
  intros A p i v r H. unfold cut_err in H. destruct (p i) as [a m | c l0 m | w |]; try discriminate; auto.
Qed.

Lemma im_opt_inv : forall A (p : parser A) i o r, opt p i = POk o r ->
  (o = None /\ r = i /\ exists l m, p i = PErr false l m) \/ (exists x, o = Some x /\ p i = POk x r).
Proof.
  intros A p i o r H. unfold opt in H. destruct (p i) as [a m | [|] l0 m | w |]; try discriminate.
  - inversion H; subst. right. eauto.
  - inversion H; subst. left. eauto.
Qed.

Lemma im_with_span_inv : forall A (p : parser A) i v r, with_span p i = POk v r -> p i = POk (fst v) r.
Proof.
  intros A p i v r H. unfold with_span in H. destruct (p i) as [a m | | |]; try discriminate.
  inversion H; subst. reflexivity.
Qed.

Lemma im_peek_inv : forall A (p : parser A) i v r, peek p i = POk v r -> r = i /\ exists r', p i = POk v r'.
Proof.
  intros A p i v r H. unfold peek in H. destruct (p i) as [a m | | |]; try discriminate.
  inversion H; subst. eauto.
Qed.

Lemma im_has_peek_inv : forall A (p : parser A) i b r, has_peek p i = POk b r ->
  r = i /\ (b = true -> exists x r', p i = POk x r').
Proof.
  intros A p i b r H. unfold has_peek in H. destruct (im_pmap_inv _ _ _ _ _ _ _ H) as (o & -> & P).
  destruct (im_peek_inv _ _ _ _ _ P) as (-> & r' & O). split; [reflexivity |].
  destruct (im_opt_inv _ _ _ _ _ O) as [(-> & _) | (x & -> & Px)]; [discriminate | eauto].
Qed.

Lemma im_space0_rest : forall i s r, space0 i = POk s r -> starts_not is_sp r.
Proof.
  intros i s r H. destruct (space0_skip i) as [s' E]. rewrite E in H. inversion H; subst.
  apply skip_sp_starts_not.
Qed.

Lemma im_take_while1_inv : forall f i a b, take_while1 f i = POk a b ->
  a <> [] /\ all f a /\ i = a ++ b /\ starts_not f b.
Proof.
  intros f i a b H. unfold take_while1 in H.
  destruct (span_while_split f i) as (w & r & E & E2 & Hw & Hr). rewrite E in H.
  destruct w as [| c w]; [discriminate |]. inversion H; subst. repeat split; auto. discriminate.
Qed.

Lemma im_take_while0_inv : forall f i a b, take_while0 f i = POk a b ->
  all f a /\ i = a ++ b /\ starts_not f b.
Proof.
  intros f i a b H. unfold take_while0 in H.
  destruct (span_while_split f i) as (w & r & E & E2 & Hw & Hr). rewrite E in H.
  inversion H; subst. repeat split; auto.
Qed.

Lemma im_space1_rest : forall i s r, space1 i = POk s r -> starts_not is_sp r.
Proof. intros i s r H. apply im_take_while1_inv in H. tauto. Qed.

Lemma im_forallb_map : forall A B (f : A -> B) (q : B -> bool) l,
  forallb q (map f l) = forallb (fun x => q (f x)) l.
Proof. induction l as [| a l IH]; [reflexivity |]. cbn [map forallb]. rewrite IH. reflexivity. Qed.

(* the head of a prefix is the head of the whole *)
Lemma im_starts_prefix : forall f (p w i : str), i = p ++ w -> starts_not f i -> starts f p = false.
Proof. intros f [| c p] w i -> H; [reflexivity | exact H]. Qed.

(* ================================================================================== *)
(* the account                                                                        *)
(* ================================================================================== *)

Lemma acct_tail_nonstop_app : forall w s, all nonstop w -> acct_tail (w ++ s) = acct_tail s.
Proof.
  induction w as [| c w IH]; intros s H; [reflexivity |].
  apply all_cons in H. destruct H as [Hc Hw].
  destruct (nonstop_facts c Hc) as (_ & _ & _ & H32).
  cbn [app acct_tail]. rewrite H32. unfold nonstop in Hc. rewrite Hc. cbn [andb]. apply IH. exact Hw.
Qed.

Lemma acc_word_inv : forall i w r, acc_word i = POk w r ->
  w <> [] /\ all nonstop w /\ starts_not nonstop r /\ (i = w ++ r \/ i = 32 :: w ++ r).
Proof.
  intros i w r H. unfold acc_word in H. destruct (im_bind_inv _ _ _ _ _ _ _ H) as (o & m & O & T).
  unfold take_till1 in T. destruct (im_take_while1_inv _ _ _ _ T) as (Hne & Hw & Em & Hr).
  repeat split; auto.
  destruct (im_opt_inv _ _ _ _ _ O) as [(_ & -> & _) | (x & _ & L)]; [left; exact Em |].
  right. unfold literal in L. destruct (strip_prefix [32] i) as [r0 |] eqn:S; [| discriminate].
  inversion L; subst. apply strip_prefix_app in S. exact S.
Qed.

Lemma acc_end_inv : forall i u r, acc_end i = POk u r -> r = i.
Proof. intros i u r H. unfold acc_end in H. apply im_peek_inv in H. tauto. Qed.

Lemma acc_loop_inv : forall fuel i u r, starts_not nonstop i ->
  repeat_till_loop fuel acc_word acc_end i = POk u r ->
  exists s, i = s ++ r /\ acct_tail s = true.
Proof.
  assert (Step : forall i w r1 (P : Prop), starts_not nonstop i -> acc_word i = POk w r1 ->
            (starts_not nonstop r1 ->
             forall s r, r1 = s ++ r -> acct_tail s = true ->
                         exists s0, i = s0 ++ r /\ acct_tail s0 = true)).
  { intros i w r1 _ Hi W Hr1 s r E T.
    destruct (acc_word_inv _ _ _ W) as (Hne & Hw & _ & [Ei | Ei]).
    - exfalso. destruct w as [| c w']; [congruence |]. subst i. cbn [app starts_not] in Hi.
      apply all_cons in Hw. destruct Hw as [Hc _]. congruence.
    - exists (32 :: w ++ s). split; [subst; cbn [app]; rewrite <- app_assoc; reflexivity |].
      destruct w as [| d w']; [congruence |].
      pose proof Hw as Hw0. apply all_cons in Hw. destruct Hw as [Hd _].
      change (acct_tail (32 :: (d :: w') ++ s)) with
        (negb (is_account_stop d) && acct_tail ((d :: w') ++ s)).
      rewrite (acct_tail_nonstop_app _ s Hw0), T.
      unfold nonstop in Hd. rewrite Hd. reflexivity. }
  induction fuel as [| n IH]; intros i u r Hi H; cbn [repeat_till_loop] in H.
  - destruct (acc_end i) as [b r0 | [|] l r0 | w |] eqn:E; try discriminate.
    + inversion H; subst. apply acc_end_inv in E. subst. exists []. auto.
    + destruct (acc_word i) as [w r1 | | |]; try discriminate. destruct (consumed i r1); discriminate.
  - destruct (acc_end i) as [b r0 | [|] l r0 | w |] eqn:E; try discriminate.
    + inversion H; subst. apply acc_end_inv in E. subst. exists []. auto.
    + destruct (acc_word i) as [w r1 | | |] eqn:W; try discriminate.
      destruct (consumed i r1); [| discriminate].
      destruct (acc_word_inv _ _ _ W) as (_ & _ & Hr1 & _).
      destruct (IH r1 u r Hr1 H) as (s & Es & Ts).
      exact (Step i w r1 True Hi W Hr1 s r Es Ts).
Qed.

Lemma acc_run_inv : forall fuel i u r, repeat_till1 fuel acc_word acc_end i = POk u r ->
  exists b w s, i = (b ++ w ++ s) ++ r /\ (b = [] \/ b = [32]) /\ w <> [] /\ all nonstop w /\ acct_tail s = true.
Proof.
  intros fuel i u r H. unfold repeat_till1 in H. destruct (im_bind_inv _ _ _ _ _ _ _ H) as (w & r1 & W & L).
  destruct (acc_word_inv _ _ _ W) as (Hne & Hw & Hr1 & Ei).
  destruct (acc_loop_inv _ _ _ _ Hr1 L) as (s & Es & Ts).
  destruct Ei as [Ei | Ei].
  - exists [], w, s. subst. cbn [app]. rewrite <- app_assoc. auto.
  - exists [32], w, s. subst. cbn [app]. rewrite <- app_assoc. auto 6.
Qed.

(* the account the parser returns; when the input does not start with a blank the account
   starts with the first character of the input *)
Theorem posting_account_wf : forall fuel i a sp r, posting_account fuel i = POk (a, sp) r ->
  wf_account a = true /\ (starts_not is_sp i -> exists c x, i = c :: x /\ hd 0 a = c).
Proof.
  intros fuel i a sp r H. rewrite posting_account_eq in H. unfold terminated in H.
  destruct (im_bind_inv _ _ _ _ _ _ _ H) as ([a0 sp0] & m & S & K).
  destruct (im_bind_inv _ _ _ _ _ _ _ K) as (s0 & m0 & _ & K0). unfold ret in K0. inversion K0; subst a0 sp0 m0.
  clear K K0 H. apply im_with_span_inv in S. cbn [fst] in S.
  unfold try_map in S.
  destruct (pmap trim_start_spaces (taken (repeat_till1 fuel acc_word acc_end)) i) as [x m1 | | |] eqn:P;
    try discriminate.
  destruct (trim x) as [| t0 t] eqn:Tx; [discriminate |]. inversion S; subst x m1. clear S.
  destruct (im_pmap_inv _ _ _ _ _ _ _ P) as (y & Ea & Tk). clear P.
  unfold taken in Tk.
  destruct (repeat_till1 fuel acc_word acc_end i) as [u r0 | | |] eqn:R; try discriminate.
  inversion Tk; subst y r0. clear Tk.
  destruct (acc_run_inv _ _ _ _ R) as (b & w & s & Ei & Hb & Hne & Hw & Ts).
  rewrite Ei, firstn_app_exact in Ea.
  destruct w as [| c w']; [congruence |].
  pose proof Hw as Hw0. apply all_cons in Hw. destruct Hw as [Hc Hw'].
  destruct (nonstop_facts c Hc) as (Hsp & _ & _ & H32).
  assert (Ea' : a = c :: w' ++ s).
  { rewrite Ea. destruct Hb as [-> | ->]; cbn [app trim_start_spaces]; apply trim_start_spaces_id; exact H32. }
  split.
  - rewrite Ea'. unfold wf_account. rewrite <- Ea', Tx. rewrite (acct_tail_nonstop_app _ _ Hw'), Ts.
    unfold nonstop in Hc. rewrite Hc. reflexivity.
  - intros Hi. destruct Hb as [-> | ->].
    + exists c, ((w' ++ s) ++ m). split; [rewrite Ei; reflexivity | rewrite Ea'; reflexivity].
    + exfalso. rewrite Ei in Hi. cbn in Hi. discriminate.
Qed.

(* ================================================================================== *)
(* the posting                                                                        *)
(* ================================================================================== *)

(* Uncleared exactly when no mark is there; after a mark the blanks are gone *)
Lemma clear_state_inv : forall i cs r, ParseMeta.clear_state i = POk cs r ->
  match cs with
  | Uncleared => r = i /\ starts_not is_clear_mark i
  | _ => starts_not is_sp r
  end.
Proof.
  intros i cs r H. unfold ParseMeta.clear_state in H.
  destruct (im_pmap_inv _ _ _ _ _ _ _ H) as (o & -> & O). clear H.
  destruct (im_opt_inv _ _ _ _ _ O) as [(-> & -> & l & m & F) | (x & -> & T)].
  - split; [reflexivity |]. destruct i as [| c i']; [exact I |]. cbn [starts_not].
    destruct (is_clear_mark c) eqn:M; [| reflexivity]. exfalso.
    destruct (space0_skip i') as [s0 E0].
    unfold is_clear_mark in M. apply orb_true_iff in M. destruct M as [M | M]; apply N.eqb_eq in M; subst c;
      unfold terminated, bind, alt in F.
    + rewrite (chr_ok 42 i') in F. unfold ret at 1 in F. rewrite E0 in F. discriminate.
    + assert (C : chr 42 (33 :: i') = PErr false 0 (33 :: i')) by reflexivity.
      rewrite C, (chr_ok 33 i') in F. unfold ret at 1 in F. rewrite E0 in F. discriminate.
  - unfold terminated in T. destruct (im_bind_inv _ _ _ _ _ _ _ T) as (y & m & A & K).
    destruct (im_bind_inv _ _ _ _ _ _ _ K) as (s0 & m0 & S0 & K0). unfold ret in K0. inversion K0; subst y m0.
    pose proof (im_space0_rest _ _ _ S0) as Hr.
    destruct (alt_inv _ _ _ _ _ _ A) as [B | B];
      destruct (im_bind_inv _ _ _ _ _ _ _ B) as (c0 & m1 & _ & R); unfold ret in R; inversion R; subst; exact Hr.
Qed.

Lemma clear_state_keeps : forall i cs r, ParseMeta.clear_state i = POk cs r ->
  starts_not is_sp i -> starts_not is_sp r.
Proof.
  intros i cs r H Hi. apply clear_state_inv in H. destruct cs; [destruct H as [-> _]; exact Hi | exact H | exact H].
Qed.

Section Image.
Hypothesis value_expr_wf : forall fuel i v r, value_expr fuel i = POk v r -> wf_vexpr v = true.
Hypothesis posting_amount_wf : forall fuel i pa sps r,
  posting_amount fuel i = POk (pa, sps) r -> wf_posting_amount pa = true.
Hypothesis date_wf : forall i d r, ParseExpr.date i = POk d r -> wf_date d = true.

Lemma im_amount_wf : forall fuel i am r,
  context L_amount (opt (terminated (posting_amount fuel) space0)) i = POk am r ->
  opt_all wf_posting_amount (option_map fst am) = true.
Proof using posting_amount_wf.
  intros fuel i am r H. apply im_context_inv in H.
  destruct (im_opt_inv _ _ _ _ _ H) as [(-> & _) | (x & -> & T)]; [reflexivity |].
  unfold terminated in T. destruct (im_bind_inv _ _ _ _ _ _ _ T) as (y & m & A & K).
  destruct (im_bind_inv _ _ _ _ _ _ _ K) as (s0 & m0 & _ & K0). unfold ret in K0. inversion K0; subst y m0.
  destruct x as [pa sps]. exact (posting_amount_wf _ _ _ _ _ A).
Qed.

Lemma im_balance_wf : forall fuel i (bal : option (s_vexpr * rspan)) r,
  opt (context L_balance (with_span (delimited (chr 61 ;;; space0) (value_expr fuel) space0))) i = POk bal r ->
  opt_all wf_vexpr (option_map fst bal) = true.
Proof using value_expr_wf.
  intros fuel i bal r H.
  destruct (im_opt_inv _ _ _ _ _ H) as [(-> & _) | (x & -> & T)]; [reflexivity |].
  apply im_context_inv in T. apply im_with_span_inv in T. unfold delimited in T.
  destruct (im_bind_inv _ _ _ _ _ _ _ T) as (y & m & _ & K).
  destruct (im_bind_inv _ _ _ _ _ _ _ K) as (v & m0 & V & K0).
  destruct (im_bind_inv _ _ _ _ _ _ _ K0) as (s0 & m1 & _ & K1). unfold ret in K1. inversion K1; subst.
  cbn [option_map opt_all]. exact (value_expr_wf _ _ _ _ V).
Qed.

Lemma posting_body_wf : forall fuel i p x r, posting_body fuel i = POk (p, x) r -> wf_posting p = true.
Proof using value_expr_wf posting_amount_wf.
  intros fuel i p x r H. unfold posting_body in H.
  destruct (im_bind_inv _ _ _ _ _ _ _ H) as (cs & m1 & C & K1). clear H.
  destruct (im_bind_inv _ _ _ _ _ _ _ K1) as ([a sp] & m2 & A & K2). clear K1.
  destruct (im_bind_inv _ _ _ _ _ _ _ K2) as (shortcut & m3 & _ & K3). clear K2.
  unfold preceded in C. destruct (im_bind_inv _ _ _ _ _ _ _ C) as (s0 & m0 & S0 & C0). clear C.
  pose proof (im_space0_rest _ _ _ S0) as Hm0.
  apply im_context_inv in A. destruct (posting_account_wf _ _ _ _ _ A) as [Wa Hd].
  assert (Hc : match cs with Uncleared => negb (starts is_clear_mark a) | _ => true end = true).
  { pose proof (clear_state_inv _ _ _ C0) as I0. destruct cs; [| reflexivity | reflexivity].
    destruct I0 as [-> Hm]. destruct (Hd Hm0) as (c & y & -> & Hh).
    destruct a as [| c' a']; [discriminate |]. cbn [hd] in Hh. subst c'. cbn [starts starts_not] in *.
    rewrite Hm. reflexivity. }
  cbn [fst snd] in K3. destruct shortcut.
  - destruct (im_bind_inv _ _ _ _ _ _ _ K3) as (md & m4 & M & K4). unfold ret in K4. inversion K4; subst.
    unfold wf_posting. cbn [sp_account sp_clear sp_amount sp_balance sp_metadata opt_all].
    rewrite Wa, Hc, (block_metadata_wf _ _ _ _ M). reflexivity.
  - destruct (im_bind_inv _ _ _ _ _ _ _ K3) as (am & m4 & Am & K4). clear K3.
    destruct (im_bind_inv _ _ _ _ _ _ _ K4) as (bal & m5 & Bal & K5). clear K4.
    destruct (im_bind_inv _ _ _ _ _ _ _ K5) as (md & m6 & M & K6). clear K5.
    unfold ret in K6. inversion K6; subst. apply im_context_inv in M.
    unfold wf_posting. cbn [sp_account sp_clear sp_amount sp_balance sp_metadata].
    rewrite Wa, Hc, (im_amount_wf _ _ _ _ Am), (im_balance_wf _ _ _ _ Bal), (block_metadata_wf _ _ _ _ M).
    reflexivity.
Qed.

Theorem posting_wf : forall fuel i p sps r, posting fuel i = POk (p, sps) r -> wf_posting p = true.
Proof using value_expr_wf posting_amount_wf date_wf.
  intros fuel i p sps r H. unfold posting in H.
  destruct (im_pmap_inv _ _ _ _ _ _ _ H) as ([[p0 [[[[a am] co] lp] ba]] sp] & E & S).
  inversion E; subst p0. apply im_with_span_inv in S. cbn [fst] in S. apply im_context_inv in S.
  exact (posting_body_wf _ _ _ _ _ S).
Qed.

(* ================================================================================== *)
(* the transaction                                                                    *)
(* ================================================================================== *)

(* after the date: either the line ends here (or a `;` follows), or blanks were skipped *)
Lemma im_shortest_rest : forall i b m u m',
  has_peek (alt line_ending_or_eof (void (chr 59))) i = POk b m ->
  cond (negb b) space1 m = POk u m' -> starts_not is_sp m'.
Proof using.
  intros i b m u m' H C. destruct (im_has_peek_inv _ _ _ _ _ H) as [-> Hb]. destruct b; cbn [negb cond] in C.
  - unfold ret in C. inversion C; subst. destruct (Hb eq_refl) as (x & r' & P). clear Hb H C.
    destruct m' as [| c k]; [exact I |]. cbn [starts_not]. destruct (is_sp c) eqn:S; [| reflexivity]. exfalso.
    unfold is_sp in S. apply orb_true_iff in S. destruct S as [S | S]; apply N.eqb_eq in S; subst c; discriminate.
  - destruct (im_pmap_inv _ _ _ _ _ _ _ C) as (s & _ & S). exact (im_space1_rest _ _ _ S).
Qed.

Lemma im_code_inv : forall i code r, opt (terminated paren_str space0) i = POk code r ->
  match code with
  | None => r = i
  | Some c => wf_code c = true /\ starts_not is_sp r
  end.
Proof using.
  intros i code r H. destruct (im_opt_inv _ _ _ _ _ H) as [(-> & -> & _) | (c & -> & T)]; [reflexivity |].
  unfold terminated in T. destruct (im_bind_inv _ _ _ _ _ _ _ T) as (y & m & P & K).
  destruct (im_bind_inv _ _ _ _ _ _ _ K) as (s0 & m0 & S0 & K0). unfold ret in K0. inversion K0; subst y m0.
  split; [| exact (im_space0_rest _ _ _ S0)].
  unfold paren_str, paren, delimited in P.
  destruct (im_bind_inv _ _ _ _ _ _ _ P) as (c0 & m1 & _ & K1).
  destruct (im_bind_inv _ _ _ _ _ _ _ K1) as (v & m2 & V & K2).
  destruct (im_bind_inv _ _ _ _ _ _ _ K2) as (c1 & m3 & _ & K3). unfold ret in K3. inversion K3; subst.
  unfold take_till0 in V. destruct (im_take_while0_inv _ _ _ _ V) as (Hc & _ & _).
  unfold wf_code. apply (all_impl (fun c => negb (41 =? c))); [| exact Hc].
  intros x Hx. rewrite N.eqb_sym. exact Hx.
Qed.

Lemma im_payee_inv : forall i payee r, opt (pmap trim_end till_line_ending_or_semi) i = POk payee r ->
  let p := match payee with Some p => p | None => [] end in
  forallb (fun c => negb (is_payee_stop c)) p = true /\ end_trimmed p = true /\
  (forall f, starts_not f i -> starts f p = false).
Proof using.
  intros i payee r H. destruct (im_opt_inv _ _ _ _ _ H) as [(-> & _) | (p & -> & T)]; cbv zeta.
  - repeat split.
  - destruct (im_pmap_inv _ _ _ _ _ _ _ T) as (x & -> & X). unfold till_line_ending_or_semi, take_till1 in X.
    destruct (im_take_while1_inv _ _ _ _ X) as (_ & Hx & Ei & _).
    split; [exact (trim_end_all _ _ Hx) |].
    split; [unfold end_trimmed; apply str_eqb_eq; apply trim_end_idem |].
    intros f Hf. destruct (trim_end_prefix x) as [w Ew].
    apply (im_starts_prefix f (trim_end x) (w ++ r) i); [| exact Hf].
    rewrite app_assoc, <- Ew. exact Ei.
Qed.

Theorem transaction_wf : forall fuel i t sps r, transaction fuel i = POk (t, sps) r -> wf_txn t = true.
Proof using value_expr_wf posting_amount_wf date_wf.
  intros fuel i t sps r H. unfold transaction in H.
  destruct (im_bind_inv _ _ _ _ _ _ _ H) as (d & m1 & D & K1). clear H.
  destruct (im_bind_inv _ _ _ _ _ _ _ K1) as (ed & m2 & Ed & K2). clear K1.
  destruct (im_bind_inv _ _ _ _ _ _ _ K2) as (sh & m3 & Sh & K3). clear K2.
  destruct (im_bind_inv _ _ _ _ _ _ _ K3) as (u & m4 & Cd & K4). clear K3.
  destruct (im_bind_inv _ _ _ _ _ _ _ K4) as (cs & m5 & Cs & K5). clear K4.
  destruct (im_bind_inv _ _ _ _ _ _ _ K5) as (code & m6 & Co & K6). clear K5.
  destruct (im_bind_inv _ _ _ _ _ _ _ K6) as (payee & m7 & Pa & K7). clear K6.
  destruct (im_bind_inv _ _ _ _ _ _ _ K7) as (md & m8 & Md & K8). clear K7.
  destruct (im_bind_inv _ _ _ _ _ _ _ K8) as (posts & m9 & Po & K9). clear K8.
  unfold ret in K9. inversion K9; subst t sps m9. clear K9.
  (* the date, the effective date *)
  apply im_context_inv in D. pose proof (date_wf _ _ _ D) as Wd.
  assert (Wed : opt_all wf_date ed = true).
  { destruct (im_opt_inv _ _ _ _ _ Ed) as [(-> & _) | (x & -> & T)]; [reflexivity |].
    unfold preceded in T. destruct (im_bind_inv _ _ _ _ _ _ _ T) as (c0 & m & _ & T').
    exact (date_wf _ _ _ T'). }
  (* no blank in front of the mark, the code, the payee *)
  pose proof (im_shortest_rest _ _ _ _ _ Sh Cd) as S4.
  pose proof (clear_state_keeps _ _ _ Cs S4) as S5.
  pose proof (clear_state_inv _ _ _ Cs) as ICs.
  pose proof (im_code_inv _ _ _ Co) as ICo.
  assert (Wco : opt_all wf_code code = true) by (destruct code; [exact (proj1 ICo) | reflexivity]).
  assert (S6 : starts_not is_sp m6) by (destruct code; [exact (proj2 ICo) | subst m6; exact S5]).
  destruct (im_payee_inv _ _ _ Pa) as (P1 & P2 & P3). cbv zeta in P1, P2, P3.
  set (p := match payee with Some p => p | None => [] end) in *.
  assert (Wp : wf_payee cs code p = true).
  { unfold wf_payee. rewrite P1, P2, (P3 is_sp S6). cbn [negb andb].
    destruct cs; try reflexivity. destruct code; [reflexivity |].
    destruct ICs as [-> Hm]. subst m6. rewrite (P3 is_clear_mark Hm). reflexivity. }
  (* the postings *)
  assert (Wpo : forallb wf_posting (map fst posts) = true).
  { rewrite im_forallb_map.
    refine (many0_forall _ (fun x => wf_posting (fst x)) _ _ _ _ _ _ Po).
    intros i0 [p0 sps0] r0 H0. unfold preceded in H0.
    destruct (im_bind_inv _ _ _ _ _ _ _ H0) as (u0 & m & _ & H1). apply im_cut_err_inv in H1.
    exact (posting_wf _ _ _ _ _ H1). }
  unfold wf_txn. rewrite !andb_true_iff.
  repeat split; [exact Wd | exact Wed | exact Wco | exact Wp | exact (block_metadata_wf _ _ _ _ Md) | exact Wpo].
Qed.

End Image.

Print Assumptions posting_account_wf.
Print Assumptions posting_wf.
Print Assumptions transaction_wf.
