(* Declarative reading of rule application: which rules match a record (each seeing the
   fragment left by the earlier matching rules) and what the outcome is in terms of them. *)
From Coq Require Import List NArith Bool.
From Okv Require Import Model.ImpConfig Model.ImpConfigSpec Model.ImpExtract.
Import ListNotations.

Section Spec.
  Context {P R : Type}.
  Variable matches : rewrite_field * P -> R -> frag -> option captures.

  (* a rule that matched: the rule, the fragment it saw, the fragment its matcher produced *)
  Record hit := { h_rule : rule P; h_seen : frag; h_matched : frag }.

  Fixpoint hits (f : frag) (rules : list (rule P)) (e : R) : list hit :=
    match rules with
    | [] => []
    | r :: rest =>
        match or_extract matches (r_matcher r) f e with
        | Some c => {| h_rule := r; h_seen := f; h_matched := c |}
                    :: hits (frag_add_assign f (rule_apply r c)) rest e
        | None => hits f rest e
        end
    end.

  Definition is_some {A} (o : option A) : bool := match o with Some _ => true | None => false end.
  Definition assigns (h : hit) : bool := is_some (r_account (h_rule h)).

  Definition spec_account (hs : list hit) : option str := last_some (map (fun h => r_account (h_rule h)) hs).
  Definition spec_payee (hs : list hit) : option str :=
    last_some (map (fun h => option_or (r_payee (h_rule h)) (g_payee (h_matched h))) hs).
  Definition spec_code (hs : list hit) : option str := last_some (map (fun h => g_code (h_matched h)) hs).
  Definition spec_conversion (hs : list hit) : option conv_spec :=
    last_some (map (fun h => r_conversion (h_rule h)) hs).
  (* cleared unless every account-assigning hit is flagged pending (or there is none) *)
  Definition spec_cleared (hs : list hit) : bool :=
    existsb (fun h => assigns h && negb (r_pending (h_rule h))) hs.

  Definition spec_frag (hs : list hit) : frag :=
    {| g_cleared := spec_cleared hs; g_payee := spec_payee hs; g_account := spec_account hs;
       g_code := spec_code hs; g_conversion := spec_conversion hs |}.
End Spec.
Arguments hit P : clear implicits.
