(* C05 round trip: entries and the entry iterator.  Formatting well-formed entries and parsing
   the text gives the entries back (same_meaning); formatting again gives the same text. *)
From Coq Require Import List NArith ZArith Bool Lia Arith.
From Okv Require Import Model.Lit Model.LitSpec Model.Syntax Model.Comb Model.ParseExpr Model.ParseMeta
  Model.ParsePosting Model.ParseTxn Model.ParseDirective Model.ParseLedger Model.Display Model.DisplaySpec
  Model.DocGrammar Model.RoundTripSpec
  Proofs.CombSpec Proofs.ParseTotal Proofs.DocAccept Proofs.DisplayLines Proofs.RoundTripBase
  Proofs.RoundTripNum Proofs.RoundTripPosting Proofs.RoundTripTxn Proofs.RoundTripDirective
  Proofs.RoundTripSame Proofs.RoundTripNo41.
Import ListNotations.
Open Scope N_scope.

(* ---- one entry ---- *)
Lemma digit_dispatch : forall c, Comb.is_digit c = true ->
  (c =? 97) = false /\ (c =? 99) = false /\ (c =? 101) = false /\ (c =? 105) = false /\
  is_comment_prefix c = false /\ is_sp c = false /\ is_nl c = false.
Proof.
  intros c H. unfold Comb.is_digit in H. apply andb_true_iff in H. destruct H as [H1 H2].
  apply N.leb_le in H1. apply N.leb_le in H2.
  unfold is_comment_prefix, is_sp, is_nl.
  repeat split; repeat (apply orb_false_iff; split); apply N.eqb_neq; lia.
Qed.

Lemma print_txn_head : forall w t, wf_txn t = true ->
  exists c r, print_txn w t = c :: r /\ Comb.is_digit c = true.
Proof.
  intros w t W. unfold wf_txn in W. rewrite !andb_true_iff in W. destruct W as [[[[[Wd _] _] _] _] _].
  destruct (fmt_date_head _ Wd) as (c & r & E & H).
  unfold print_txn, txn_header. rewrite E. cbn [app]. eauto.
Qed.

Lemma follow_txn_nl : forall k, follow_txn (10 :: k).
Proof. reflexivity. Qed.

Theorem entry_fmt : forall w fuel e k, wf_entry e = true ->
  (entry_open_paren e = true -> no41 (print_entry w e ++ 10 :: k) = true) ->
  (length (print_entry w e ++ 10%N :: k) <= fuel)%nat ->
  exists e' sps, parse_ledger_entry fuel (print_entry w e ++ 10 :: k) = POk (e', sps) (10 :: k) /\
                 same_entry e e'.
Proof.
  intros w fuel e k W OP L. destruct e as [t | | | | | |];
    try (destruct (directive_roundtrip w fuel _ k W I L) as (e' & E & Se); exists e', []; split; assumption).
  cbn [wf_entry print_entry] in *.
  destruct (transaction_fmt w fuel t (10 :: k) W (follow_txn_nl k) OP L) as (t' & sps & E & St).
  exists (STxn t'), sps. split; [| exact St].
  destruct (print_txn_head w t W) as (c & r & Ec & Hc).
  destruct (digit_dispatch c Hc) as (D1 & D2 & D3 & D4 & D5 & _).
  rewrite Ec in *. cbn [app] in *. unfold parse_ledger_entry. rewrite D1, D2, D3, D4, D5, Hc.
  rewrite (pmap_ok _ _ _ _ _ _ _ E). reflexivity.
Qed.

(* the first character of a printed entry is neither a blank nor a line break *)
Lemma line_wrap_head : forall p s, p <> [] -> s <> [] ->
  exists r, line_wrap p s = hd 0 p :: r.
Proof.
  intros p s Hp Hs. unfold line_wrap.
  pose proof (str_lines_nonempty s Hs) as Hl. destruct (str_lines s) as [| l ls]; [congruence |].
  destruct p as [| c p']; [congruence |]. cbn [flat_map hd]. rewrite <- !app_assoc. cbn [app]. eauto.
Qed.

Lemma print_entry_head : forall w e, wf_entry e = true ->
  exists c r, print_entry w e = c :: r /\ is_sp c = false /\ is_nl c = false.
Proof.
  intros w e W. destruct e as [t | s | key v | | path | name ds | name ds]; cbn [print_entry].
  - destruct (print_txn_head w t W) as (c & r & E & H). destruct (digit_dispatch c H) as (_ & _ & _ & _ & _ & A & B).
    eauto.
  - cbn [wf_entry] in W. unfold wf_multiline in W. rewrite !andb_true_iff in W. destruct W as [[W _] _].
    assert (Hs : s <> []) by (destruct s; [discriminate | discriminate]).
    destruct (line_wrap_head [59] s ltac:(discriminate) Hs) as [r E]. rewrite E. cbn [hd]. eauto.
  - eexists _, _. split; [reflexivity |]. auto.
  - eexists _, _. split; [reflexivity |]. auto.
  - eexists _, _. split; [reflexivity |]. auto.
  - eexists _, _. split; [reflexivity |]. auto.
  - eexists _, _. split; [reflexivity |]. auto.
Qed.

Lemma format_cons : forall w e es,
  format_entries w (e :: es) = print_entry w e ++ 10 :: format_entries w es.
Proof. intros. unfold format_entries. cbn [flat_map]. rewrite <- app_assoc. reflexivity. Qed.

Lemma format_solid : forall w es, forallb wf_entry es = true -> solid (format_entries w es).
Proof.
  intros w [| e es] W; [exact I |]. cbn [forallb] in W. apply andb_true_iff in W. destruct W as [We _].
  rewrite format_cons. destruct (print_entry_head w e We) as (c & r & E & H1 & H2). rewrite E. cbn [app].
  split; assumption.
Qed.

(* ---- the iterator ---- *)
Lemma loop_done : forall fuel n bs total i acc,
  vertical_space fuel i = POk tt [] -> entries_loop fuel (S n) bs total i acc = LOk (rev acc).
Proof. intros. cbn [entries_loop]. rewrite H. reflexivity. Qed.

Lemma loop_entry : forall fuel n bs total i acc r e sps r' ln,
  vertical_space fuel i = POk tt r -> r <> [] -> parse_ledger_entry fuel r = POk (e, sps) r' ->
  compute_line_number bs (total - utf8_len r) = Some ln -> (length r' < length r)%nat ->
  entries_loop fuel (S n) bs total i acc =
  entries_loop fuel n bs total r'
    ({| e_span := (total - utf8_len r, total - utf8_len r'); e_line_start := ln; e_entry := e;
        e_spans := map (abs_pspans total) sps |} :: acc).
Proof.
  intros fuel n bs total i acc r e sps r' ln V Hr E Hl Hc. cbn [entries_loop]. rewrite V.
  destruct r as [| c0 r0]; [congruence |].
  rewrite (with_span_ok _ _ _ _ _ E). cbn [abs_span fst snd]. rewrite Hl.
  rewrite consumed_true by exact Hc. reflexivity.
Qed.

Lemma blank_prefix : forall R B, (B = [] \/ B = [10]) -> blank_text R B.
Proof. intros R B [-> | ->]; [constructor | constructor; [reflexivity | constructor]]. Qed.

Lemma wf_ledger_all : forall es, wf_ledger es = true -> forallb wf_entry es = true.
Proof.
  induction es as [| e es IH]; intros H; [reflexivity |]. cbn [wf_ledger forallb] in *.
  rewrite !andb_true_iff in H. destruct H as [[H1 _] H3]. rewrite H1, (IH H3). reflexivity.
Qed.

Lemma loop_fmt : forall w s es B n acc,
  wf_ledger es = true -> (B = [] \/ B = [10]) ->
  suffix (B ++ format_entries w es) s -> (length (B ++ format_entries w es) < n)%nat ->
  exists es', entries_loop (length s) n (utf8_encode s) (utf8_len s) (B ++ format_entries w es) acc
              = LOk (rev acc ++ es') /\
              Forall2 same_entry es (map e_entry es').
Proof.
  intros w s. induction es as [| e es IH]; intros B n acc W HB Sfx Ln.
  - exists []. split; [| constructor]. change (format_entries w []) with (@nil N) in *.
    destruct n as [| n]; [lia |].
    rewrite (loop_done (length s) n _ _ (B ++ []) acc).
    + rewrite app_nil_r. reflexivity.
    + apply vertical_space_ok; [apply blank_prefix; exact HB | exact I |].
      apply suffix_length in Sfx. exact Sfx.
  - assert (HR : solid (format_entries w (e :: es))) by (apply format_solid, wf_ledger_all; exact W).
    cbn [wf_ledger] in W. rewrite !andb_true_iff in W. destruct W as [[We Wop] Wes].
    assert (OP : entry_open_paren e = true ->
                 no41 (print_entry w e ++ 10 :: format_entries w es) = true).
    { intros Eo. rewrite Eo in Wop. cbn [negb orb] in Wop. apply andb_true_iff in Wop.
      destruct Wop as [N1 N2]. rewrite no41_app. rewrite (print_entry_no41 w e N1).
      unfold no41 at 1. cbn [forallb]. fold (no41 (format_entries w es)).
      rewrite (format_entries_no41 w es N2). reflexivity. }
    rewrite format_cons in *.
    remember (print_entry w e ++ 10 :: format_entries w es) as i eqn:Hi.
    assert (V : vertical_space (length s) (B ++ i) = POk tt i).
    { apply vertical_space_ok; [apply blank_prefix; exact HB | exact HR |].
      apply suffix_length in Sfx. exact Sfx. }
    assert (SR : suffix i s).
    { eapply suffix_trans; [| exact Sfx]. now exists B. }
    pose proof (suffix_length _ _ SR) as LR. rewrite Hi in LR. rewrite Hi in OP.
    destruct (entry_fmt w (length s) e (format_entries w es) We OP LR) as (e' & sps & E & Se).
    rewrite <- Hi in E.
    destruct (print_entry_head w e We) as (c & r & Ec & _).
    assert (Ine : i <> []) by (rewrite Hi, Ec; discriminate).
    destruct (compute_line_number_some s (utf8_len s - utf8_len i)) as [ln Eln]; [lia |].
    assert (Lc : (length (10%N :: format_entries w es) < length i)%nat).
    { rewrite Hi, app_length, Ec. cbn [length]. lia. }
    destruct n as [| n]; [lia |].
    rewrite (loop_entry (length s) n _ _ (B ++ i) acc i e' sps (10 :: format_entries w es) ln V Ine E Eln Lc).
    assert (Sfx' : suffix ([10] ++ format_entries w es) s).
    { eapply suffix_trans; [| exact SR]. rewrite Hi. now exists (print_entry w e). }
    assert (Ln' : (length ([10%N] ++ format_entries w es) < n)%nat).
    { rewrite app_length in Ln. cbn [app]. lia. }
    destruct (IH [10] n
                ({| e_span := (utf8_len s - utf8_len i, utf8_len s - utf8_len (10 :: format_entries w es));
                    e_line_start := ln; e_entry := e'; e_spans := map (abs_pspans (utf8_len s)) sps |} :: acc)
                Wes (or_intror eq_refl) Sfx' Ln') as (es' & El & Ses).
    cbn [app] in El. rewrite El.
    eexists (_ :: es'). split.
    + cbn [rev]. rewrite <- app_assoc. reflexivity.
    + cbn [map e_entry]. constructor; assumption.
Qed.

Theorem format_roundtrip : forall w es, wf_ledger es = true ->
  exists es', parse_ledger (format_entries w es) = LOk es' /\ same_meaning es (map e_entry es').
Proof.
  intros w es W. unfold parse_ledger.
  destruct (loop_fmt w (format_entries w es) es [] (S (length (format_entries w es))) [] W
              (or_introl eq_refl) (suffix_refl _) ltac:(cbn [app]; lia)) as (es' & E & Ses).
  exists es'. split; [exact E | exact Ses].
Qed.

(* ---- formatting a text ---- *)
(* FormatOptions::format: parse, then print every entry followed by a blank line *)
Definition format_text (w : str -> nat) (s : str) : option str :=
  match parse_ledger s with
  | LOk es => Some (format_entries w (map e_entry es))
  | _ => None
  end.

Theorem format_preserves : forall w s es,
  parse_ledger s = LOk es -> wf_ledger (map e_entry es) = true ->
  exists es', parse_ledger (format_entries w (map e_entry es)) = LOk es' /\
              same_meaning (map e_entry es) (map e_entry es').
Proof. intros w s es _ W. apply format_roundtrip. exact W. Qed.

Theorem format_idempotent : forall w s t,
  format_text w s = Some t ->
  (forall es, parse_ledger s = LOk es -> wf_ledger (map e_entry es) = true) ->
  format_text w t = Some t.
Proof.
  intros w s t H W. unfold format_text in *. destruct (parse_ledger s) as [es | | | |] eqn:E; try discriminate.
  inversion H; subst t. destruct (format_roundtrip w (map e_entry es) (W es eq_refl)) as (es' & E' & S).
  rewrite E'. f_equal. apply same_meaning_format. exact S.
Qed.
