(* C17 classifier: 0 Agree | 1 ModelMismatch | 2 PropertyFail.
   A case is a list of configuration documents, a file path, what ConfigSet::select returned,
   the CSV records fed to import::import under the selected configuration (with the column
   layout the harness used) and the transactions that came out.
   The property is re-derived from the observation: the selected entry against the declarative
   merge (Model/ImpConfigSpec.v), and payee / code / counter account / pending mark of every
   transaction against the rules that hit its record (Model/ImpExtractSpec.v). *)
From Coq Require Import List NArith ZArith Bool QArith Qcanon.
From Okv Require Import Base.Dec Model.ImpConfig Model.ImpConfigSpec Model.ImpExtract
     Model.ImpExtractSpec Model.ImpSingleEntry Model.ImpCsv Run.ImpPattern Run.ImpCase.
Import ListNotations.

Inductive sel_obs := SelNone | SelErr (code : N) | SelOk (e : entry pat) | SelPanic.

Record case := { k_docs : list (doc pat); k_path : str; k_sel : sel_obs;
                 k_fmt : format_spec;           (* layout used for the import run *)
                 k_header : list str; k_rows : list row; k_imp : imp_obs }.
Definition K docs path sel fmt header rows imp : case :=
  {| k_docs := docs; k_path := path; k_sel := sel; k_fmt := fmt; k_header := header; k_rows := rows;
     k_imp := imp |}.

Definition cfg_err_code (e : cfg_err) : N :=
  match e with NoEncoding => 1 | NoAccount => 2 | NoAccountType => 3 | NoCommodity => 4 end%N.

Definition sel_agrees (o : sel_obs) (m : option (entry pat + cfg_err)) : bool :=
  match o, m with
  | SelNone, None => true
  | SelErr k, Some (inr e) => (k =? cfg_err_code e)%N
  | SelOk a, Some (inl b) => entry_eqb a b
  | _, _ => false
  end.

(* ---- the property on the selected entry ---- *)
Definition spec_select (docs : list (doc pat)) (fp : str) (o : sel_obs) : bool :=
  match o with
  | SelPanic => false
  | _ => sel_agrees o (option_map to_entry (spec_merged docs fp))
  end.

(* ---- the property on the imported transactions ---- *)
Definition first_post (t : stxn) : option sposting := hd_error (st_posts t).
Definition last_post (t : stxn) : option sposting := hd_error (rev (st_posts t)).

Definition spec_txn (e : entry pat) (fm : field_map) (r : row) (t : stxn) : bool :=
  let rec := row_fields r in
  match fm_extract fm FPayee rec, fm_extract fm FCategory rec, fm_extract fm FSecondaryCommodity rec,
        fm_amount fm (e_account_type e) rec with
  | IOk (Some payee0), IOk cat, IOk sc, IOk amount =>
      let hs := hits (csv_matches re_captures) frag0 (e_rewrite e)
                     {| rc_payee := payee0; rc_category := cat; rc_secondary_commodity := sc |} in
      let counter := if d_neg amount then first_post t else last_post t in
      (* the transaction carries the text on one line without outer white space (one_line, the
         C15 repair); the rules themselves see the captured text as it is, e.g. " coop" *)
      str_eqb (st_payee t) (one_line (match spec_payee hs with Some p => p | None => payee0 end))
      && ostr_eqb (st_code t) (option_map one_line (spec_code hs))
      && match counter with
         | None => false
         | Some p =>
             str_eqb (sp_account p)
                     (match spec_account hs with
                      | Some a => a
                      | None => if d_neg amount then expenses_unknown else income_unknown
                      end)
             && clear_eqb (sp_clear p) (if spec_cleared hs then Uncleared else Pending)
         end
  | _, _, _, _ => false
  end.

Fixpoint spec_txns (e : entry pat) (fm : field_map) (rows : list row) (ts : list stxn) : bool :=
  match rows, ts with
  | [], [] => true
  | r :: rr, t :: tr => spec_txn e fm r t && spec_txns e fm rr tr
  | _, _ => false
  end.

Definition is_err {A} (x : ires A) : bool := match x with IErr _ => true | _ => false end.

Definition spec_import (e : entry pat) (header : list str) (rows : list row) (o : imp_obs)
           (m : ires (list stxn)) : bool :=
  match o with
  | ImpPanic => false
  | ImpNotRun => false
  | ImpErr _ => is_err m          (* a refusal is in order only where the model refuses too *)
  | ImpOk ts =>
      match fieldmap_new (fs_fields (e_format e)) header with
      | IOk fm =>
          (* rows with an empty date produce nothing; output is reversed under new_to_old *)
          let live := filter (fun r => match fm_extract fm FDate (row_fields r) with
                                       | IOk (Some []) => false | _ => true end) rows in
          let ordered := match fs_row_order (e_format e) with OldToNew => live | NewToOld => rev live end in
          spec_txns e fm ordered ts
      | _ => false
      end
  end.

Definition classify (c : case) : N :=
  let msel := select (k_docs c) (k_path c) in
  let sel_spec := spec_select (k_docs c) (k_path c) (k_sel c) in
  let sel_same := sel_agrees (k_sel c) msel in
  match k_sel c with
  | SelOk e =>
      let e' := with_format e (k_fmt c) in
      let m := model_import e' (k_header c) (k_rows c) in
      if negb (sel_spec && spec_import e' (k_header c) (k_rows c) (k_imp c) m) then 2%N
      else if sel_same && imp_agrees (k_imp c) m then 0%N else 1%N
  | _ =>
      if negb sel_spec then 2%N
      else if sel_same && match k_imp c with ImpNotRun => true | _ => false end then 0%N else 1%N
  end.

Definition verdicts (cs : list case) : list N := map classify cs.
