(* Decoder for text carried by correspondence cases (harness/src/coq.rs `packed`): the bytes
   of the text, 7 per primitive Uint63 literal, little endian, and the UTF-8 decoder from bytes
   to Unicode scalar values.  This is comparison glue (trusted, exercised on every case against
   the length the harness prints); it is the ONLY file that mentions primitive integers: no
   model and no theorem depends on it. *)
From Coq Require Import List NArith ZArith Uint63.
Import ListNotations.

Definition byte_at (w : int) (k : int) : N :=
  Z.to_N (Uint63.to_Z (Uint63.land (Uint63.lsr w (Uint63.mul 8 k)) 255)).

Definition word_bytes (w : int) : list N :=
  [byte_at w 0; byte_at w 1; byte_at w 2; byte_at w 3; byte_at w 4; byte_at w 5; byte_at w 6]%uint63.

(* `len` bytes out of the words *)
Definition mk_packed (len : nat) (ws : list int) : list N :=
  firstn len (flat_map word_bytes ws).

(* were there enough words for `len` bytes, and no spare word? *)
Definition packed_ok (len : nat) (ws : list int) : bool :=
  (Nat.leb len (7 * length ws)) && (Nat.ltb (7 * (length ws - 1)) len || Nat.eqb (length ws) 0).

Open Scope N_scope.

(* UTF-8 to scalar values.  Lenient: Rust strings are valid UTF-8, a malformed tail decodes
   to U+FFFD so that it cannot compare equal to anything the model prints. *)
Fixpoint utf8_decode (l : list N) : list N :=
  match l with
  | [] => []
  | b0 :: r =>
      if b0 <? 128 then b0 :: utf8_decode r
      else if b0 <? 192 then [65533]
      else if b0 <? 224 then
        match r with
        | b1 :: r1 => ((b0 - 192) * 64 + (b1 - 128)) :: utf8_decode r1
        | _ => [65533]
        end
      else if b0 <? 240 then
        match r with
        | b1 :: b2 :: r2 => ((b0 - 224) * 4096 + (b1 - 128) * 64 + (b2 - 128)) :: utf8_decode r2
        | _ => [65533]
        end
      else
        match r with
        | b1 :: b2 :: b3 :: r3 =>
            ((b0 - 240) * 262144 + (b1 - 128) * 4096 + (b2 - 128) * 64 + (b3 - 128)) :: utf8_decode r3
        | _ => [65533]
        end
  end.

(* the text of a packed UTF-8 byte string *)
Definition unpack_text (bytes : list N) : list N := utf8_decode bytes.
