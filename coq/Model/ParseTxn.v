(* Model of core/src/parse/transaction.rs (as repaired by the "fix:" commits: a line of blanks
   does not start a posting (F15); metadata may follow the date directly).  Definitions only. *)
From Coq Require Import List NArith ZArith Bool.
From Okv Require Import Model.Lit Model.Syntax Model.Comb Model.ParseExpr Model.ParseMeta Model.ParsePosting.
Import ListNotations.
Open Scope N_scope.

Definition is_payee_stop (c : N) : bool := (c =? 59) || (c =? 13) || (c =? 10).

(* character::till_line_ending_or_semi *)
Definition till_line_ending_or_semi : parser (list N) := take_till1 is_payee_stop.

(* indentation of a posting line: blanks not followed by the end of the line *)
Definition posting_indent : parser unit :=
  take_while1 is_sp ;;; pnot line_ending_or_eof.

Definition transaction (fuel : nat) : parser (s_txn * list posting_spans) :=
  d <- context L_txn_date date ;;
  ed <- opt (preceded (chr 61) date) ;;
  is_shortest <- has_peek (alt line_ending_or_eof (void (chr 59))) ;;
  cond (negb is_shortest) space1 ;;;
  cs <- clear_state ;;
  code <- opt (terminated paren_str space0) ;;
  payee <- opt (pmap trim_end till_line_ending_or_semi) ;;
  md <- block_metadata fuel ;;
  posts <- many0 fuel (preceded posting_indent (cut_err (posting fuel))) ;;
  ret ({| st_date := d; st_edate := ed; st_clear := cs; st_code := code;
          st_payee := match payee with Some p => p | None => [] end;
          st_posts := map fst posts; st_metadata := md |},
       map snd posts).
