(* C06, numeric literals: PrettyDecimal::from_str (Model/Lit.v scan) accumulates in an i128 with
   checked operations and converts with Decimal::try_from_i128_with_scale; its Display pads
   the mantissa before it subtracts the scale from its length. *)
From Coq Require Import List NArith ZArith Bool Lia.
From Okv Require Import Model.Lit Proofs.LitShow.
Import ListNotations.
Open Scope N_scope.

Definition mant_in_i128 (s : st) : Prop := (0 <= mantissa s <= i128_max)%Z.

Lemma step_in_i128 : forall s i c s', mant_in_i128 s -> step s i c = Cont s' -> mant_in_i128 s'.
Proof.
  intros s i c s' H E. unfold step in E.
  destruct ((i =? 0) && (c =? 45)); [injection E as <-; exact H|].
  destruct ((c =? 44) && is_none (sc s) && aligned_comma (prefix_len s) (comma_pos s) i); [injection E as <-; exact H|].
  destruct ((c =? 46) && is_none (sc s) && (is_none (comma_pos s) || oeqb (comma_pos s) i)); [injection E as <-; exact H|].
  destruct (oeqb (comma_pos s) i); [discriminate|].
  destruct (is_digit c) eqn:D; [|discriminate].
  destruct (i128_max <? mantissa s * 10 + Z.of_N (c - 48))%Z eqn:O; [discriminate|].
  injection E as <-. unfold mant_in_i128 in *. cbn [mantissa]. apply Z.ltb_ge in O.
  split; [|exact O]. destruct H as [H0 _]. lia.
Qed.

(* every value the accumulator takes fits an i128: the checked_mul / checked_add never wrap *)
Lemma run_in_i128 : forall l s i s', mant_in_i128 s -> run s i l = Cont s' -> mant_in_i128 s'.
Proof.
  induction l as [|c r IH]; intros s i s' H E; cbn [run] in E.
  - injection E as <-. exact H.
  - destruct (step s i c) as [s1|x] eqn:S; [|discriminate].
    eapply IH; [eapply step_in_i128; eassumption|exact E].
Qed.

Theorem scan_in_i128 : forall l s, run st0 0 l = Cont s -> mant_in_i128 s.
Proof. intros l s E. eapply run_in_i128; [|exact E]. unfold mant_in_i128, st0, i128_max. cbn. lia. Qed.

(* the scanner answers a Decimal that fits (96-bit mantissa, scale <= 28) or an error *)
Theorem scan_total : forall l,
  (exists d, scan l = SOk d /\ wf_pdec d) \/ (exists e, scan l = SErr e).
Proof.
  intro l. destruct (scan l) as [d|e] eqn:E; [left; exists d; split; [reflexivity|eapply scan_wf; exact E]|right; exists e; reflexivity].
Qed.

(* Display: `mantissa.len() - scale` cannot underflow, for any decimal (F14 repaired) *)
Theorem show_no_underflow : forall d,
  (scale d < length (pad_zeros (S (scale d)) (digits_of (mant d))))%nat.
Proof.
  intro d. unfold pad_zeros. rewrite app_length, repeat_length. lia.
Qed.

Theorem literal_total :
  (forall l s, run st0 0 l = Cont s -> (0 <= mantissa s <= i128_max)%Z) /\
  (forall l, (exists d, scan l = SOk d /\ wf_pdec d) \/ (exists e, scan l = SErr e)) /\
  (forall d, (scale d < length (pad_zeros (S (scale d)) (digits_of (mant d))))%nat).
Proof.
  split; [exact scan_in_i128|]. split; [exact scan_total|exact show_no_underflow].
Qed.
