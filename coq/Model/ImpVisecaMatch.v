(* Model of the Extractor adapter of cli/src/import/viseca.rs: VisecaMatcher, its
   TryFrom<(RewriteField, &str)>, impl EntityMatcher for VisecaMatcher, and of what `import` does
   with the extracted Fragment of one record.  Definitions only.

   The entity (&format::Entry) is reduced to what a rule can look at: the payee text of the
   first line and the category line (Entry::category is a String: a record without a category
   line has the empty text, and a `category` matcher is applied to that empty text).  The sign
   of the booked amount (Txn amount = -entry.amount: a purchase is negative, a line ending in
   " -" positive) decides on which side the counter posting is.

   Since /repo 1cf261d (C17-K2) the code a rule captured is booked (`code_option(fragment.code)`);
   a Viseca record has no reference of its own, so there is no fallback. *)
From Coq Require Import List NArith Bool.
From Okv Require Import Model.ImpConfig Model.ImpExtract Model.ImpSingleEntry.
Import ListNotations.

Record viseca_entity := {
  ve_payee : str;        (* FIRST_LINE `payee` group *)
  ve_category : str;     (* the trimmed category line, [] when there is none *)
  ve_debit : bool;       (* entry.amount is positive: the account's posting is negative *)
  ve_fee : bool          (* a "Processing fee" line: import needs `operator` *)
}.

Section Viseca.
  Context {P : Type}.
  Variable re_captures : P -> str -> option captures.
  Variable re_valid : P -> bool.

  (* TryFrom<(RewriteField, &str)> for VisecaMatcher: payee and category only; the regex must
     compile *)
  Definition viseca_valid (m : rewrite_field * P) : bool :=
    match fst m with
    | RPayee | RCategory => re_valid (snd m)
    | _ => false
    end.

  (* impl EntityMatcher for VisecaMatcher: `payee` looks at the payee accumulated in the
     fragment, else at the statement's payee; `category` at the category text.  Unlike the CSV
     adapter the captures of a category match are kept (`.map(Into::into)`). *)
  Definition viseca_matches (m : rewrite_field * P) (e : viseca_entity) (f : frag) : option captures :=
    match fst m with
    | RPayee => re_captures (snd m) (match g_payee f with Some p => p | None => ve_payee e end)
    | RCategory => re_captures (snd m) (ve_category e)
    | _ => None
    end.

  Definition viseca_fragment (rules : list (rule P)) (e : viseca_entity) : frag :=
    extract viseca_matches (compile rules) e.

  (* what `import` takes from the fragment for one record: Txn::new(.., fragment.payee or the
     statement's payee), code_option(fragment.code), dest_account_option, clear_state(Pending)
     unless cleared *)
  Record viseca_view := { vv_payee : str; vv_code : option str; vv_dest : option str; vv_pending : bool }.
  Definition viseca_record_view (rules : list (rule P)) (e : viseca_entity) : viseca_view :=
    let f := viseca_fragment rules e in
    {| vv_payee := one_line (match g_payee f with Some p => p | None => ve_payee e end);
       vv_code := option_map one_line (g_code f);
       vv_dest := g_account f;
       vv_pending := negb (g_cleared f) |}.

  (* the Extractor is built before the first line is read: a rule list with a matcher that does
     not convert is refused; a record with a fee needs `operator` *)
  Definition viseca_rules_ok (rules : list (rule P)) : bool := rules_ok viseca_valid rules.
  Definition viseca_accepts (rules : list (rule P)) (operator : option str) (es : list viseca_entity) : bool :=
    viseca_rules_ok rules
    && match operator with Some _ => true | None => negb (existsb ve_fee es) end.
End Viseca.
