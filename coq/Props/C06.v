(* C06 — every input yields output or a diagnostic: no crash, no hang.
   Gallina functions terminate, so "the model returns" says nothing; the content is that the
   models carry every hazard of the Rust as a VALUE — a panic (winnow's asserts, Decimal `/` by
   zero, unreachable!(), a usize subtraction), an endless loop, an exhausted recursion budget —
   and these theorems say those values are unreachable, for every input.
   Models: parser Model/Comb.v + Parse*.v (PPanic/PFuel, LPanic/LDiverge/LFuel); loader
   Model/Load.v `loadc` (OutOfFuel); book-keeping Model/Book.v + Model/Named.v (Panic/NPanic);
   price repository Model/PriceDb.v + Model/PriceHazard.v (None = division by zero; PTOutOfFuel);
   queries Model/Convert.v (COutOfFuel); printer Model/Display.v (balance_underflow);
   literals Model/Lit.v; the commands end to end Model/Lower.v `pipeline` (PlHazard) on one text,
   Model/Pipeline.v `run_files` (FrHazard) on a file system of texts with includes. *)
From Coq Require Import List NArith ZArith Bool QArith Qcanon.
From Okv Require Import Base.Maps Base.Dec Model.Lit Model.Syntax Model.Comb Model.ParseExpr Model.ParseLedger
     Model.Load Model.Amount Model.Book Model.Query Model.PriceDb Model.PriceHazard Model.Convert
     Model.Intern Model.Named Model.Display Model.DisplaySpec Model.Lower
     Proofs.ParseTotal Proofs.ExprHeight Proofs.LitShow Proofs.TotalLoad Proofs.TotalReport Proofs.TotalFormat
     Proofs.TotalLit Proofs.TotalPipeline
     Model.Pipeline Proofs.PipelineLoad Proofs.PipelineProofs.
Import ListNotations.

(* ---------- parsing ---------- *)

(* parse_ledger s is LOk or LErr: winnow's "repeat parsers must always consume" assertion never
   fires (every loop body consumes), the entry iterator always advances, compute_line_number's
   range assertion holds, ParseError::new finds its span end within the text, and the model's
   recursion budget (length of the text) is never exhausted *)
Theorem C06_parse_total : forall s : list N, no_hazard (parse_ledger s).
Proof. exact parse_total. Qed.
Print Assumptions C06_parse_total.

(* the expression parser nests at most max_expr_depth (= MAX_EXPR_DEPTH = 100) parentheses,
   whatever the input: its recursion depth is bounded *)
Theorem C06_depth_bounded : forall fuel i v r,
  value_expr fuel i = POk v r -> (vexpr_depth v <= max_expr_depth)%nat.
Proof. exact value_expr_depth_bounded. Qed.
Print Assumptions C06_depth_bounded.

(* ... and never returns a syntax tree taller than max_expr_height (= MAX_EXPR_HEIGHT = 256; an
   amount is 1, parentheses, a negation and an operator one more than their tallest operand),
   whatever the input (finding C06-F23: a chain of n operators used to be parsed, by a loop, into
   a tree of height n + 1, and evaluating, printing and dropping it overflowed the stack) *)
Theorem C06_height_bounded : forall fuel i v r,
  value_expr fuel i = POk v r -> (vexpr_height v <= max_expr_height)%nat.
Proof. exact value_expr_height_bounded. Qed.
Print Assumptions C06_height_bounded.

(* in particular a chain of operators that is parsed has fewer than max_expr_height operators *)
Theorem C06_chain_bounded : forall e, (chain_length e < expr_height e)%nat.
Proof. exact chain_length_height. Qed.
Print Assumptions C06_chain_bounded.

(* every value expression (amount, cost, lot price, balance assertion) of every ledger that
   parse_ledger returns is within both bounds ... *)
Theorem C06_parsed_exprs_bounded : forall s es,
  parse_ledger s = LOk es ->
  Forall (fun v => (vexpr_height v <= max_expr_height)%nat /\ (vexpr_depth v <= max_expr_depth)%nat)
         (ledger_vexprs (map e_entry es)).
Proof. exact parsed_exprs_bounded. Qed.
Print Assumptions C06_parsed_exprs_bounded.

(* ... and the tree the report layer evaluates for it (Model/Lower.v low_v) has the same
   height: the structural recursions over these trees - report/eval.rs eval_visit (Model/Amount.v
   eval_v), syntax/display.rs (Model/Display.v fmt_vexpr) and Drop - go at most
   max_expr_height levels deep *)
Theorem C06_eval_depth_bounded : forall s es tc v,
  parse_ledger s = LOk es -> In v (ledger_vexprs (map e_entry es)) ->
  (eval_height_v (snd (low_v tc v)) <= max_expr_height)%nat.
Proof. exact lowered_height_bounded. Qed.
Print Assumptions C06_eval_depth_bounded.

(* ---------- loading ---------- *)

(* For every file system and root — include graphs with self-includes and cycles of any length
   included — load_impl's recursion is at most (number of files) deep: with any budget beyond
   that the load ends with the entries or with a LoadError, never by exhausting the budget. *)
Theorem C06_load_terminates : forall fs root fuel,
  (length fs < fuel)%nat ->
  exists out, loadc fuel fs [] root = (out, Done) \/ exists e, loadc fuel fs [] root = (out, Failed e).
Proof. exact load_terminates. Qed.
Print Assumptions C06_load_terminates.

(* why: the stack of files being loaded never repeats a path and only holds files that exist
   (stack_ok), every push keeps that, and so its depth is bounded by the number of files *)
Theorem C06_include_stack_bounded : forall fs st,
  stack_ok fs st ->
  (length st <= length fs)%nat /\
  (forall cp content, existsb (path_eqb cp) st = false -> lookup cp fs = Some content ->
                      stack_ok fs (cp :: st)) /\
  (forall fuel p, (length fs < fuel + length st)%nat -> snd (loadc fuel fs st p) <> OutOfFuel).
Proof. exact include_stack_bounded. Qed.
Print Assumptions C06_include_stack_bounded.

(* the answer does not depend on the budget once it exceeds the number of files *)
Theorem C06_load_result_stable : forall fs root f1 f2,
  (length fs < f1)%nat -> (length fs < f2)%nat -> loadc f1 fs [] root = loadc f2 fs [] root.
Proof. exact load_result_stable. Qed.
Print Assumptions C06_load_result_stable.

(* ---------- book-keeping ---------- *)

(* report::process on resolved entries: a ledger or a BookKeepError with the index of the
   failing entry; the unreachable!() of posting_price_event and the division of check_balance
   are not reachable (corollary of C01_process_no_panic).  Decimals are exact in the model:
   this is the property's "as long as numbers stay within the representable range". *)
Theorem C06_process_total : forall es,
  (exists s n, process es = (Ok s, n)) \/ (exists e n, process es = (Err e, n)).
Proof. exact process_total. Qed.
Print Assumptions C06_process_total.

(* ... and with the declarations and the name stores of ReportContext in front *)
Theorem C06_process_named_total : forall es, fst (process_named es) <> NPanic.
Proof. exact process_named_no_panic. Qed.
Print Assumptions C06_process_named_total.

(* ---------- prices ---------- *)

(* The only division of price_db.rs (insert_impl: price_with / price_of) never has a zero
   divisor: for every sequence of ledger events and every price-DB file, zero rates and self
   rates included, building the repository with the division checked gives the repository.
   And compute_price_table ends for every order in which the heap may pop, with any budget
   beyond some bound (corollary of C09_terminates). *)
Theorem C06_price_total :
  (forall recs e, insert_price_chk recs e = Some (insert_price recs e)) /\
  (forall evs db, repository_chk evs db = Some (repository evs db)) /\
  (forall choose recs target date,
     exists fuel0, forall fuel, (fuel0 <= fuel)%nat ->
       exists t, price_table fuel choose recs target date = PTDone t).
Proof. exact price_total. Qed.
Print Assumptions C06_price_total.

(* ---------- queries ---------- *)

(* Ledger::balance with any conversion and date range, and Ledger::eval with an exchange:
   a value or a ConversionError, with any budget beyond some bound.  (Without a conversion
   Model/Query.v's balance_report, postings_of and register_lines are plain total functions
   with no hazard value.) *)
Theorem C06_query_total : forall choose recs,
  (forall s cv start end_,
     exists fuel0, forall fuel, (fuel0 <= fuel)%nat ->
       (exists b, balance_query fuel choose recs s cv start end_ = COk b) \/
       (exists e, balance_query fuel choose recs s cv start end_ = CErr e)) /\
  (forall a exchange date,
     exists fuel0, forall fuel, (fuel0 <= fuel)%nat ->
       (exists r, eval_exchange fuel choose recs a exchange date = COk r) \/
       (exists e, eval_exchange fuel choose recs a exchange date = CErr e)).
Proof. exact query_total. Qed.
Print Assumptions C06_query_total.

(* ---------- formatting ---------- *)

(* The printer's one panicking operation on user data is `width_cjk(balance_str) - alignment`.
   It underflows exactly when the width oracle gives the printed balance less than the length
   of its head (the text up to the alignment point: digits and , . - + * / ( ) space) ... *)
Theorem C06_format_hazard_iff : forall w b,
  balance_underflow w b = true <-> (w (show_vexpr b) < length (vexpr_align_prefix b))%nat.
Proof. exact balance_underflow_iff. Qed.
Print Assumptions C06_format_hazard_iff.

(* ... the printed balance is that head followed by nothing or by a space (the one between a
   number and its commodity) and the rest ... *)
Theorem C06_format_balance_shape : forall b,
  exists rest, show_vexpr b = vexpr_align_prefix b ++ rest /\
               forallb expr_punct (vexpr_align_prefix b) = true /\ tail_ok rest.
Proof. exact format_balance_shape. Qed.
Print Assumptions C06_format_balance_shape.

(* ... so under head_width_ok (such a head followed by nothing or by a space and anything is at
   least as wide as it is long) the hazard is unreachable for every entry list the parser
   returns, wide and combining characters in accounts and commodities included.  An oracle that
   gives printable ASCII its length and either is additive or is cut by a space (unicode-width
   0.2: a right-to-left scan whose state a space resets) satisfies it. *)
Theorem C06_format_total : forall w, head_width_ok w -> forall s es,
  parse_ledger s = LOk es -> existsb (entry_hazard w) (map e_entry es) = false.
Proof. exact format_total. Qed.
Print Assumptions C06_format_total.

Theorem C06_format_oracles : forall w, ascii_width_ok w ->
  ((forall a b, w (a ++ b) = (w a + w b)%nat) -> head_width_ok w) /\ (space_cut w -> head_width_ok w).
Proof. exact format_oracles. Qed.
Print Assumptions C06_format_oracles.

(* ---------- literals ---------- *)

(* PrettyDecimal::from_str: every value of the i128 accumulator fits (the checked operations
   never wrap), the answer is a Decimal that fits 96 bits and scale 28 or an error; Display's
   `len - scale` cannot underflow for any decimal *)
Theorem C06_literal_total :
  (forall l s, Lit.run Lit.st0 0%N l = Lit.Cont s -> (0 <= Lit.mantissa s <= Lit.i128_max)%Z) /\
  (forall l, (exists d, Lit.scan l = Lit.SOk d /\ wf_pdec d) \/ (exists e, Lit.scan l = Lit.SErr e)) /\
  (forall d, (Lit.scale d < length (Lit.pad_zeros (S (Lit.scale d)) (Lit.digits_of (Lit.mant d))))%nat).
Proof. exact literal_total. Qed.
Print Assumptions C06_literal_total.

(* ---------- the commands, end to end ---------- *)

(* For every text: parse; on success print (format) and book (process, names resolved through
   the stores); build the price repository from the ledger's events and any price DB; answer
   the balance query with the given -X / --historical / --now / date range, and list the
   postings (register).  The result is a parse error, a book-keeping error with its entry, an
   unknown -X commodity, a conversion error, or the report — never the hazard value of a stage. *)
Theorem C06_pipeline_total : forall w choose o s, head_width_ok w ->
  exists fuel0, forall fuel, (fuel0 <= fuel)%nat ->
    forall st, pipeline w fuel choose o s <> PlHazard st.
Proof. exact pipeline_never_hazard. Qed.
Print Assumptions C06_pipeline_total.

(* without -X no budget is involved *)
Theorem C06_pipeline_plain_total : forall w choose o s fuel st,
  head_width_ok w -> ro_exchange o = None -> pipeline w fuel choose o s <> PlHazard st.
Proof. exact pipeline_plain_never_hazard. Qed.
Print Assumptions C06_pipeline_plain_total.

(* ---------- the commands on a tree of files ---------- *)

(* Loader::load on a file system whose files are texts (Model/Pipeline.v `loadt`: canonicalise,
   cycle check, read, parse the file when it is visited, expand includes in place): with any
   budget beyond the number of files it ends with TDone, a LoadError of Model/Load.v or
   LoadError::Parse - never by exhausting the budget (C06_load_terminates carried over through
   the simulation with `loadc` over the parsed file system) and never with a hazard value of
   the parser on the text of a file (C06_parse_total) - and the answer does not depend on the
   budget. *)
Theorem C06_files_load_terminates : forall fs root fuel,
  (length fs < fuel)%nat ->
  snd (load_texts fuel fs root) <> TOutOfFuel /\
  (forall p, snd (load_texts fuel fs root) <> THazard p) /\
  (forall fuel', (length fs < fuel')%nat -> load_texts fuel' fs root = load_texts fuel fs root).
Proof. exact files_load_terminates. Qed.
Print Assumptions C06_files_load_terminates.

(* For every file system of texts and every root - include graphs with cycles, missing files,
   globs that match nothing, files with syntax errors, anything: load (files parsed as they
   are visited), book every delivered entry (names resolved through the stores), build the
   price repository, answer the balance query with the given -X / --historical / --now / date
   range, list the postings.  With a loader budget beyond the number of files and a query
   budget beyond some bound the result is a LoadError, a syntax error with its file, a
   book-keeping error with its file and entry, an unknown -X commodity, a conversion error, or
   the report - never the hazard value of a stage (FsLoad: budget exhausted; FsParse: the
   parser's hazards; FsProcess: a panic of process or an error index outside the delivered
   entries; FsPrices: division by zero; FsQuery: budget exhausted).
   Composes C06_load_terminates, C06_parse_total, C06_process_named_total, C06_price_total,
   C06_query_total. *)
Theorem C06_files_pipeline_total : forall choose o fs root,
  exists q0, forall lfuel qfuel, (length fs < lfuel)%nat -> (q0 <= qfuel)%nat ->
    forall st, run_files lfuel qfuel choose o fs root <> FrHazard st.
Proof. exact files_pipeline_total. Qed.
Print Assumptions C06_files_pipeline_total.

(* without -X no query budget is involved *)
Theorem C06_files_pipeline_plain_total : forall choose o fs root lfuel qfuel st,
  (length fs < lfuel)%nat -> ro_exchange o = None -> run_files lfuel qfuel choose o fs root <> FrHazard st.
Proof. exact files_pipeline_plain_total. Qed.
Print Assumptions C06_files_pipeline_plain_total.
