(* Lemmas about the intern store model (Model/Intern.v): the invariant "every alias points at a
   canonical entry", monotonicity (records are never changed or removed), and what each
   operation establishes. *)
From Coq Require Import List NArith Bool Lia.
From Okv Require Import Base.Maps Model.Intern Proofs.EvalProofs.
Import ListNotations.
Open Scope N_scope.

(* every alias points to a canonical entry; a name has one record (so it is not both) *)
Definition store_ok (s : store) : Prop :=
  NoDup (keys s) /\ forall a c, get a s = Some (RAlias c) -> get c s = Some RCanonical.

(* records only ever get added *)
Definition store_le (s s' : store) : Prop := forall n r, get n s = Some r -> get n s' = Some r.

Lemma store_le_refl : forall s, store_le s s.
Proof. intros s n r H. exact H. Qed.
Lemma store_le_trans : forall a b c, store_le a b -> store_le b c -> store_le a c.
Proof. intros a b c H1 H2 n r H. apply H2. apply H1. exact H. Qed.

Lemma store_ok_empty : store_ok store0.
Proof. split; [constructor | intros a c H; discriminate]. Qed.

Lemma get_add_rec_same : forall s n r, get n s = None -> get n (add_rec s n r) = Some r.
Proof. intros. unfold add_rec. apply get_app_new. assumption. Qed.
Lemma get_add_rec_other : forall s n n' r, n' <> n -> get n' (add_rec s n r) = get n' s.
Proof. intros. unfold add_rec. apply get_app_other. assumption. Qed.

Lemma add_rec_le : forall s n r, get n s = None -> store_le s (add_rec s n r).
Proof.
  intros s n r H n' r' G. destruct (N.eq_dec n' n) as [-> | N]; [congruence|].
  rewrite get_add_rec_other by exact N. exact G.
Qed.

Lemma add_rec_nodup : forall s n r, get n s = None -> NoDup (keys s) -> NoDup (keys (add_rec s n r)).
Proof.
  intros s n r H ND. unfold add_rec. rewrite keys_app. apply NoDup_app_intro; [exact ND | constructor; [intros [] | constructor] |].
  intros x I [E | []]. cbn in E. subst. apply get_none_iff in H. contradiction.
Qed.

Lemma add_canonical_ok : forall s n, get n s = None -> store_ok s -> store_ok (add_rec s n RCanonical).
Proof.
  intros s n H [ND A]. split; [apply add_rec_nodup; assumption|].
  intros a c G. destruct (N.eq_dec a n) as [-> | Na].
  - rewrite get_add_rec_same in G by exact H. discriminate.
  - rewrite get_add_rec_other in G by exact Na. apply (add_rec_le s n RCanonical H). eapply A. exact G.
Qed.

Lemma add_alias_ok : forall s a c, get a s = None -> get c s = Some RCanonical -> store_ok s ->
  store_ok (add_rec s a (RAlias c)).
Proof.
  intros s a c H C [ND A]. split; [apply add_rec_nodup; assumption|].
  intros a' c' G. destruct (N.eq_dec a' a) as [-> | Na].
  - rewrite get_add_rec_same in G by exact H. inversion G; subst. apply (add_rec_le s a _ H). exact C.
  - rewrite get_add_rec_other in G by exact Na. apply (add_rec_le s a _ H). eapply A. exact G.
Qed.

(* ---- ensure ---- *)
Lemma ensure_canonical : forall s n, get n s = Some RCanonical -> ensure s n = (s, n).
Proof. intros s n H. unfold ensure, resolve. rewrite H. reflexivity. Qed.

Lemma ensure_alias : forall s a n, get a s = Some (RAlias n) -> ensure s a = (s, n).
Proof. intros s a n H. unfold ensure, resolve. rewrite H. reflexivity. Qed.

Lemma ensure_new : forall s n, get n s = None -> ensure s n = (add_rec s n RCanonical, n).
Proof. intros s n H. unfold ensure, resolve. rewrite H. reflexivity. Qed.

Lemma ensure_spec : forall s n s' c, ensure s n = (s', c) -> store_ok s ->
  store_ok s' /\ store_le s s' /\ get c s' = Some RCanonical /\
  (get n s = None -> c = n) /\ (forall r, get n s = Some r -> s' = s).
Proof.
  intros s n s' c E OK. unfold ensure, resolve in E. destruct (get n s) as [[|c0]|] eqn:G; inversion E; subst.
  - split; [exact OK|]. split; [apply store_le_refl|]. split; [exact G|]. split; [discriminate | reflexivity].
  - split; [exact OK|]. split; [apply store_le_refl|]. split; [apply (proj2 OK n c); exact G|].
    split; [discriminate | reflexivity].
  - split; [apply add_canonical_ok; assumption|]. split; [apply add_rec_le; exact G|].
    split; [apply get_add_rec_same; exact G|]. split; [reflexivity | intros r H; discriminate].
Qed.

Lemma ensure_ok : forall s n, store_ok s -> store_ok (fst (ensure s n)).
Proof. intros s n OK. destruct (ensure s n) as [s' c] eqn:E. apply (ensure_spec _ _ _ _ E OK). Qed.
Lemma ensure_le : forall s n, store_le s (fst (ensure s n)).
Proof.
  intros s n. unfold ensure, resolve. destruct (get n s) as [[|c0]|] eqn:G; cbn [fst]; try apply store_le_refl.
  apply add_rec_le. exact G.
Qed.

(* a name that was used (ensured) is known afterwards, and is canonical if it was new *)
Lemma ensure_registers : forall s n, get n s = None -> get n (fst (ensure s n)) = Some RCanonical.
Proof. intros s n H. rewrite ensure_new by exact H. cbn [fst]. apply get_add_rec_same. exact H. Qed.

(* ---- insert_canonical ---- *)
Lemma insert_canonical_spec : forall s n s' c, insert_canonical s n = inl (s', c) -> store_ok s ->
  store_ok s' /\ store_le s s' /\ c = n /\ get n s' = Some RCanonical.
Proof.
  intros s n s' c E OK. unfold insert_canonical in E. destruct (get n s) as [[|c0]|] eqn:G; inversion E; subst.
  - split; [exact OK|]. split; [apply store_le_refl|]. split; [reflexivity | exact G].
  - split; [apply add_canonical_ok; assumption|]. split; [apply add_rec_le; exact G|].
    split; [reflexivity | apply get_add_rec_same; exact G].
Qed.

Lemma insert_canonical_rejects_alias : forall s n c, get n s = Some (RAlias c) -> insert_canonical s n = inr AlreadyAlias.
Proof. intros s n c H. unfold insert_canonical. rewrite H. reflexivity. Qed.

(* ---- insert_alias ---- *)
Lemma insert_alias_spec : forall s a c s', insert_alias s a c = inl s' -> store_ok s -> get c s = Some RCanonical ->
  store_ok s' /\ store_le s s' /\ get a s' = Some (RAlias c).
Proof.
  intros s a c s' E OK C. unfold insert_alias in E. destruct (get a s) as [[|c0]|] eqn:G; try discriminate.
  - destruct (N.eqb_spec c0 c) as [-> | N]; [|discriminate]. inversion E; subst.
    split; [exact OK|]. split; [apply store_le_refl | exact G].
  - inversion E; subst. split; [apply add_alias_ok; assumption|]. split; [apply add_rec_le; exact G|].
    apply get_add_rec_same. exact G.
Qed.

Lemma insert_alias_rejects_canonical : forall s a c, get a s = Some RCanonical -> insert_alias s a c = inr AlreadyCanonical.
Proof. intros s a c H. unfold insert_alias. rewrite H. reflexivity. Qed.

Lemma insert_alias_rejects_other : forall s a c c', get a s = Some (RAlias c') -> c' <> c ->
  insert_alias s a c = inr ConflictingAlias.
Proof.
  intros s a c c' H N. unfold insert_alias. rewrite H. destruct (N.eqb_spec c' c); [contradiction | reflexivity].
Qed.
