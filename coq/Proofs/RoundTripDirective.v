(* C05 round trip, directives: every non-transaction entry that satisfies wf_entry, printed and
   followed by a blank line, is read back by parse_ledger_entry as the same entry. *)
From Coq Require Import List NArith ZArith Bool Lia Arith.
From Okv Require Import Model.Lit Model.LitSpec Model.Syntax Model.Comb Model.ParseExpr Model.ParseMeta
  Model.ParsePosting Model.ParseTxn Model.ParseDirective Model.ParseLedger Model.Display
  Model.DocGrammar Model.RoundTripSpec
  Proofs.CombSpec Proofs.DocAccept Proofs.DisplayLines Proofs.RoundTripBase Proofs.RoundTripNum.
Import ListNotations.
Open Scope N_scope.

(* ---- texts on one line ---- *)
Lemma no_nl_text : forall s, no_nl s = true -> text s.
Proof. intros s H. exact H. Qed.

Lemma end_trimmed_eq : forall s, end_trimmed s = true -> trim_end s = s.
Proof. intros s H. apply str_eqb_eq. exact H. Qed.

Lemma trimmed_eq : forall s, trimmed s = true -> trim s = s.
Proof. intros s H. apply str_eqb_eq. exact H. Qed.

Lemma trim_sp_cons : forall t, trim (32 :: t) = trim t.
Proof. reflexivity. Qed.

(* what wf_line_text gives *)
Lemma wf_line_text_facts : forall s, wf_line_text s = true ->
  text s /\ trim_end s = s /\ forall k, starts_not is_sp (s ++ 10 :: k).
Proof.
  intros s H. unfold wf_line_text in H. rewrite !andb_true_iff in H. destruct H as [[H1 H2] H3].
  split; [exact H1 |]. split; [apply end_trimmed_eq; exact H2 |].
  intros k. destruct s as [| c s]; [reflexivity |]. simpl in *. apply negb_true_iff in H3. exact H3.
Qed.

(* a line: the text up to the line feed, then the line feed *)
Lemma line_rest_ok : forall s k, text s ->
  (x <- till_line_ending ;; line_ending_or_eof ;;; ret x) (s ++ 10 :: k) = POk s k.
Proof.
  intros s k Hs. unfold bind. rw (till_line_ending_ok s (10 :: k) k Hs (ends_lf k)).
  rw (line_ending_or_eof_ok (10 :: k) k (ends_lf k)). reflexivity.
Qed.

(* ---- include ---- *)
Lemma include_roundtrip : forall fuel path k, wf_line_text path = true ->
  parse_ledger_entry fuel (Display.kw_include ++ path ++ 10 :: 10 :: k) = POk (SInclude path, []) (10 :: k).
Proof.
  intros fuel path k H. destruct (wf_line_text_facts path H) as (Ht & Htr & Hsp).
  change (Display.kw_include ++ path ++ 10 :: 10 :: k)
    with (105 :: 110 :: 99 :: 108 :: 117 :: 100 :: 101 :: [32] ++ path ++ 10 :: 10 :: k).
  change (parse_ledger_entry fuel (105 :: 110 :: 99 :: 108 :: 117 :: 100 :: 101 :: [32] ++ path ++ 10 :: 10 :: k))
    with (pmap (fun e => (e, @nil posting_spans)) include
            (ParseDirective.kw_include ++ [32] ++ path ++ 10 :: 10 :: k)).
  unfold include, pmap, delimited, bind.
  rw literal_app.
  rw (space1_ok [32] (path ++ 10 :: 10 :: k) ltac:(split; [discriminate | reflexivity]) (Hsp (10 :: k))).
  rw (till_line_ending_ok path (10 :: 10 :: k) (10 :: k) Ht (ends_lf _)).
  rw (line_ending_or_eof_ok (10 :: 10 :: k) (10 :: k) (ends_lf _)).
  unfold ret. rewrite Htr. reflexivity.
Qed.

(* ---- end apply tag ---- *)
Lemma end_apply_tag_roundtrip : forall fuel k,
  parse_ledger_entry fuel (kw_end_apply_tag ++ 10 :: 10 :: k) = POk (SEndApplyTag, []) (10 :: k).
Proof. intros. reflexivity. Qed.

(* ---- apply tag ---- *)
Lemma wf_tag_facts : forall t, wf_tag t = true ->
  t <> [] /\ all (fun c => negb (is_ascii_whitespace c || (c =? 58))) t /\
  forall k, starts_not is_sp (t ++ k).
Proof.
  intros t H. unfold wf_tag in H. apply andb_true_iff in H. destruct H as [H1 H2].
  split; [destruct t; [discriminate | discriminate] |]. split; [exact H2 |].
  intros k. destruct t as [| c t]; [discriminate |]. simpl in H2. apply andb_true_iff in H2.
  destruct H2 as [H2 _]. simpl. unfold is_tag_stop, is_ascii_whitespace in H2. unfold is_sp.
  destruct (c =? 32); [discriminate |]. destruct (c =? 9); [discriminate | reflexivity].
Qed.

(* the value of a tag, as printed, followed by the line end *)
Lemma meta_value_roundtrip : forall v k, wf_meta_value v = true ->
  opt metadata_value (print_meta_value v ++ 10 :: k) = POk (Some v) (10 :: k).
Proof.
  intros v k H. apply opt_ok.
  destruct v as [t | t]; cbn [wf_meta_value] in H; apply andb_true_iff in H; destruct H as [Hn Ht];
    apply trimmed_eq in Ht; unfold metadata_value, print_meta_value.
  - (* ": " t *)
    assert (E : pmap (fun x => MExpr (trim x)) (preceded (literal [58; 58]) till_line_ending)
                  (([58; 32] ++ t) ++ 10 :: k) = PErr false 0 (([58; 32] ++ t) ++ 10 :: k))
      by reflexivity.
    rewrite (alt_r _ _ _ _ _ _ E). unfold pmap, preceded, bind.
    cbn [app]. rw chr_ok.
    pose proof (till_line_ending_ok (32 :: t) (10 :: k) k (Hn : text (32 :: t)) (ends_lf k)) as T.
    cbn [app] in T. rw T.
    unfold ret. rewrite trim_sp_cons, Ht. reflexivity.
  - (* ":: " t *)
    apply alt_l. unfold pmap, preceded, bind. cbn [app].
    pose proof (literal_app [58; 58] (32 :: t ++ 10 :: k)) as L. cbn [app] in L. rw L.
    pose proof (till_line_ending_ok (32 :: t) (10 :: k) k (Hn : text (32 :: t)) (ends_lf k)) as T.
    cbn [app] in T. rw T.
    unfold ret. rewrite trim_sp_cons, Ht. reflexivity.
Qed.

Definition print_value (value : option s_meta_value) : str :=
  match value with Some v => print_meta_value v | None => [] end.

Lemma apply_tag_parse : forall key value k, wf_tag key = true -> opt_all wf_meta_value value = true ->
  apply_tag (kw_apply_tag ++ key ++ print_value value ++ 10 :: 10 :: k)
  = POk (SApplyTag key value) (10 :: k).
Proof.
  intros key value k Hk Hv. destruct (wf_tag_facts key Hk) as (Hne & Hall & Hsp).
  set (V := print_value value).
  change (kw_apply_tag ++ key ++ V ++ 10 :: 10 :: k)
    with (kw_apply ++ [32] ++ kw_tag ++ [32] ++ key ++ V ++ 10 :: 10 :: k).
  unfold apply_tag, preceded, delimited, bind.
  rw literal_app.
  rw (space1_ok [32] (kw_tag ++ [32] ++ key ++ V ++ 10 :: 10 :: k)
        ltac:(split; [discriminate | reflexivity]) ltac:(reflexivity)).
  rw literal_app.
  rw (space1_ok [32] (key ++ V ++ 10 :: 10 :: k) ltac:(split; [discriminate | reflexivity]) (Hsp _)).
  assert (Hstop : starts_not (fun c => negb (is_ascii_whitespace c || (c =? 58))) (V ++ 10 :: 10 :: k)).
  { unfold V. destruct value as [[t | t] |]; reflexivity. }
  unfold tag_key. rw (take_till1_ok _ key (V ++ 10 :: 10 :: k) Hne Hall Hstop).
  assert (Hnsp : starts_not is_sp (V ++ 10 :: 10 :: k)).
  { unfold V. destruct value as [[t | t] |]; reflexivity. }
  rw (space0_ok [] (V ++ 10 :: 10 :: k) (all_nil _) Hnsp : space0 (V ++ 10 :: 10 :: k) = _).
  assert (E : opt metadata_value (V ++ 10 :: 10 :: k) = POk value (10 :: 10 :: k)).
  { unfold V. destruct value as [v |].
    - apply meta_value_roundtrip. exact Hv.
    - reflexivity. }
  rw E. rw (line_ending_or_eof_ok (10 :: 10 :: k) (10 :: k) (ends_lf _)). reflexivity.
Qed.

Lemma apply_tag_roundtrip : forall fuel key value k,
  wf_tag key = true -> opt_all wf_meta_value value = true ->
  parse_ledger_entry fuel (kw_apply_tag ++ key ++ print_value value ++ 10 :: 10 :: k)
  = POk (SApplyTag key value, []) (10 :: k).
Proof.
  intros fuel key value k Hk Hv. pose proof (apply_tag_parse key value k Hk Hv) as E.
  set (I := kw_apply_tag ++ key ++ _) in *.
  assert (HI : I = 97 :: 112 :: 112 :: 108 :: 121 :: 32 :: 116 :: 97 :: 103 :: 32 :: key ++
                   print_value value ++ 10 :: 10 :: k)
    by reflexivity.
  rewrite (dispatch_a fuel (112 :: 112 :: 108 :: 121 :: 32 :: 116 :: 97 :: 103 :: 32 :: key ++
                   print_value value ++ 10 :: 10 :: k)
           : parse_ledger_entry fuel I = _).
  rewrite <- HI.
  assert (F : preceded (peek (literal ParseDirective.kw_account))
                (cut_err (pmap (fun e0 => (e0, @nil posting_spans)) (account_declaration fuel))) I =
              PErr false 0 I) by (rewrite HI; reflexivity).
  rewrite (alt_r _ _ _ _ _ _ F). unfold preceded. unfold bind at 1.
  assert (P : peek (literal kw_apply) I = POk kw_apply I) by (rewrite HI; reflexivity).
  rewrite P. apply cut_err_ok. apply (pmap_ok _ _ (fun e0 => (e0, @nil posting_spans))). exact E.
Qed.

(* ---- multi-line texts: multiline_text reads back the lines that line_wrap writes ---- *)
Definition good_line (bad : N -> bool) (l : str) : Prop := no_nl l = true /\ starts bad l = false.

Definition line_parser {A} (pfx : parser A) : parser (list N) :=
  delimited pfx till_line_ending line_ending_or_eof.

Lemma wf_multiline_facts : forall bad s, wf_multiline bad s = true ->
  str_lines s <> [] /\ flat_map (fun l => l ++ [10]) (str_lines s) = s /\
  Forall (good_line bad) (str_lines s).
Proof.
  intros bad s H. unfold wf_multiline in H. rewrite !andb_true_iff in H. destruct H as [[H1 H2] H3].
  split.
  - apply str_lines_nonempty. destruct s; [discriminate | discriminate].
  - split; [apply str_eqb_eq; exact H2 |].
    apply Forall_forall. intros l Hl. rewrite forallb_forall in H3. specialize (H3 l Hl).
    apply andb_true_iff in H3. destruct H3 as [Ha Hb]. split; [exact Ha |]. now apply negb_true_iff in Hb.
Qed.

Section Multiline.
  Context {A : Type}.
  Variable pfx : parser A.
  Variable pre : str.
  Variable bad : N -> bool.
  Hypothesis Hpfx : forall l K, good_line bad l -> exists x, pfx (pre ++ l ++ 10 :: K) = POk x (l ++ 10 :: K).

  Let wrap (ls : list str) : str := flat_map (fun l => pre ++ l ++ [10]) ls.

  Lemma line_parser_line : forall l K, good_line bad l -> line_parser pfx (pre ++ l ++ 10 :: K) = POk l K.
  Proof.
    intros l K Hl. destruct (Hpfx l K Hl) as [x Ex]. unfold line_parser, delimited. unfold bind at 1.
    rewrite Ex. apply line_rest_ok. exact (proj1 Hl).
  Qed.

  Lemma line_parser_loop : forall ls f K, Forall (good_line bad) ls ->
    (exists lbl r, line_parser pfx K = PErr false lbl r) ->
    (length (wrap ls ++ K) <= f)%nat ->
    many0 f (line_parser pfx) (wrap ls ++ K) = POk ls K.
  Proof.
    induction ls as [| l ls IH]; intros f K Hall HK Hlen.
    - destruct HK as (lbl & r & E). exact (many0_stop _ _ _ _ _ _ E).
    - inversion Hall as [| ? ? Hl Hls]; subst.
      unfold wrap in *. cbn [flat_map] in *. rewrite <- !app_assoc in *. cbn [app] in *.
      set (R := flat_map (fun l0 => pre ++ l0 ++ [10]) ls ++ K) in *.
      assert (Hlt : (length R < length (pre ++ l ++ 10%N :: R))%nat).
      { rewrite !app_length. cbn [length]. lia. }
      destruct f as [| f]; [lia |].
      apply (many0_step _ f (line_parser pfx) _ l R ls K).
      + apply line_parser_line. exact Hl.
      + exact Hlt.
      + apply IH; [exact Hls | exact HK | fold R; lia].
  Qed.

  Lemma multiline_ok : forall f s K, wf_multiline bad s = true ->
    (exists lbl r, line_parser pfx K = PErr false lbl r) ->
    (length (line_wrap pre s ++ K) <= f)%nat ->
    multiline_text f pfx (line_wrap pre s ++ K) = POk s K.
  Proof.
    intros f s K Hwf HK Hlen. destruct (wf_multiline_facts bad s Hwf) as (Hne & Hflat & Hall).
    unfold line_wrap in *.
    destruct (str_lines s) as [| l ls]; [congruence |].
    pose proof (Forall_inv Hall) as Hl. pose proof (Forall_inv_tail Hall) as Hls.
    unfold multiline_text, many1. fold (line_parser pfx).
    cbn [flat_map] in Hlen |- *. rewrite <- !app_assoc in Hlen |- *. cbn [app] in Hlen |- *.
    unfold pmap. unfold bind at 1. unfold bind at 1.
    rewrite (line_parser_line l _ Hl).
    unfold bind at 1.
    pose proof (line_parser_loop ls f K Hls HK) as Lp. unfold wrap in Lp. rewrite Lp.
    - unfold ret. f_equal. rewrite <- Hflat. symmetry. apply flat_map_concat_map.
    - rewrite !app_length in Hlen. cbn [length] in Hlen. lia.
  Qed.
End Multiline.

(* ---- top-level comment ---- *)
Lemma comment_prefix_step : forall l K, good_line is_comment_prefix l ->
  exists x, take_while1 is_comment_prefix ([59] ++ l ++ 10 :: K) = POk x (l ++ 10 :: K).
Proof.
  intros l K [_ Hl]. exists [59]. apply take_while1_ok; [discriminate | reflexivity |].
  destruct l as [| c l]; [reflexivity | exact Hl].
Qed.

Lemma top_comment_roundtrip : forall fuel s k, wf_multiline is_comment_prefix s = true ->
  (length (line_wrap [59%N] s ++ 10%N :: k) <= fuel)%nat ->
  parse_ledger_entry fuel (line_wrap [59] s ++ 10 :: k) = POk (SComment s, []) (10 :: k).
Proof.
  intros fuel s k Hwf Hlen.
  assert (E : top_comment fuel (line_wrap [59] s ++ 10 :: k) = POk (SComment s) (10 :: k)).
  { unfold top_comment. apply pmap_ok.
    apply (multiline_ok _ [59] is_comment_prefix comment_prefix_step fuel s (10 :: k) Hwf); [| exact Hlen].
    exists 0, (10 :: k). reflexivity. }
  destruct (wf_multiline_facts _ s Hwf) as (Hne & _ & _).
  unfold line_wrap in *. destruct (str_lines s) as [| l ls]; [congruence |].
  cbn [flat_map] in *. rewrite <- !app_assoc in *. cbn [app] in *.
  change (parse_ledger_entry fuel (59 :: l ++ 10 :: flat_map (fun l0 => 59 :: l0 ++ [10]) ls ++ 10 :: k))
    with (pmap (fun e => (e, @nil posting_spans)) (top_comment fuel)
            (59 :: l ++ 10 :: flat_map (fun l0 => 59 :: l0 ++ [10]) ls ++ 10 :: k)).
  apply (pmap_ok _ _ (fun e => (e, @nil posting_spans))). exact E.
Qed.

(* ---- sub-directives: shared pieces ---- *)
(* an indented line: four blanks, then a character that is not a blank *)
Definition indent (c : N) (r : str) : str := 32 :: 32 :: 32 :: 32 :: c :: r.

(* what follows a sub-directive: the blank line, or another sub-directive whose first
   character after the indentation satisfies P *)
Definition after_indent (P : N -> Prop) (R : str) : Prop :=
  (exists k, R = 10 :: k) \/ (exists c r, R = indent c r /\ is_sp c = false /\ P c).

Definition cpfx : parser (list N) := space1 ;;; take_while1 is_comment_prefix.
Definition npfx : parser (list N) := space1 ;;; literal kw_note ;;; space1.
Definition apfx : parser (list N) := space1 ;;; literal kw_alias ;;; space1.
Definition fpfx : parser (list N) := space1 ;;; literal kw_format ;;; space1.

Definition pre_comment : str := [32; 32; 32; 32; 59].
Definition pre_note : str := [32; 32; 32; 32; 110; 111; 116; 101; 32].
Definition pre_alias : str := [32; 32; 32; 32; 97; 108; 105; 97; 115; 32].
Definition pre_format : str := [32; 32; 32; 32; 102; 111; 114; 109; 97; 116; 32].

Lemma space1_indent : forall c r, is_sp c = false -> space1 (indent c r) = POk [32; 32; 32; 32] (c :: r).
Proof.
  intros c r H. apply (space1_ok [32; 32; 32; 32] (c :: r)); [split; [discriminate | reflexivity] | exact H].
Qed.

Lemma cpfx_fail : forall c r, is_sp c = false -> is_comment_prefix c = false ->
  cpfx (indent c r) = PErr false 0 (c :: r).
Proof.
  intros c r H1 H2. unfold cpfx, bind. rw (space1_indent c r H1).
  apply take_while1_fail. exact H2.
Qed.

(* a keyword prefix fails on a line that starts with another character *)
Lemma kwpfx_fail : forall k0 kw c r, is_sp c = false -> c <> k0 ->
  (space1 ;;; literal (k0 :: kw) ;;; space1) (indent c r) = PErr false 0 (c :: r).
Proof.
  intros k0 kw c r H1 H2. unfold bind. rw (space1_indent c r H1).
  rewrite (literal_fail1 k0 kw (c :: r)); [reflexivity |].
  simpl. apply N.eqb_neq. congruence.
Qed.

Lemma line_parser_fail : forall A (pfx : parser A) i c l r, pfx i = PErr c l r ->
  line_parser pfx i = PErr c l r.
Proof. intros. unfold line_parser, delimited. apply bind_err. exact H. Qed.

Lemma multiline_fail : forall A f (pfx : parser A) i c l r, line_parser pfx i = PErr c l r ->
  multiline_text f pfx i = PErr c l r.
Proof.
  intros. unfold multiline_text, many1. fold (line_parser pfx). apply pmap_err. apply bind_err. exact H.
Qed.

Lemma cpfx_stop : forall R, after_indent (fun c => is_comment_prefix c = false) R ->
  exists lbl r, line_parser cpfx R = PErr false lbl r.
Proof.
  intros R [[k ->] | (c & r & -> & H1 & H2)].
  - exists 0, (10 :: k). reflexivity.
  - exists 0, (c :: r). apply line_parser_fail. apply cpfx_fail; assumption.
Qed.

Lemma npfx_stop : forall R, after_indent (fun c => c <> 110) R ->
  exists lbl r, line_parser npfx R = PErr false lbl r.
Proof.
  intros R [[k ->] | (c & r & -> & H1 & H2)].
  - exists 0, (10 :: k). reflexivity.
  - exists 0, (c :: r). apply line_parser_fail. apply (kwpfx_fail 110 [111; 116; 101]); assumption.
Qed.

Lemma cpfx_step : forall l K, good_line is_comment_prefix l ->
  exists x, cpfx (pre_comment ++ l ++ 10 :: K) = POk x (l ++ 10 :: K).
Proof.
  intros l K [_ Hl]. exists [59]. unfold cpfx, bind.
  change (pre_comment ++ l ++ 10 :: K) with (indent 59 (l ++ 10 :: K)).
  rw (space1_indent 59 (l ++ 10 :: K) eq_refl).
  apply (take_while1_ok is_comment_prefix [59] (l ++ 10 :: K)); [discriminate | reflexivity |].
  destruct l as [| c l]; [reflexivity | exact Hl].
Qed.

Lemma npfx_step : forall l K, good_line is_sp l ->
  exists x, npfx (pre_note ++ l ++ 10 :: K) = POk x (l ++ 10 :: K).
Proof.
  intros l K [_ Hl]. exists [32]. unfold npfx, bind.
  change (pre_note ++ l ++ 10 :: K) with (indent 110 ([111; 116; 101] ++ [32] ++ l ++ 10 :: K)).
  rw (space1_indent 110 ([111; 116; 101] ++ [32] ++ l ++ 10 :: K) eq_refl).
  rw (literal_app kw_note ([32] ++ l ++ 10 :: K) : literal kw_note (110 :: [111; 116; 101] ++ [32] ++ l ++ 10 :: K) = _).
  apply (space1_ok [32] (l ++ 10 :: K)); [split; [discriminate | reflexivity] |].
  destruct l as [| c l]; [reflexivity | exact Hl].
Qed.

Lemma detail_comment_ok : forall fuel v R, wf_multiline is_comment_prefix v = true ->
  after_indent (fun c => is_comment_prefix c = false) R ->
  (length (line_wrap pre_comment v ++ R) <= fuel)%nat ->
  detail_comment fuel (line_wrap pre_comment v ++ R) = POk v R.
Proof.
  intros fuel v R Hv HR Hlen. unfold detail_comment. fold cpfx.
  exact (multiline_ok cpfx pre_comment is_comment_prefix cpfx_step fuel v R Hv (cpfx_stop R HR) Hlen).
Qed.

Lemma detail_note_ok : forall fuel v R, wf_multiline is_sp v = true ->
  after_indent (fun c => c <> 110) R ->
  (length (line_wrap pre_note v ++ R) <= fuel)%nat ->
  detail_note fuel (line_wrap pre_note v ++ R) = POk v R.
Proof.
  intros fuel v R Hv HR Hlen. unfold detail_note. fold npfx.
  exact (multiline_ok npfx pre_note is_sp npfx_step fuel v R Hv (npfx_stop R HR) Hlen).
Qed.

Lemma detail_alias_ok : forall v R, wf_line_text v = true ->
  detail_alias (pre_alias ++ v ++ 10 :: R) = POk v R.
Proof.
  intros v R H. destruct (wf_line_text_facts v H) as (Ht & Htr & Hsp).
  unfold detail_alias. rewrite <- Htr at 2. apply pmap_ok. unfold delimited. unfold bind at 1.
  assert (E : (space1 ;;; literal kw_alias ;;; space1) (pre_alias ++ v ++ 10 :: R) = POk [32] (v ++ 10 :: R)).
  { unfold bind.
    change (pre_alias ++ v ++ 10 :: R) with (indent 97 ([108; 105; 97; 115] ++ [32] ++ v ++ 10 :: R)).
    rw (space1_indent 97 ([108; 105; 97; 115] ++ [32] ++ v ++ 10 :: R) eq_refl).
    rw (literal_app kw_alias ([32] ++ v ++ 10 :: R)
         : literal kw_alias (97 :: [108; 105; 97; 115] ++ [32] ++ v ++ 10 :: R) = _).
    apply (space1_ok [32] (v ++ 10 :: R)); [split; [discriminate | reflexivity] | apply Hsp]. }
  rewrite E. apply line_rest_ok. exact Ht.
Qed.

Lemma detail_comment_fail : forall fuel c r, is_sp c = false -> is_comment_prefix c = false ->
  detail_comment fuel (indent c r) = PErr false 0 (c :: r).
Proof.
  intros. unfold detail_comment. apply multiline_fail, line_parser_fail. apply cpfx_fail; assumption.
Qed.

Lemma detail_note_fail : forall fuel c r, is_sp c = false -> c <> 110 ->
  detail_note fuel (indent c r) = PErr false 0 (c :: r).
Proof.
  intros. unfold detail_note. apply multiline_fail, line_parser_fail.
  apply (kwpfx_fail 110 [111; 116; 101]); assumption.
Qed.

Lemma detail_alias_fail : forall c r, is_sp c = false -> c <> 97 ->
  detail_alias (indent c r) = PErr false 0 (c :: r).
Proof.
  intros. unfold detail_alias. apply pmap_err. apply (line_parser_fail _ (space1 ;;; literal kw_alias ;;; space1)).
  apply (kwpfx_fail 97 [108; 105; 97; 115]); assumption.
Qed.

(* a wrapped text starts with its prefix *)
Lemma line_wrap_head : forall bad v p X, wf_multiline bad v = true ->
  exists r, line_wrap p v ++ X = p ++ r.
Proof.
  intros bad v p X H. destruct (wf_multiline_facts bad v H) as (Hne & _ & _).
  unfold line_wrap. destruct (str_lines v) as [| l ls]; [congruence |].
  cbn [flat_map]. rewrite <- !app_assoc. eauto.
Qed.

Lemma line_wrap_length : forall bad v p, wf_multiline bad v = true -> (0 < length (line_wrap p v))%nat.
Proof.
  intros bad v p H. destruct (wf_multiline_facts bad v H) as (Hne & _ & _).
  unfold line_wrap. destruct (str_lines v) as [| l ls]; [congruence |].
  cbn [flat_map]. rewrite !app_length. cbn [length]. lia.
Qed.

(* ---- account declaration ---- *)
Definition ad_body (fuel : nat) : parser s_account_detail :=
  alt (pmap ADComment (detail_comment fuel))
      (alt (pmap ADNote (detail_note fuel)) (pmap ADAlias detail_alias)).

Definition ad_head (d : s_account_detail) : N :=
  match d with ADComment _ => 59 | ADNote _ => 110 | ADAlias _ => 97 end.

Definition ad_tail (d : s_account_detail) (R : str) : Prop :=
  match d with
  | ADComment _ => after_indent (fun c => is_comment_prefix c = false) R
  | ADNote _ => after_indent (fun c => c <> 110) R
  | ADAlias _ => True
  end.

Lemma ad_print_head : forall d X, wf_account_detail d = true ->
  exists r, print_account_detail d ++ X = indent (ad_head d) r.
Proof.
  intros [v | v | v] X H; cbn [wf_account_detail print_account_detail ad_head] in *.
  - destruct (line_wrap_head _ v pre_comment X H) as [r E]. exists r. exact E.
  - destruct (line_wrap_head _ v pre_note X H) as [r E]. exists ([111; 116; 101; 32] ++ r). exact E.
  - exists ([108; 105; 97; 115; 32] ++ v ++ [10] ++ X). rewrite <- !app_assoc. reflexivity.
Qed.

Lemma ad_print_length : forall d, wf_account_detail d = true -> (0 < length (print_account_detail d))%nat.
Proof.
  intros [v | v | v] H; cbn [wf_account_detail print_account_detail] in *.
  - exact (line_wrap_length _ v _ H).
  - exact (line_wrap_length _ v _ H).
  - cbn [app length]. lia.
Qed.

Lemma ad_tail_of : forall d ds k, forallb wf_account_detail ds = true ->
  no_adjacent ad_merges (d :: ds) = true ->
  ad_tail d (flat_map print_account_detail ds ++ 10 :: k).
Proof.
  intros d [| d' ds] k Hwf Hadj.
  - destruct d; cbn [ad_tail]; try exact I; left; exists k; reflexivity.
  - cbn [forallb] in Hwf. apply andb_true_iff in Hwf. destruct Hwf as [Hd' _].
    cbn [no_adjacent] in Hadj. apply andb_true_iff in Hadj. destruct Hadj as [Hm _].
    apply negb_true_iff in Hm.
    cbn [flat_map]. rewrite <- app_assoc.
    destruct (ad_print_head d' (flat_map print_account_detail ds ++ 10 :: k) Hd') as [r E]. rewrite E.
    destruct d, d'; cbn [ad_tail ad_merges ad_head] in *; try discriminate; try exact I;
      right; eexists _, r; (split; [reflexivity |]); (split; [reflexivity |]); try reflexivity; discriminate.
Qed.

Lemma ad_body_stop : forall fuel k, ad_body fuel (10 :: k) = PErr false 0 (10 :: k).
Proof. intros. reflexivity. Qed.

Lemma ad_body_step : forall fuel d R, wf_account_detail d = true -> ad_tail d R ->
  (length (print_account_detail d ++ R) <= fuel)%nat ->
  ad_body fuel (print_account_detail d ++ R) = POk d R.
Proof.
  intros fuel [v | v | v] R Hwf HR Hlen; cbn [wf_account_detail print_account_detail ad_tail] in *; unfold ad_body.
  - apply alt_l. apply pmap_ok. exact (detail_comment_ok fuel v R Hwf HR Hlen).
  - destruct (line_wrap_head _ v pre_note R Hwf) as [r E].
    assert (F : pmap ADComment (detail_comment fuel) (line_wrap pre_note v ++ R) =
                PErr false 0 (110 :: [111; 116; 101; 32] ++ r)).
    { apply pmap_err. rewrite E. apply (detail_comment_fail fuel 110); reflexivity. }
    rewrite (alt_r _ _ _ _ _ _ F). apply alt_l. apply pmap_ok.
    exact (detail_note_ok fuel v R Hwf HR Hlen).
  - set (I := [32; 32; 32; 32; 97; 108; 105; 97; 115; 32] ++ v ++ [10]).
    assert (EI : I ++ R = indent 97 ([108; 105; 97; 115; 32] ++ v ++ 10 :: R)).
    { unfold I. rewrite <- !app_assoc. reflexivity. }
    assert (F1 : pmap ADComment (detail_comment fuel) (I ++ R) = PErr false 0 (97 :: [108; 105; 97; 115; 32] ++ v ++ 10 :: R)).
    { apply pmap_err. rewrite EI. apply (detail_comment_fail fuel 97); reflexivity. }
    rewrite (alt_r _ _ _ _ _ _ F1).
    assert (F2 : pmap ADNote (detail_note fuel) (I ++ R) = PErr false 0 (97 :: [108; 105; 97; 115; 32] ++ v ++ 10 :: R)).
    { apply pmap_err. rewrite EI. apply (detail_note_fail fuel 97); [reflexivity | discriminate]. }
    rewrite (alt_r _ _ _ _ _ _ F2). apply pmap_ok.
    rewrite EI. exact (detail_alias_ok v R Hwf).
Qed.

Lemma ad_loop : forall fuel ds f k, forallb wf_account_detail ds = true ->
  no_adjacent ad_merges ds = true ->
  (length (flat_map print_account_detail ds ++ 10%N :: k) <= f)%nat ->
  (length (flat_map print_account_detail ds ++ 10%N :: k) <= fuel)%nat ->
  many0 f (ad_body fuel) (flat_map print_account_detail ds ++ 10 :: k) = POk ds (10 :: k).
Proof.
  intros fuel. induction ds as [| d ds IH]; intros f k Hwf Hadj Hf Hfuel.
  - exact (many0_stop _ _ _ _ _ _ (ad_body_stop fuel k)).
  - pose proof (ad_tail_of d ds k) as HT.
    cbn [forallb] in Hwf. apply andb_true_iff in Hwf. destruct Hwf as [Hd Hds].
    specialize (HT Hds Hadj).
    assert (Hadj' : no_adjacent ad_merges ds = true).
    { destruct ds as [| d' ds']; [reflexivity |]. cbn [no_adjacent] in Hadj.
      apply andb_true_iff in Hadj. tauto. }
    cbn [flat_map] in *. rewrite <- app_assoc in *.
    set (R := flat_map print_account_detail ds ++ 10 :: k) in *.
    pose proof (ad_print_length d Hd) as Hpos.
    rewrite app_length in Hf, Hfuel.
    destruct f as [| f]; [lia |].
    apply (many0_step _ f (ad_body fuel) _ d R ds (10 :: k)).
    + apply ad_body_step; [exact Hd | exact HT | rewrite app_length; lia].
    + rewrite app_length. lia.
    + apply IH; [exact Hds | exact Hadj' | fold R; lia | fold R; lia].
Qed.

Lemma account_declaration_parse : forall fuel name ds k, wf_line_text name = true ->
  forallb wf_account_detail ds = true -> no_adjacent ad_merges ds = true ->
  (length (flat_map print_account_detail ds ++ 10%N :: k) <= fuel)%nat ->
  account_declaration fuel (Display.kw_account ++ name ++ [10] ++ flat_map print_account_detail ds ++ 10 :: k)
  = POk (SAccount name ds) (10 :: k).
Proof.
  intros fuel name ds k Hn Hwf Hadj Hlen. destruct (wf_line_text_facts name Hn) as (Ht & Htr & Hsp).
  set (R := flat_map print_account_detail ds ++ 10 :: k) in *.
  change (Display.kw_account ++ name ++ [10] ++ R) with (ParseDirective.kw_account ++ [32] ++ name ++ 10 :: R).
  unfold account_declaration. fold (ad_body fuel). unfold delimited, bind.
  rw literal_app.
  rw (space1_ok [32] (name ++ 10 :: R) ltac:(split; [discriminate | reflexivity]) (Hsp R)).
  rw (till_line_ending_ok name (10 :: R) R Ht (ends_lf R)).
  rw (line_ending_or_eof_ok (10 :: R) R (ends_lf R)). unfold ret at 1.
  unfold R. rw (ad_loop fuel ds fuel k Hwf Hadj Hlen Hlen). unfold ret. rewrite Htr. reflexivity.
Qed.

Lemma account_roundtrip : forall fuel name ds k, wf_line_text name = true ->
  forallb wf_account_detail ds = true -> no_adjacent ad_merges ds = true ->
  (length (flat_map print_account_detail ds ++ 10%N :: k) <= fuel)%nat ->
  parse_ledger_entry fuel (Display.kw_account ++ name ++ [10] ++ flat_map print_account_detail ds ++ 10 :: k)
  = POk (SAccount name ds, []) (10 :: k).
Proof.
  intros fuel name ds k Hn Hwf Hadj Hlen.
  pose proof (account_declaration_parse fuel name ds k Hn Hwf Hadj Hlen) as E.
  set (T := name ++ [10] ++ flat_map print_account_detail ds ++ 10 :: k) in *.
  set (I := Display.kw_account ++ T) in *.
  assert (HI : I = 97 :: 99 :: 99 :: 111 :: 117 :: 110 :: 116 :: 32 :: T) by reflexivity.
  rewrite (dispatch_a fuel (99 :: 99 :: 111 :: 117 :: 110 :: 116 :: 32 :: T) : parse_ledger_entry fuel I = _).
  rewrite <- HI. apply alt_l. unfold preceded. unfold bind at 1.
  assert (P : peek (literal ParseDirective.kw_account) I = POk ParseDirective.kw_account I)
    by (rewrite HI; reflexivity).
  rewrite P. apply cut_err_ok. apply (pmap_ok _ _ (fun e0 => (e0, @nil posting_spans))). exact E.
Qed.

(* ---- commodity declaration ---- *)
Definition format_parser : parser s_amount :=
  delimited (space1 ;;; literal kw_format ;;; space1) amount line_ending_or_eof.

Definition cd_body (fuel : nat) : parser s_commodity_detail :=
  alt (pmap CDComment (detail_comment fuel))
      (alt (pmap CDNote (detail_note fuel))
           (alt (pmap CDAlias detail_alias) (pmap CDFormat format_parser))).

Definition cd_head (d : s_commodity_detail) : N :=
  match d with CDComment _ => 59 | CDNote _ => 110 | CDAlias _ => 97 | CDFormat _ => 102 end.

Definition cd_tail (d : s_commodity_detail) (R : str) : Prop :=
  match d with
  | CDComment _ => after_indent (fun c => is_comment_prefix c = false) R
  | CDNote _ => after_indent (fun c => c <> 110) R
  | _ => True
  end.

Lemma cd_print_head : forall d X, wf_commodity_detail d = true ->
  exists r, print_commodity_detail d ++ X = indent (cd_head d) r.
Proof.
  intros [v | v | v | a] X H; cbn [wf_commodity_detail print_commodity_detail cd_head] in *.
  - destruct (line_wrap_head _ v pre_comment X H) as [r E]. exists r. exact E.
  - destruct (line_wrap_head _ v pre_note X H) as [r E]. exists ([111; 116; 101; 32] ++ r). exact E.
  - exists ([108; 105; 97; 115; 32] ++ v ++ [10] ++ X). rewrite <- !app_assoc. reflexivity.
  - exists ([111; 114; 109; 97; 116; 32] ++ fst (fmt_amount a) ++ [10] ++ X). rewrite <- !app_assoc. reflexivity.
Qed.

Lemma cd_print_length : forall d, wf_commodity_detail d = true -> (0 < length (print_commodity_detail d))%nat.
Proof.
  intros [v | v | v | a] H; cbn [wf_commodity_detail print_commodity_detail] in *.
  - exact (line_wrap_length _ v _ H).
  - exact (line_wrap_length _ v _ H).
  - cbn [app length]. lia.
  - cbn [app length]. lia.
Qed.

Lemma cd_tail_of : forall d ds k, forallb wf_commodity_detail ds = true ->
  no_adjacent cd_merges (d :: ds) = true ->
  cd_tail d (flat_map print_commodity_detail ds ++ 10 :: k).
Proof.
  intros d [| d' ds] k Hwf Hadj.
  - destruct d; cbn [cd_tail]; try exact I; left; exists k; reflexivity.
  - cbn [forallb] in Hwf. apply andb_true_iff in Hwf. destruct Hwf as [Hd' _].
    cbn [no_adjacent] in Hadj. apply andb_true_iff in Hadj. destruct Hadj as [Hm _].
    apply negb_true_iff in Hm.
    cbn [flat_map]. rewrite <- app_assoc.
    destruct (cd_print_head d' (flat_map print_commodity_detail ds ++ 10 :: k) Hd') as [r E]. rewrite E.
    destruct d, d'; cbn [cd_tail cd_merges cd_head] in *; try discriminate; try exact I;
      right; eexists _, r; (split; [reflexivity |]); (split; [reflexivity |]); try reflexivity; discriminate.
Qed.

Lemma cd_body_stop : forall fuel k, cd_body fuel (10 :: k) = PErr false 0 (10 :: k).
Proof. intros. reflexivity. Qed.

(* the printed amount does not start with a blank *)
Lemma fmt_amount_not_sp : forall a K, starts_not is_sp (fst (fmt_amount a) ++ K).
Proof.
  intros a K. unfold fmt_amount, rescale.
  destruct (show_shape (sa_value a)) as (c & body & Hs & Hc & _).
  assert (Hc' : is_sp c = false).
  { unfold is_sp. destruct (N.eqb_spec c 32); [subst; discriminate |].
    destruct (N.eqb_spec c 9); [subst; discriminate | reflexivity]. }
  destruct (sa_commodity a); cbn [fst]; rewrite Hs; destruct (neg (sa_value a)); cbn [app starts_not];
    first [exact Hc' | reflexivity].
Qed.

Lemma format_ok : forall a R, wf_amount a = true ->
  exists a', format_parser (pre_format ++ fst (fmt_amount a) ++ [10] ++ R) = POk a' R /\ same_amount a a'.
Proof.
  intros a R H.
  assert (F : follow_amount a (10 :: R)).
  { unfold follow_amount. destruct (sa_commodity a); [split |]; reflexivity. }
  assert (ER : rest_amount a (10 :: R) = 10 :: R).
  { unfold rest_amount. destruct (sa_commodity a); reflexivity. }
  destruct (amount_fmt a (10 :: R) H F) as (a' & E & S). rewrite ER in E.
  exists a'. split; [| exact S].
  set (T := fst (fmt_amount a)) in *.
  unfold format_parser, delimited. unfold bind at 1.
  assert (P : (space1 ;;; literal kw_format ;;; space1) (pre_format ++ T ++ [10] ++ R) = POk [32] (T ++ 10 :: R)).
  { unfold bind.
    change (pre_format ++ T ++ [10] ++ R) with (indent 102 ([111; 114; 109; 97; 116] ++ [32] ++ T ++ 10 :: R)).
    rw (space1_indent 102 ([111; 114; 109; 97; 116] ++ [32] ++ T ++ 10 :: R) eq_refl).
    rw (literal_app kw_format ([32] ++ T ++ 10 :: R)
         : literal kw_format (102 :: [111; 114; 109; 97; 116] ++ [32] ++ T ++ 10 :: R) = _).
    apply (space1_ok [32] (T ++ 10 :: R)); [split; [discriminate | reflexivity] |].
    apply fmt_amount_not_sp. }
  rewrite P. unfold bind. rw E. rw (line_ending_or_eof_ok (10 :: R) R (ends_lf R)). reflexivity.
Qed.

Lemma same_cd_refl : forall d, (match d with CDFormat _ => False | _ => True end) -> same_commodity_detail d d.
Proof. intros [v | v | v | a] H; try reflexivity. contradiction. Qed.

Lemma cd_body_step : forall fuel d R, wf_commodity_detail d = true -> cd_tail d R ->
  (length (print_commodity_detail d ++ R) <= fuel)%nat ->
  exists d', cd_body fuel (print_commodity_detail d ++ R) = POk d' R /\ same_commodity_detail d d'.
Proof.
  intros fuel [v | v | v | a] R Hwf HR Hlen; cbn [wf_commodity_detail print_commodity_detail cd_tail] in *;
    unfold cd_body.
  - exists (CDComment v). split; [| reflexivity].
    apply alt_l. apply pmap_ok. exact (detail_comment_ok fuel v R Hwf HR Hlen).
  - exists (CDNote v). split; [| reflexivity].
    destruct (line_wrap_head _ v pre_note R Hwf) as [r E].
    assert (F : pmap CDComment (detail_comment fuel) (line_wrap pre_note v ++ R) =
                PErr false 0 (110 :: [111; 116; 101; 32] ++ r)).
    { apply pmap_err. rewrite E. apply (detail_comment_fail fuel 110); reflexivity. }
    rewrite (alt_r _ _ _ _ _ _ F). apply alt_l. apply pmap_ok.
    exact (detail_note_ok fuel v R Hwf HR Hlen).
  - exists (CDAlias v). split; [| reflexivity].
    set (I := [32; 32; 32; 32; 97; 108; 105; 97; 115; 32] ++ v ++ [10]).
    assert (EI : I ++ R = indent 97 ([108; 105; 97; 115; 32] ++ v ++ 10 :: R)).
    { unfold I. rewrite <- !app_assoc. reflexivity. }
    assert (F1 : pmap CDComment (detail_comment fuel) (I ++ R) = PErr false 0 (97 :: [108; 105; 97; 115; 32] ++ v ++ 10 :: R)).
    { apply pmap_err. rewrite EI. apply (detail_comment_fail fuel 97); reflexivity. }
    rewrite (alt_r _ _ _ _ _ _ F1).
    assert (F2 : pmap CDNote (detail_note fuel) (I ++ R) = PErr false 0 (97 :: [108; 105; 97; 115; 32] ++ v ++ 10 :: R)).
    { apply pmap_err. rewrite EI. apply (detail_note_fail fuel 97); [reflexivity | discriminate]. }
    rewrite (alt_r _ _ _ _ _ _ F2). apply alt_l. apply pmap_ok.
    rewrite EI. exact (detail_alias_ok v R Hwf).
  - destruct (format_ok a R Hwf) as (a' & E & S).
    exists (CDFormat a'). split; [| exact S].
    set (T := fst (fmt_amount a)) in *.
    set (I := [32; 32; 32; 32; 102; 111; 114; 109; 97; 116; 32] ++ T ++ [10]).
    assert (EI : I ++ R = indent 102 ([111; 114; 109; 97; 116; 32] ++ T ++ 10 :: R)).
    { unfold I. rewrite <- !app_assoc. reflexivity. }
    assert (F1 : pmap CDComment (detail_comment fuel) (I ++ R) = PErr false 0 (102 :: [111; 114; 109; 97; 116; 32] ++ T ++ 10 :: R)).
    { apply pmap_err. rewrite EI. apply (detail_comment_fail fuel 102); reflexivity. }
    rewrite (alt_r _ _ _ _ _ _ F1).
    assert (F2 : pmap CDNote (detail_note fuel) (I ++ R) = PErr false 0 (102 :: [111; 114; 109; 97; 116; 32] ++ T ++ 10 :: R)).
    { apply pmap_err. rewrite EI. apply (detail_note_fail fuel 102); [reflexivity | discriminate]. }
    rewrite (alt_r _ _ _ _ _ _ F2).
    assert (F3 : pmap CDAlias detail_alias (I ++ R) = PErr false 0 (102 :: [111; 114; 109; 97; 116; 32] ++ T ++ 10 :: R)).
    { apply pmap_err. rewrite EI. apply (detail_alias_fail 102); [reflexivity | discriminate]. }
    rewrite (alt_r _ _ _ _ _ _ F3). apply pmap_ok.
    unfold I. rewrite <- !app_assoc. exact E.
Qed.

Lemma cd_loop : forall fuel ds f k, forallb wf_commodity_detail ds = true ->
  no_adjacent cd_merges ds = true ->
  (length (flat_map print_commodity_detail ds ++ 10%N :: k) <= f)%nat ->
  (length (flat_map print_commodity_detail ds ++ 10%N :: k) <= fuel)%nat ->
  exists ds', many0 f (cd_body fuel) (flat_map print_commodity_detail ds ++ 10 :: k) = POk ds' (10 :: k) /\
              Forall2 same_commodity_detail ds ds'.
Proof.
  intros fuel. induction ds as [| d ds IH]; intros f k Hwf Hadj Hf Hfuel.
  - exists []. split; [| constructor]. exact (many0_stop _ _ _ _ _ _ (cd_body_stop fuel k)).
  - pose proof (cd_tail_of d ds k) as HT.
    cbn [forallb] in Hwf. apply andb_true_iff in Hwf. destruct Hwf as [Hd Hds].
    specialize (HT Hds Hadj).
    assert (Hadj' : no_adjacent cd_merges ds = true).
    { destruct ds as [| d' ds']; [reflexivity |]. cbn [no_adjacent] in Hadj.
      apply andb_true_iff in Hadj. tauto. }
    cbn [flat_map] in *. rewrite <- app_assoc in *.
    set (R := flat_map print_commodity_detail ds ++ 10 :: k) in *.
    pose proof (cd_print_length d Hd) as Hpos.
    rewrite app_length in Hf, Hfuel.
    destruct f as [| f]; [lia |].
    destruct (cd_body_step fuel d R Hd HT ltac:(rewrite app_length; lia)) as (d' & Ed & Sd).
    destruct (IH f k Hds Hadj' ltac:(fold R; lia) ltac:(fold R; lia)) as (ds' & Eds & Sds).
    exists (d' :: ds'). split; [| constructor; assumption].
    apply (many0_step _ f (cd_body fuel) _ d' R ds' (10 :: k)).
    + exact Ed.
    + rewrite app_length. lia.
    + exact Eds.
Qed.

Lemma commodity_roundtrip : forall fuel name ds k, wf_line_text name = true ->
  forallb wf_commodity_detail ds = true -> no_adjacent cd_merges ds = true ->
  (length (flat_map print_commodity_detail ds ++ 10%N :: k) <= fuel)%nat ->
  exists ds',
    parse_ledger_entry fuel (Display.kw_commodity ++ name ++ [10] ++ flat_map print_commodity_detail ds ++ 10 :: k)
    = POk (SCommodity name ds', []) (10 :: k) /\ Forall2 same_commodity_detail ds ds'.
Proof.
  intros fuel name ds k Hn Hwf Hadj Hlen. destruct (wf_line_text_facts name Hn) as (Ht & Htr & Hsp).
  destruct (cd_loop fuel ds fuel k Hwf Hadj Hlen Hlen) as (ds' & Eds & Sds).
  exists ds'. split; [| exact Sds].
  set (R := flat_map print_commodity_detail ds ++ 10 :: k) in *.
  assert (E : commodity_declaration fuel (ParseDirective.kw_commodity ++ [32] ++ name ++ 10 :: R)
              = POk (SCommodity name ds') (10 :: k)).
  { unfold commodity_declaration. fold format_parser. fold (cd_body fuel). unfold delimited, bind.
    rw literal_app.
    rw (space1_ok [32] (name ++ 10 :: R) ltac:(split; [discriminate | reflexivity]) (Hsp R)).
    rw (till_line_ending_ok name (10 :: R) R Ht (ends_lf R)).
    rw (line_ending_or_eof_ok (10 :: R) R (ends_lf R)). unfold ret at 1.
    rw Eds. unfold ret. rewrite Htr. reflexivity. }
  change (Display.kw_commodity ++ name ++ [10] ++ R)
    with (99 :: 111 :: 109 :: 109 :: 111 :: 100 :: 105 :: 116 :: 121 :: [32] ++ name ++ 10 :: R).
  rewrite dispatch_c.
  apply (pmap_ok _ _ (fun e0 => (e0, @nil posting_spans))). exact E.
Qed.

(* ---- every directive ---- *)
Theorem directive_roundtrip : forall (w : str -> nat) fuel e k,
  wf_entry e = true -> (match e with STxn _ => False | _ => True end) ->
  (length (print_entry w e ++ 10%N :: k) <= fuel)%nat ->
  exists e', parse_ledger_entry fuel (print_entry w e ++ 10 :: k) = POk (e', []) (10 :: k) /\ same_entry e e'.
Proof.
  intros w fuel [t | s | key value | | path | name ds | name ds] k Hwf Hnt Hlen;
    cbn [wf_entry print_entry] in *.
  - contradiction.
  - exists (SComment s). split; [| reflexivity]. apply top_comment_roundtrip; assumption.
  - exists (SApplyTag key value). split; [| reflexivity].
    apply andb_true_iff in Hwf. destruct Hwf as [Hk Hv].
    rewrite <- !app_assoc. exact (apply_tag_roundtrip fuel key value k Hk Hv).
  - exists SEndApplyTag. split; [| reflexivity]. rewrite <- !app_assoc. exact (end_apply_tag_roundtrip fuel k).
  - exists (SInclude path). split; [| reflexivity]. rewrite <- !app_assoc.
    exact (include_roundtrip fuel path k Hwf).
  - exists (SAccount name ds). split; [| reflexivity].
    rewrite !andb_true_iff in Hwf. destruct Hwf as [[Hn Hds] Hadj].
    rewrite <- !app_assoc in Hlen |- *.
    apply account_roundtrip; try assumption.
    rewrite !app_length in Hlen. rewrite app_length. lia.
  - rewrite !andb_true_iff in Hwf. destruct Hwf as [[Hn Hds] Hadj].
    rewrite <- !app_assoc in Hlen |- *.
    destruct (commodity_roundtrip fuel name ds k Hn Hds Hadj) as (ds' & E & S).
    { rewrite !app_length in Hlen. rewrite app_length. lia. }
    exists (SCommodity name ds'). split; [exact E |]. split; [reflexivity | exact S].
Qed.

Print Assumptions directive_roundtrip.
