//! C12 (placeholder until the generator lands)
use crate::Opts;
pub fn run(_o: &Opts) {}
