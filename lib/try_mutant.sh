#!/bin/sh
# usage: lib/try_mutant.sh <scratch-worktree-of-repo> <patch.diff> <Cxx> [more Cxx...]
# applies the patch in the scratch worktree, runs the checks against it (OKV_REPO), reverts.
W="$1"; P="$2"; shift 2
git -C "$W" checkout -q -- . && git -C "$W" apply "$P" || { echo "patch does not apply"; exit 2; }
for c in "$@"; do
  OKV_REPO="$W" OKV_NO_SEARCH="${OKV_NO_SEARCH:-}" /verif/check "$c" 2>&1 | grep -E "VIOLATION|KNOWN|tier:|BROKEN" | head -4
  echo "  -> $c exit=$?"
done
git -C "$W" checkout -q -- .
