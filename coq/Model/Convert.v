(* Model of report::query::Ledger::balance with `conversion: Some(..)` and of Ledger::eval
   with an exchange commodity (core/src/report/query.rs), on top of Model/PriceDb.v.
   Follows the code as repaired by the fix: commit recorded for C10 in known_findings.json
   (the date-ranged up-to-date report no longer rounds in the source commodities). *)
From Coq Require Import List NArith ZArith Bool QArith Qcanon.
From Okv Require Import Base.Maps Base.Dec Model.Amount Model.Book Model.Query Model.PriceDb.
Import ListNotations.
Open Scope Qc_scope.

Inductive strategy := Historical | UpToDate (now : Z).
Record conversion := { cv_strategy : strategy; cv_target : cid }.

Definition cbind {A B} (x : conv_outcome A) (f : A -> conv_outcome B) : conv_outcome B :=
  match x with COk a => f a | CErr e => CErr e | COutOfFuel => COutOfFuel end.

Section Conv.
  Variable fuel : nat.
  Variable choose : chooser.
  Variable recs : records.

  Definition conv (a : amount) (target : cid) (date : Z) : conv_outcome amount :=
    convert_amount fuel choose recs a target date.

  (* the posting loop of the re-fold: `delta` is the posting's amount, converted at the
     transaction date for a historical report *)
  Fixpoint refold_posts (hist : option cid) (date : Z) (ps : list oposting) (b : balance) : conv_outcome balance :=
    match ps with
    | [] => COk b
    | p :: r =>
        cbind (match hist with
               | Some target => conv (o_amount p) target date
               | None => COk (o_amount p)
               end)
              (fun delta => refold_posts hist date r (bal_add_amount b (o_account p) delta))
    end.

  Fixpoint refold_txns (hist : option cid) (start end_ : option Z) (ts : list otxn) (b : balance) : conv_outcome balance :=
    match ts with
    | [] => COk b
    | t :: r =>
        if range_contains start end_ (o_date t)
        then cbind (refold_posts hist (o_date t) (o_posts t) b) (fun b' => refold_txns hist start end_ r b')
        else refold_txns hist start end_ r b
    end.

  (* `for (account, original_amount) in balance.iter() { converted.add_amount(..convert_amount(.., now)?) }` *)
  Fixpoint convert_accounts (target : cid) (now : Z) (b : balance) (acc : balance) : conv_outcome balance :=
    match b with
    | [] => COk acc
    | (a, amt) :: r =>
        cbind (conv amt target now) (fun x => convert_accounts target now r (bal_add_amount acc a x))
    end.

  Definition require_recompute (cv : option conversion) (start end_ : option Z) : bool :=
    negb (range_bypass start end_)
    || match cv with Some {| cv_strategy := Historical |} => true | _ => false end.

  Definition is_up_to_date (cv : option conversion) : bool :=
    match cv with Some {| cv_strategy := UpToDate _ |} => true | _ => false end.

  (* Ledger::balance *)
  Definition balance_query (s : bstate) (cv : option conversion) (start end_ : option Z) : conv_outcome balance :=
    cbind (if negb (require_recompute cv start end_) then COk (s_bal s)
           else
             let hist := match cv with
                         | Some {| cv_strategy := Historical; cv_target := t |} => Some t
                         | _ => None
                         end in
             cbind (refold_txns hist start end_ (s_txns s) [])
                   (fun b => COk (if is_up_to_date cv then b else bal_round (s_fmt s) b)))
          (fun balance =>
             match cv with
             | Some {| cv_strategy := UpToDate now; cv_target := target |} =>
                 cbind (convert_accounts target now balance [])
                       (fun converted => COk (bal_round (s_fmt s) converted))
             | _ => COk balance
             end).

  (* Ledger::eval on an expression already evaluated to `a` *)
  Definition eval_exchange (a : amount) (exchange : option cid) (date : Z) : conv_outcome amount :=
    match exchange with
    | None => COk a
    | Some t => conv a t date
    end.
End Conv.
