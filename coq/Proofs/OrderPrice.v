(* C13: conversion rates.  The rate table of compute_price_table is the same for every pop order
   of the heap and every iteration order of the two record maps, unless two optimal chains
   (same Distance) have different rates. *)
From Coq Require Import List NArith ZArith Bool QArith Qcanon Lia.
From Okv Require Import Base.Maps Base.Dec Model.Amount Model.Book Model.PriceDb Model.PriceSpec Model.OrderSpec
     Proofs.MapsSort Proofs.OrderMaps Proofs.PriceProofs Proofs.PriceGraph Proofs.PriceTable Proofs.PriceMain.
Import ListNotations.
Open Scope Qc_scope.

Lemma rec_equiv_sym r r' : rec_equiv r r' -> rec_equiv r' r.
Proof.
  intros [A [B C]]. split; [exact B|split; [exact A|]]. intros w. specialize (C w).
  destruct (get w r), (get w r'); try contradiction; [apply map_equiv_sym, C|exact I].
Qed.

(* the same edges leave every commodity *)
Lemma out_edges_equiv recs recs' date a e : rec_equiv recs recs' ->
  In e (out_edges recs date a) -> In e (out_edges recs' date a).
Proof.
  intros [_ [_ H]]. specialize (H a). unfold out_edges.
  destruct (get a recs) as [i|], (get a recs') as [i'|]; try contradiction.
  rewrite !in_omap. intros [x [Hx Hf]]. exists x. split; [|exact Hf]. eapply map_equiv_in; eauto.
Qed.

Lemma out_edges_same recs recs' date : rec_equiv recs recs' ->
  forall a e, In e (out_edges recs date a) <-> In e (out_edges recs' date a).
Proof.
  intros H a e. split; apply out_edges_equiv; [exact H|apply rec_equiv_sym, H].
Qed.

Lemma best_equiv recs recs' date target c : rec_equiv recs recs' -> c <> target ->
  best (out_edges recs date) (length (rec_comms recs)) target c =
  best (out_edges recs' date) (length (rec_comms recs')) target c.
Proof.
  intros H Hct.
  apply (best_same (out_edges recs date) (out_edges recs' date) (out_edges_same recs recs' date H)
                   (rec_comms recs) (rec_comms recs')
                   (out_edges_in_rec_comms recs date) (out_edges_in_rec_comms recs' date) target c Hct).
Qed.

Lemma best_rates_equiv recs recs' date target c r : rec_equiv recs recs' -> c <> target ->
  In r (best_rates (out_edges recs date) (length (rec_comms recs)) target c) ->
  In r (best_rates (out_edges recs' date) (length (rec_comms recs')) target c).
Proof.
  intros H Hct.
  apply (best_rates_same (out_edges recs date) (out_edges recs' date) (out_edges_same recs recs' date H)
                         (rec_comms recs) (rec_comms recs')
                         (out_edges_in_rec_comms recs date) (out_edges_in_rec_comms recs' date) target c r Hct).
Qed.

(* the label of c is the same in both tables: same distance, same rate, or absent in both *)
Theorem table_determined_without_ties recs recs' date target c choose choose' fuel fuel' t t' :
  rec_equiv recs recs' -> c <> target -> tie_free recs date target c ->
  price_table fuel choose recs target date = PTDone t ->
  price_table fuel' choose' recs' target date = PTDone t' ->
  get c t = get c t'.
Proof.
  intros H Hct Hfree HT HT'.
  destruct (table_vs_best_rec choose fuel recs target date t c HT Hct) as [A B].
  destruct (table_vs_best_rec choose' fuel' recs' target date t' c HT' Hct) as [A' B'].
  pose proof (best_equiv recs recs' date target c H Hct) as EB.
  destruct (get c t) as [[d r]|] eqn:G, (get c t') as [[d' r']|] eqn:G'.
  - destruct (A d r eq_refl) as [X Y]. destruct (A' d' r' eq_refl) as [X' Y'].
    assert (d = d') by congruence. subst d'.
    apply (best_rates_equiv recs' recs date target c r' (rec_equiv_sym _ _ H) Hct) in Y'.
    rewrite (Hfree r r' Y Y'). reflexivity.
  - destruct (A d r eq_refl) as [X _]. pose proof (proj1 B' eq_refl) as X'. congruence.
  - destruct (A' d' r' eq_refl) as [X' _]. pose proof (proj1 B eq_refl) as X. congruence.
  - reflexivity.
Qed.

(* a single optimal rate: that is the rate in the table, whatever the orders *)
Theorem table_rate_singleton recs recs' date target c r0 choose choose' fuel fuel' t t' :
  rec_equiv recs recs' -> c <> target ->
  best_rates (out_edges recs date) (length (rec_comms recs)) target c = [r0] ->
  price_table fuel choose recs target date = PTDone t ->
  price_table fuel' choose' recs' target date = PTDone t' ->
  exists d, get c t = Some (d, r0) /\ get c t' = Some (d, r0).
Proof.
  intros H Hct E HT HT'.
  assert (tie_free recs date target c) as Hfree.
  { intros r1 r2 H1 H2. rewrite E in H1, H2. destruct H1 as [<-|[]], H2 as [<-|[]]. reflexivity. }
  pose proof (table_determined_without_ties recs recs' date target c choose choose' fuel fuel' t t' H Hct Hfree HT HT') as EQ.
  destruct (table_vs_best_rec choose fuel recs target date t c HT Hct) as [A B].
  destruct (get c t) as [[d r]|] eqn:G.
  - destruct (A d r eq_refl) as [_ Y]. rewrite E in Y. destruct Y as [<-|[]]. exists d. split; [reflexivity|symmetry; exact EQ].
  - exfalso. pose proof (proj1 B eq_refl) as X. apply best_rates_nil_iff in X. congruence.
Qed.

(* so a conversion of one commodity gives the same answer (value or RateNotFound) *)
Theorem convert_single_determined recs recs' date target c v choose choose' fuel fuel' t t' :
  rec_equiv recs recs' -> (c <> target -> tie_free recs date target c) ->
  price_table fuel choose recs target date = PTDone t ->
  price_table fuel' choose' recs' target date = PTDone t' ->
  convert_single fuel choose recs c v target date = convert_single fuel' choose' recs' c v target date.
Proof.
  intros H Hfree HT HT'. destruct (N.eq_dec c target) as [->|Hct].
  - unfold convert_single. rewrite N.eqb_refl. reflexivity.
  - rewrite (convert_single_cases _ _ _ _ _ _ _ _ HT Hct), (convert_single_cases _ _ _ _ _ _ _ _ HT' Hct).
    rewrite (table_determined_without_ties recs recs' date target c choose choose' fuel fuel' t t' H Hct (Hfree Hct) HT HT').
    reflexivity.
Qed.

(* ---- the hypotheses are satisfiable ---- *)
Definition rec_reverse (recs : records) : records := map (fun wi => (fst wi, rev (snd wi))) (rev recs).

Lemma rec_equiv_reverse (recs : records) :
  NoDup (keys recs) -> (forall w i, In (w, i) recs -> NoDup (keys i)) -> rec_equiv recs (rec_reverse recs).
Proof.
  intros ND NDi.
  assert (K : keys (rec_reverse recs) = rev (keys recs)).
  { unfold rec_reverse, keys. rewrite map_map. cbn [fst]. rewrite map_rev. reflexivity. }
  assert (ND' : NoDup (keys (rec_reverse recs))) by (rewrite K; apply NoDup_rev, ND).
  split; [exact ND|split; [exact ND'|]]. intros w.
  destruct (get w recs) as [i|] eqn:G.
  - pose proof (get_in _ _ _ G) as HI.
    assert (In (w, rev i) (rec_reverse recs)) as HI'.
    { unfold rec_reverse. apply in_map_iff. exists (w, i). split; [reflexivity|]. apply -> in_rev. exact HI. }
    rewrite (in_get _ _ _ ND' HI'). apply perm_map_equiv; [apply (NDi w i HI)|apply Permutation.Permutation_rev].
  - destruct (get w (rec_reverse recs)) as [i'|] eqn:G'; [|exact I].
    apply get_in in G'. apply (get_none_notin _ _ G).
    assert (In w (keys (rec_reverse recs))) as X by (unfold keys; change w with (fst (w, i')); apply in_map, G').
    rewrite K in X. apply in_rev in X. exact X.
Qed.

(* the chain of price_db::tests iterated forwards and backwards: JPY -> CHF through USD and EUR is
   the only chain, so every heap order and both record orders give the same rate *)
Example ex_rec_equiv : rec_equiv ex_recs (rec_reverse ex_recs) /\ keys ex_recs <> keys (rec_reverse ex_recs).
Proof.
  split.
  - apply rec_equiv_reverse.
    + apply nodupb_sound. vm_compute. reflexivity.
    + assert (forallb (fun wi => nodupb (keys (snd wi))) ex_recs = true) as H by (vm_compute; reflexivity).
      rewrite forallb_forall in H. intros w i HI. apply nodupb_sound. apply (H (w, i) HI).
  - vm_compute. discriminate.
Qed.

Example ex_tie_free : exists r0, best_rates (out_edges ex_recs 3) (length (rec_comms ex_recs)) 3%N 1%N = [r0].
Proof. eexists. vm_compute. reflexivity. Qed.

Example ex_same_rate : forall choose choose' fuel fuel' t t',
  price_table fuel choose ex_recs 3%N 3%Z = PTDone t ->
  price_table fuel' choose' (rec_reverse ex_recs) 3%N 3%Z = PTDone t' ->
  get 1%N t = get 1%N t' /\ get 1%N t <> None.
Proof.
  intros choose choose' fuel fuel' t t' HT HT'. destruct ex_tie_free as [r0 E].
  destruct (table_rate_singleton ex_recs (rec_reverse ex_recs) 3 3%N 1%N r0 choose choose' fuel fuel' t t'
              (proj1 ex_rec_equiv) ltac:(discriminate) E HT HT') as [d [G G']].
  rewrite G, G'. split; [reflexivity|discriminate].
Qed.
