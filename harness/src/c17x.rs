//! C17, continued.
//! (1) Viseca records: generated statement text (format of cli/src/import/viseca/parser.rs) and
//!     layered documents whose rules look at payee and category, through load_from_yaml,
//!     ConfigSet::select, import::import(Viseca) and to_double_entry.
//! (2) The command: `okane import --config CFG SOURCE` of the built binary in a fresh process whose
//!     current directory the harness sets, SOURCE relative, with `.` / `..` steps, absolute, or
//!     reaching the file through a symbolic link; the directories above SOURCE (the current
//!     directory, a link's target) are named so that documents' paths occur in them.
use crate::c17::{count_hits, gen_doc_path, gen_small_format, rules_for_stats};
use crate::coq::{self, Shards, Stats};
use crate::impgen::*;
use crate::prng::Rng;
use okane_core::parse::{parse_ledger, ParseOptions};
use okane_core::syntax::plain;
use serde::{Deserialize, Serialize};
use serde_json::json;
use std::fmt::Write as _;
use std::path::{Path, PathBuf};

// ---------------------------------------------------------------- Viseca statement text

/// One record of a Viseca statement as the lines it is written on.
#[derive(Clone, Debug, PartialEq, Serialize, Deserialize)]
pub struct VRec {
    pub date: String,  // dd.mm.yy
    pub edate: String, // dd.mm.yy
    pub payee: String,
    /// the category line (absent: the next record, or the end, follows directly)
    pub category: Option<String>,
    /// the first line ends in " -" (a payment to the card)
    pub neg: bool,
    pub amount: String,
    /// currency and amount spent, written before the amount
    pub spent: Option<(String, String)>,
    /// whole "Exchange rate R of dd.mm.yy CUR X" line (required when spent is not in the card's currency)
    pub exchange: Option<String>,
    /// whole "[Credit of ]Processing fee P% CUR X" line
    pub fee: Option<String>,
    /// "Air-...: ..." lines
    pub air: Vec<String>,
}

pub fn viseca_text(recs: &[VRec]) -> String {
    let mut t = String::new();
    for v in recs {
        write!(t, "{} {} {}", v.date, v.edate, v.payee).unwrap();
        if let Some((c, a)) = &v.spent {
            write!(t, " {} {}", c, a).unwrap();
        }
        writeln!(t, " {}{}", v.amount, if v.neg { " -" } else { "" }).unwrap();
        if let Some(c) = &v.category {
            writeln!(t, "{}", c).unwrap();
            if let Some(x) = &v.exchange {
                writeln!(t, "{}", x).unwrap();
            }
            if let Some(f) = &v.fee {
                writeln!(t, "{}", f).unwrap();
            }
            for a in &v.air {
                writeln!(t, "{}", a).unwrap();
            }
        }
    }
    t
}

pub const V_CATEGORIES: [&str; 8] = ["Food", "Travel", "Fees", "Catering Service", "Service stations", "Game, toy, and hobby shops", "Shops 5411", "Reinvest Shares"];
const V_PRIMARY: &str = "CHF";

/// FIRST_LINE reads the payee lazily: `Shop ATM 55 12.50` is payee `Shop`, 55 ATM spent.  A payee
/// written without a spent amount must not end in `[A-Z]{3} <number>`.
fn payee_reads_as_spent(p: &str) -> bool {
    let w: Vec<&str> = p.split(' ').collect();
    if w.len() < 2 {
        return false;
    }
    let (c, n) = (w[w.len() - 2], w[w.len() - 1]);
    c.len() == 3 && c.bytes().all(|b| b.is_ascii_uppercase()) && !n.is_empty() && n.bytes().all(|b| b.is_ascii_digit() || b == b'.' || b == b'\'')
}

fn money(r: &mut Rng) -> String {
    let whole = 1 + r.below(4999);
    let cents = r.below(100);
    if whole >= 1000 && r.chance(1, 2) {
        format!("{}'{:03}.{:02}", whole / 1000, whole % 1000, cents)
    } else {
        format!("{}.{:02}", whole, cents)
    }
}

pub fn gen_vrec(r: &mut Rng) -> VRec {
    let (d, m, y) = (1 + r.below(27), 1 + r.below(12), 20 + r.below(5));
    let date = format!("{:02}.{:02}.{:02}", d, m, y);
    let edate = if r.chance(1, 4) { date.clone() } else { format!("{:02}.{:02}.{:02}", d + 1, m, y) };
    let mut payee = gen_payee_text(r);
    let shape = r.below(10);
    let spent = match shape {
        7 | 9 => Some(((*r.pick(&["EUR", "USD"])).to_string(), money(r))),
        8 => Some((V_PRIMARY.to_string(), money(r))),
        _ => None,
    };
    if spent.is_none() {
        while payee_reads_as_spent(&payee) {
            payee.push_str(" Shop");
        }
    }
    let category = if shape < 3 { None } else { Some(r.pick(&V_CATEGORIES).to_string()) };
    let exchange = match &spent {
        Some((c, _)) if c != V_PRIMARY => Some(format!("Exchange rate 1.0{} of {} {} {}", 1 + r.below(99999), date, V_PRIMARY, money(r))),
        _ => None,
    };
    let fee = if spent.is_some() && r.chance(3, 5) {
        Some(format!("{}rocessing fee 1.75% {} 0.{:02}", if r.chance(1, 6) { "Credit of p" } else { "P" }, V_PRIMARY, 1 + r.below(99)))
    } else {
        None
    };
    let air = if shape == 9 { vec!["Air-Pass-Name: kikeg MR".to_string(), "Air-Ticket-Nbr: 0123456789".to_string(), "Air-Origin-City: HND".to_string()] } else { vec![] };
    VRec { date, edate, payee, category, neg: r.chance(1, 5), amount: money(r), spent, exchange, fee, air }
}

// ---------------------------------------------------------------- Viseca rules and documents

/// a pattern for the category line: unlike the CSV adapter the Viseca one keeps the captures of a
/// category match
fn gen_vis_category_pat(r: &mut Rng) -> Pat {
    let c = *r.pick(&V_CATEGORIES);
    let words: Vec<&str> = c.split(' ').collect();
    let w0 = *r.pick(&words);
    let w = recase(r, w0);
    let lit = |s: String| Item::Plain(Atom::Lit(s));
    match r.below(8) {
        0 | 1 | 2 => Pat { start: r.chance(1, 6), items: vec![lit(w)], end: false, valid: true },
        3 => Pat { start: false, items: vec![Item::Payee(Atom::Lit(w))], end: false, valid: true },
        4 => Pat { start: true, items: vec![Item::Payee(Atom::Rest)], end: true, valid: true },
        5 => Pat { start: false, items: vec![Item::Code(Atom::Digits)], end: false, valid: true },
        6 => Pat { start: true, items: vec![lit(format!("{} ", recase(r, words[0]))), Item::Payee(Atom::Rest)], end: false, valid: true },
        // matches the empty category of a record without a category line as well
        _ => Pat { start: true, items: vec![Item::Payee(Atom::Rest)], end: false, valid: true },
    }
}

fn gen_vis_and(r: &mut Rng) -> Vec<(usize, Pat)> {
    let mut a = Vec::new();
    if r.chance(2, 5) {
        a.push((RF_CATEGORY, gen_vis_category_pat(r)));
    }
    if a.is_empty() || r.chance(3, 5) {
        a.push((RF_PAYEE, gen_pat(r, RF_PAYEE)));
    }
    if r.chance(1, 80) {
        // fields the Viseca adapter refuses
        a.push(if r.chance(1, 2) { (RF_SECONDARY_COMMODITY, Pat::lit("CHF")) } else { (3, Pat::lit("Migros")) });
    }
    a.sort_by_key(|x| x.0);
    a
}

fn gen_vis_rule(r: &mut Rng) -> Rule {
    let as_list = r.chance(2, 5);
    let matcher = if as_list {
        let n = if r.chance(1, 80) { 0 } else { 1 + r.below(3) };
        (0..n).map(|_| gen_vis_and(r)).collect()
    } else if r.chance(1, 300) {
        vec![vec![]]
    } else {
        vec![gen_vis_and(r)]
    };
    Rule {
        matcher,
        as_list,
        pending: r.chance(1, 3),
        payee: if r.chance(1, 4) { Some(gen_payee_text(r)) } else { None },
        account: if r.chance(3, 5) { Some(r.pick(&ACCOUNTS).to_string()) } else { None },
        conversion: if r.chance(1, 25) { Some(gen_conv(r)) } else { None },
    }
}

/// A rule that rewrites the payee of a record whose statement payee is `payee` (a capture group, or
/// a `payee:` setting), and a later rule that tells the rewritten payee from the statement's: it
/// matches exactly one of the two.  Returns (rewriting rule, telling rule).
pub fn gen_rewrite_then_tell(r: &mut Rng, payee: &str) -> (Rule, Rule) {
    let words: Vec<&str> = payee.split(' ').filter(|w| !w.is_empty()).collect();
    let lit = |s: String| Item::Plain(Atom::Lit(s));
    let first = words[0];
    let last = words[words.len() - 1];
    let fresh = ["Grocer", "Landlord", "Employer"];
    let ci_eq = |a: &str, b: &str| a.to_lowercase() == b.to_lowercase();
    // (matcher pattern, payee setting, rewritten payee)
    let (pat, setting, rewritten): (Pat, Option<String>, String) = match r.below(4) {
        0 if words.len() >= 2 => {
            let rest = payee[first.len() + 1..].to_string();
            (Pat { start: true, items: vec![lit(format!("{} ", recase(r, first))), Item::Payee(Atom::Rest)], end: r.chance(1, 2), valid: true }, None, rest)
        }
        1 if words.len() >= 2 => (Pat { start: false, items: vec![Item::Payee(Atom::Lit(recase(r, last)))], end: true, valid: true }, None, last.to_string()),
        2 => {
            // the first word, captured as the statement writes it
            (Pat { start: true, items: vec![Item::Payee(Atom::Lit(recase(r, first)))], end: false, valid: true }, None, first.to_string())
        }
        _ => {
            let n = (*r.pick(&fresh)).to_string();
            let w0 = *r.pick(&words);
            (Pat { start: false, items: vec![lit(recase(r, w0))], end: false, valid: true }, Some(n.clone()), n)
        }
    };
    let a = Rule { matcher: vec![vec![(RF_PAYEE, pat)]], as_list: r.chance(1, 3), pending: r.chance(1, 3), payee: setting, account: if r.chance(1, 3) { Some(r.pick(&ACCOUNTS).to_string()) } else { None }, conversion: None };
    // the telling pattern: anchored at both ends on one of the two texts (they differ unless the
    // rewrite left the payee as it was), or on a prefix only one of them has
    let rw_words: Vec<&str> = rewritten.split(' ').filter(|w| !w.is_empty()).collect();
    let tell = match r.below(4) {
        0 => Pat { start: true, items: vec![lit(recase(r, &rewritten))], end: true, valid: true },
        1 => Pat { start: true, items: vec![lit(recase(r, payee))], end: true, valid: true },
        2 if !rw_words.is_empty() && !ci_eq(rw_words[0], first) => Pat { start: true, items: vec![lit(recase(r, rw_words[0]))], end: false, valid: true },
        _ => Pat { start: true, items: vec![lit(recase(r, first))], end: false, valid: true },
    };
    let b = Rule { matcher: vec![vec![(RF_PAYEE, tell)]], as_list: false, pending: r.chance(1, 3), payee: None, account: Some(r.pick(&ACCOUNTS).to_string()), conversion: None };
    (a, b)
}

/// insert a then (not always directly after) b into a document that applies to `file`
fn insert_pair(r: &mut Rng, docs: &mut [Doc], file: &str, a: Rule, b: Rule) {
    let matching: Vec<usize> = (0..docs.len()).filter(|i| file.contains(&docs[*i].path)).collect();
    let di = if matching.is_empty() || r.chance(1, 8) { r.below(docs.len() as u64) as usize } else { *r.pick(&matching) };
    let at = r.below(docs[di].rewrite.len() as u64 + 1) as usize;
    docs[di].rewrite.insert(at, a);
    let at2 = (at + 1 + r.below((docs[di].rewrite.len() - at) as u64) as usize).min(docs[di].rewrite.len());
    docs[di].rewrite.insert(at2, b);
}

const V_FILE_PATHS: [&str; 5] = ["stmt/card/visa-okane.txt", "data/viseca/2024-01.txt", "x.txt", "import/card.old/card/2021.txt", "data/cards/okane-card.txt"];

fn gen_vis_doc(r: &mut Rng, file: &str, rich: bool) -> Doc {
    let p = if rich { 9 } else { 4 };
    Doc {
        path: gen_doc_path(r, file),
        encoding: if r.chance(p, 10) { Some(r.below(3) as usize) } else { None },
        account: if r.chance(p, 10) { Some(r.pick(&SRC_ACCOUNTS).to_string()) } else { None },
        liability: if r.chance(p, 10) { Some(r.chance(2, 3)) } else { None },
        operator: if r.chance(if rich { 8 } else { 3 }, 10) { Some((*r.pick(&["Okane Card (fee)", "Viseca"])).to_string()) } else { None },
        // the card's currency: the statement text is written for it (a spent amount in another
        // currency is followed by an exchange-rate line)
        commodity: if r.chance(p, 10) { Some(if r.chance(3, 4) { Commodity::Primary(V_PRIMARY.into()) } else { Commodity::Spec(V_PRIMARY.into(), gen_conv(r)) }) } else { None },
        format: if r.chance(1, 4) { Some(gen_small_format(r)) } else { None },
        rewrite: {
            let n = *r.pick(&[0u64, 1, 1, 2, 2, 3, 4]);
            (0..n).map(|_| gen_vis_rule(r)).collect()
        },
    }
}

#[derive(Clone, Debug, Serialize, Deserialize)]
pub struct Case17Vis {
    pub docs: Vec<Doc>,
    pub path: String,
    pub recs: Vec<VRec>,
    #[serde(default)]
    pub tags: Vec<String>,
}

pub fn gen_vis_case(r: &mut Rng) -> Case17Vis {
    let file = (*r.pick(&V_FILE_PATHS)).to_string();
    let n = 1 + r.below(3);
    let mut docs: Vec<Doc> = (0..n).map(|i| { let rich = i == 0 || r.chance(1, 3); gen_vis_doc(r, &file, rich) }).collect();
    if r.chance(2, 3) {
        // a complete first document that applies: most statements are imported
        let l = r.below(4) as usize;
        let a = r.below((file.len() - l + 1) as u64) as usize;
        docs[0].path = file[a..a + l].to_string();
        docs[0].encoding = docs[0].encoding.or(Some(0));
        docs[0].account = docs[0].account.clone().or(Some(SRC_ACCOUNTS[1].to_string()));
        docs[0].liability = docs[0].liability.or(Some(true));
        docs[0].commodity = docs[0].commodity.clone().or(Some(Commodity::Primary(V_PRIMARY.into())));
    }
    let recs: Vec<VRec> = (0..1 + r.below(4)).map(|_| gen_vrec(r)).collect();
    let mut tags = Vec::new();
    if r.chance(1, 2) {
        let payee = recs[r.below(recs.len() as u64) as usize].payee.clone();
        let (a, b) = gen_rewrite_then_tell(r, &payee);
        insert_pair(r, &mut docs, &file, a, b);
        tags.push("an earlier rule rewrites the payee, a later rule tells the rewritten payee from the statement's".to_string());
    }
    if r.chance(1, 6) {
        let payee = recs[r.below(recs.len() as u64) as usize].payee.clone();
        let mut pair = gen_empty_group_rules(r, &payee);
        let b = pair.pop().unwrap();
        let a = pair.pop().unwrap();
        insert_pair(r, &mut docs, &file, a, b);
        tags.push("a named group that matches the empty string, then a rule on the payee".to_string());
    }
    Case17Vis { docs, path: file, recs, tags }
}

fn vrec_term(v: &VRec) -> String {
    format!("VE {} {} {} {}", s_term(&v.payee), s_term(v.category.as_deref().map(str::trim).unwrap_or("")), coq::bool_(!v.neg), coq::bool_(v.category.is_some() && v.fee.is_some()))
}

fn sel_json(sel: &SelObs) -> serde_json::Value {
    match sel {
        SelObs::None => json!("no document matches"),
        SelObs::Err(_, t) | SelObs::Panic(t) | SelObs::Load(t) => json!({"error": t}),
        SelObs::Ok(e) => json!(format!("{:?}", e)),
    }
}

fn sel_stat(sel: &SelObs) -> &'static str {
    match sel {
        SelObs::None => "select:none",
        SelObs::Err(..) => "select:invalid_config",
        SelObs::Ok(_) => "select:ok",
        SelObs::Panic(_) => "select:panic",
        SelObs::Load(_) => "select:yaml_load_failed",
    }
}

pub fn emit_vis(sh: &mut Shards, st: &mut Stats, c: &Case17Vis, tag: &str) {
    let yaml = docs_yaml(&c.docs);
    let pats = collect_pats(&c.docs);
    let sel = run_select(&yaml, &c.path);
    let text = viseca_text(&c.recs);
    let mut max_hits = 0;
    let imp = match &sel {
        SelObs::Ok(e) => {
            let rules = rules_for_stats(e);
            let mut empty = 0usize;
            for v in &c.recs {
                max_hits = max_hits.max(count_hits(&rules, &v.payee, v.category.as_deref().unwrap_or(""), "", true, &mut empty, &mut [0, 0]));
            }
            run_import_fmt(&text, okane::import::Format::Viseca, e)
        }
        _ => ImpObs::NotRun,
    };
    let matching_docs = c.docs.iter().filter(|d| c.path.contains(&d.path)).count();
    let nontrivial = matching_docs >= 2 || (max_hits >= 2 && matches!(imp, ImpObs::Ok(..)));
    st.eval(&(yaml.clone(), c.path.clone(), text.clone()), nontrivial);
    st.count(&format!("gen:{}", tag));
    st.count("records:viseca");
    st.count(&format!("docs_matching:{}", matching_docs.min(4)));
    st.count(&format!("viseca:max_rules_hitting_a_record:{}", max_hits.min(4)));
    for t in &c.tags {
        st.count(&format!("viseca:{}", t));
    }
    let has_group = |name: fn(&Item) -> bool| c.docs.iter().any(|d| d.rewrite.iter().any(|r| r.matcher.iter().any(|a| a.iter().any(|(_, p)| p.items.iter().any(|i| name(i))))));
    if has_group(|i| matches!(i, Item::Code(_))) {
        st.count("viseca:some rule has a (?P<code>..) group");
    }
    if c.docs.iter().any(|d| d.rewrite.iter().any(|r| r.matcher.iter().any(|a| a.iter().any(|(f, p)| *f == RF_CATEGORY && p.items.iter().any(|i| !matches!(i, Item::Plain(_))))))) {
        st.count("viseca:some category matcher has a named group");
    }
    for v in &c.recs {
        st.count(match (&v.category, &v.spent, &v.fee) {
            (None, _, _) => "viseca_record:first line only",
            (Some(_), None, _) => "viseca_record:with category",
            (Some(_), Some(_), None) => "viseca_record:spent amount",
            (Some(_), Some(_), Some(_)) => "viseca_record:spent amount and fee",
        });
    }
    st.count(sel_stat(&sel));
    st.count(&match &imp {
        ImpObs::NotRun => "viseca_import:not_run".to_string(),
        ImpObs::Err(..) => "viseca_import:refused".to_string(),
        ImpObs::Panic(_) => "viseca_import:panic".to_string(),
        ImpObs::Ok(..) => "viseca_import:ok".to_string(),
    });
    st.add("shape:documents", c.docs.len() as u64);
    st.add("shape:rules", c.docs.iter().map(|d| d.rewrite.len() as u64).sum());
    st.add("shape:records", c.recs.len() as u64);
    let rep = json!({
        "property": "C17",
        "config_yaml": yaml,
        "path": c.path,
        "viseca_text": text,
        "select": sel_json(&sel),
        "import": imp_json(&imp),
        "vis_case": serde_json::to_value(c).unwrap(),
        "reproduce": "write config_yaml and viseca_text to files (the text under `path`, extension .txt) and run: okane import --config <yaml> <path>",
    });
    if st.samples.len() < 8 && nontrivial && matches!(imp, ImpObs::Ok(..)) && st.dist.get("records:viseca").copied().unwrap_or(0) <= 30 {
        st.sample(rep.clone(), 8);
    }
    let term = format!("KV {} {} {} {} {}", coq::list(c.docs.iter().map(|d| d.term())), s_term(&c.path), sel_term(&sel, &pats), coq::list(c.recs.iter().map(vrec_term)), imp_term(&imp));
    sh.push(term, vec![rep]);
}

// ---------------------------------------------------------------- the command in a fresh process

/// Where the statement file lives, how it is reached, and from where.  All paths are relative to
/// the case's own scratch directory and use '/'.
#[derive(Clone, Debug, Serialize, Deserialize)]
pub struct CmdFs {
    pub shape: String,
    /// the regular file that holds the statement
    pub file: String,
    /// directories to create besides the parents of file and links
    pub dirs: Vec<String>,
    /// symbolic links: (link, target as stored in the link - relative to the link's directory)
    pub links: Vec<(String, String)>,
    /// current directory of the process ("" = the scratch directory itself)
    pub cwd: String,
    /// the SOURCE argument; for `abs` it is joined to the absolute scratch directory
    pub given: String,
    pub abs: bool,
}

#[derive(Clone, Debug, Serialize, Deserialize)]
pub enum CmdRecs {
    Csv { header: Vec<String>, rows: Vec<Row> },
    Viseca { recs: Vec<VRec> },
}

#[derive(Clone, Debug, Serialize, Deserialize)]
pub struct Case17Cmd {
    pub docs: Vec<Doc>,
    pub fs: CmdFs,
    pub recs: CmdRecs,
    #[serde(default)]
    pub tags: Vec<String>,
}

const TOPS: [&str; 6] = ["archive", "bank", "backup-2023", "statements", "card", "old.statements"];
const SUBS: [&str; 5] = ["statements", "bank", "visa", "2024", "inbox"];
const STEMS: [&str; 4] = ["bank", "2024-01", "visa-okane", "x"];
const VAULTS: [&str; 4] = ["archive-2023", "bank.old", "card", "statements"];

fn up(n: usize) -> String {
    "../".repeat(n)
}

pub fn gen_cmd_fs(r: &mut Rng, ext: &str) -> CmdFs {
    let t1 = *r.pick(&TOPS);
    let top = if r.chance(1, 3) { format!("{}/{}", t1, r.pick(&TOPS)) } else { t1.to_string() };
    let top_depth = top.split('/').count();
    let top_last = top.rsplit('/').next().unwrap().to_string();
    let s1 = *r.pick(&SUBS);
    let sub = if r.chance(1, 3) { format!("{}/{}", s1, r.pick(&SUBS)) } else { s1.to_string() };
    let f = format!("{}.{}", r.pick(&STEMS), ext);
    let real = format!("{}/{}/{}", top, sub, f);
    match r.below(12) {
        0..=2 => CmdFs { shape: "relative".into(), file: real, dirs: vec![], links: vec![], cwd: top, given: format!("{}/{}", sub, f), abs: false },
        3 | 4 => {
            let given = match r.below(6) {
                0 => format!("./{}/{}", sub, f),
                1 => format!("./x/../{}/{}", sub, f),
                2 => format!("{}/../{}/{}", s1, sub, f),
                3 => format!("x/.././{}/{}", sub, f),
                4 => format!("../{}/{}/{}", top_last, sub, f),
                _ => format!("{}//{}", sub, f),
            };
            CmdFs { shape: "relative with . / .. / doubled separator".into(), file: real, dirs: vec![format!("{}/x", top)], links: vec![], cwd: top, given, abs: false }
        }
        5 => CmdFs { shape: "absolute".into(), file: real.clone(), dirs: vec![], links: vec![], cwd: if r.chance(1, 2) { String::new() } else { top }, given: real, abs: true },
        6 | 7 | 8 => {
            // the first component of SOURCE is a link to a directory elsewhere
            let v = *r.pick(&VAULTS);
            let tail = if sub.contains('/') { format!("/{}", &sub[s1.len() + 1..]) } else { String::new() };
            let abs = r.chance(1, 5);
            CmdFs {
                shape: if abs { "absolute through a linked directory".into() } else { "relative through a linked directory".into() },
                file: format!("vault/{}{}/{}", v, tail, f),
                dirs: vec![],
                links: vec![(format!("{}/{}", top, s1), format!("{}vault/{}", up(top_depth), v))],
                cwd: if abs { String::new() } else { top.clone() },
                given: if abs { format!("{}/{}/{}", top, sub, f) } else { format!("{}/{}", sub, f) },
                abs,
            }
        }
        _ => {
            // SOURCE itself is a link to a file elsewhere (same extension)
            let v = *r.pick(&VAULTS);
            let g = format!("{}.{}", r.pick(&STEMS), ext);
            let depth = top_depth + sub.split('/').count();
            CmdFs {
                shape: "relative, the file is a link".into(),
                file: format!("vault/{}/{}", v, g),
                dirs: vec![],
                links: vec![(real, format!("{}vault/{}/{}", up(depth), v, g))],
                cwd: top,
                given: format!("{}/{}", sub, f),
                abs: false,
            }
        }
    }
}

/// the SOURCE string for a scratch directory `root`
pub fn given_string(fs: &CmdFs, root: &str) -> String {
    if fs.abs {
        format!("{}/{}", root, fs.given)
    } else {
        fs.given.clone()
    }
}

/// a document path taken from the directories ABOVE the source: component-aligned pieces of the
/// real location of the file (current directory + link targets), now and then of the scratch
/// directory itself
fn gen_hidden_path(r: &mut Rng, fs: &CmdFs, root: &str) -> String {
    let full = if r.chance(1, 10) { format!("{}/{}", root.trim_start_matches('/'), fs.file) } else { fs.file.clone() };
    let comps: Vec<&str> = full.split('/').collect();
    let i = r.below(comps.len() as u64) as usize;
    let j = (i + r.below(3) as usize).min(comps.len() - 1);
    let mut p = comps[i..=j].join("/");
    if j + 1 < comps.len() && r.chance(1, 2) {
        p.push('/');
    }
    if i > 0 && r.chance(1, 4) {
        p.insert(0, '/');
    }
    p
}

/// a piece of the string as written that a path normaliser would rewrite (`./`, `//`, `x/../`), with
/// some of its surroundings: it occurs in the string as given and not in the resolved location
fn gen_written_piece(r: &mut Rng, given: &str) -> Option<String> {
    let mut found: Vec<(usize, usize)> = Vec::new();
    for tok in ["./", "//", "/../", "/./", "../"] {
        for (i, _) in given.match_indices(tok) {
            found.push((i, i + tok.len()));
        }
    }
    if found.is_empty() {
        return None;
    }
    let (a, b) = *r.pick(&found);
    let a = a.saturating_sub(r.below(4) as usize);
    let b = (b + r.below(4) as usize).min(given.len());
    if given.is_char_boundary(a) && given.is_char_boundary(b) {
        Some(given[a..b].to_string())
    } else {
        None
    }
}

fn gen_cmd_layout(r: &mut Rng, credit_debit: bool) -> (Format, Vec<String>) {
    let header: Vec<String> = ["Date", "Payee", "Category", "Symbol", "In", "Out"].iter().map(|s| s.to_string()).collect();
    let by_label = r.chance(1, 3);
    let pos = |i: usize| if by_label { Pos::Label(header[i].clone()) } else { Pos::Index(i) };
    let mut fields = vec![(K_DATE, pos(0)), (K_PAYEE, pos(1)), (K_CATEGORY, pos(2)), (K_SECONDARY_COMMODITY, pos(3))];
    if credit_debit {
        fields.push((K_CREDIT, pos(4)));
        fields.push((K_DEBIT, pos(5)));
    } else {
        fields.push((K_AMOUNT, pos(4)));
    }
    fields.sort_by_key(|x| x.0);
    let mut precisions = Vec::new();
    if r.chance(1, 4) {
        precisions.push(("CHF".to_string(), 2 + r.below(2) as u8));
    }
    (Format { date: "%Y-%m-%d".into(), precisions, fields, delimiter: "".into(), skip: 0, new_to_old: r.chance(1, 3) }, header)
}

pub fn gen_cmd_case(r: &mut Rng, root: &str) -> Case17Cmd {
    let viseca = r.chance(1, 4);
    let fs = gen_cmd_fs(r, if viseca { "txt" } else { "csv" });
    let given = given_string(&fs, root);
    let credit_debit = r.chance(1, 2);
    let (layout0, header) = gen_cmd_layout(r, credit_debit);
    let mut tags = Vec::new();
    // the base document: applies to the string as given, complete
    let base_path = if r.chance(1, 12) {
        // now and then the complete document is one that applies to the directories above only
        gen_hidden_path(r, &fs, root)
    } else {
        let l = r.below(4) as usize;
        let a = r.below((given.len() - l + 1) as u64) as usize;
        if given.is_char_boundary(a) && given.is_char_boundary(a + l) { given[a..a + l].to_string() } else { String::new() }
    };
    let rule = |r: &mut Rng| if viseca { gen_vis_rule(r) } else { gen_rule(r, 2) };
    let commodity = |r: &mut Rng| if viseca { Commodity::Primary(V_PRIMARY.into()) } else if r.chance(3, 4) { Commodity::Primary(r.pick(&COMMODITIES).to_string()) } else { Commodity::Spec(r.pick(&COMMODITIES).to_string(), gen_conv(r)) };
    let mut docs = vec![Doc {
        path: base_path,
        encoding: Some(0),
        account: Some(r.pick(&SRC_ACCOUNTS).to_string()),
        liability: Some(r.chance(1, 2)),
        operator: if r.chance(3, 4) { Some("Okane Bank (fee)".to_string()) } else { None },
        commodity: Some(commodity(r)),
        format: Some(layout0),
        rewrite: (0..r.below(4)).map(|_| rule(r)).collect(),
    }];
    let n = 1 + r.below(3);
    for _ in 0..n {
        let written = if r.chance(1, 2) { gen_written_piece(r, &given) } else { None };
        let path = match r.below(20) {
            _ if written.is_some() => written.unwrap(),
            0..=8 => gen_hidden_path(r, &fs, root),
            9..=17 => gen_doc_path(r, &given),
            _ => (*r.pick(&["viseca/", "zz", "OKANE"])).to_string(),
        };
        docs.push(Doc {
            path,
            encoding: if r.chance(1, 4) { Some(0) } else { None },
            account: if r.chance(1, 2) { Some(r.pick(&SRC_ACCOUNTS).to_string()) } else { None },
            liability: if r.chance(2, 5) { Some(r.chance(1, 2)) } else { None },
            operator: if r.chance(1, 4) { Some("Broker".to_string()) } else { None },
            commodity: if r.chance(1, 3) { Some(commodity(r)) } else { None },
            format: if r.chance(1, 3) {
                Some(gen_cmd_layout(r, credit_debit).0)
            } else {
                None
            },
            rewrite: (0..*r.pick(&[0u64, 1, 1, 2, 3])).map(|_| rule(r)).collect(),
        });
    }
    r.shuffle(&mut docs);
    let recs = if viseca {
        let recs: Vec<VRec> = (0..1 + r.below(3)).map(|_| gen_vrec(r)).collect();
        if r.chance(1, 3) {
            let payee = recs[r.below(recs.len() as u64) as usize].payee.clone();
            let (a, b) = gen_rewrite_then_tell(r, &payee);
            insert_pair(r, &mut docs, &given, a, b);
            tags.push("an earlier rule rewrites the payee, a later rule tells the rewritten payee from the statement's".to_string());
        }
        CmdRecs::Viseca { recs }
    } else {
        let layout_for_rows = Format { date: "%Y-%m-%d".into(), precisions: vec![], fields: if credit_debit { vec![(K_CREDIT, Pos::Index(4))] } else { vec![] }, delimiter: String::new(), skip: 0, new_to_old: false };
        let mut rows = crate::c17::gen_rows(r, &layout_for_rows);
        // the sign bit of a zero amount decides the posting order but cannot be read back from the
        // printed text: the command leg books non-zero amounts (zero cells are a matter of the K cases)
        for row in rows.iter_mut() {
            if row.fields[4].is_empty() && row.fields[5].is_empty() {
                row.fields[4] = "0".into();
            }
            for k in [4usize, 5] {
                if row.fields[k] == "0" || row.fields[k] == "-0.00" {
                    row.fields[k] = format!("{}{}.{:02}", if row.fields[k].starts_with('-') { "-" } else { "" }, 1 + r.below(900), r.below(100));
                }
            }
        }
        CmdRecs::Csv { header, rows }
    };
    Case17Cmd { docs, fs, recs, tags }
}

/// Layered documents for the N-fresh-process leg of C13: the 2-4 documents of a command case get
/// paths that all occur in the SOURCE string as given - of equal length (different texts, or the
/// very same text twice), of different lengths, or mixed - and scalars and rules that conflict,
/// so that the order in which the matching documents are merged shows in the printed ledger.
pub fn gen_layered_cmd_case(r: &mut Rng, root: &str) -> (Case17Cmd, &'static str) {
    let mut c = gen_cmd_case(r, root);
    let given = given_string(&c.fs, root);
    let viseca = matches!(c.recs, CmdRecs::Viseca { .. });
    let subs = |l: usize| -> Vec<String> {
        let mut v: Vec<String> = Vec::new();
        if l <= given.len() {
            for a in 0..=given.len() - l {
                if given.is_char_boundary(a) && given.is_char_boundary(a + l) {
                    let t = given[a..a + l].to_string();
                    if !v.contains(&t) {
                        v.push(t);
                    }
                }
            }
        }
        v
    };
    let n = c.docs.len();
    let mode = r.below(8);
    let l0 = 1 + r.below(5) as usize;
    let mut pool = subs(l0);
    r.shuffle(&mut pool);
    let name = match mode {
        0..=2 if pool.len() >= n => {
            for (i, d) in c.docs.iter_mut().enumerate() {
                d.path = pool[i].clone();
            }
            "all paths of equal length, all different"
        }
        3 | 4 if pool.len() >= 2 => {
            // two of equal length, the others shorter or longer
            let (i, j) = (r.below(n as u64) as usize, r.below(n as u64 - 1) as usize);
            let j = if j >= i { j + 1 } else { j };
            for (k, d) in c.docs.iter_mut().enumerate() {
                if k == i {
                    d.path = pool[0].clone();
                } else if k == j {
                    d.path = pool[1].clone();
                } else {
                    let l = if r.chance(1, 2) && l0 > 1 { r.below(l0 as u64) as usize } else { l0 + 1 + r.below(4) as usize };
                    let p = subs(l.min(given.len()));
                    d.path = p[r.below(p.len() as u64) as usize].clone();
                }
            }
            "two paths of equal length, the others of other lengths"
        }
        5 if !pool.is_empty() => {
            // the very same path twice (and a third of the same length when there is one)
            for (i, d) in c.docs.iter_mut().enumerate() {
                d.path = if i < 2 { pool[0].clone() } else { pool[(i - 1).min(pool.len() - 1)].clone() };
            }
            "the same path twice"
        }
        _ => {
            let mut ls: Vec<usize> = (0..given.len().min(12)).collect();
            r.shuffle(&mut ls);
            for (i, d) in c.docs.iter_mut().enumerate() {
                let p = subs(ls[i % ls.len()]);
                d.path = p[r.below(p.len() as u64) as usize].clone();
            }
            "all paths of different lengths"
        }
    };
    let off = r.below(3) as usize;
    for (i, d) in c.docs.iter_mut().enumerate() {
        if r.chance(3, 4) {
            d.account = Some(SRC_ACCOUNTS[(i + off) % SRC_ACCOUNTS.len()].to_string());
        }
        if r.chance(1, 2) {
            d.liability = Some(r.chance(1, 2));
        }
        if !viseca && r.chance(1, 3) {
            d.commodity = Some(Commodity::Primary(COMMODITIES[(i + off) % COMMODITIES.len()].to_string()));
        }
        if d.rewrite.is_empty() || r.chance(1, 3) {
            let rule = if viseca { gen_vis_rule(r) } else { gen_rule(r, 2) };
            d.rewrite.push(rule);
        }
    }
    c.tags.clear();
    (c, name)
}

/// the scratch directory of the command leg: a fixed name, so that absolute SOURCE strings are the
/// same from run to run (the driver serialises the runs of one tree)
pub struct CmdScratch {
    pub root: PathBuf,
}
impl CmdScratch {
    pub fn new() -> Self {
        let base = std::env::var("OKV_SCRATCH").unwrap_or_else(|_| ".build/scratch".to_string());
        let base = PathBuf::from(base);
        let base = if base.is_absolute() { base } else { std::env::current_dir().unwrap().join(base) };
        let root = base.join("c17cmd");
        let _ = std::fs::remove_dir_all(&root);
        std::fs::create_dir_all(&root).unwrap();
        CmdScratch { root }
    }
    pub fn root_str(&self) -> String {
        self.root.to_string_lossy().into_owned()
    }
}
impl Drop for CmdScratch {
    fn drop(&mut self) {
        let _ = std::fs::remove_dir_all(&self.root);
    }
}

pub struct ProcOut {
    pub code: Option<i32>,
    pub signal: Option<i32>,
    pub timeout: bool,
    pub stdout: String,
    pub stderr: String,
}

pub fn run_in(bin: &str, cwd: &Path, args: &[String], timeout_ms: u64) -> Result<ProcOut, String> {
    use std::io::Read;
    use std::os::unix::process::ExitStatusExt;
    use std::process::{Command, Stdio};
    let mut child = Command::new(bin).args(args).current_dir(cwd).env_clear().env("RUST_BACKTRACE", "0").stdin(Stdio::null()).stdout(Stdio::piped()).stderr(Stdio::piped()).spawn().map_err(|e| format!("spawn: {}", e))?;
    // the outputs are small (a few transactions): read after exit
    let mut waited = 0u64;
    let status = loop {
        match child.try_wait() {
            Ok(Some(s)) => break Some(s),
            Ok(None) => {
                if waited >= timeout_ms {
                    let _ = child.kill();
                    let _ = child.wait();
                    break None;
                }
                std::thread::sleep(std::time::Duration::from_millis(1));
                waited += 1;
            }
            Err(e) => return Err(format!("wait: {}", e)),
        }
    };
    let mut stdout = String::new();
    let mut stderr = String::new();
    if let Some(mut o) = child.stdout.take() {
        let mut b = Vec::new();
        let _ = o.read_to_end(&mut b);
        stdout = String::from_utf8_lossy(&b).into_owned();
    }
    if let Some(mut e) = child.stderr.take() {
        let mut b = Vec::new();
        let _ = e.read_to_end(&mut b);
        stderr = String::from_utf8_lossy(&b).into_owned();
    }
    Ok(match status {
        Some(s) => ProcOut { code: s.code(), signal: s.signal(), timeout: false, stdout, stderr },
        None => ProcOut { code: None, signal: None, timeout: true, stdout, stderr },
    })
}

/// the ImportError printed by main (`failed to import` / `Caused by <Display>`), classified as
/// impgen::import_err_code classifies the value
fn import_err_code_text(stderr: &str) -> u8 {
    let t = stderr;
    let other = t.contains("Caused by other error: ");
    let invalid = t.contains("Caused by invalid config ");
    if other && t.contains("specified labels not found") {
        1
    } else if invalid && t.contains("no Date field") {
        2
    } else if invalid && t.contains("no Payee field") {
        3
    } else if invalid && t.contains("either amount or credit/debit") {
        4
    } else if invalid && (t.contains("CSV only supports") || t.contains("empty field matcher")) {
        5
    } else if t.contains("Caused by invalid regex") {
        5
    } else if other && t.contains("csv record length too short") {
        6
    } else if other && (t.contains("must be present") || t.contains("must exist")) {
        7
    } else if t.contains("Caused by failed to render template") {
        8
    } else if t.contains("Caused by invalid datetime") {
        9
    } else if other && t.contains("failed to parse comma decimal") {
        10
    } else if other && t.contains("either credit or debit must be non-empty") {
        11
    } else if invalid && t.contains("operator") {
        12
    } else if other && t.contains("no rate specified") {
        13
    } else if other && t.contains("secondary_commodity field must be set") {
        14
    } else if other && t.contains("secondary_amount should be specified") {
        15
    } else if other && t.contains("cannot handle rate with the same commodity") {
        16
    } else if other && t.contains("cannot divide the amount by the rate") {
        17
    } else {
        99
    }
}

enum CmdObs {
    NoConfig,
    BadConfig(u8),
    Ran(ImpObs),
    Other(String),
}

/// the printed ledger read back: one transaction per printed entry
fn read_printed(text: &str) -> Result<Vec<String>, String> {
    let owned = text.to_string();
    let r = std::panic::catch_unwind(move || {
        let mut v = Vec::new();
        for e in parse_ledger::<plain::Ident>(&ParseOptions::default(), &owned) {
            match e {
                Ok((_, plain::LedgerEntry::Txn(t))) => v.push(stxn_term(&t)),
                Ok((_, other)) => return Err(format!("printed output holds something else than transactions: {:?}", other).chars().take(200).collect()),
                Err(e) => return Err(format!("printed output does not read back: {}", e).chars().take(400).collect()),
            }
        }
        Ok(v)
    });
    r.unwrap_or_else(|_| Err("parse_ledger panicked on the printed output".to_string()))
}

fn observe(p: &ProcOut) -> CmdObs {
    if p.timeout {
        return CmdObs::Ran(ImpObs::Panic("timeout (10 s)".into()));
    }
    match (p.code, p.signal) {
        (Some(0), _) => match read_printed(&p.stdout) {
            Ok(ts) => CmdObs::Ran(ImpObs::Ok(ts, p.stdout.clone())),
            Err(m) => CmdObs::Other(m),
        },
        (Some(1), _) => {
            let t = &p.stderr;
            if !t.starts_with("failed to import") {
                CmdObs::Other(format!("exit 1: {}", t))
            } else if t.contains("config matching") && t.contains("not found") {
                CmdObs::NoConfig
            } else if t.contains("Caused by invalid config no encoding") {
                CmdObs::BadConfig(1)
            } else if t.contains("Caused by invalid config no account specified") {
                CmdObs::BadConfig(2)
            } else if t.contains("Caused by invalid config no account_type") {
                CmdObs::BadConfig(3)
            } else if t.contains("Caused by invalid config no commodity") {
                CmdObs::BadConfig(4)
            } else {
                CmdObs::Ran(ImpObs::Err(import_err_code_text(t), t.clone()))
            }
        }
        (Some(101), _) => CmdObs::Ran(ImpObs::Panic(format!("exit 101: {}", p.stderr))),
        (Some(n), _) => CmdObs::Other(format!("exit {}: {}", n, p.stderr)),
        (None, Some(s)) => CmdObs::Ran(ImpObs::Panic(format!("signal {}", s))),
        _ => CmdObs::Other("no exit status".into()),
    }
}

fn make_fs(dir: &Path, fs: &CmdFs, content: &str) -> Result<(), String> {
    let mk = |p: &Path| std::fs::create_dir_all(p).map_err(|e| format!("mkdir {}: {}", p.display(), e));
    mk(dir)?;
    let file = dir.join(&fs.file);
    mk(file.parent().unwrap())?;
    std::fs::write(&file, content).map_err(|e| format!("write: {}", e))?;
    for d in &fs.dirs {
        mk(&dir.join(d))?;
    }
    for (link, target) in &fs.links {
        let l = dir.join(link);
        mk(l.parent().unwrap())?;
        std::os::unix::fs::symlink(target, &l).map_err(|e| format!("symlink {}: {}", l.display(), e))?;
    }
    mk(&dir.join(&fs.cwd))?;
    Ok(())
}

/// The command of a case run `n` times in fresh processes: how many different (status, stdout,
/// stderr) were seen, the KM term of the case with the first run's observation, a replay record,
/// and how the first run ended.
pub fn observe_cmd_n(c: &Case17Cmd, bin: &str, scratch: &CmdScratch, n: usize) -> (usize, String, serde_json::Value, &'static str) {
    let root = scratch.root_str();
    let given = given_string(&c.fs, &root);
    let yaml = docs_yaml(&c.docs);
    let (content, _kind) = match &c.recs {
        CmdRecs::Csv { header, rows } => (csv_text(&[], header, rows, ',', false), "csv"),
        CmdRecs::Viseca { recs } => (viseca_text(recs), "viseca"),
    };
    let dir = scratch.root.clone();
    let _ = std::fs::remove_dir_all(&dir);
    let mut seen: std::collections::BTreeSet<(Option<i32>, Option<i32>, bool, String, String)> = std::collections::BTreeSet::new();
    let obs = (|| -> Result<CmdObs, String> {
        make_fs(&dir, &c.fs, &content)?;
        let cfg = dir.join("okane-import.yml");
        std::fs::write(&cfg, &yaml).map_err(|e| format!("write config: {}", e))?;
        let cwd = dir.join(&c.fs.cwd);
        let args = vec!["import".to_string(), "--config".to_string(), cfg.to_string_lossy().into_owned(), given.clone()];
        let mut first = None;
        for _ in 0..n.max(1) {
            let p = run_in(bin, &cwd, &args, 10_000)?;
            seen.insert((p.code, p.signal, p.timeout, p.stdout.clone(), p.stderr.clone()));
            if first.is_none() {
                first = Some(observe(&p));
            }
        }
        Ok(first.unwrap())
    })();
    let _ = std::fs::remove_dir_all(&dir);
    let _ = std::fs::create_dir_all(&dir);
    let obs = match obs {
        Ok(x) => x,
        Err(m) => CmdObs::Other(m),
    };
    let how = match &obs {
        CmdObs::NoConfig => "no configuration matches",
        CmdObs::BadConfig(_) => "merged configuration incomplete",
        CmdObs::Ran(ImpObs::Ok(..)) => "printed a ledger",
        CmdObs::Ran(ImpObs::Err(..)) => "import refused",
        CmdObs::Ran(_) => "crashed",
        CmdObs::Other(_) => "harness trouble",
    };
    let obs_term = match &obs {
        CmdObs::NoConfig => "CmdNoConfig".to_string(),
        CmdObs::BadConfig(k) => format!("(CmdBadConfig {})", k),
        CmdObs::Ran(o) => format!("(CmdRan {})", imp_term(o)),
        CmdObs::Other(_) => "CmdOther".to_string(),
    };
    let recs_term = match &c.recs {
        CmdRecs::Csv { header, rows } => format!("(RecCsv {} {})", coq::list(header.iter().map(|h| s_term(h))), coq::list(rows.iter().map(|r| row_term(r, "%Y-%m-%d")))),
        CmdRecs::Viseca { recs } => format!("(RecVis {})", coq::list(recs.iter().map(vrec_term))),
    };
    let rep = json!({
        "config_yaml": yaml,
        "source_as_given": given,
        "current_directory": c.fs.cwd,
        "file": c.fs.file,
        "links": c.fs.links,
        "statement": content,
        "distinct_outputs": seen.len(),
        "runs": n,
        "outputs": seen.iter().take(3).map(|(code, sig, to, out, err)| json!({"exit": code, "signal": sig, "timeout": to, "stdout": out, "stderr": err})).collect::<Vec<_>>(),
        "observed_first": match &obs {
            CmdObs::NoConfig => json!("config matching ... not found"),
            CmdObs::BadConfig(k) => json!({"invalid config": k}),
            CmdObs::Ran(o) => imp_json(o),
            CmdObs::Other(m) => json!({"harness": m}),
        },
        "cmd_case": serde_json::to_value(c).unwrap(),
        "reproduce": "in an empty directory create `file` with `statement`, the `links` (link -> target), write config_yaml to a file, cd to `current_directory` and run several times: okane import --config <yaml> <source_as_given>",
    });
    let term = format!("KM {} {} {} {}", coq::list(c.docs.iter().map(|d| d.term())), s_term(&given), recs_term, obs_term);
    (seen.len(), term, rep, how)
}

pub fn emit_cmd(sh: &mut Shards, st: &mut Stats, c: &Case17Cmd, tag: &str, bin: &str, scratch: &CmdScratch) {
    let root = scratch.root_str();
    let given = given_string(&c.fs, &root);
    let yaml = docs_yaml(&c.docs);
    let (content, kind) = match &c.recs {
        CmdRecs::Csv { header, rows } => (csv_text(&[], header, rows, ',', false), "csv"),
        CmdRecs::Viseca { recs } => (viseca_text(recs), "viseca"),
    };
    // every case has the scratch directory to itself; the directory is removed afterwards
    let dir = scratch.root.clone();
    let _ = std::fs::remove_dir_all(&dir);
    let obs = (|| -> Result<(CmdObs, String), String> {
        make_fs(&dir, &c.fs, &content)?;
        let cfg = dir.join("okane-import.yml");
        std::fs::write(&cfg, &yaml).map_err(|e| format!("write config: {}", e))?;
        let cwd = dir.join(&c.fs.cwd);
        // where the file really is (statistics only: the model sees the string as given)
        let resolved = std::fs::canonicalize(cwd.join(&given)).map_err(|e| format!("the source does not resolve: {}", e))?;
        let args = vec!["import".to_string(), "--config".to_string(), cfg.to_string_lossy().into_owned(), given.clone()];
        let p = run_in(bin, &cwd, &args, 10_000)?;
        Ok((observe(&p), resolved.to_string_lossy().into_owned()))
    })();
    let _ = std::fs::remove_dir_all(&dir);
    let _ = std::fs::create_dir_all(&dir);
    let (obs, resolved) = match obs {
        Ok(x) => x,
        Err(m) => (CmdObs::Other(m), String::new()),
    };
    // which documents apply to the string as given, which would apply to the resolved location
    let on_given = |d: &Doc| given.contains(&d.path);
    let on_resolved = |d: &Doc| resolved.contains(&d.path);
    let only_resolved = c.docs.iter().filter(|d| !on_given(d) && on_resolved(d)).count();
    let only_given = c.docs.iter().filter(|d| on_given(d) && !on_resolved(d)).count();
    let matching_docs = c.docs.iter().filter(|d| on_given(d)).count();
    let ran_ok = matches!(obs, CmdObs::Ran(ImpObs::Ok(..)));
    let nontrivial = only_resolved + only_given > 0;
    st.eval(&(yaml.clone(), given.clone(), c.fs.cwd.clone(), c.fs.links.clone(), content.clone()), nontrivial);
    st.count(&format!("gen:{}", tag));
    st.count("records:command");
    st.count(&format!("command:records:{}", kind));
    st.count(&format!("command:source:{}", c.fs.shape));
    st.count(&format!("command:docs_matching_the_given_string:{}", matching_docs.min(4)));
    st.count(match (only_resolved > 0, only_given > 0) {
        (true, true) => "command:some document path occurs only in the resolved location, another only in the string as given",
        (true, false) => "command:some document path occurs only in the resolved location (directory above, link target)",
        (false, true) => "command:some document path occurs only in the string as given (.., link name)",
        (false, false) => "command:every document applies to both or neither",
    });
    for t in &c.tags {
        st.count(&format!("command:{}", t));
    }
    st.count(match &obs {
        CmdObs::NoConfig => "command:no configuration matches",
        CmdObs::BadConfig(_) => "command:merged configuration incomplete",
        CmdObs::Ran(ImpObs::Ok(..)) => "command:printed a ledger",
        CmdObs::Ran(ImpObs::Err(..)) => "command:import refused",
        CmdObs::Ran(_) => "command:crashed",
        CmdObs::Other(_) => "command:harness trouble",
    });
    let obs_term = match &obs {
        CmdObs::NoConfig => "CmdNoConfig".to_string(),
        CmdObs::BadConfig(k) => format!("(CmdBadConfig {})", k),
        CmdObs::Ran(o) => format!("(CmdRan {})", imp_term(o)),
        CmdObs::Other(_) => "CmdOther".to_string(),
    };
    let recs_term = match &c.recs {
        CmdRecs::Csv { header, rows } => format!("(RecCsv {} {})", coq::list(header.iter().map(|h| s_term(h))), coq::list(rows.iter().map(|r| row_term(r, "%Y-%m-%d")))),
        CmdRecs::Viseca { recs } => format!("(RecVis {})", coq::list(recs.iter().map(vrec_term))),
    };
    let rep = json!({
        "property": "C17",
        "config_yaml": yaml,
        "source_as_given": given,
        "current_directory": c.fs.cwd,
        "file": c.fs.file,
        "links": c.fs.links,
        "resolved": resolved,
        "statement": content,
        "observed": match &obs {
            CmdObs::NoConfig => json!("config matching ... not found"),
            CmdObs::BadConfig(k) => json!({"invalid config": k}),
            CmdObs::Ran(o) => imp_json(o),
            CmdObs::Other(m) => json!({"harness": m}),
        },
        "cmd_case": serde_json::to_value(c).unwrap(),
        "reproduce": "in an empty directory create `file` with `statement`, the `links` (link -> target), write config_yaml to a file, cd to `current_directory` and run: okane import --config <yaml> <source_as_given>",
    });
    if ran_ok && only_resolved > 0 && st.dist.get("records:command").copied().unwrap_or(0) <= 60 && st.samples.len() < 11 {
        st.sample(rep.clone(), 11);
    }
    let term = format!("KM {} {} {} {}", coq::list(c.docs.iter().map(|d| d.term())), s_term(&given), recs_term, obs_term);
    sh.push(term, vec![rep]);
}
