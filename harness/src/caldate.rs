//! Calendar dates for the statement generators (C15, C16, C18 and the grammar generator of C05):
//! the boundaries of the calendar are drawn deliberately instead of being left to chance.
//! Classes (every generated date is counted under the first class that applies):
//!   iso_week_year_differs  the few days around New Year whose ISO-8601 week belongs to the
//!                          neighbouring year (2024-12-30, 2023-01-01, 2021-01-03): a printer using
//!                          the week-based year (%G) instead of %Y is off by one exactly there
//!   year_first_last        1 January / 31 December of any year
//!   leap_day               29 February (incl. 2000), and 28 February / 1 March of 1900 and 2100
//!   month_end / month_start  last / first day of a month
//!   range_edge             1900-01-01, 2100-12-31, the epoch, 2038-01-19, 1999-12-31, 2000-01-01, and 2069-12-31 | 2070-01-01 (where chrono pivots a two-digit year)
//!   ordinary               uniform over the year range
//! chrono is used here only to *produce* dates (and the ISO week of a date for the class label);
//! what the implementation makes of them is compared with the models as before.
use crate::prng::Rng;
use chrono::{Datelike, NaiveDate};

pub const YEAR_LO: i32 = 1900;
pub const YEAR_HI: i32 = 2100;

pub fn is_leap(y: i32) -> bool {
    (y % 4 == 0 && y % 100 != 0) || y % 400 == 0
}

pub fn days_in_month(y: i32, m: u32) -> u32 {
    match m {
        2 => {
            if is_leap(y) {
                29
            } else {
                28
            }
        }
        4 | 6 | 9 | 11 => 30,
        _ => 31,
    }
}

pub fn ymd(y: i32, m: u32, d: u32) -> NaiveDate {
    NaiveDate::from_ymd_opt(y, m, d).expect("valid calendar date")
}

/// the class a date falls in (for the evidence distribution)
pub fn class_of(d: NaiveDate) -> &'static str {
    let (y, m, dd) = (d.year(), d.month(), d.day());
    if d.iso_week().year() != y {
        "iso_week_year_differs"
    } else if (m == 1 && dd == 1) || (m == 12 && dd == 31) {
        "year_first_last"
    } else if m == 2 && dd == 29 {
        "leap_day"
    } else if dd == days_in_month(y, m) {
        "month_end"
    } else if dd == 1 {
        "month_start"
    } else {
        "ordinary"
    }
}

fn year_in(r: &mut Rng, lo: i32, hi: i32) -> i32 {
    // half of the years near the present, half anywhere in the range
    if r.chance(1, 2) {
        let a = lo.max(1990);
        let b = hi.min(2040);
        if a <= b {
            return r.range(a as i64, b as i64) as i32;
        }
    }
    r.range(lo as i64, hi as i64) as i32
}

/// a date with year in lo..=hi (inclusive), boundary classes drawn on purpose
pub fn gen_in(r: &mut Rng, lo: i32, hi: i32) -> NaiveDate {
    match r.below(16) {
        0..=3 => {
            // a day whose ISO week-based year is not its calendar year
            for _ in 0..64 {
                let y = year_in(r, lo, hi);
                let (m, d) = *r.pick(&[(12u32, 29u32), (12, 30), (12, 31), (1, 1), (1, 2), (1, 3)]);
                let dt = ymd(y, m, d);
                if dt.iso_week().year() != y {
                    return dt;
                }
            }
            ymd(lo.max(2024).min(hi), 12, 30)
        }
        4 | 5 => {
            let y = year_in(r, lo, hi);
            if r.chance(1, 2) {
                ymd(y, 1, 1)
            } else {
                ymd(y, 12, 31)
            }
        }
        6 | 7 => {
            // leap days; the century years that are not leap years (1900, 2100) and the one that is (2000)
            let cands: Vec<NaiveDate> = [(1900, 2, 28), (1900, 3, 1), (2000, 2, 29), (2100, 2, 28), (2100, 3, 1), (2024, 2, 29), (2020, 2, 29), (1996, 2, 29)]
                .iter()
                .filter(|(y, _, _)| lo <= *y && *y <= hi)
                .map(|(y, m, d)| ymd(*y, *m, *d))
                .collect();
            if !cands.is_empty() && r.chance(1, 2) {
                return *r.pick(&cands);
            }
            for _ in 0..64 {
                let y = year_in(r, lo, hi);
                if is_leap(y) {
                    return ymd(y, 2, 29);
                }
            }
            ymd(year_in(r, lo, hi), 2, 28)
        }
        8 | 9 => {
            let y = year_in(r, lo, hi);
            let m = 1 + r.below(12) as u32;
            if r.chance(2, 3) {
                ymd(y, m, days_in_month(y, m))
            } else {
                ymd(y, m, 1)
            }
        }
        10 => {
            let cands: Vec<NaiveDate> = [(1900, 1, 1), (2100, 12, 31), (1970, 1, 1), (1969, 12, 31), (2038, 1, 19), (1999, 12, 31), (2000, 1, 1), (2069, 12, 31), (2070, 1, 1)]
                .iter()
                .filter(|(y, _, _)| lo <= *y && *y <= hi)
                .map(|(y, m, d)| ymd(*y, *m, *d))
                .collect();
            if cands.is_empty() {
                ymd(lo, 1, 1)
            } else {
                *r.pick(&cands)
            }
        }
        _ => {
            let y = year_in(r, lo, hi);
            let m = 1 + r.below(12) as u32;
            ymd(y, m, 1 + r.below(days_in_month(y, m) as u64) as u32)
        }
    }
}

/// a date in 1900..=2100
pub fn gen(r: &mut Rng) -> NaiveDate {
    gen_in(r, YEAR_LO, YEAR_HI)
}

/// first day of a chronological run of records: up to `back` days before a drawn boundary date,
/// so that the run reaches or crosses it (the records before, on and after New Year / the leap
/// day / the month end); `room` days are kept free before the end of the year range
pub fn gen_anchor(r: &mut Rng, lo: i32, hi: i32, back: i64, room: i64) -> NaiveDate {
    let target = gen_in(r, lo, hi);
    let b = if back > 0 { r.below(back as u64 + 1) as i64 } else { 0 };
    let start = target - chrono::Duration::days(b);
    let first = ymd(lo, 1, 1);
    let last = ymd(hi, 12, 31) - chrono::Duration::days(room.max(0));
    start.max(first).min(last.max(first))
}

/// The dates of the records of one statement: within `span` days that reach or cross a drawn
/// boundary day; a record falls on the drawn day itself (2 in 5) or anywhere in the window.
pub struct Window {
    pub first: NaiveDate,
    pub target: NaiveDate,
    pub span: i64,
}

impl Window {
    pub fn new(r: &mut Rng, lo: i32, hi: i32, span: i64) -> Window {
        let target = gen_in(r, lo, hi);
        let back = if span > 0 { r.below(span as u64 + 1) as i64 } else { 0 };
        let lo_d = ymd(lo, 1, 1);
        let hi_d = ymd(hi, 12, 31);
        let first = (target - chrono::Duration::days(back)).max(lo_d).min((hi_d - chrono::Duration::days(span.max(0))).max(lo_d));
        Window { first, target, span }
    }
    pub fn pick(&self, r: &mut Rng) -> NaiveDate {
        if r.chance(2, 5) {
            self.target
        } else {
            self.first + chrono::Duration::days(r.below(self.span as u64 + 1) as i64)
        }
    }
}
