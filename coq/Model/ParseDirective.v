(* Model of core/src/parse/directive.rs.  Definitions only. *)
From Coq Require Import List NArith ZArith Bool.
From Okv Require Import Model.Lit Model.Syntax Model.Comb Model.ParseExpr Model.ParseMeta.
Import ListNotations.
Open Scope N_scope.

Definition is_comment_prefix (c : N) : bool :=
  (c =? 59) || (c =? 35) || (c =? 37) || (c =? 124) || (c =? 42).     (* ; # % | * *)

Definition kw_account : list N := [97; 99; 99; 111; 117; 110; 116].
Definition kw_apply : list N := [97; 112; 112; 108; 121].
Definition kw_tag : list N := [116; 97; 103].
Definition kw_end : list N := [101; 110; 100].
Definition kw_include : list N := [105; 110; 99; 108; 117; 100; 101].
Definition kw_commodity : list N := [99; 111; 109; 109; 111; 100; 105; 116; 121].
Definition kw_note : list N := [110; 111; 116; 101].
Definition kw_alias : list N := [97; 108; 105; 97; 115].
Definition kw_format : list N := [102; 111; 114; 109; 97; 116].

(* multiline_text(prefix): repeat(1.., delimited(prefix, till_line_ending, line_ending_or_eof))
   folded into a String, one "\n" appended per line *)
Definition multiline_text {A} (fuel : nat) (prefix : parser A) : parser (list N) :=
  pmap (fun ls => concat (map (fun l => l ++ [10]) ls))
       (many1 fuel (delimited prefix till_line_ending line_ending_or_eof)).

Definition detail_comment (fuel : nat) : parser (list N) :=
  multiline_text fuel (space1 ;;; take_while1 is_comment_prefix).
Definition detail_note (fuel : nat) : parser (list N) :=
  multiline_text fuel (space1 ;;; literal kw_note ;;; space1).
Definition detail_alias : parser (list N) :=
  pmap trim_end (delimited (space1 ;;; literal kw_alias ;;; space1) till_line_ending line_ending_or_eof).

Definition account_declaration (fuel : nat) : parser s_entry :=
  name <- delimited (literal kw_account ;;; space1) till_line_ending line_ending_or_eof ;;
  details <- many0 fuel (alt (pmap ADComment (detail_comment fuel))
                             (alt (pmap ADNote (detail_note fuel))
                                  (pmap ADAlias detail_alias))) ;;
  ret (SAccount (trim_end name) details).

Definition commodity_declaration (fuel : nat) : parser s_entry :=
  name <- delimited (literal kw_commodity ;;; space1) till_line_ending line_ending_or_eof ;;
  details <- many0 fuel (alt (pmap CDComment (detail_comment fuel))
                             (alt (pmap CDNote (detail_note fuel))
                                  (alt (pmap CDAlias detail_alias)
                                       (pmap CDFormat
                                             (delimited (space1 ;;; literal kw_format ;;; space1)
                                                        amount line_ending_or_eof))))) ;;
  ret (SCommodity (trim_end name) details).

Definition apply_tag : parser s_entry :=
  key <- preceded (literal kw_apply ;;; space1 ;;; literal kw_tag ;;; space1) tag_key ;;
  value <- delimited space0 (opt metadata_value) line_ending_or_eof ;;
  ret (SApplyTag key value).

Definition end_apply_tag : parser s_entry :=
  literal kw_end ;;; space1 ;;; literal kw_apply ;;; space1 ;;; literal kw_tag ;;;
  space0 ;;; line_ending_or_eof ;;; ret SEndApplyTag.

Definition include : parser s_entry :=
  pmap (fun x => SInclude (trim_end x))
       (delimited (literal kw_include ;;; space1) till_line_ending line_ending_or_eof).

Definition top_comment (fuel : nat) : parser s_entry :=
  pmap SComment (multiline_text fuel (take_while1 is_comment_prefix)).
