//! Parsing and formatting in a child process.  `parse_ledger` / `FormatOptions::format` can
//! spin forever (F3: an error at the very end of the input), so the parent never calls them on
//! text directly: it sends the text to `okv fmt-worker` and waits with a timeout; a worker that
//! does not answer is killed and the text is recorded as a hang.
use crate::syntax_term::Printer;
use okane_core::format::FormatOptions;
use okane_core::parse::{parse_ledger, ParseOptions};
use okane_core::syntax::plain::{Ident, LedgerEntry};
use serde_json::{json, Value};
use std::io::{BufRead, BufReader, Write};
use std::process::{Child, ChildStdin, Command, Stdio};
use std::sync::mpsc::{channel, Receiver, RecvTimeoutError};
use std::time::Duration;

fn entry_kind(e: &LedgerEntry) -> &'static str {
    match e {
        LedgerEntry::Txn(_) => "txn",
        LedgerEntry::Comment(_) => "comment",
        LedgerEntry::ApplyTag(_) => "apply_tag",
        LedgerEntry::EndApplyTag => "end_apply_tag",
        LedgerEntry::Include(_) => "include",
        LedgerEntry::Account(_) => "account",
        LedgerEntry::Commodity(_) => "commodity",
    }
}

/// what the implementation does with one text: the parsed entries (as Coq terms, and in the
/// canonical form C05 compares) and the bytes `format` writes
pub fn process(text: &str) -> Value {
    let parsed = std::panic::catch_unwind(|| {
        let r: Result<Vec<LedgerEntry>, _> = parse_ledger::<Ident>(&ParseOptions::default(), text)
            .map(|r| r.map(|(_, e)| e))
            .collect();
        match r {
            Ok(es) => {
                let mut p = Printer::new(false);
                let terms: Vec<String> = es.iter().map(|e| p.entry(e)).collect();
                let mut c = Printer::new(true);
                let canon: Vec<String> = es.iter().map(|e| c.entry(e)).collect();
                let kinds: Vec<&str> = es.iter().map(entry_kind).collect();
                let nontrivial = es.iter().any(crate::c19::entry_nontrivial);
                json!({"ok": {"terms": terms, "canon": canon, "widths": p.widths_term(), "wide": p.wide,
                              "kinds": kinds, "nontrivial": nontrivial}})
            }
            Err(e) => json!({"err": e.to_string()}),
        }
    })
    .unwrap_or(json!("panic"));
    let formatted = std::panic::catch_unwind(|| {
        let mut out: Vec<u8> = Vec::new();
        let mut r = text.as_bytes();
        match FormatOptions::new().format(&mut r, &mut out) {
            Ok(()) => json!({"ok": String::from_utf8_lossy(&out)}),
            Err(e) => json!({"err": format!("{:?}", e).chars().take(40).collect::<String>()}),
        }
    })
    .unwrap_or(json!("panic"));
    json!({"parse": parsed, "format": formatted})
}

pub fn serve() {
    let stdin = std::io::stdin();
    let stdout = std::io::stdout();
    for line in stdin.lock().lines() {
        let line = match line {
            Ok(l) => l,
            Err(_) => break,
        };
        let req: Value = match serde_json::from_str(&line) {
            Ok(v) => v,
            Err(_) => continue,
        };
        let text = req.get("text").and_then(|t| t.as_str()).unwrap_or("");
        let resp = process(text);
        let mut o = stdout.lock();
        writeln!(o, "{}", resp).unwrap();
        o.flush().unwrap();
    }
}

/// the worker's answer, or: it did not answer within the timeout (hang), or it died (abort,
/// stack overflow)
pub enum Reply {
    Ok(Value),
    Hang,
    Died,
}

pub struct Worker {
    child: Child,
    stdin: ChildStdin,
    rx: Receiver<String>,
    pub hangs: u64,
}

impl Worker {
    pub fn spawn() -> Worker {
        let exe = std::env::current_exe().expect("current_exe");
        let mut child = Command::new(exe)
            .arg("fmt-worker")
            .stdin(Stdio::piped())
            .stdout(Stdio::piped())
            .stderr(Stdio::null())
            .spawn()
            .expect("spawn worker");
        let stdin = child.stdin.take().unwrap();
        let stdout = child.stdout.take().unwrap();
        let (tx, rx) = channel();
        std::thread::spawn(move || {
            for line in BufReader::new(stdout).lines() {
                match line {
                    Ok(l) => {
                        if tx.send(l).is_err() {
                            break;
                        }
                    }
                    Err(_) => break,
                }
            }
        });
        Worker { child, stdin, rx, hangs: 0 }
    }

    fn restart(&mut self) {
        let _ = self.child.kill();
        let _ = self.child.wait();
        let hangs = self.hangs;
        *self = Worker::spawn();
        self.hangs = hangs;
    }

    pub fn request(&mut self, text: &str) -> Reply {
        let req = json!({ "text": text }).to_string();
        if writeln!(self.stdin, "{}", req).is_err() || self.stdin.flush().is_err() {
            self.restart();
            return Reply::Died;
        }
        match self.rx.recv_timeout(Duration::from_secs(8)) {
            Ok(line) => match serde_json::from_str(&line) {
                Ok(v) => Reply::Ok(v),
                Err(_) => Reply::Died,
            },
            Err(RecvTimeoutError::Timeout) => {
                self.hangs += 1;
                self.restart();
                Reply::Hang
            }
            Err(RecvTimeoutError::Disconnected) => {
                self.restart();
                Reply::Died
            }
        }
    }
}

impl Drop for Worker {
    fn drop(&mut self) {
        let _ = self.child.kill();
        let _ = self.child.wait();
    }
}
