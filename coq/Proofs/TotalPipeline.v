(* C06, the whole path on one text (Model/Lower.v `pipeline`): parse, print, book, build the
   price repository, query the balance with or without a conversion, list the postings.
   No stage yields its hazard value. *)
From Coq Require Import List NArith ZArith Bool QArith Qcanon Lia.
From Okv Require Import Base.Maps Base.Dec Model.Lit Model.Syntax Model.Amount Model.Book Model.Query
     Model.Render Model.PriceDb Model.PriceHazard Model.Convert Model.Intern Model.Named
     Model.Display Model.ParseLedger Model.Lower
     Proofs.ParseTotal Proofs.TotalFormat Proofs.TotalReport.
Import ListNotations.

Definition is_hazard (r : pl_result) : Prop := exists st, r = PlHazard st.

(* the stages before the query do not depend on the fuel *)
Lemma pipeline_stages : forall w choose o s, head_width_ok w ->
  (exists r, (forall fuel, pipeline w fuel choose o s = r) /\ ~ is_hazard r) \/
  (exists text recs b cv,
     (forall fuel, pipeline w fuel choose o s =
        match balance_query fuel choose recs b cv (ro_start o) (ro_end o) with
        | COutOfFuel => PlHazard StQuery
        | CErr e => PlConversionError text e
        | COk bal => PlReport text (render_balance bal) (render_register (postings_of b None))
        end)).
Proof.
  intros w choose o s W. unfold pipeline.
  pose proof (parse_total s) as PT. destruct (parse_ledger s) as [es|es e|k|k|] eqn:P; cbn [no_hazard] in PT; try contradiction.
  2:{ left. eexists. split; [intro; reflexivity|]. intros [st E]. discriminate. }
  rewrite (format_total w W s es P).
  destruct (low_entries [] [] (map e_entry es)) as [[ta tc] nes].
  pose proof (process_named_no_panic nes) as NP.
  destruct (process_named nes) as [[st|e|] i]; cbn [fst] in NP; [| |congruence].
  2:{ left. eexists. split; [intro; reflexivity|]. intros [x E]. discriminate. }
  rewrite repository_chk_total.
  destruct (conversion_of o tc (n_com st)) as [cv|[]].
  - right. exists (format_entries w (map e_entry es)), (repository (s_events (n_book st)) (ro_db o)), (n_book st), cv.
    intro fuel. reflexivity.
  - left. eexists. split; [intro; reflexivity|]. intros [x E]. discriminate.
Qed.

Theorem pipeline_total : forall w choose o s, head_width_ok w ->
  exists fuel0, forall fuel, (fuel0 <= fuel)%nat -> ~ is_hazard (pipeline w fuel choose o s).
Proof.
  intros w choose o s W. destruct (pipeline_stages w choose o s W) as [[r [E H]]|[text [recs [b [cv E]]]]].
  - exists O. intros fuel _. rewrite E. exact H.
  - destruct (balance_query_total choose recs b cv (ro_start o) (ro_end o)) as [f F].
    exists f. intros fuel L. rewrite E. destruct (F fuel L) as [[bal B]|[e B]]; rewrite B; intros [x X]; discriminate.
Qed.

(* without a conversion no budget is involved at all *)
Theorem pipeline_plain_total : forall w choose o s fuel, head_width_ok w -> ro_exchange o = None ->
  ~ is_hazard (pipeline w fuel choose o s).
Proof.
  intros w choose o s fuel W X. unfold pipeline.
  pose proof (parse_total s) as PT. destruct (parse_ledger s) as [es|es e|k|k|] eqn:P; cbn [no_hazard] in PT; try contradiction.
  2:{ intros [st E]. discriminate. }
  rewrite (format_total w W s es P).
  destruct (low_entries [] [] (map e_entry es)) as [[ta tc] nes].
  pose proof (process_named_no_panic nes) as NP.
  destruct (process_named nes) as [[st|e|] i]; cbn [fst] in NP; [| |congruence].
  2:{ intros [x E]. discriminate. }
  rewrite repository_chk_total. unfold conversion_of. rewrite X.
  pose proof (balance_query_nf fuel choose (repository (s_events (n_book st)) (ro_db o)) (n_book st) None (ro_start o) (ro_end o)) as Q.
  destruct (balance_query fuel choose (repository (s_events (n_book st)) (ro_db o)) (n_book st) None (ro_start o) (ro_end o)).
  - intros [x E]. discriminate.
  - intros [x E]. discriminate.
  - exfalso. apply Q; [intros; discriminate|intros; discriminate|reflexivity].
Qed.

(* ---- the definitions compute what they should ---- *)
Example low_date_epoch : low_date {| d_year := 1970; d_month := 1; d_day := 1 |} = 0%Z
  /\ low_date {| d_year := 2024; d_month := 1; d_day := 1 |} = 19723%Z
  /\ low_date {| d_year := 2000; d_month := 3; d_day := 1 |} = 11017%Z
  /\ low_date {| d_year := 1969; d_month := 12; d_day := 31 |} = (-1)%Z.
Proof. repeat split; vm_compute; reflexivity. Qed.

Definition opts0 : report_opts :=
  {| ro_exchange := None; ro_historical := false; ro_now := 19875%Z; ro_start := None; ro_end := None; ro_db := [] |}.

(* "2024/01/01 x\n  A  1 USD\n  B\n": booked, B receives -1 USD *)
Definition sample_text : list N :=
  [50;48;50;52;47;48;49;47;48;49;32;120;10; 32;32;65;32;32;49;32;85;83;68;10; 32;32;66;10]%N.

Example sample_runs :
  match pipeline (@length N) 0 choose_max opts0 sample_text with
  | PlReport _ [(a, [(c, v)]); (b, [(c', v')])] [_; _] =>
      a = 0%N /\ b = 1%N /\ c = 0%N /\ c' = 0%N /\ v = 1%Qc /\ v' = (- (1))%Qc
  | _ => False
  end.
Proof. vm_compute. repeat split; apply Qc_is_canon; reflexivity. Qed.

(* "2024/01/01 x\n  A  1 USD\n  B  1 EUR\n" with -X JPY: an error message, not a crash *)
Example sample_unbalanced :
  match pipeline (@length N) 0 choose_max opts0
          [50;48;50;52;47;48;49;47;48;49;32;120;10; 32;32;65;32;32;49;32;85;83;68;10; 32;32;66;32;32;49;32;69;85;82;10]%N with
  | PlProcessError _ (NBook (UnbalancedPostings _)) 0 => True
  | _ => False
  end.
Proof. vm_compute. exact I. Qed.

Theorem pipeline_never_hazard : forall w choose o s, head_width_ok w ->
  exists fuel0, forall fuel, (fuel0 <= fuel)%nat ->
    forall st, pipeline w fuel choose o s <> PlHazard st.
Proof.
  intros w choose o s W. destruct (pipeline_total w choose o s W) as [f H]. exists f.
  intros fuel L st E. apply (H fuel L). exists st. exact E.
Qed.

Theorem pipeline_plain_never_hazard : forall w choose o s fuel st,
  head_width_ok w -> ro_exchange o = None -> pipeline w fuel choose o s <> PlHazard st.
Proof.
  intros w choose o s fuel st W X E. apply (pipeline_plain_total w choose o s fuel W X). exists st. exact E.
Qed.
