(* C15: the hypothesis `clean` is satisfiable by a realistic imported transaction, and each known
   class K0..K4 (text for which ledger has no escape syntax) really breaks the round trip. *)
From Coq Require Import List NArith ZArith Bool.
From Okv Require Import Model.Lit Model.SingleEntry2 Model.TxnText Model.TxnTextSpec.
From Okv Require Import Proofs.TxnTextRoundtrip.
Import ListNotations.
Open Scope N_scope.

(* the round trip as a computation on the reader's answer *)
Definition rt_ok (p : precisions) (t : stxn) (r : rres) : bool :=
  match r with
  | RItems [ITxn u] false => same_txn p t u
  | _ => false
  end.

Lemma rt_ok_complete : forall p t x,
  (exists t', read_all x = RItems [ITxn t'] false /\ same_txn p t t' = true) -> rt_ok p t (read_all x) = true.
Proof. intros p t x (t' & -> & H). exact H. Qed.

Lemma rt_ok_sound : forall p t x, rt_ok p t (read_all x) = true ->
  exists t', read_all x = RItems [ITxn t'] false /\ same_txn p t t' = true.
Proof.
  intros p t x H. unfold rt_ok in H.
  destruct (read_all x) as [[|[u|] [|? ?]] [|]| | |]; try discriminate.
  exists u. split; [reflexivity|exact H].
Qed.

(* ---------------- a realistic clean transaction ---------------- *)
Definition s_chf : str := [67;72;70].
Definition s_usd : str := [85;83;68].
Definition dec (ng : bool) (m : N) (s : nat) : pdec := {| neg := ng; mant := m; scale := s; pfmt := None |}.
Definition amt (ng : bool) (m : N) (s : nat) (c : str) : samount := {| sa_value := dec ng m s; sa_comm := c |}.

(* 2024/02/29=2024/03/01 * (REF-123) Café Zürich
       ; imported 2024
       Assets:Bank:Checking                    -12.50 CHF = 1000.00 CHF
       Expenses:Commissions                     -0.00 CHF
       ; Payee: Bank AG
       ! Expenses:Eating Out                    13.37 USD @ 0.935 CHF *)
Definition ex_txn : stxn :=
  {| tr_date := {| d_y := 2024; d_m := 2; d_d := 29 |};
     tr_edate := Some {| d_y := 2024; d_m := 3; d_d := 1 |};
     tr_clear := Cleared;
     tr_code := Some [82;69;70;45;49;50;51];
     tr_payee := [67;97;102;233;32;90;252;114;105;99;104];
     tr_meta := [MComment [105;109;112;111;114;116;101;100;32;50;48;50;52]];
     tr_posts :=
       [ {| sp_account := [65;115;115;101;116;115;58;66;97;110;107;58;67;104;101;99;107;105;110;103];
            sp_clear := Uncleared;
            sp_amount := Some {| pa_amount := amt true 1250 2 s_chf; pa_cost := None |};
            sp_balance := Some (amt false 1000 0 s_chf); sp_meta := [] |};
         {| sp_account := s_expenses_commissions; sp_clear := Uncleared;
            sp_amount := Some {| pa_amount := amt true 0 2 s_chf; pa_cost := None |};
            sp_balance := None; sp_meta := [MKeyValue s_payee_key [66;97;110;107;32;65;71]] |};
         {| sp_account := [69;120;112;101;110;115;101;115;58;69;97;116;105;110;103;32;79;117;116];
            sp_clear := Pending;
            sp_amount := Some {| pa_amount := amt false 1337 2 s_usd; pa_cost := Some (amt false 935 3 s_chf) |};
            sp_balance := None; sp_meta := [] |} ] |}.
Definition ex_prec : precisions := [(s_chf, 2%nat); (s_usd, 2%nat)].
Definition ex_widths : list nat := [20%nat; 20%nat; 19%nat].

Example ex_clean : clean ex_txn = true.
Proof. vm_compute. reflexivity. Qed.

Example ex_no_known_class : known_class ex_txn = None.
Proof. vm_compute. reflexivity. Qed.

(* checked by running printer and reader *)
Example ex_roundtrip_computed : rt_ok ex_prec ex_txn (read_all (txn_text ex_prec ex_widths ex_txn ++ [10])) = true.
Proof. vm_compute. reflexivity. Qed.

(* the balance assertion `1000 CHF` was padded to two places, the negative zero lost its sign *)
Example ex_reads_as :
  exists u, read_all (txn_text ex_prec ex_widths ex_txn ++ [10]) = RItems [ITxn u] false /\
            map (fun po => option_map (fun b => (mant (sa_value b), scale (sa_value b))) (sp_balance po)) (tr_posts u)
              = [Some (100000, 2%nat); None; None] /\
            map (fun po => option_map (fun a => neg (sa_value (pa_amount a))) (sp_amount po)) (tr_posts u)
              = [Some true; Some false; Some false].
Proof. eexists. split; [vm_compute; reflexivity|]. split; reflexivity. Qed.

(* and by the theorem *)
Example ex_roundtrip : exists t',
  read_all (txn_text ex_prec ex_widths ex_txn ++ [10]) = RItems [ITxn t'] false /\ same_txn ex_prec ex_txn t' = true.
Proof. apply roundtrip. exact ex_clean. Qed.

Example ex_roundtrip_twice : exists ts',
  read_all (print_all ex_prec [ex_widths; ex_widths] [ex_txn; ex_txn]) = RItems (map ITxn ts') false /\
  length ts' = 2%nat /\ list_same (same_txn ex_prec) [ex_txn; ex_txn] ts' = true.
Proof. apply roundtrip_all. vm_compute. reflexivity. Qed.

(* ---------------- the known classes are real ---------------- *)
Definition k_base (payee : str) (code : option str) (metas : list metadata) (comm : str) : stxn :=
  {| tr_date := {| d_y := 2024; d_m := 1; d_d := 5 |}; tr_edate := None; tr_clear := Cleared;
     tr_code := code; tr_payee := payee; tr_meta := metas;
     tr_posts := [ {| sp_account := [65;58;66]; sp_clear := Uncleared;
                      sp_amount := Some {| pa_amount := amt false 150 2 comm; pa_cost := None |};
                      sp_balance := None; sp_meta := [] |} ] |}.

(* the base transaction itself is clean and reads back *)
Example k_base_clean : clean (k_base [120] (Some [97]) [MComment [99]] s_usd) = true.
Proof. vm_compute. reflexivity. Qed.

Ltac refute :=
  intros H; apply rt_ok_complete in H; vm_compute in H; discriminate H.

(* K0: payee "a;b" *)
Lemma K0_refuted : exists p ws t, k_payee_semicolon t = true /\
  ~ (exists t', read_all (txn_text p ws t ++ [10]) = RItems [ITxn t'] false /\ same_txn p t t' = true).
Proof.
  exists [], [3%nat], (k_base [97;59;98] None [] s_usd). split; [reflexivity|]. refute.
Qed.

(* K1: payee "(x) y" *)
Lemma K1_refuted : exists p ws t, k_payee_paren t = true /\
  ~ (exists t', read_all (txn_text p ws t ++ [10]) = RItems [ITxn t'] false /\ same_txn p t t' = true).
Proof.
  exists [], [3%nat], (k_base [40;120;41;32;121] None [] s_usd). split; [reflexivity|]. refute.
Qed.

(* K2: code "a)b" *)
Lemma K2_refuted : exists p ws t, k_code_paren t = true /\
  ~ (exists t', read_all (txn_text p ws t ++ [10]) = RItems [ITxn t'] false /\ same_txn p t t' = true).
Proof.
  exists [], [3%nat], (k_base [120] (Some [97;41;98]) [] s_usd). split; [reflexivity|]. refute.
Qed.

(* K3: comment "Payee: x" *)
Lemma K3_refuted : exists p ws t, k_comment_meta t = true /\
  ~ (exists t', read_all (txn_text p ws t ++ [10]) = RItems [ITxn t'] false /\ same_txn p t t' = true).
Proof.
  exists [], [3%nat], (k_base [120] None [MComment [80;97;121;101;101;58;32;120]] s_usd).
  split; [reflexivity|]. refute.
Qed.

(* K4: commodity "US D" *)
Lemma K4_refuted : exists p ws t, k_commodity t = true /\
  ~ (exists t', read_all (txn_text p ws t ++ [10]) = RItems [ITxn t'] false /\ same_txn p t t' = true).
Proof.
  exists [], [3%nat], (k_base [120] None [] [85;83;32;68]). split; [reflexivity|]. refute.
Qed.

(* each witness is clean apart from the one field *)
Example K_witnesses_otherwise_clean :
  clean (k_base [120] None [] s_usd) = true /\
  known_class (k_base [97;59;98] None [] s_usd) = Some 0 /\
  known_class (k_base [40;120;41;32;121] None [] s_usd) = Some 1 /\
  known_class (k_base [120] (Some [97;41;98]) [] s_usd) = Some 2 /\
  known_class (k_base [120] None [MComment [80;97;121;101;101;58;32;120]] s_usd) = Some 3 /\
  known_class (k_base [120] None [] [85;83;32;68]) = Some 4.
Proof. vm_compute. repeat split; reflexivity. Qed.
