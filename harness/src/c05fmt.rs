//! C05, printer half (exploration; no Coq side yet): on the implementation,
//!   (i)  format(format(s)) = format(s) byte for byte,
//!   (ii) parse(format(s)) = parse(s) field by field (numbers: sign, mantissa, scale, and the
//!        grouping style when the integer part is at least 1000),
//! for texts printed from generated syntax trees, for texts generated from doc/syntax.md with
//! arbitrary horizontal whitespace / blank lines / CRLF / comment prefixes / date separators /
//! missing final newline, and for the ledger files of /repo.  Everything runs in the worker
//! process with a timeout (F3).  Writes <out>/c05fmt_report.json and, with --write-corpus DIR,
//! the shrunk failing inputs and some passing ones as JSON files.
use crate::c19;
use crate::fmtworker::{Reply, Worker};
use crate::prng::Rng;
use crate::Opts;
use serde_json::{json, Value};
use std::collections::BTreeMap;

#[derive(Clone, Debug, PartialEq)]
pub enum Class {
    Pass,
    /// the text is not accepted by the parser
    Rejected,
    /// parse or format did not return (F3)
    Hang,
    Died,
    ParsePanic,
    /// parses, but format fails or panics
    FormatFails,
    /// format(s) does not parse
    FormattedRejected,
    FormattedHang,
    /// parse(format(s)) != parse(s)
    MeaningChanged,
    /// format(format(s)) != format(s)
    NotIdempotent,
    /// (trees only) parse(print(T)) != T although print(T) passes (i) and (ii): T is not in the
    /// image of the parser, or print and parse disagree on it
    TreeRoundTripDiffers,
}

impl Class {
    fn name(&self) -> &'static str {
        match self {
            Class::Pass => "pass",
            Class::Rejected => "rejected",
            Class::Hang => "hang",
            Class::Died => "worker-died",
            Class::ParsePanic => "parse-panic",
            Class::FormatFails => "format-fails-on-parsed-text",
            Class::FormattedRejected => "formatted-text-rejected",
            Class::FormattedHang => "formatted-text-hang",
            Class::MeaningChanged => "meaning-changed",
            Class::NotIdempotent => "not-idempotent",
            Class::TreeRoundTripDiffers => "tree-round-trip-differs",
        }
    }
}

pub struct Outcome {
    pub class: Class,
    pub detail: Value,
    pub entries: usize,
}

fn canon(v: &Value) -> Option<Vec<String>> {
    v["parse"].get("ok").map(|ok| ok["canon"].as_array().unwrap().iter().map(|x| x.as_str().unwrap().to_string()).collect())
}

pub fn examine(w: &mut Worker, text: &str) -> Outcome {
    let r1 = match w.request(text) {
        Reply::Ok(v) => v,
        Reply::Hang => return Outcome { class: Class::Hang, detail: json!({}), entries: 0 },
        Reply::Died => return Outcome { class: Class::Died, detail: json!({}), entries: 0 },
    };
    if r1["parse"] == json!("panic") {
        return Outcome { class: Class::ParsePanic, detail: json!({}), entries: 0 };
    }
    let c1 = match canon(&r1) {
        Some(c) => c,
        None => return Outcome { class: Class::Rejected, detail: json!({"error": r1["parse"]["err"]}), entries: 0 },
    };
    let n = c1.len();
    let f1 = match r1["format"].get("ok").and_then(|x| x.as_str()) {
        Some(s) => s.to_string(),
        None => return Outcome { class: Class::FormatFails, detail: json!({"format": r1["format"]}), entries: n },
    };
    let r2 = match w.request(&f1) {
        Reply::Ok(v) => v,
        _ => return Outcome { class: Class::FormattedHang, detail: json!({"formatted": f1}), entries: n },
    };
    let c2 = match canon(&r2) {
        Some(c) => c,
        None => {
            return Outcome { class: Class::FormattedRejected, detail: json!({"formatted": f1, "error": r2["parse"]}), entries: n }
        }
    };
    if c1 != c2 {
        let k = c1.iter().zip(c2.iter()).position(|(a, b)| a != b).unwrap_or(c1.len().min(c2.len()));
        return Outcome {
            class: Class::MeaningChanged,
            detail: json!({"formatted": f1, "entries_before": c1.len(), "entries_after": c2.len(),
                           "first_difference_at_entry": k, "before": c1.get(k), "after": c2.get(k)}),
            entries: n,
        };
    }
    let f2 = r2["format"].get("ok").and_then(|x| x.as_str()).map(|s| s.to_string());
    if f2.as_deref() != Some(f1.as_str()) {
        return Outcome { class: Class::NotIdempotent, detail: json!({"formatted": f1, "formatted_twice": f2}), entries: n };
    }
    Outcome { class: Class::Pass, detail: json!({"formatted": f1}), entries: n }
}

/// remove lines while the class stays the same
fn shrink(w: &mut Worker, text: &str, class: &Class) -> String {
    let mut lines: Vec<String> = text.split_inclusive('\n').map(|s| s.to_string()).collect();
    let mut budget = 120;
    // the first line stays: without its header a transaction is rejected for another reason
    let mut i = 1;
    while i < lines.len() && budget > 0 && lines.len() > 1 {
        let mut cand = lines.clone();
        cand.remove(i);
        let t: String = cand.concat();
        budget -= 1;
        if !t.is_empty() && examine(w, &t).class == *class {
            lines = cand;
        } else {
            i += 1;
        }
    }
    lines.concat()
}

// ------------------------------------------------------------------------------------------
// texts from doc/syntax.md
// ------------------------------------------------------------------------------------------

struct Doc<'a> {
    r: &'a mut Rng,
    /// features used that doc/syntax.md does not document (the text is then not a witness of
    /// "documented syntax is rejected")
    beyond_doc: Vec<&'static str>,
    crlf: bool,
}

const COMMODITIES: &[&str] = &["USD", "CHF", "JPY", "€", "円", "$", "ACME", "米ドル"];
const ACCOUNTS: &[&str] = &[
    "Assets:Bank", "Expenses:Food", "Equity", "Liabilities:Card Visa", "資産:現金", "Assets:Broker:ACME", "Income:Salary",
    "Expenses:Very:Long:Account:Name:That:Goes:Beyond:The:Column:Yes", "A", "Expenses:Café", "Assets:a-b_c.d",
];
const PAYEES: &[&str] = &["Migros", "Opening Balance", "給与", "Dinner with A & B", "x", "(maybe) a payee", "#hash", "Coop  city"];

impl Doc<'_> {
    fn sp0(&mut self) -> String {
        match self.r.below(6) {
            0 => " ".into(),
            1 => "\t".into(),
            2 => "  ".into(),
            _ => String::new(),
        }
    }
    fn sp1(&mut self) -> String {
        match self.r.below(8) {
            0 => "\t".into(),
            1 => "  ".into(),
            2 => " \t ".into(),
            3 => "   ".into(),
            _ => " ".into(),
        }
    }
    fn nl(&mut self) -> &'static str {
        if self.crlf {
            "\r\n"
        } else {
            "\n"
        }
    }
    fn date(&mut self) -> String {
        let y = self.r.range(1990, 2030);
        let m = self.r.range(1, 12);
        let d = self.r.range(1, 28);
        let sep = if self.r.chance(1, 3) { '-' } else { '/' };
        if self.r.chance(1, 10) {
            self.beyond_doc.push("date with one-digit month or day");
            format!("{}{}{}{}{}", y, sep, m, sep, d)
        } else {
            format!("{:04}{}{:02}{}{:02}", y, sep, m, sep, d)
        }
    }
    fn number(&mut self) -> String {
        let n = 1 + self.r.below(7) as usize;
        let mut ip = String::new();
        for i in 0..n {
            let d = if i == 0 && n > 1 { 1 + self.r.below(9) } else { self.r.below(10) };
            ip.push((b'0' + d as u8) as char);
        }
        let mut s = String::new();
        if n >= 4 && self.r.chance(1, 2) {
            let first = ((n - 1) % 3) + 1;
            s.push_str(&ip[..first]);
            for ch in ip.as_bytes()[first..].chunks(3) {
                s.push(',');
                s.push_str(std::str::from_utf8(ch).unwrap());
            }
        } else {
            s = ip;
        }
        if self.r.chance(1, 2) {
            s.push('.');
            let f = self.r.below(4);
            if f == 0 && self.r.chance(1, 2) {
                // "1." is in the documented grammar (decimal-number*)
            }
            for _ in 0..f {
                s.push((b'0' + self.r.below(10) as u8) as char);
            }
        }
        s
    }
    fn amount(&mut self, commodity: bool, top: bool) -> String {
        let mut s = String::new();
        if top && self.r.chance(1, 4) {
            self.beyond_doc.push("negative literal");
            s.push('-');
        }
        s.push_str(&self.number());
        if commodity {
            s.push_str(&self.sp0());
            s.push_str(*self.r.pick(COMMODITIES));
        }
        s
    }
    fn unary(&mut self, depth: u32) -> String {
        let neg = self.r.chance(1, 4);
        let v = self.value_expr(depth, false);
        if neg {
            format!("-{}", v)
        } else {
            v
        }
    }
    fn mul(&mut self, depth: u32) -> String {
        let mut s = self.unary(depth);
        while self.r.chance(1, 3) {
            let op = if self.r.chance(1, 2) { '*' } else { '/' };
            s = format!("{}{}{}{}{}", s, self.sp0(), op, self.sp0(), self.unary(depth));
        }
        s
    }
    fn add(&mut self, depth: u32) -> String {
        let mut s = self.mul(depth);
        while self.r.chance(1, 3) {
            let op = if self.r.chance(1, 2) { '+' } else { '-' };
            s = format!("{}{}{}{}{}", s, self.sp0(), op, self.sp0(), self.mul(depth));
        }
        s
    }
    fn value_expr(&mut self, depth: u32, top: bool) -> String {
        if depth == 0 || self.r.chance(3, 4) {
            let c = !self.r.chance(1, 5);
            self.amount(c, top)
        } else {
            format!("({}{}{})", self.sp0(), self.add(depth - 1), self.sp0())
        }
    }
    fn lot(&mut self) -> String {
        let mut parts: Vec<String> = Vec::new();
        if self.r.chance(1, 2) {
            let a = self.amount(true, false);
            let (o, c) = if self.r.chance(1, 3) { ("{{", "}}") } else { ("{", "}") };
            parts.push(format!("{}{}{}{}{}", o, self.sp0(), a, self.sp0(), c));
        }
        if self.r.chance(1, 2) {
            parts.push(format!("[{}{}{}]", self.sp0(), self.date(), self.sp0()));
        }
        if self.r.chance(1, 2) {
            parts.push(format!("({})", self.r.pick(&["bought before Xmas", "lot 1", "メモ", " spaced "])));
        }
        self.r.shuffle(&mut parts);
        let mut s = String::new();
        for p in parts {
            s.push_str(&p);
            s.push_str(&self.sp0());
        }
        s
    }
    fn metadata_body(&mut self) -> String {
        match self.r.below(4) {
            0 => {
                let n = 1 + self.r.below(3);
                let mut s = format!("{}:", self.sp0());
                for _ in 0..n {
                    s.push_str(*self.r.pick(&["tag", "経済", "a-b", "x1"]));
                    s.push(':');
                }
                s
            }
            1 => format!(
                "{}{}{}:{}{}",
                self.sp0(),
                self.r.pick(&["Payee", "key", "日付"]),
                self.sp0(),
                self.sp1(),
                self.r.pick(&["My Card", "value with ; semicolon", "v", "10 USD"])
            ),
            2 => {
                format!("{}{}{}::{}{}", self.sp0(), self.r.pick(&["Payee", "key"]), self.sp0(), self.sp1(), self.r.pick(&["10 USD", "(1 + 2)", "[2022/3/4]"]))
            }
            _ => format!("{}{}", self.sp0(), self.r.pick(&["a comment", "initial balance", "コメント", "", "not : a tag", "a: b: c"])),
        }
    }
    fn metadata(&mut self) -> String {
        format!(";{}", self.metadata_body())
    }
    fn posting(&mut self) -> String {
        let mut s = self.sp1();
        if self.r.chance(1, 4) {
            s.push(if self.r.chance(1, 2) { '*' } else { '!' });
            s.push_str(&self.sp0());
        }
        s.push_str(*self.r.pick(ACCOUNTS));
        if self.r.chance(5, 6) {
            s.push_str(if self.r.chance(1, 4) { "\t" } else { "  " });
            s.push_str(&self.sp0());
            let has_amount = self.r.chance(5, 6);
            if has_amount {
                s.push_str(&self.value_expr(2, true));
                s.push_str(&self.sp0());
                if self.r.chance(1, 4) {
                    let l = self.lot();
                    if !l.is_empty() && !s.ends_with(' ') && !s.ends_with('\t') {
                        s.push(' ');
                    }
                    s.push_str(&l);
                }
                if self.r.chance(1, 3) {
                    let at = if self.r.chance(1, 3) { "@@" } else { "@" };
                    if !s.ends_with(' ') && !s.ends_with('\t') && self.r.chance(3, 4) {
                        s.push(' ');
                    }
                    s.push_str(at);
                    s.push_str(&self.sp0());
                    s.push_str(&self.value_expr(1, true));
                    s.push_str(&self.sp0());
                }
            }
            if self.r.chance(1, 4) || !has_amount {
                s.push('=');
                s.push_str(&self.sp0());
                s.push_str(&self.value_expr(1, true));
                s.push_str(&self.sp0());
            }
        }
        if self.r.chance(1, 6) {
            s.push_str(&self.sp0());
            s.push_str(&self.metadata());
        }
        s.push_str(self.nl());
        while self.r.chance(1, 6) {
            s.push_str(&self.sp1());
            s.push_str(&self.metadata());
            s.push_str(self.nl());
        }
        s
    }
    fn transaction(&mut self) -> String {
        let mut s = self.date();
        if self.r.chance(1, 6) {
            s.push('=');
            s.push_str(&self.date());
        }
        if self.r.chance(9, 10) {
            s.push_str(&self.sp1());
            if self.r.chance(1, 3) {
                s.push(if self.r.chance(1, 2) { '*' } else { '!' });
                s.push_str(&self.sp0());
            }
            if self.r.chance(1, 4) {
                s.push_str(&format!("({})", self.r.pick(&["#txn-1", "123", " spaced code ", "コード", ""])));
                s.push_str(&self.sp0());
            }
            if self.r.chance(9, 10) {
                s.push_str(*self.r.pick(PAYEES));
            }
        }
        if self.r.chance(1, 6) {
            s.push_str(&self.sp0());
            s.push_str(&self.metadata());
        }
        s.push_str(self.nl());
        while self.r.chance(1, 6) {
            s.push_str(&self.sp1());
            s.push_str(&self.metadata());
            s.push_str(self.nl());
        }
        let n = self.r.below(5);
        for _ in 0..n {
            s.push_str(&self.posting());
        }
        s
    }
    fn comment_line(&mut self) -> String {
        format!(
            "{}{}{}",
            self.r.pick(&[";", "#", "%", "|", "*", ";;", "; "]),
            self.r.pick(&["a comment", " spaced", "", "コメント", "-*- ledger -*-"]),
            self.nl()
        )
    }
    fn directive(&mut self) -> String {
        match self.r.below(14) {
            0 => {
                let n = 1 + self.r.below(3);
                (0..n).map(|_| self.comment_line()).collect()
            }
            1 => {
                let mut s = format!("account{}{}{}{}", self.sp1(), self.r.pick(ACCOUNTS), self.sp0(), self.nl());
                while self.r.chance(1, 2) {
                    match self.r.below(3) {
                        0 => s.push_str(&format!("{}note{}{}{}", self.sp1(), self.sp1(), self.r.pick(&["a note", "これは何でしょうか"]), self.nl())),
                        1 => s.push_str(&format!("{}alias{}{}{}", self.sp1(), self.sp1(), self.r.pick(&["Bar", "B:C D", "別名"]), self.nl())),
                        _ => {
                            s.push_str(&self.sp1());
                            s.push_str(&self.comment_line());
                        }
                    }
                }
                s
            }
            2 => {
                let mut s = format!("commodity{}{}{}{}", self.sp1(), self.r.pick(COMMODITIES), self.sp0(), self.nl());
                while self.r.chance(1, 2) {
                    match self.r.below(4) {
                        0 => s.push_str(&format!("{}note{}{}{}", self.sp1(), self.sp1(), self.r.pick(&["a note", "通貨"]), self.nl())),
                        1 => s.push_str(&format!("{}alias{}{}{}", self.sp1(), self.sp1(), self.r.pick(COMMODITIES), self.nl())),
                        2 => {
                            let a = self.amount(true, false);
                            s.push_str(&format!("{}format{}{}{}", self.sp1(), self.sp1(), a, self.nl()))
                        }
                        _ => {
                            s.push_str(&self.sp1());
                            s.push_str(&self.comment_line());
                        }
                    }
                }
                s
            }
            3 => match self.r.below(3) {
                0 => format!("apply{}tag{}{}{}{}", self.sp1(), self.sp1(), self.r.pick(&["foo", "key-1", "鍵"]), self.sp0(), self.nl()),
                1 => format!("apply{}tag{}key{}:{}value text{}", self.sp1(), self.sp1(), self.sp0(), self.sp1(), self.nl()),
                _ => format!("apply{}tag{}key{}::{}10 USD{}", self.sp1(), self.sp1(), self.sp0(), self.sp1(), self.nl()),
            },
            4 => format!("end{}apply{}tag{}{}", self.sp1(), self.sp1(), self.sp0(), self.nl()),
            5 => format!("include{}{}{}", self.sp1(), self.r.pick(&["path/to/other.ledger", "*.ledger", "a b/c.ledger"]), self.nl()),
            _ => self.transaction(),
        }
    }
}

/// (text, features beyond the documented grammar, ends without newline, has a space-only blank line)
fn doc_text(r: &mut Rng) -> (String, Vec<&'static str>, bool, bool) {
    let crlf = r.chance(1, 8);
    let mut d = Doc { r, beyond_doc: Vec::new(), crlf };
    let mut s = String::new();
    let mut spacey_blank = false;
    let lead = d.r.below(3);
    for _ in 0..lead {
        s.push_str(d.nl());
    }
    let n = 1 + d.r.below(4);
    for i in 0..n {
        s.push_str(&d.directive());
        let blanks = if i + 1 == n { d.r.below(2) } else { 1 + d.r.below(2) };
        for _ in 0..blanks {
            if d.r.chance(1, 12) {
                // vertical-space ::= sp* new-line
                spacey_blank = true;
                s.push_str(&d.sp1());
            }
            s.push_str(d.nl());
        }
    }
    let mut no_final_newline = false;
    if d.r.chance(1, 12) {
        // new-line ::= ... | <EOF>
        while s.ends_with('\n') || s.ends_with('\r') {
            s.pop();
        }
        no_final_newline = true;
    }
    let beyond = d.beyond_doc.clone();
    (s, beyond, no_final_newline, spacey_blank)
}

// ------------------------------------------------------------------------------------------

struct Tally {
    counts: BTreeMap<String, u64>,
    examples: BTreeMap<String, Vec<Value>>,
}

impl Tally {
    fn add(&mut self, w: &mut Worker, source: &str, text: &str, o: Outcome, tags: Value, keep: usize) {
        let key = format!("{}:{}", source, o.class.name());
        *self.counts.entry(key.clone()).or_insert(0) += 1;
        let list = self.examples.entry(key).or_default();
        let interesting = o.class != Class::Pass;
        if list.len() < keep {
            let shrunk = if interesting && !matches!(o.class, Class::Hang | Class::FormattedHang | Class::Died | Class::TreeRoundTripDiffers) {
                shrink(w, text, &o.class)
            } else {
                text.to_string()
            };
            let o2 = if shrunk != text { examine(w, &shrunk) } else { o };
            list.push(json!({"property": "C05", "source": source, "class": o2.class.name(), "input": shrunk,
                             "observed": o2.detail, "tags": tags, "entries": o2.entries}));
        }
    }
}

pub const F_WITNESSES: &[(&str, &str, &str)] = &[
    ("F10-subdirective-comment", "account Foo\n  ; c1\n", "before /repo e255344: every format pass added one space before the comment text (`    ;  c1`, then `    ;   c1`): format(format(s)) != format(s)"),
    ("F10-commodity-comment", "commodity USD\n  ; c2\n  note n1\n", "before /repo e255344: as F10-subdirective-comment, for commodity declarations"),
    ("F11-long-account-balance-only", "2024/01/01 x\n    Assets:AAAAAAAAAAAAAAAAAAAAAAAAAAAAAAAAAAAAAAAAAAAAAAAAAAAAAAA  = 0\n    B  1 USD\n", "before /repo 2ee6307: printed `    Assets:AAA...A = 0` (one space); re-parsed as an account named `Assets:AAA...A = 0` without assertion: parse(format(s)) != parse(s)"),
    ("F3-no-final-newline-posting", "2024/01/01 x\n    A  1 USD\n    B", "before /repo 3811056 (parser): `okane format` did not return (killed after 5 s): ParseError::new searched for a char boundary beyond the end of the input"),
    ("F3-no-final-newline-header", "2024/01/01 x", "before /repo 3811056 (parser): did not return (killed after 5 s)"),
    ("F3-no-final-newline-comment", "; comment", "F3 family"),
    ("F3-no-final-newline-account", "account Foo", "F3 family"),
    ("F3-no-final-newline-metadata", "2024/01/01 x\n    A  1 USD\n    ; note", "F3 family"),
    ("F15-space-only-line-after-transaction", "2024/01/01 x\n    A  1 USD\n    B\n  \n2024/01/02 y\n    A  1 USD\n    B\n", "before /repo 5afc3c6 (parser): parse error `invalid account of the posting` at the space-only line, although doc/syntax.md has vertical-space ::= sp* new-line"),
    ("F15-space-only-line-after-comment", "; c\n \n; d\n", "before /repo 5afc3c6 (parser): parse error `no matching syntax` at the space-only line"),
    ("F15-space-only-line-first", "  \n2024/01/01 x\n", "F15 family"),
    ("F15-tab-only-line-after-include", "include a.ledger\n\t\n2024/01/01 x\n", "F15 family"),
    ("F14-small-grouped-fraction", "2024/01/01 x\n    A  0,000.05 USD\n    B\n", "before /repo 6ac1857: format panicked (Comma3Dot Display subtracted with overflow)"),
    ("payee-starting-with-paren", "2024/01/01 (maybe) a payee\n    A  1 USD\n    B\n", ""),
    ("empty-code", "2024/01/01 () x\n", ""),
    ("no-payee", "2024/01/01\n    A  1 USD\n", ""),
    ("negative-zero", "2024/01/01 x\n    A  -0.00 USD\n", ""),
    ("trailing-dot-number", "2024/01/01 x\n    A  1. USD\n", ""),
    ("lot-note-first", "2024/01/01 x\n    A  -2 SPINX (bought before Xmas) {100 USD} [2010/12/23] @ 10000 USD\n", ""),
    ("comment-like-metadata-with-colon", "2024/01/01 x\n    ; not : a tag\n    A  1 USD\n", ""),
    ("crlf", "2024/01/01 x\r\n    A  1 USD\r\n    B\r\n\r\n; c\r\n", ""),
];

pub fn run(o: &Opts) {
    let mut w = Worker::spawn();
    let mut t = Tally { counts: BTreeMap::new(), examples: BTreeMap::new() };
    std::fs::create_dir_all(&o.out).unwrap();

    // 0. the recorded witnesses
    for (name, text, note) in F_WITNESSES {
        let out = examine(&mut w, text);
        t.add(&mut w, &format!("witness:{}", name), text, out, json!({ "history": note }), 1);
    }
    // 1. hand-written texts and the ledger files of /repo
    for text in c19::HAND_WRITTEN {
        let out = examine(&mut w, text);
        t.add(&mut w, "hand-written", text, out, json!({}), 3);
    }
    let mut seeds = Vec::new();
    c19::ledger_files("/repo/testdata", &mut seeds);
    c19::ledger_files("/repo/cli/tests/testdata", &mut seeds);
    for p in &seeds {
        if let Ok(text) = std::fs::read_to_string(p) {
            let out = examine(&mut w, &text);
            t.add(&mut w, "repo-ledger-file", &text, out, json!({"file": p.to_string_lossy()}), 3);
            if text.ends_with('\n') {
                // the same file ending at EOF instead of a newline
                let cut = text.trim_end_matches(['\n', '\r']).to_string();
                let out = examine(&mut w, &cut);
                t.add(&mut w, "repo-ledger-file-without-final-newline", &cut, out, json!({"file": p.to_string_lossy()}), 2);
            }
        }
    }
    // 2. texts printed from generated trees (one entry each: a failure names its entry)
    let keep_trees: usize = o.extra.iter().position(|a| a == "--keep").and_then(|i| o.extra.get(i + 1)).and_then(|x| x.parse().ok()).unwrap_or(6);
    let signed_year = regex::Regex::new(r"(?m)(^|[=\[])[+-][0-9]+/").unwrap();
    let n = if o.thorough { 20000 } else { 2000 };
    for i in 0..n {
        let mut r = Rng::new(o.seed, 2_000_000 + i as u64);
        let e = c19::entry(&mut r);
        if let Some(text) = c19::display(&e) {
            let mut out = examine(&mut w, &text);
            // print-parse round trip on the tree itself: parse(print(T)) = T ?
            if out.class == Class::Pass {
                if let Reply::Ok(v) = w.request(&text) {
                    let mut pr = crate::syntax_term::Printer::new(true);
                    let want = vec![pr.entry(&e)];
                    if let Some(got) = canon(&v) {
                        if got != want {
                            out = Outcome { class: Class::TreeRoundTripDiffers,
                                            detail: json!({"tree": want, "parsed_back": got}), entries: 1 };
                        }
                    }
                }
            }
            // chrono prints years outside 0..=9999 with a sign; the parser never returns them
            let source = if signed_year.is_match(&text) { "printed-tree-year-outside-0-9999" } else { "printed-tree" };
            t.add(&mut w, source, &text, out, json!({"seed": o.seed, "stream": 2_000_000 + i as u64}), keep_trees);
        }
    }
    // 3. texts in the documented syntax
    let n = if o.thorough { 20000 } else { 3000 };
    for i in 0..n {
        let mut r = Rng::new(o.seed, 5_000_000 + i as u64);
        let (text, beyond, no_nl, spacey) = doc_text(&mut r);
        let out = examine(&mut w, &text);
        let source = if !beyond.is_empty() {
            "doc-grammar-plus-undocumented"
        } else if no_nl {
            "doc-grammar-no-final-newline"
        } else if spacey {
            "doc-grammar-space-only-blank-line"
        } else {
            "doc-grammar"
        };
        t.add(&mut w, source, &text, out, json!({"beyond_doc": beyond, "seed": o.seed, "stream": 5_000_000 + i as u64}), 6);
    }
    let report = json!({"property": "C05", "leg": "printer half: format idempotence and meaning preservation on the implementation",
                        "seed": o.seed, "tier": if o.thorough { "thorough" } else { "quick" },
                        "worker_hangs": w.hangs, "counts": t.counts, "examples": t.examples});
    std::fs::write(o.out.join("c05fmt_report.json"), serde_json::to_string_pretty(&report).unwrap()).unwrap();
    // corpus files
    if let Some(i) = o.extra.iter().position(|a| a == "--write-corpus") {
        if let Some(dir) = o.extra.get(i + 1) {
            std::fs::create_dir_all(dir).unwrap();
            for (key, list) in &t.examples {
                for (k, ex) in list.iter().enumerate() {
                    let pass = ex["class"] == "pass";
                    if pass && (k > 0 && !key.starts_with("witness")) {
                        continue;
                    }
                    let name: String = key.chars().map(|c| if c.is_ascii_alphanumeric() || c == '-' { c } else { '_' }).collect();
                    std::fs::write(
                        std::path::Path::new(dir).join(format!("{}-{}.json", name, k)),
                        serde_json::to_string_pretty(ex).unwrap(),
                    )
                    .unwrap();
                }
            }
        }
    }
    for (k, v) in &t.counts {
        println!("{:60} {}", k, v);
    }
}
