//! C05, long files: what `okane format FILE` does between the file and the parser.
//! Texts of 4-200 KiB in which a multi-byte character of an account, payee, commodity, code,
//! comment, metadata value or directive argument lies across (or right beside) a multiple of
//! 4096 / 8192 / 65536 bytes, raw and already formatted, are formatted
//!   (a) by the command itself on a real file (`okane format FILE`: File -> BufReader ->
//!       format::format), and once more on a file holding that output,
//!   (b) by FormatOptions::format through readers that return at most k bytes per read
//!       (k = 1, 2, 3, 7, 4095 ... 65536, and a changing pattern),
//! and compared inside Coq, byte for byte, with the printing of parse_ledger(text) computed on
//! the &str in memory (no reader involved).  Texts of at most 11 KB also go through the whole
//! model leg of C05 (parser model on the text and on the command's output) as ordinary cases
//! whose format observations come from (a).
use crate::c05;
use crate::child::{self, ChildObs};
use crate::cli::{self, Scratch};
use crate::coq::{self, Shards, Stats};
use crate::prng::Rng;
use crate::syntax_term::Printer;
use okane_core::parse::{parse_ledger, ParseOptions};
use okane_core::syntax::display::DisplayContext;
use okane_core::syntax::plain::{Ident, LedgerEntry};
use serde_json::{json, Value};
use std::collections::HashMap;
use std::io::Write as _;

/// print(parse(text)): what `format` has to write, computed without any reader
pub fn reference(text: &str) -> Result<String, String> {
    let ctx = DisplayContext::default();
    let mut out: Vec<u8> = Vec::new();
    for parsed in parse_ledger::<Ident>(&ParseOptions::default(), text) {
        let (_, entry): (_, LedgerEntry) = parsed.map_err(|e| e.to_string().chars().take(200).collect::<String>())?;
        writeln!(out, "{}", ctx.as_display(&entry)).map_err(|e| e.to_string())?;
    }
    String::from_utf8(out).map_err(|e| e.to_string())
}

fn canon(text: &str) -> Option<Vec<String>> {
    let r: Result<Vec<LedgerEntry>, _> = parse_ledger::<Ident>(&ParseOptions::default(), text).map(|r| r.map(|(_, e)| e)).collect();
    let es = r.ok()?;
    let mut c = Printer::new(true);
    Some(es.iter().map(|e| c.entry(e)).collect())
}

/// a reader that hands out at most sizes[k] bytes on the k-th call
struct ShortReader<'a> {
    data: &'a [u8],
    pos: usize,
    sizes: Vec<usize>,
    k: usize,
}

impl std::io::Read for ShortReader<'_> {
    fn read(&mut self, buf: &mut [u8]) -> std::io::Result<usize> {
        let want = self.sizes[self.k % self.sizes.len()];
        self.k += 1;
        let n = want.min(buf.len()).min(self.data.len() - self.pos);
        buf[..n].copy_from_slice(&self.data[self.pos..self.pos + n]);
        self.pos += n;
        Ok(n)
    }
}

const READ_SIZES: [usize; 11] = [1, 2, 3, 7, 4095, 4096, 4097, 8191, 8192, 8193, 65536];

/// `okane format FILE` on a real file holding `text`
fn format_file(sc: &Scratch, name: &str, text: &str) -> Result<String, String> {
    let p = sc.write(name, text);
    let r = cli::run(&["format", &p.to_string_lossy()]);
    if r.panicked {
        Err("panic".into())
    } else if r.ok {
        Ok(r.stdout)
    } else {
        Err(r.stderr.chars().take(200).collect())
    }
}

fn res_json(r: &Result<String, String>) -> Value {
    match r {
        Ok(s) => json!({ "ok": s }),
        Err(e) => json!({ "err": e }),
    }
}

/// child side; the first byte says whether the model leg is wanted ('M') or not ('L')
pub fn child_observe(input: &[u8]) -> String {
    let model = input.first() == Some(&b'M');
    let text = match std::str::from_utf8(&input[1.min(input.len())..]) {
        Ok(t) => t,
        Err(_) => return json!({"harness_error": "input is not UTF-8"}).to_string(),
    };
    let sc = Scratch::new("c05file");
    let guard = |f: &dyn Fn() -> Result<String, String>| -> Result<String, String> {
        std::panic::catch_unwind(std::panic::AssertUnwindSafe(f)).unwrap_or_else(|_| Err(format!("panic: {}", c05::last_panic())))
    };
    let refr = guard(&|| reference(text));
    let file = guard(&|| format_file(&sc, "in.ledger", text));
    let again = match &file {
        Ok(f) => guard(&|| format_file(&sc, "formatted.ledger", f)),
        Err(_) => Err("not run".into()),
    };
    let mut reads = Vec::new();
    let mut sizes: Vec<Vec<usize>> = READ_SIZES.iter().map(|k| vec![*k]).collect();
    sizes.push(vec![8191, 1, 8192, 3, 4096, 2, 9000, 5, 4095, 7]);
    for sz in sizes {
        let label = if sz.len() == 1 { sz[0] as u64 } else { 0 };
        let r = guard(&|| {
            let mut rd = ShortReader { data: text.as_bytes(), pos: 0, sizes: sz.clone(), k: 0 };
            let mut out: Vec<u8> = Vec::new();
            match okane_core::format::FormatOptions::new().format(&mut rd, &mut out) {
                Ok(()) => Ok(String::from_utf8_lossy(&out).into_owned()),
                Err(e) => Err(format!("{}", e).chars().take(200).collect()),
            }
        });
        reads.push(json!([label, res_json(&r)]));
    }
    let meaning = match (&file, canon(text)) {
        (Ok(f), Some(c)) => canon(f).map(|cf| cf == c).unwrap_or(false),
        _ => false,
    };
    let short = if model {
        // the ordinary C05 observation, with format = the command on a file
        let n = std::cell::Cell::new(0usize);
        let s = c05::child_observe_with(text.as_bytes(), &|t: &str| {
            n.set(n.get() + 1);
            format_file(&sc, &format!("m{}.ledger", n.get()), t)
        });
        serde_json::from_str::<Value>(&s).unwrap_or(json!({"harness_error": "short leg"}))
    } else {
        Value::Null
    };
    json!({"ref": res_json(&refr), "file": res_json(&file), "again": res_json(&again), "reads": reads, "meaning": meaning, "short": short}).to_string()
}

// ---------- generator ----------

const ACC_ASCII: [&str; 6] = ["Assets:Cash", "Expenses:Food", "Assets:Bank:Checking", "Liabilities:Card", "Income:Salary", "Equity:Opening"];
const ACC_MULTI: [&str; 8] = ["Expenses:交通費:電車", "Assets:銀行:普通預金", "Expenses:Café:Crème brûlée", "Liabilities:カード", "Assets:Bär:Größe", "Expenses:𝒳𝒴:fun", "Income:Gehälter", "Expenses:食費:外食"];
const PAYEE_ASCII: [&str; 4] = ["Lunch", "Grocery store", "Salary", "ATM"];
const PAYEE_MULTI: [&str; 6] = ["スーパー マルエツ", "Bäckerei Müller", "café 𝄞 music", "東日本旅客鉄道", "Žabka", "🍣 寿司"];
const COM_ASCII: [&str; 4] = ["USD", "JPY", "CHF", "EUR"];
const COM_MULTI: [&str; 5] = ["円", "€", "£", "ƒ", "𝒳"];
const NOTE_MULTI: [&str; 6] = ["メモ: 定期券", "déjà vu", "𝄞𝄞 concert", "領収書あり", "größer", "naïve ☕"];
/// (character, bytes in UTF-8)
const MARKS: [(&str, usize); 6] = [("é", 2), ("ß", 2), ("電", 3), ("€", 3), ("𝒳", 4), ("🍣", 4)];

fn pick_s(r: &mut Rng, multi: bool, a: &[&str], m: &[&str]) -> String {
    if multi {
        r.pick(m).to_string()
    } else {
        r.pick(a).to_string()
    }
}

/// one entry in raw (unformatted) spelling, ending with a blank line
fn piece(r: &mut Rng) -> String {
    let dense = r.chance(2, 3);
    let day = 1 + r.below(28);
    let mon = 1 + r.below(12);
    match r.below(12) {
        0 => format!("; {}\n\n", pick_s(r, dense, &["plain comment"], &NOTE_MULTI)),
        1 => format!("account {}\n  note {}\n  alias {}\n\n", pick_s(r, dense, &ACC_ASCII, &ACC_MULTI), pick_s(r, dense, &["n"], &NOTE_MULTI), pick_s(r, dense, &["al"], &["別名", "Ünï"])),
        2 => {
            let c = pick_s(r, dense, &COM_ASCII, &COM_MULTI);
            format!("commodity {}\n  note {}\n  format 1,000.00 {}\n\n", c, pick_s(r, dense, &["n"], &NOTE_MULTI), c)
        }
        3 => format!("apply tag {}\n\nend apply tag\n\n", pick_s(r, dense, &["trip"], &["旅行", "Fête"])),
        _ => {
            let mark = *r.pick(&["", "* ", "! "][..]);
            let code = if r.chance(1, 3) { format!("({}) ", pick_s(r, dense, &["#12"], &["領収#12", "n°7"])) } else { String::new() };
            let payee = pick_s(r, dense, &PAYEE_ASCII, &PAYEE_MULTI);
            let a1 = pick_s(r, dense, &ACC_ASCII, &ACC_MULTI);
            let m2 = r.chance(1, 2);
            let a2 = pick_s(r, m2, &ACC_ASCII, &ACC_MULTI);
            let mc = dense && r.chance(1, 2);
            let c = pick_s(r, mc, &COM_ASCII, &COM_MULTI);
            let amt = match r.below(4) {
                0 => format!("{}", 1 + r.below(999)),
                1 => format!("{},{:03}", 1 + r.below(99), r.below(1000)),
                2 => format!("-{}.{:02}", r.below(500), r.below(100)),
                _ => format!("{}.5", r.below(50)),
            };
            let gap = *r.pick(&["  ", "    ", "\t", "          "][..]);
            let cmt = if r.chance(1, 3) { format!(" ; {}", pick_s(r, dense, &["c"], &NOTE_MULTI)) } else { String::new() };
            let meta = match r.below(4) {
                0 => format!("    ; {}: {}\n", pick_s(r, dense, &["note"], &["備考", "clé"]), pick_s(r, dense, &["v"], &NOTE_MULTI)),
                1 => format!("    ; :{}:\n", pick_s(r, dense, &["tag"], &["旅行", "été"])),
                _ => String::new(),
            };
            let cost = if r.chance(1, 5) { " @ 1.5 USD".to_string() } else { String::new() };
            format!("2024/{:02}/{:02} {}{}{}\n{}  {}{}{} {}{}{}\n  {}\n\n", mon, day, mark, code, payee, meta, a1, gap, amt, c, cost, cmt, a2)
        }
    }
}

const FIELDS: [&str; 9] = ["account", "payee", "commodity", "posting comment", "metadata value", "code", "top-level comment", "account directive note", "apply tag key"];

/// an entry whose first non-ASCII character is `m`, in the named field
fn critical(field: &str, m: &str) -> String {
    match field {
        "account" => format!("2024/03/05 Ticket\n  Expenses:Transport:{}x  1,200 JPY\n  Assets:Cash\n\n", m),
        "payee" => format!("2024/03/05 {} shop\n  Expenses:Food  12.50 USD\n  Assets:Cash\n\n", m),
        "commodity" => format!("2024/03/05 Exchange\n  Assets:Wallet  1,200 {}\n  Assets:Cash\n\n", m),
        "posting comment" => format!("2024/03/05 Lunch\n  Expenses:Food  12.50 USD ; {} note\n  Assets:Cash\n\n", m),
        "metadata value" => format!("2024/03/05 Lunch\n    ; receipt: {} kept\n  Expenses:Food  12.50 USD\n  Assets:Cash\n\n", m),
        "code" => format!("2024/03/05 * ({}7) Lunch\n  Expenses:Food  12.50 USD\n  Assets:Cash\n\n", m),
        "top-level comment" => format!("; {} is noted here\n\n", m),
        "account directive note" => format!("account Expenses:Food\n  note {} meals\n\n", m),
        _ => format!("apply tag {}tag\n\nend apply tag\n\n", m),
    }
}

pub struct LongItem {
    pub text: String,
    pub formatted: bool,
    pub model: bool,
    pub boundary: usize,
    pub tags: Vec<String>,
}

/// One text in which the marked character of a critical entry begins `shift` bytes before
/// `boundary`.  None when the pieces do not fit (the caller tries again).
fn long_text(r: &mut Rng, boundary: usize, formatted: bool, small: bool) -> Option<LongItem> {
    let field = *r.pick(&FIELDS[..]);
    let (m, len) = *r.pick(&MARKS[..]);
    // 1..len-1: the character lies across the boundary; 0 and len: it touches it
    let shift = if r.chance(5, 6) { 1 + r.below(len as u64 - 1) as usize } else { *r.pick(&[0usize, len][..]) };
    let shape = |s: String| -> Option<String> {
        if formatted {
            reference(&s).ok()
        } else {
            Some(s)
        }
    };
    let crit = shape(critical(field, m))?;
    let off = crit.bytes().position(|b| b >= 0x80)?;
    let target = boundary.checked_sub(shift + off)?;
    let mut text = String::new();
    while text.len() + 900 < target {
        text.push_str(&shape(piece(r))?);
    }
    // a comment line as padding
    let pad0 = shape("; p\n\n".to_string())?;
    let need = target.checked_sub(text.len() + pad0.len())?;
    let pad = shape(format!("; p{}\n\n", "adding ".repeat(need / 7 + 1).chars().take(need).collect::<String>()))?;
    text.push_str(&pad);
    if text.len() != target {
        return None;
    }
    text.push_str(&crit);
    let total = boundary + 200 + r.below(if small { 500 } else if boundary >= 65536 { 9000 } else { 1800 }) as usize;
    while text.len() < total {
        text.push_str(&shape(piece(r))?);
    }
    let whole = reference(&text).ok()?;
    let fixed = whole == text;
    let b = text.as_bytes();
    if b[boundary - shift] < 0x80 || (b[boundary - shift] & 0xC0) == 0x80 {
        return None;
    }
    let mut tags = vec![
        format!("boundary:{}", boundary),
        format!("field at the boundary:{}", field),
        format!("character at the boundary:{} bytes, {}", len, if shift == 0 || shift == len { "touching it".to_string() } else { format!("{} before / {} after", shift, len - shift) }),
        format!("spelling:{}", if formatted && fixed { "already formatted (a fixed point of the in-memory printing)" } else if formatted { "formatted piecewise, not a fixed point" } else { "raw" }),
    ];
    let across = |k: usize| (k..b.len()).step_by(k).filter(|p| (b[*p] & 0xC0) == 0x80).count();
    tags.push(format!("multiples of 8192 inside a multi-byte character:{}", across(8192).min(9)));
    tags.push(format!("multiples of 4096 inside a multi-byte character:{}", across(4096).min(9)));
    Some(LongItem { text, formatted: formatted && fixed, model: false, boundary, tags })
}

pub fn items(seed: u64, thorough: bool) -> Vec<LongItem> {
    let mut r = Rng::new(seed, 5050);
    let plan: [(usize, usize, usize); 8] = [(4096, 4, 0), (8192, 12, 3), (12288, 2, 0), (16384, 6, 0), (24576, 4, 0), (65536, 6, 0), (131072, 4, 0), (196608, 4, 0)];
    let mul = if thorough { 4 } else { 1 };
    let mut v = Vec::new();
    for (boundary, n, nmodel) in plan {
        let mut made = 0;
        let mut tries = 0;
        while made < n * mul && tries < n * mul * 20 {
            tries += 1;
            let want_model = made < nmodel * if thorough { 2 } else { 1 };
            if let Some(mut it) = long_text(&mut r, boundary, made % 2 == 0, want_model) {
                it.model = want_model && it.text.len() <= 11000;
                v.push(it);
                made += 1;
            }
        }
    }
    v
}

// ---------- Coq terms ----------

struct Dict {
    lines: Vec<Vec<u8>>,
    idx: HashMap<Vec<u8>, usize>,
    /// the distinct texts of the case (as lists of line numbers); a text that occurs several
    /// times among the observations is written once and named o<k> in the term
    lists: Vec<String>,
}

impl Dict {
    /// a text as line numbers of the dictionary; None when it does not end with a line feed
    fn enc(&mut self, s: &str) -> Option<String> {
        if s.is_empty() {
            return Some("[]".into());
        }
        let body = s.strip_suffix('\n')?;
        let mut ix = Vec::new();
        for l in body.split('\n') {
            let k = match self.idx.get(l.as_bytes()) {
                Some(k) => *k,
                None => {
                    self.lines.push(l.as_bytes().to_vec());
                    self.idx.insert(l.as_bytes().to_vec(), self.lines.len() - 1);
                    self.lines.len() - 1
                }
            };
            ix.push(k as u64);
        }
        let lit = coq::n_list(ix);
        let k = match self.lists.iter().position(|l| *l == lit) {
            Some(k) => k,
            None => {
                self.lists.push(lit);
                self.lists.len() - 1
            }
        };
        Some(format!("o{}", k))
    }
    fn opt(&mut self, v: &Value) -> String {
        match v.get("ok").and_then(|x| x.as_str()) {
            Some(s) => match self.enc(s) {
                Some(t) => format!("(Some {})", t),
                None => "None".into(),
            },
            None => "None".into(),
        }
    }
}

fn brief(v: &Value) -> Value {
    match v.get("ok").and_then(|x| x.as_str()) {
        Some(s) => json!({"bytes": s.len(), "replacement characters (U+FFFD)": s.matches('\u{fffd}').count()}),
        None => v.clone(),
    }
}

pub fn replay_items(o: &crate::Opts) -> Vec<LongItem> {
    let get = || -> Option<LongItem> {
        let k = o.extra.iter().position(|a| a == "--replay")?;
        let v: Value = serde_json::from_str(&std::fs::read_to_string(o.extra.get(k + 1)?).ok()?).ok()?;
        if v.get("stream").and_then(|x| x.as_str()) != Some("long-file") {
            return None;
        }
        Some(LongItem {
            text: v.get("text")?.as_str()?.to_string(),
            formatted: v.get("already_formatted").and_then(|x| x.as_bool()).unwrap_or(false),
            model: false,
            boundary: v.get("boundary").and_then(|x| x.as_u64()).unwrap_or(0) as usize,
            tags: vec![],
        })
    };
    get().into_iter().collect()
}

pub fn run(its: &[LongItem], sh: &mut Shards, st: &mut Stats) {
    for chunk in its.chunks(8) {
        let inputs: Vec<Vec<u8>> = chunk
            .iter()
            .map(|i| {
                let mut b = vec![if i.model { b'M' } else { b'L' }];
                b.extend_from_slice(i.text.as_bytes());
                b
            })
            .collect();
        let obs = child::run_batch("c05file", &inputs, 60000);
        for (it, co) in chunk.iter().zip(obs.iter()) {
            let v: Value = match co {
                ChildObs::Line(l) => serde_json::from_str(l).unwrap_or(json!({"harness_error": l})),
                ChildObs::Timeout => json!({"crash": "timeout"}),
                ChildObs::Abort(s) => json!({ "crash": format!("abort {}", s) }),
            };
            st.eval(&it.text, true);
            st.count("stream:long-file");
            st.count(&format!("long-file size:{}", match it.text.len() { 0..=8191 => "4-8 KiB", 8192..=16383 => "8-16 KiB", 16384..=65535 => "16-64 KiB", 65536..=131071 => "64-128 KiB", _ => "128-205 KiB" }));
            st.count(if it.model { "long-file comparison:model leg (parser model on the text and on the command's output) + in-memory printing" } else { "long-file comparison:in-memory printing of parse_ledger(text), byte for byte" });
            for t in &it.tags {
                st.count(&format!("long-file {}", t));
            }
            st.add("bytes", it.text.len() as u64);
            let mut d = Dict { lines: Vec::new(), idx: HashMap::new(), lists: Vec::new() };
            let term = if v.get("crash").is_some() {
                "LCrash".to_string()
            } else if v.get("harness_error").is_some() || !it.text.ends_with('\n') {
                "LHarness".to_string()
            } else {
                let text = d.enc(&it.text).unwrap();
                let refr = d.opt(&v["ref"]);
                let file = d.opt(&v["file"]);
                let again = d.opt(&v["again"]);
                let reads = coq::list(v["reads"].as_array().map(|a| a.iter().map(|p| format!("({}, {})", p[0].as_u64().unwrap_or(0), d.opt(&p[1]))).collect::<Vec<_>>()).unwrap_or_default());
                let lets: String = d.lists.iter().enumerate().map(|(k, l)| format!("let o{} : list N := {} in ", k, l)).collect();
                format!(
                    "({}Long {{| l_dict := {}; l_text := {}; l_formatted := {}; l_ref := {}; l_file := {}; l_again := {}; l_reads := {}; l_meaning := {} |}})",
                    lets,
                    coq::list(d.lines.iter().map(|l| if l.is_empty() { "[]".to_string() } else { coq::packed(l) })),
                    text,
                    it.formatted,
                    refr,
                    file,
                    again,
                    reads,
                    v["meaning"].as_bool().unwrap_or(false)
                )
            };
            let rep = json!({"property": "C05", "stream": "long-file", "text": it.text, "already_formatted": it.formatted, "boundary": it.boundary, "constructs": it.tags,
                             "impl": {"in_memory_printing": brief(&v["ref"]), "okane_format_FILE": brief(&v["file"]), "okane_format_of_that_output": brief(&v["again"]),
                                      "short_reads": v["reads"].as_array().map(|a| a.iter().map(|p| json!([p[0], brief(&p[1])])).collect::<Vec<_>>()),
                                      "same_entries_after_formatting": v["meaning"], "crash": v.get("crash")},
                             "reproduce": "write `text` to a file; okane format FILE; compare with DisplayContext::default().as_display of every parse_ledger(text) entry; okane format on the output again"});
            sh.push(term, vec![rep]);
            if it.model {
                let short = &v["short"];
                let co2 = if short.is_object() { ChildObs::Line(short.to_string()) } else { co.clone() };
                let item = c05::Item { text: it.text.clone(), doc: false, stream: "long-file (model leg, formatted by `okane format FILE`)", tags: vec![] };
                c05::emit(sh, st, &item, &co2);
            }
        }
    }
}
