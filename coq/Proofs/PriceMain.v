(* The C09 statements assembled: the rate table against the brute-force optimum, failure,
   and the whole chain from the price events to the answer of a conversion. *)
From Coq Require Import List NArith ZArith Bool QArith Qcanon Lia.
From Okv Require Import Base.Maps Base.Dec Model.Amount Model.Book Model.PriceDb Model.PriceSpec
     Proofs.PriceProofs Proofs.PriceGraph Proofs.PriceTable.
Import ListNotations.
Open Scope Qc_scope.

(* table entry = brute-force optimum, for any universe closed under the edges *)
Lemma table_vs_best : forall choose fuel recs target date t c (U : list cid),
  (forall a e, In e (out_edges recs date a) -> In (e_to e) U) ->
  price_table fuel choose recs target date = PTDone t -> c <> target ->
  (forall d r, get c t = Some (d, r) ->
               best (out_edges recs date) (length U) target c = Some d /\
               In r (best_rates (out_edges recs date) (length U) target c)) /\
  (get c t = None <-> best (out_edges recs date) (length U) target c = None).
Proof.
  intros choose fuel recs target date t c U HU H Hct.
  set (out := out_edges recs date) in *.
  assert (A : forall d r, get c t = Some (d, r) ->
                          best out (length U) target c = Some d /\ In r (best_rates out (length U) target c)).
  { intros d r G. destruct (table_sound _ _ _ _ _ _ _ _ _ H G) as (w & Hne & Hw & Hd & Hr).
    fold out in Hw. destruct (best out (length U) target c) as [d'|] eqn:Hb.
    - destruct (best_some out U HU _ _ _ Hb) as [(w' & Hne' & Hw' & Hd') Hmin].
      destruct (table_optimal _ _ _ _ _ _ w' c H Hne' Hw') as (d2 & r2 & G2 & L2).
      rewrite G in G2. inversion G2; subst d2 r2.
      assert (E : d' = d).
      { apply leP_antisym; [rewrite <- Hd; apply Hmin; assumption|rewrite <- Hd'; assumption]. }
      assert (Hb' : best out (length U) target c = Some d) by congruence.
      split; [congruence|]. rewrite <- Hr.
      exact (optimal_rate_in_best_rates out U HU target c d w Hct Hb' Hw Hd).
    - exfalso. exact (best_none out U HU _ _ Hb Hct w Hw). }
  split; [exact A|]. split.
  - intros G. destruct (best out (length U) target c) as [d'|] eqn:Hb; [|reflexivity]. exfalso.
    destruct (best_some out U HU _ _ _ Hb) as [(w' & Hne' & Hw' & Hd') _].
    destruct (table_optimal _ _ _ _ _ _ w' c H Hne' Hw') as (d2 & r2 & G2 & _). congruence.
  - intros Hb. destruct (get c t) as [[d r]|] eqn:G; [|reflexivity].
    destruct (A d r eq_refl) as [X _]. congruence.
Qed.

(* ---- two presentations of the same edge sets have the same optimum ---- *)
Section SameGraph.
  Variables out1 out2 : cid -> list edge.
  Hypothesis same : forall a e, In e (out1 a) <-> In e (out2 a).
  Variables U1 U2 : list cid.
  Hypothesis closed1 : forall a e, In e (out1 a) -> In (e_to e) U1.
  Hypothesis closed2 : forall a e, In e (out2 a) -> In (e_to e) U2.

  Lemma is_walk_same : forall w a b, is_walk out1 a w b <-> is_walk out2 a w b.
  Proof.
    induction w as [|e r IH]; intros a b; cbn; [tauto|]. rewrite same, IH. tauto.
  Qed.

  Lemma best_same : forall target c, c <> target ->
    best out1 (length U1) target c = best out2 (length U2) target c.
  Proof.
    intros target c Hct.
    destruct (best out1 (length U1) target c) as [d1|] eqn:B1;
      destruct (best out2 (length U2) target c) as [d2|] eqn:B2; try reflexivity.
    - destruct (best_some out1 U1 closed1 _ _ _ B1) as [(w1 & N1 & W1 & D1) M1].
      destruct (best_some out2 U2 closed2 _ _ _ B2) as [(w2 & N2 & W2 & D2) M2].
      f_equal. apply leP_antisym.
      + rewrite <- D2. apply M1; [assumption|assumption|apply is_walk_same; assumption].
      + rewrite <- D1. apply M2; [assumption|assumption|apply is_walk_same; assumption].
    - exfalso. destruct (best_some out1 U1 closed1 _ _ _ B1) as [(w1 & N1 & W1 & D1) _].
      apply (best_none out2 U2 closed2 _ _ B2 Hct w1). apply is_walk_same. assumption.
    - exfalso. destruct (best_some out2 U2 closed2 _ _ _ B2) as [(w2 & N2 & W2 & D2) _].
      apply (best_none out1 U1 closed1 _ _ B1 Hct w2). apply is_walk_same. assumption.
  Qed.

  Lemma best_rates_same : forall target c r, c <> target ->
    In r (best_rates out1 (length U1) target c) -> In r (best_rates out2 (length U2) target c).
  Proof.
    intros target c r Hct H.
    destruct (best_rates_sound out1 _ _ _ _ H) as (d & w & B & W & D & R).
    rewrite <- R. eapply (optimal_rate_in_best_rates out2 U2 closed2); [assumption| |apply is_walk_same; eassumption|exact D].
    rewrite <- best_same by assumption. assumption.
  Qed.
End SameGraph.

Lemma spec_out_closed : forall evs db D a e,
  In e (spec_graph evs db D a) -> In (e_to e) (ev_comms evs db).
Proof.
  intros evs db D a e H. unfold spec_graph, spec_out in H. apply in_omap in H.
  destruct H as (o & Ho & Hf). unfold spec_edge in Hf. destruct (pair_records evs db a o) as [src rs].
  destruct (spec_as_of rs D) as [[d r]|]; [|discriminate]. inversion Hf; subst. exact Ho.
Qed.

Lemma best_rates_nil_iff : forall out n target c,
  best_rates out n target c = [] <-> best out n target c = None.
Proof.
  intros out n target c. unfold best_rates. destruct (best out n target c) as [d|] eqn:B; [|tauto].
  split; [|discriminate]. intros E. exfalso.
  (* the minimum is attained by one of the enumerated paths *)
  unfold best, min_dist in B. change (fun m w => _) with (min_step) in B.
  destruct (min_fold_spec _ _ _ B) as ([X|(w & Hw & Hd)] & _); [discriminate|].
  assert (Hin : In (walk_rate w) (omap (fun w0 => match dist_cmp (walk_dist w0) d with
                                                  | Eq => Some (walk_rate w0) | _ => None end)
                                       (paths_to out n target c))).
  { apply in_omap. exists w. split; [assumption|]. rewrite Hd.
    rewrite (proj2 (dist_cmp_eq d d) eq_refl). reflexivity. }
  rewrite E in Hin. exact Hin.
Qed.

(* from the events to the table: the label's rate is one of the spec's optimal rates, and a
   commodity has no label exactly when the spec finds no chain *)
Theorem table_from_events : forall evs db choose fuel target date t c,
  (forall x, In x evs -> e_source x = SLedger) ->
  price_table fuel choose (repository evs db) target date = PTDone t -> c <> target ->
  (forall d r, get c t = Some (d, r) -> In r (spec_rates evs db date target c)) /\
  (get c t = None <-> spec_rates evs db date target c = []).
Proof.
  intros evs db choose fuel target date t c Hs H Hct.
  set (recs := repository evs db) in *.
  pose proof (table_vs_best choose fuel recs target date t c (rec_comms recs)
                            (out_edges_in_rec_comms recs date) H Hct) as [A B].
  pose proof (fun a e => edges_from_events evs db date a e Hs) as Hsame. fold recs in Hsame.
  unfold spec_rates. split.
  - intros d r G. destruct (A d r G) as [_ Hr].
    eapply (best_rates_same (out_edges recs date) (spec_graph evs db date) Hsame (rec_comms recs) (ev_comms evs db));
      [apply out_edges_in_rec_comms|apply spec_out_closed|assumption|exact Hr].
  - rewrite best_rates_nil_iff, B.
    rewrite (best_same (out_edges recs date) (spec_graph evs db date) Hsame (rec_comms recs) (ev_comms evs db)
                       (out_edges_in_rec_comms recs date) (spec_out_closed evs db date) target c Hct).
    tauto.
Qed.

(* conversion of a single amount *)
Lemma convert_single_cases : forall fuel choose recs c v target date t,
  price_table fuel choose recs target date = PTDone t -> c <> target ->
  convert_single fuel choose recs c v target date =
  match get c t with
  | Some (_, rate) => COk (target, v * rate)
  | None => CErr (RateNotFound c v target date)
  end.
Proof.
  intros fuel choose recs c v target date t H Hct. unfold convert_single.
  destruct (c =? target)%N eqn:E; [apply N.eqb_eq in E; contradiction|]. rewrite H. reflexivity.
Qed.

(* C09_fails_iff_no_chain *)
Theorem fails_iff_no_chain : forall fuel choose recs c v target date t,
  price_table fuel choose recs target date = PTDone t -> c <> target ->
  ((exists e, convert_single fuel choose recs c v target date = CErr e) <->
   (forall w, ~ is_walk (out_edges recs date) target w c)).
Proof.
  intros fuel choose recs c v target date t H Hct.
  rewrite (convert_single_cases _ _ _ _ _ _ _ _ H Hct). split.
  - intros [e He] w Hw. assert (Hne : w <> []) by (intro X; subst w; cbn in Hw; congruence).
    destruct (table_optimal _ _ _ _ _ _ w c H Hne Hw) as (d & r & G & _). rewrite G in He. discriminate.
  - intros Hno. destruct (get c t) as [[d r]|] eqn:G.
    + exfalso. destruct (table_sound _ _ _ _ _ _ _ _ _ H G) as (w & _ & Hw & _). exact (Hno w Hw).
    + eexists. reflexivity.
Qed.

(* with the concrete universe of a repository *)
Lemma table_vs_best_rec : forall choose fuel recs target date t c,
  price_table fuel choose recs target date = PTDone t -> c <> target ->
  (forall d r, get c t = Some (d, r) ->
               best (out_edges recs date) (length (rec_comms recs)) target c = Some d /\
               In r (best_rates (out_edges recs date) (length (rec_comms recs)) target c)) /\
  (get c t = None <-> best (out_edges recs date) (length (rec_comms recs)) target c = None).
Proof.
  intros. apply (table_vs_best choose fuel recs target date t c (rec_comms recs)
                               (out_edges_in_rec_comms recs date)); assumption.
Qed.

Lemma best_is_least_rec : forall recs date target c d,
  best (out_edges recs date) (length (rec_comms recs)) target c = Some d ->
  (exists w, w <> [] /\ is_walk (out_edges recs date) target w c /\ walk_dist w = d) /\
  (forall w, w <> [] -> c <> target -> is_walk (out_edges recs date) target w c -> leP d (walk_dist w)).
Proof.
  intros recs date. apply (best_some (out_edges recs date) (rec_comms recs) (out_edges_in_rec_comms recs date)).
Qed.

(* ---- the hypotheses are satisfiable: the chain of price_db::tests ---- *)
Definition ex_ev (d : Z) (xc : cid) (xm : Z) (xs : nat) (yc : cid) (ym : Z) (ys : nat) : price_event :=
  {| e_source := SLedger; e_date := d; e_xc := xc; e_xv := of_dec xm xs; e_yc := yc; e_yv := of_dec ym ys |}.
(* CHF = 1, EUR = 2, JPY = 3, USD = 4: 0.8 CHF = 1 EUR; 0.8 EUR = 1 USD; 100 JPY = 1 USD *)
Definition ex_events : list price_event :=
  [ex_ev 1 1%N 8 1 2%N 1 0; ex_ev 2 2%N 8 1 4%N 1 0; ex_ev 3 3%N 100 0 4%N 1 0].
Definition ex_recs : records := repository ex_events [].

Example ex_all_ledger : forall x, In x ex_events -> e_source x = SLedger.
Proof. intros x [<-|[<-|[<-|[]]]]; reflexivity. Qed.

Example ex_table_done : exists t, price_table 16 choose_max ex_recs 3%N 3%Z = PTDone t /\
                                  exists d r, get 1%N t = Some (d, r) /\ Qc_eq_bool r (of_dec 15625 2) = true.
Proof. eexists. split; [vm_compute; reflexivity|]. eexists. eexists. split; vm_compute; reflexivity. Qed.

Example ex_not_found_before : exists t, price_table 16 choose_max ex_recs 3%N 2%Z = PTDone t /\ get 1%N t = None.
Proof. eexists. split; vm_compute; reflexivity. Qed.

Example ex_spec_rates : map (fun r => Qc_eq_bool r (of_dec 15625 2)) (spec_rates ex_events [] 3 3%N 1%N) = [true].
Proof. vm_compute. reflexivity. Qed.
