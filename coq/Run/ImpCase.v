(* Shared glue of the importer correspondence runs (C16, C17): compact constructors the harness
   prints, and the comparison of what the implementation produced with the model. *)
From Coq Require Import List NArith ZArith Bool QArith Qcanon.
From Okv Require Import Base.Dec Model.ImpConfig Model.ImpExtract Model.ImpSingleEntry Model.ImpCsv
     Model.ImpBook Run.ImpPattern.
Import ListNotations.

(* ---- constructors ---- *)
Definition DV (ng : bool) (m : Z) (s : nat) : dec := {| d_neg := ng; d_mag := of_dec m s |}.
Definition OA (d : dec) (c : str) : oamount := {| oa_value := d; oa_commodity := c |}.
Definition clear_of (n : N) : clear_state := match n with 0%N => Uncleared | 1%N => Cleared | _ => Pending end.
Definition SP (a : str) (cl : N) (amt : oamount) (cost bal : option oamount) (py : option str) : sposting :=
  {| sp_account := a; sp_clear := clear_of cl; sp_amount := amt; sp_cost := cost; sp_balance := bal;
     sp_payee := py |}.
Definition ST (d : Z) (ed : option Z) (cl : N) (code : option str) (payee : str) (cm : list str)
           (ps : list sposting) : stxn :=
  {| st_date := d; st_edate := ed; st_clear := clear_of cl; st_code := code; st_payee := payee;
     st_comments := cm; st_posts := ps |}.
Definition RW (fs : list str) (d : option Z) : row := {| row_fields := fs; row_date := d |}.
Definition CV (am : N) (c : option str) (rt : N) (dis : bool) : conv_spec :=
  {| cv_amount := match am with 0%N => Extract | _ => Compute end; cv_commodity := c;
     cv_rate := match rt with 0%N => PriceOfSecondary | _ => PriceOfPrimary end; cv_disabled := dis |}.
Definition FK (n : N) : field_key :=
  match n with
  | 0 => FDate | 1 => FPayee | 2 => FCategory | 3 => FNote | 4 => FAmount | 5 => FCredit
  | 6 => FDebit | 7 => FBalance | 8 => FCommodity | 9 => FRate | 10 => FSecondaryAmount
  | 11 => FSecondaryCommodity | _ => FCharge
  end%N.
Definition RF (n : N) : rewrite_field :=
  match n with
  | 0 => RDomainCode | 1 => RDomainFamily | 2 => RDomainSubFamily | 3 => RCreditorName
  | 4 => RCreditorAccountId | 5 => RUltimateCreditorName | 6 => RDebtorName | 7 => RDebtorAccountId
  | 8 => RUltimateDebtorName | 9 => RRemittanceUnstructuredInfo | 10 => RAdditionalEntryInfo
  | 11 => RAdditionalTransactionInfo | 12 => RSecondaryCommodity | 13 => RCategory | _ => RPayee
  end%N.
Definition rf_code (f : rewrite_field) : N :=
  match f with
  | RDomainCode => 0 | RDomainFamily => 1 | RDomainSubFamily => 2 | RCreditorName => 3
  | RCreditorAccountId => 4 | RUltimateCreditorName => 5 | RDebtorName => 6 | RDebtorAccountId => 7
  | RUltimateDebtorName => 8 | RRemittanceUnstructuredInfo => 9 | RAdditionalEntryInfo => 10
  | RAdditionalTransactionInfo => 11 | RSecondaryCommodity => 12 | RCategory => 13 | RPayee => 14
  end%N.
Definition PT (src : str) (st : bool) (items : list item) (en : bool) (ok : bool) : pat :=
  {| p_src := src; p_start := st; p_items := items; p_end := en; p_valid := ok |}.
Definition RL (m : list (list (N * pat))) (pend : bool) (payee account : option str) (cv : option conv_spec)
  : rule pat :=
  {| r_matcher := map (map (fun kp => (RF (fst kp), snd kp))) m; r_pending := pend; r_payee := payee;
     r_account := account; r_conversion := cv |}.
Definition FS (date : str) (prec : list (str * N)) (fields : list (N * field_pos)) (delim : str)
           (skip : Z) (new_to_old : bool) : format_spec :=
  {| fs_date := date; fs_precisions := prec; fs_fields := map (fun kp => (FK (fst kp), snd kp)) fields;
     fs_delimiter := delim; fs_skip_head := skip;
     fs_row_order := if new_to_old then NewToOld else OldToNew |}.
Definition AT (liability : bool) : account_type := if liability then Liability else Asset.
Definition DOC (path : str) (enc : option N) (acct : option str) (at_ : option bool) (op : option str)
           (com : option commodity_cfg) (fmt : option format_spec) (rw : list (rule pat)) : doc pat :=
  {| d_path := path; d_encoding := enc; d_account := acct; d_account_type := option_map AT at_;
     d_operator := op; d_commodity := com; d_format := fmt; d_rewrite := rw |}.
Definition ENT (path : str) (enc : N) (acct : str) (liab : bool) (op : option str) (prim : str)
           (cv : conv_spec) (fmt : format_spec) (rw : list (rule pat)) : entry pat :=
  {| e_path := path; e_encoding := enc; e_account := acct; e_account_type := AT liab; e_operator := op;
     e_commodity := {| cs_primary := prim; cs_conversion := cv |}; e_format := fmt; e_rewrite := rw |}.

(* ---- equality ---- *)
Fixpoint list_eqb {A} (f : A -> A -> bool) (a b : list A) : bool :=
  match a, b with
  | [], [] => true
  | x :: r, y :: s => f x y && list_eqb f r s
  | _, _ => false
  end.
Definition opt_eqb {A} (f : A -> A -> bool) (a b : option A) : bool :=
  match a, b with
  | None, None => true
  | Some x, Some y => f x y
  | _, _ => false
  end.
Definition ostr_eqb := opt_eqb str_eqb.

(* same sign bit and the same number *)
Definition dec_same (a b : dec) : bool := Bool.eqb (d_neg a) (d_neg b) && Qc_eq_bool (d_mag a) (d_mag b).
(* Decimal division rounds to 28 digits where the model is exact *)
Definition dec_close (a b : dec) : bool :=
  Bool.eqb (d_neg a) (d_neg b) &&
  let d := Qcabs.Qcabs (d_mag a - d_mag b)%Qc in
  match Qccompare (d * of_dec 1000000000000000000 0)%Qc (d_mag a + 1)%Qc with Gt => false | _ => true end.
Definition oa_eqb (a b : oamount) : bool := dec_close (oa_value a) (oa_value b) && str_eqb (oa_commodity a) (oa_commodity b).
Definition clear_code (c : clear_state) : N := match c with Uncleared => 0 | Cleared => 1 | Pending => 2 end%N.
Definition clear_eqb (a b : clear_state) : bool := (clear_code a =? clear_code b)%N.
Definition sposting_eqb (a b : sposting) : bool :=
  str_eqb (sp_account a) (sp_account b) && clear_eqb (sp_clear a) (sp_clear b)
  && oa_eqb (sp_amount a) (sp_amount b) && opt_eqb oa_eqb (sp_cost a) (sp_cost b)
  && opt_eqb oa_eqb (sp_balance a) (sp_balance b) && ostr_eqb (sp_payee a) (sp_payee b).
Definition stxn_eqb (a b : stxn) : bool :=
  (st_date a =? st_date b)%Z && opt_eqb Z.eqb (st_edate a) (st_edate b)
  && clear_eqb (st_clear a) (st_clear b) && ostr_eqb (st_code a) (st_code b)
  && str_eqb (st_payee a) (st_payee b) && list_eqb str_eqb (st_comments a) (st_comments b)
  && list_eqb sposting_eqb (st_posts a) (st_posts b).

Definition conv_eqb (a b : conv_spec) : bool :=
  (match cv_amount a, cv_amount b with Extract, Extract | Compute, Compute => true | _, _ => false end)
  && ostr_eqb (cv_commodity a) (cv_commodity b)
  && (match cv_rate a, cv_rate b with
      | PriceOfSecondary, PriceOfSecondary | PriceOfPrimary, PriceOfPrimary => true | _, _ => false end)
  && Bool.eqb (cv_disabled a) (cv_disabled b).

(* association lists standing for HashMaps are compared sorted by key *)
Section SortBy.
  Context {A : Type} (key : A -> N).
  Fixpoint ins (x : A) (l : list A) : list A :=
    match l with [] => [x] | y :: r => if (key x <=? key y)%N then x :: l else y :: ins x r end.
  Definition sort_by (l : list A) : list A := fold_right ins [] l.
End SortBy.

Definition tkey_eqb (a b : tkey) : bool :=
  match a, b with
  | TNamed x, TNamed y => field_key_eqb x y
  | TIndexed i, TIndexed j => Nat.eqb i j
  | _, _ => false
  end.
Definition segment_eqb (a b : segment) : bool :=
  match a, b with
  | SLit x, SLit y => str_eqb x y
  | SRef x, SRef y => tkey_eqb x y
  | _, _ => false
  end.
Definition field_pos_eqb (a b : field_pos) : bool :=
  match a, b with
  | PIndex i, PIndex j => Nat.eqb i j
  | PLabel x, PLabel y => str_eqb x y
  | PTemplate x, PTemplate y => list_eqb segment_eqb x y
  | _, _ => false
  end.
Definition format_eqb (a b : format_spec) : bool :=
  str_eqb (fs_date a) (fs_date b)
  && list_eqb (fun x y => str_eqb (fst x) (fst y) && (snd x =? snd y)%N)
       (sort_by (fun x => str_code (fst x)) (fs_precisions a)) (sort_by (fun x => str_code (fst x)) (fs_precisions b))
  && list_eqb (fun x y => field_key_eqb (fst x) (fst y) && field_pos_eqb (snd x) (snd y))
       (sort_by (fun x => field_key_code (fst x)) (fs_fields a)) (sort_by (fun x => field_key_code (fst x)) (fs_fields b))
  && str_eqb (fs_delimiter a) (fs_delimiter b) && (fs_skip_head a =? fs_skip_head b)%Z
  && (match fs_row_order a, fs_row_order b with OldToNew, OldToNew | NewToOld, NewToOld => true | _, _ => false end).

Definition and_eqb (a b : and_list pat) : bool :=
  list_eqb (fun x y => (rf_code (fst x) =? rf_code (fst y))%N && str_eqb (p_src (snd x)) (p_src (snd y)))
           (sort_by (fun x => rf_code (fst x)) a) (sort_by (fun x => rf_code (fst x)) b).
Definition rule_eqb (a b : rule pat) : bool :=
  list_eqb and_eqb (r_matcher a) (r_matcher b) && Bool.eqb (r_pending a) (r_pending b)
  && ostr_eqb (r_payee a) (r_payee b) && ostr_eqb (r_account a) (r_account b)
  && opt_eqb conv_eqb (r_conversion a) (r_conversion b).
Definition at_eqb (a b : account_type) : bool :=
  match a, b with Asset, Asset | Liability, Liability => true | _, _ => false end.
Definition entry_eqb (a b : entry pat) : bool :=
  str_eqb (e_path a) (e_path b) && (e_encoding a =? e_encoding b)%N && str_eqb (e_account a) (e_account b)
  && at_eqb (e_account_type a) (e_account_type b) && ostr_eqb (e_operator a) (e_operator b)
  && str_eqb (cs_primary (e_commodity a)) (cs_primary (e_commodity b))
  && conv_eqb (cs_conversion (e_commodity a)) (cs_conversion (e_commodity b))
  && format_eqb (e_format a) (e_format b) && list_eqb rule_eqb (e_rewrite a) (e_rewrite b).

Definition with_format (e : entry pat) (f : format_spec) : entry pat :=
  {| e_path := e_path e; e_encoding := e_encoding e; e_account := e_account e;
     e_account_type := e_account_type e; e_operator := e_operator e; e_commodity := e_commodity e;
     e_format := f; e_rewrite := e_rewrite e |}.

(* ---- what the implementation's import did ---- *)
Inductive imp_obs := ImpNotRun | ImpErr (code : N) | ImpPanic | ImpOk (ts : list stxn).

Definition ierr_code (e : ierr) : N :=
  match e with
  | ELabelsNotFound => 1 | ENoDateField => 2 | ENoPayeeField => 3 | ENoValueField => 4 | EExtractor => 5
  | EShortRecord => 6 | EFieldMissing => 7 | ERender => 8 | EDate => 9 | EDecimal => 10
  | ECreditDebitEmpty => 11 | ENoOperator => 12 | ENoRate => 13 | ENoSecondaryCommodity => 14
  | ENoSecondaryAmount => 15 | ESameCommodityRate => 16 | EZeroRate => 17
  end%N.

Definition imp_agrees (o : imp_obs) (m : ires (list stxn)) : bool :=
  match o, m with
  | ImpOk ts, IOk ms => list_eqb stxn_eqb ts ms
  | ImpErr k, IErr e => (k =? ierr_code e)%N
  | ImpPanic, IPanic => true
  | _, _ => false
  end.

Definition model_import (e : entry pat) (header : list str) (rows : list row) : ires (list stxn) :=
  import_double re_captures re_valid e header rows.
