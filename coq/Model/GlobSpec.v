(* Declarative meaning of a pattern of literals, `?`, `*` and character classes under okane's
   match options:
   `gmatch follows ts s` — the tokens ts match the whole string s, where `follows` says that
   s begins right after a separator (or at the start of the path).
   - a literal matches itself (a separator and a dot included);
   - `?` matches one character that is neither a separator nor a dot right after a separator;
   - `*` matches a possibly empty run of such characters (only its first character can be
     right after a separator);
   - `[...]` matches one such character that the class lists (singly or inside a range),
     `[!...]` one such character that the class does not list.  *)
From Coq Require Import List NArith Bool.
From Okv Require Import Model.Glob.
Import ListNotations.
Open Scope N_scope.

Definition wild_ok (follows : bool) (c : N) : bool :=
  negb (is_sep c) && negb (follows && (c =? DOT)).

(* what a class lists: case sensitive, ranges by scalar value, both ends included *)
Definition spec_has (sp : cspec) (c : N) : Prop :=
  match sp with
  | SingleChar a => c = a
  | CharRange lo hi => lo <= c /\ c <= hi
  end.
Definition in_class (cs : list cspec) (c : N) : Prop := exists sp, In sp cs /\ spec_has sp c.

Inductive gmatch : bool -> list token -> str -> Prop :=
| GM_nil : forall f, gmatch f [] []
| GM_char : forall f c ts s,
    gmatch (is_sep c) ts s -> gmatch f (Char c :: ts) (c :: s)
| GM_any : forall f c ts s,
    wild_ok f c = true -> gmatch false ts s -> gmatch f (AnyChar :: ts) (c :: s)
| GM_within : forall f cs c ts s,
    wild_ok f c = true -> in_class cs c -> gmatch false ts s -> gmatch f (AnyWithin cs :: ts) (c :: s)
| GM_except : forall f cs c ts s,
    wild_ok f c = true -> ~ in_class cs c -> gmatch false ts s -> gmatch f (AnyExcept cs :: ts) (c :: s)
| GM_seq_nil : forall f ts s,
    gmatch f ts s -> gmatch f (AnySequence :: ts) s
| GM_seq_cons : forall f c ts s,
    wild_ok f c = true -> gmatch false (AnySequence :: ts) s -> gmatch f (AnySequence :: ts) (c :: s).

(* what a written class body lists (the text between `[`/`[!` and the closing `]`): read from the
   left, `a-b` lists the characters from a to b, any other character lists itself *)
Inductive body_lists : str -> N -> Prop :=
| BL_range : forall a b r c, a <= c -> c <= b -> body_lists (a :: DASH :: b :: r) c
| BL_range_skip : forall a b r c, body_lists r c -> body_lists (a :: DASH :: b :: r) c
| BL_single : forall a r, (forall b r', r <> DASH :: b :: r') -> body_lists (a :: r) a
| BL_single_skip : forall a r c, (forall b r', r <> DASH :: b :: r') -> body_lists r c -> body_lists (a :: r) c.
