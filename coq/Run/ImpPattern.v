(* The pattern language the correspondence runs use for rewrite matchers, with an evaluator.
   The harness writes each pattern both as a regex source (into the YAML the implementation
   reads; literals through regex::escape) and as this tree; the language is small enough that
   leftmost-first backtracking below is what the `regex` crate computes:
     pattern ::= ['^'] item* ['$']      item ::= atom | (?P<payee>atom) | (?P<code>atom)
     atom    ::= literal (matched ASCII-case-insensitively) | [0-9]+ | [0-9]* [written \d* in the source] | .*
   `.*` and `[0-9]*` are greedy and may match the EMPTY string: a named group around them that
   matched empty still participates in the match (regex::Captures::name is Some("")), so it sets
   payee / code to the empty text.  An empty item list under ^..$ is the pattern `^$`.
   Text is UTF-8 bytes without line breaks and without U+212A / U+017F (the two non-ASCII
   characters that fold to ASCII letters). *)
From Coq Require Import List NArith Bool.
From Okv Require Import Model.ImpConfig Model.ImpExtract.
Import ListNotations.
Open Scope N_scope.

Inductive atom := ALit (s : str) | ADigits | ADigits0 | ARest.
Inductive item := IAtom (a : atom) | IPayee (a : atom) | ICode (a : atom).
Record pat := { p_src : str; p_start : bool; p_items : list item; p_end : bool; p_valid : bool }.

Definition lower (c : N) : N := if (65 <=? c) && (c <=? 90) then c + 32 else c.
Fixpoint ci_prefix (p s : str) : option str :=
  match p, s with
  | [], _ => Some s
  | a :: p', b :: s' => if lower a =? lower b then ci_prefix p' s' else None
  | _ :: _, [] => None
  end.

Definition is_dig (c : N) : bool := (48 <=? c) && (c <=? 57).

(* all ways to split s = taken ++ rest with every taken character satisfying ok, longest first *)
Fixpoint splits (ok : N -> bool) (s : str) : list (str * str) :=
  match s with
  | [] => [([], [])]
  | c :: r => if ok c then map (fun p => (c :: fst p, snd p)) (splits ok r) ++ [([], s)]
              else [([], s)]
  end.

Definition candidates (a : atom) (s : str) : list (str * str) :=
  match a with
  | ALit l => match ci_prefix l s with
              | Some rest => [(firstn (length l) s, rest)]
              | None => []
              end
  | ADigits => filter (fun p => match fst p with [] => false | _ => true end) (splits is_dig s)
  | ADigits0 => splits is_dig s
  | ARest => splits (fun c => negb (c =? 10)) s
  end.

Definition atom_of (i : item) : atom := match i with IAtom a | IPayee a | ICode a => a end.
Definition add_cap (i : item) (m : str) (c : captures) : captures :=
  match i with
  | IAtom _ => c
  | IPayee _ => {| m_payee := Some m; m_code := m_code c |}
  | ICode _ => {| m_payee := m_payee c; m_code := Some m |}
  end.

Fixpoint first_some {A B} (f : A -> option B) (l : list A) : option B :=
  match l with
  | [] => None
  | x :: r => match f x with Some y => Some y | None => first_some f r end
  end.

Fixpoint match_items (items : list item) (endb : bool) (s : str) : option captures :=
  match items with
  | [] => if endb then match s with [] => Some no_captures | _ => None end else Some no_captures
  | it :: r =>
      first_some (fun p => option_map (add_cap it (fst p)) (match_items r endb (snd p)))
                 (candidates (atom_of it) s)
  end.

(* leftmost match: start positions in order *)
Fixpoint search (items : list item) (endb : bool) (s : str) : option captures :=
  match match_items items endb s with
  | Some c => Some c
  | None => match s with [] => None | _ :: r => search items endb r end
  end.

Definition re_captures (p : pat) (s : str) : option captures :=
  if p_start p then match_items (p_items p) (p_end p) s else search (p_items p) (p_end p) s.
Definition re_valid (p : pat) : bool := p_valid p.
