(* How Model/Book.v processes transactions all of whose postings are plain: an explicit
   single-commodity amount, optionally a per-unit cost in another commodity, optionally a
   balance assertion.  (These are the transactions an importer prints.)  Only the public
   behaviour of Book.process is used. *)
From Coq Require Import List NArith ZArith Bool QArith Qcanon Lia.
From Okv Require Import Base.Maps Base.Dec Model.Amount Model.Book Proofs.ImpBook_Maps.
Import ListNotations.
Open Scope Qc_scope.

(* a plain posting *)
Record pp := { pp_account : aid; pp_c : cid; pp_v : Qc; pp_cost : option (cid * Qc);
               pp_bal : option (cid * Qc) }.

Definition to_posting (p : pp) : posting :=
  {| p_account := pp_account p;
     p_amount := Some (VAmt (pp_v p) (Some (pp_c p)));
     p_cost := option_map (fun rc => XRate (VAmt (snd rc) (Some (fst rc)))) (pp_cost p);
     p_lot := None;
     p_balance := option_map (fun b => VAmt (snd b) (Some (fst b))) (pp_bal p) |}.

(* the rate is not zero and prices the amount in another commodity *)
Definition cost_ok (p : pp) : Prop :=
  match pp_cost p with Some (rc, rv) => rv <> 0 /\ rc <> pp_c p | None => True end.

(* what the posting contributes to the balancing of its transaction *)
Definition pp_delta (p : pp) : cid * Qc :=
  match pp_cost p with Some (rc, rv) => (rc, rv * pp_v p) | None => (pp_c p, pp_v p) end.

(* the account's amount after the posting *)
Definition pp_cur (b : balance) (p : pp) : amount :=
  a_remove_zeros (a_add1 (bal_get b (pp_account p)) (pp_c p) (pp_v p)).
Definition pp_bal_after (b : balance) (p : pp) : balance := set (pp_account p) (pp_cur b p) b.
Definition pp_assert_ok (b : balance) (p : pp) : Prop :=
  match pp_bal p with Some (bc, bv) => bv = a_get (pp_cur b p) bc | None => True end.

Lemma eval_pa_amt : forall v c, eval_pa (VAmt v (Some c)) = Ok (PSingle c v).
Proof. reflexivity. Qed.

Lemma process_posting_plain : forall b date i p,
  cost_ok p -> pp_assert_ok b p ->
  exists conv ev,
    process_posting b date i (to_posting p)
    = Ok (pp_bal_after b p,
          Some {| ep_amount := PSingle (pp_c p) (pp_v p); ep_converted := conv;
                  ep_delta := PSingle (fst (pp_delta p)) (snd (pp_delta p)) |}, ev).
Proof.
  intros b date i [a c v cost bal] Hc Ha.
  unfold cost_ok, pp_assert_ok, pp_delta, pp_bal_after, pp_cur in *.
  cbn [pp_cost pp_bal pp_c pp_v pp_account] in *.
  unfold process_posting, to_posting.
  cbn [p_amount p_balance p_cost p_lot p_account pp_account pp_c pp_v pp_cost pp_bal].
  rewrite eval_pa_amt. cbn [bind].
  set (cur := a_remove_zeros (a_add1 (bal_get b a) c v)) in *.
  assert (Hz : forall bc bv, bv = a_get cur bc -> qc_zero (bv - a_get cur bc) = true).
  { intros bc bv E. apply qc_zero_true. rewrite E. ring. }
  destruct cost as [[rc rv]|]; cbn [option_map].
  - destruct Hc as [Hrv Hrc]. apply qc_zero_false in Hrv.
    unfold xchg_from_syntax.
    cbn [eval_v ev_to_single ev_to_amount amount_to_single a_single lift_eval bind fst snd].
    rewrite Hrv. replace (c =? rc)%N with false by (symmetry; apply N.eqb_neq; congruence).
    cbn [bind]. unfold bal_add_pa. cbn [a_add_pa]. fold cur.
    destruct bal as [[bc bv]|]; cbn [option_map].
    + rewrite eval_pa_amt. cbn [bind assert_balance fst snd]. rewrite (Hz bc bv Ha).
      cbn [a_is_absolute_zero bind].
      unfold balance_amount, converted_amount, posting_price_event.
      cbn [c_lot c_cost c_amount option_or pa_to_single bind xchg_apply fst snd].
      eexists _, _. reflexivity.
    + cbn [bind].
      unfold balance_amount, converted_amount, posting_price_event.
      cbn [c_lot c_cost c_amount option_or pa_to_single bind xchg_apply fst snd].
      eexists _, _. reflexivity.
  - cbn [bind]. unfold bal_add_pa. cbn [a_add_pa]. fold cur.
    destruct bal as [[bc bv]|]; cbn [option_map].
    + rewrite eval_pa_amt. cbn [bind assert_balance fst snd]. rewrite (Hz bc bv Ha).
      cbn [a_is_absolute_zero bind].
      unfold balance_amount, converted_amount, posting_price_event.
      cbn [c_lot c_cost c_amount option_or bind fst snd].
      eexists _, _. reflexivity.
    + cbn [bind].
      unfold balance_amount, converted_amount, posting_price_event.
      cbn [c_lot c_cost c_amount option_or bind fst snd].
      eexists _, _. reflexivity.
Qed.

(* ---- the posting loop ---- *)
Fixpoint run_bal (b : balance) (ps : list pp) : balance :=
  match ps with [] => b | p :: r => run_bal (pp_bal_after b p) r end.
Fixpoint asserts_ok (b : balance) (ps : list pp) : Prop :=
  match ps with [] => True | p :: r => pp_assert_ok b p /\ asserts_ok (pp_bal_after b p) r end.
Definition resid (acc : amount) (ps : list pp) : amount :=
  fold_left (fun a p => a_add1 a (fst (pp_delta p)) (snd (pp_delta p))) ps acc.

Lemma loop_plain : forall ps date i st,
  Forall cost_ok ps -> asserts_ok (l_bal st) ps ->
  exists st',
    fold_left (loop_step date) (enumerate i (map to_posting ps)) (Ok st) = Ok st'
    /\ l_bal st' = run_bal (l_bal st) ps /\ l_unfilled st' = l_unfilled st
    /\ l_residual st' = resid (l_residual st) ps.
Proof.
  induction ps as [|p r IH]; intros date i st Hc Ha.
  - exists st. cbn. auto.
  - inversion Hc; subst. destruct Ha as [Ha1 Ha2].
    destruct (process_posting_plain (l_bal st) date i p H1 Ha1) as (conv & ev & Hp).
    cbn [map enumerate fold_left]. unfold loop_step at 2. cbn [bind]. rewrite Hp. cbn [bind].
    match goal with |- context [fold_left _ _ (Ok ?s)] => set (st1 := s) end.
    destruct (IH date (S i) st1 H2) as (st' & Hf & Hb & Hu & Hr); [exact Ha2|].
    exists st'. split; [exact Hf|]. subst st1. cbn in Hb, Hu, Hr. repeat split; auto.
Qed.

(* ---- one transaction ---- *)
Definition to_txn (date : Z) (ps : list pp) : txn := {| t_date := date; t_posts := map to_posting ps |}.

Lemma add_transaction_plain : forall s date ps,
  s_fmt s = [] -> Forall cost_ok ps -> asserts_ok (s_bal s) ps -> a_is_zero (resid [] ps) = true ->
  exists s', add_transaction s (to_txn date ps) = Ok s'
             /\ s_bal s' = run_bal (s_bal s) ps /\ s_fmt s' = [].
Proof.
  intros s date ps Hf Hc Ha Hz. unfold add_transaction, to_txn. cbn [t_date t_posts].
  match goal with |- context [fold_left _ _ (Ok ?st)] => set (st0 := st) end.
  destruct (loop_plain ps date 0 st0 Hc Ha) as (st' & Hl & Hb & Hu & Hr).
  subst st0. cbn [l_bal l_unfilled l_residual] in Hb, Hu, Hr.
  rewrite Hl. cbn [bind]. rewrite Hu.
  unfold check_balance. rewrite Hf, a_round_nil, Hr. unfold a_zero. rewrite Hz. cbn [bind].
  eexists. split; [reflexivity|]. cbn [s_bal s_fmt]. split; [exact Hb|reflexivity].
Qed.

(* ---- a list of transactions ---- *)
Fixpoint run_bals (b : balance) (ts : list (Z * list pp)) : balance :=
  match ts with [] => b | t :: r => run_bals (run_bal b (snd t)) r end.
Fixpoint all_asserts_ok (b : balance) (ts : list (Z * list pp)) : Prop :=
  match ts with [] => True | t :: r => asserts_ok b (snd t) /\ all_asserts_ok (run_bal b (snd t)) r end.
Definition plain_ok (t : Z * list pp) : Prop := Forall cost_ok (snd t) /\ a_is_zero (resid [] (snd t)) = true.

Lemma process_from_plain : forall ts i s,
  s_fmt s = [] -> Forall plain_ok ts -> all_asserts_ok (s_bal s) ts ->
  exists s', fst (process_from i s (map (fun t => ETxn (to_txn (fst t) (snd t))) ts)) = Ok s'
             /\ s_bal s' = run_bals (s_bal s) ts /\ s_fmt s' = [].
Proof.
  induction ts as [|[d ps] r IH]; intros i s Hf Hok Ha.
  - exists s. cbn. auto.
  - inversion Hok; subst. destruct H1 as [Hc Hz]. destruct Ha as [Ha1 Ha2]. cbn [fst snd] in *.
    destruct (add_transaction_plain s d ps Hf Hc Ha1 Hz) as (s1 & Hadd & Hb & Hf1).
    cbn [map process_from process_entry fst snd]. rewrite Hadd.
    destruct (IH (S i) s1 Hf1 H2) as (s' & Hp & Hb' & Hf').
    + rewrite Hb. exact Ha2.
    + exists s'. rewrite Hb in Hb'. auto.
Qed.

(* ---- one account's view ---- *)
Section Account.
  Variable A : aid.
  Definition upd (run : cid -> Qc) (c : cid) (v : Qc) : cid -> Qc := fun c' => if (c =? c')%N then v else run c'.

  (* the account's running balance along the postings, and the assertions read against it;
     postings on other accounts carry no assertion *)
  Fixpoint walk_run (run : cid -> Qc) (ps : list pp) : cid -> Qc :=
    match ps with
    | [] => run
    | p :: r => if (pp_account p =? A)%N then walk_run (upd run (pp_c p) (run (pp_c p) + pp_v p)) r
                else walk_run run r
    end.
  Fixpoint walk_ok (run : cid -> Qc) (ps : list pp) : Prop :=
    match ps with
    | [] => True
    | p :: r =>
        if (pp_account p =? A)%N
        then let run' := upd run (pp_c p) (run (pp_c p) + pp_v p) in
             match pp_bal p with Some (bc, bv) => bv = run' bc | None => True end /\ walk_ok run' r
        else pp_bal p = None /\ walk_ok run r
    end.

  Definition views (b : balance) (run : cid -> Qc) : Prop :=
    NoDup (keys (bal_get b A)) /\ forall c, a_get (bal_get b A) c = run c.

  Lemma bal_get_after_same : forall b p, pp_account p = A -> bal_get (pp_bal_after b p) A = pp_cur b p.
  Proof. intros b p H. unfold bal_get, pp_bal_after. rewrite H, get_set_same. reflexivity. Qed.
  Lemma bal_get_after_other : forall b p, pp_account p <> A -> bal_get (pp_bal_after b p) A = bal_get b A.
  Proof. intros b p H. unfold bal_get, pp_bal_after. rewrite get_set_other by congruence. reflexivity. Qed.

  Lemma views_step_same : forall b run p, views b run -> pp_account p = A ->
    views (pp_bal_after b p) (upd run (pp_c p) (run (pp_c p) + pp_v p))
    /\ forall c, a_get (pp_cur b p) c = upd run (pp_c p) (run (pp_c p) + pp_v p) c.
  Proof.
    intros b run p [Hn Hv] Ha.
    assert (Hcur : forall c, a_get (pp_cur b p) c = upd run (pp_c p) (run (pp_c p) + pp_v p) c).
    { intros c. unfold pp_cur. rewrite Ha. rewrite a_get_remove_zeros by (apply nodup_add1; exact Hn).
      rewrite a_get_add1. unfold upd. destruct (pp_c p =? c)%N eqn:E.
      - apply N.eqb_eq in E. subst c. rewrite Hv. reflexivity.
      - apply Hv. }
    split; [|exact Hcur]. unfold views. rewrite bal_get_after_same by exact Ha. split; [|exact Hcur].
    unfold pp_cur. rewrite Ha. apply nodup_remove_zeros, nodup_add1. exact Hn.
  Qed.

  Lemma walk_views : forall ps b run, views b run -> walk_ok run ps ->
    asserts_ok b ps /\ views (run_bal b ps) (walk_run run ps).
  Proof.
    induction ps as [|p r IH]; intros b run Hv Hw; cbn [asserts_ok run_bal walk_run walk_ok] in *.
    - auto.
    - destruct (pp_account p =? A)%N eqn:E.
      + apply N.eqb_eq in E. destruct Hw as [Hb Hw].
        destruct (views_step_same b run p Hv E) as [Hv' Hcur].
        destruct (IH _ _ Hv' Hw) as [Ha Hv'']. split; [split; [|exact Ha]|exact Hv''].
        unfold pp_assert_ok. destruct (pp_bal p) as [[bc bv]|]; [|exact I]. rewrite Hcur. exact Hb.
      + apply N.eqb_neq in E. destruct Hw as [Hb Hw].
        assert (Hv' : views (pp_bal_after b p) run).
        { destruct Hv as [Hn Hv]. unfold views. rewrite bal_get_after_other by exact E. auto. }
        destruct (IH _ _ Hv' Hw) as [Ha Hv'']. split; [split; [|exact Ha]|exact Hv''].
        unfold pp_assert_ok. rewrite Hb. exact I.
  Qed.

  Fixpoint walks_run (run : cid -> Qc) (ts : list (Z * list pp)) : cid -> Qc :=
    match ts with [] => run | t :: r => walks_run (walk_run run (snd t)) r end.
  Fixpoint walks_ok (run : cid -> Qc) (ts : list (Z * list pp)) : Prop :=
    match ts with [] => True | t :: r => walk_ok run (snd t) /\ walks_ok (walk_run run (snd t)) r end.

  Lemma walks_views : forall ts b run, views b run -> walks_ok run ts ->
    all_asserts_ok b ts /\ views (run_bals b ts) (walks_run run ts).
  Proof.
    induction ts as [|t r IH]; intros b run Hv Hw; cbn [all_asserts_ok run_bals walks_run walks_ok] in *.
    - auto.
    - destruct Hw as [Hw1 Hw2]. destruct (walk_views (snd t) b run Hv Hw1) as [Ha Hv'].
      destruct (IH _ _ Hv' Hw2) as [Ha' Hv'']. auto.
  Qed.

  (* the whole run from the empty state *)
  Theorem process_plain_account : forall ts,
    Forall plain_ok ts -> walks_ok (fun _ => 0) ts ->
    exists L, fst (process (map (fun t => ETxn (to_txn (fst t) (snd t))) ts)) = Ok L
              /\ forall c, a_get (bal_get (s_bal L) A) c = walks_run (fun _ => 0) ts c.
  Proof.
    intros ts Hok Hw. unfold process.
    assert (Hv0 : views (s_bal bstate0) (fun _ => 0)).
    { unfold views, bal_get. cbn. split; [constructor|reflexivity]. }
    destruct (walks_views ts _ _ Hv0 Hw) as [Ha Hv].
    destruct (process_from_plain ts 0 bstate0 eq_refl Hok Ha) as (L & Hp & Hb & _).
    exists L. split; [exact Hp|]. rewrite Hb. apply Hv.
  Qed.
End Account.
