(* Exact decimal arithmetic of the report layer: rust_decimal::Decimal values as canonical
   rationals (Qc).  (mantissa, scale) pairs written by the harness are turned into Qc here;
   round_dp is Decimal::round_dp_with_strategy(dp, MidpointNearestEven). *)
From Coq Require Import ZArith QArith Qcanon Qround Qcabs.
Open Scope Qc_scope.

Fixpoint pow10p (n : nat) : positive :=
  match n with O => 1%positive | S k => (10 * pow10p k)%positive end.

Definition of_dec (m : Z) (scale : nat) : Qc := Q2Qc (m # pow10p scale).

Definition qc_zero (x : Qc) : bool := Qc_eq_bool x 0.
Definition qc_neg (x : Qc) : bool := match Qccompare x 0 with Lt => true | _ => false end.

(* banker's rounding to dp decimal places *)
Definition round_dp (dp : nat) (x : Qc) : Qc :=
  let s := Z.pos (pow10p dp) in
  let y := (this x * inject_Z s)%Q in
  let n := Qfloor y in
  let twice_frac := ((y - inject_Z n) * 2)%Q in   (* in [0, 2) *)
  let r := match Qcompare twice_frac 1 with
           | Lt => n
           | Gt => (n + 1)%Z
           | Eq => if Z.even n then n else (n + 1)%Z
           end in
  Q2Qc (r # pow10p dp).

(* value with the magnitude of |t| and the sign (bit) of q; a zero q counts as positive *)
Definition with_sign_of (t q : Qc) : Qc := if qc_neg q then - Qcabs t else Qcabs t.
