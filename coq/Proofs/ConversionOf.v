(* EvalOptions::to_conversion (cli/src/cmd.rs), modelled as Model/Lower.v conversion_of:
   which runs convert at all, and what happens to a -X name nobody declared. *)
From Coq Require Import List NArith ZArith.
From Okv Require Import Model.Intern Model.Convert Model.Lower.
Import ListNotations.

(* "no conversion" is the answer only when -X was not given *)
Lemma conversion_none_iff : forall o tc sc,
  conversion_of o tc sc = inl None <-> ro_exchange o = None.
Proof.
  intros o tc sc. unfold conversion_of. split.
  - destruct (ro_exchange o) as [x|]; [|reflexivity].
    destruct (find_name tc x 0%N) as [i|]; [|discriminate].
    destruct (resolve sc i); discriminate.
  - intros ->. reflexivity.
Qed.

(* a name that was never written (not in the table of names), or that is in the table but is
   neither a canonical commodity nor an alias of the store, is refused *)
Lemma conversion_unknown_refused : forall o tc sc x,
  ro_exchange o = Some x ->
  (find_name tc x 0%N = None \/ exists i, find_name tc x 0%N = Some i /\ resolve sc i = None) ->
  conversion_of o tc sc = inr tt.
Proof.
  intros o tc sc x Hx H. unfold conversion_of. rewrite Hx.
  destruct H as [H | [i [H1 H2]]].
  - rewrite H. reflexivity.
  - rewrite H1, H2. reflexivity.
Qed.

(* and a given, known name always yields a conversion into the commodity it resolves to *)
Lemma conversion_known_target : forall o tc sc x i c,
  ro_exchange o = Some x -> find_name tc x 0%N = Some i -> resolve sc i = Some c ->
  conversion_of o tc sc =
  inl (Some {| cv_strategy := if ro_historical o then Historical else UpToDate (ro_now o); cv_target := c |}).
Proof.
  intros o tc sc x i c Hx H1 H2. unfold conversion_of. rewrite Hx, H1, H2. reflexivity.
Qed.
