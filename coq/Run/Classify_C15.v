(* C15 classifier: 0 Agree | 1 ModelMismatch | 2 PropertyFail | 100+k known finding k | 9 harness error.
   A case is one import run: the configured precisions, the number of statement records, the
   transactions to_double_entry built (with the display width of each posting's account), the
   text ImportCmd printed for them, and what parse_ledger read back from that text; for generated
   CSV statements also the figures the generator meant each money cell to say.
   spec_holds is the property on the observation alone; the model (Model/TxnText.v printer and
   reader) is compared second. *)
From Coq Require Import List NArith ZArith Bool.
From Okv Require Import Model.Lit Model.SingleEntry2 Model.TxnText Model.TxnTextSpec.
From Okv Require Model.ImpCsv.
Import ListNotations.
Open Scope N_scope.

(* ---- constructors the harness prints ---- *)
Definition DT (y m d : N) : date := {| d_y := y; d_m := m; d_d := d |}.
Definition SA (ng : bool) (m : N) (s : nat) (c : str) : samount := {| sa_value := mkd ng m s; sa_comm := c |}.
Definition SAF (ng : bool) (m : N) (s : nat) (f : N) (c : str) : samount :=
  {| sa_value := {| neg := ng; mant := m; scale := s;
                    pfmt := if f =? 1 then Some Plain else if f =? 2 then Some Comma3Dot else None |};
     sa_comm := c |}.
Definition PA (a : samount) (cost : option samount) : pamount := {| pa_amount := a; pa_cost := cost |}.
Definition PO (a : str) (c : clear) (amt : option pamount) (b : option samount) (m : list metadata) : sposting :=
  {| sp_account := a; sp_clear := c; sp_amount := amt; sp_balance := b; sp_meta := m |}.
Definition TX (d : date) (e : option date) (c : clear) (code : option str) (payee : str)
              (m : list metadata) (ps : list sposting) : stxn :=
  {| tr_date := d; tr_edate := e; tr_clear := c; tr_code := code; tr_payee := payee; tr_meta := m; tr_posts := ps |}.

(* what one statement record says, in the statement's own terms (the generator's figure, known
   before the cell text was written): the signed movement of the configured account, the stated
   balance, the fee *)
Record intent := { in_amount : option pdec; in_balance : option pdec; in_charge : option pdec;
                   in_rate : option pdec;        (* the stated exchange rate of a converted record *)
                   in_secondary : option pdec;   (* its stated secondary amount *)
                   in_date : option date;        (* the calendar date the record states *)
                   in_payee : option str         (* the payee text it states, as one line (only where
                                                    no rewrite rule captures a payee) *) }.
Definition INT (a b c rt sec : option pdec) (d : option date) (p : option str) : intent :=
  {| in_amount := a; in_balance := b; in_charge := c; in_rate := rt; in_secondary := sec;
     in_date := d; in_payee := p |}.

Inductive case :=
| CRun (prec : precisions) (acct : str) (intended : list intent) (records : N) (trees : list stxn)
       (widths : list (list N)) (text : str) (parsed : rres)
| CRefused (cells : list str) (code : N)   (* a CSV statement some of whose numeric cells (given as
                                              UTF-8 bytes) the generator wrote in a notation okane
                                              does not know was refused: nothing was printed;
                                              code 10 = "failed to parse comma decimal" *)
| CPanic.                                  (* the importer itself panicked *)

(* ---- "reads back as intended": the figures of the statement are the figures read back ---- *)
Definition s_commissions : str :=
  [69;120;112;101;110;115;101;115;58;67;111;109;109;105;115;115;105;111;110;115].  (* Expenses:Commissions *)
Definition has_post (acct : str) (f : sposting -> bool) (t : stxn) : bool :=
  existsb (fun p => str_eqb (sp_account p) acct && f p) (tr_posts t).
Definition amount_is (v : pdec) (p : sposting) : bool :=
  match sp_amount p with Some pa => same_value v (sa_value (pa_amount pa)) | None => false end.
Definition balance_is (v : pdec) (p : sposting) : bool :=
  match sp_balance p with Some b => same_value v (sa_value b) | None => false end.
Definition cost_is (v : pdec) (p : sposting) : bool :=
  match sp_amount p with
  | Some pa => match pa_cost pa with Some c => same_value v (sa_value c) | None => false end
  | None => false
  end.
Definition unsigned (v : pdec) : pdec := {| neg := false; mant := mant v; scale := scale v; pfmt := pfmt v |}.
Definition magnitude_is (v : pdec) (p : sposting) : bool :=
  match sp_amount p with Some pa => same_value (unsigned v) (unsigned (sa_value (pa_amount pa))) | None => false end.
Definition intent_ok (acct : str) (i : intent) (t : stxn) : bool :=
  match in_amount i with Some v => has_post acct (amount_is v) t | None => true end
  && match in_balance i with Some v => has_post acct (balance_is v) t | None => true end
  && match in_charge i with Some v => has_post s_commissions (amount_is v) t | None => true end
  && match in_rate i with Some v => existsb (cost_is v) (tr_posts t) | None => true end
  && match in_secondary i with Some v => existsb (magnitude_is v) (tr_posts t) | None => true end
  && match in_date i with Some d => date_eqb d (tr_date t) | None => true end
  && match in_payee i with Some p => str_eqb p (tr_payee t) | None => true end.
(* no stated intents: nothing to check; otherwise one per transaction read back, in order *)
Fixpoint intents_ok (acct : str) (is : list intent) (items : list item) : bool :=
  match is, items with
  | [], _ => true
  | i :: r, ITxn u :: s => intent_ok acct i u && intents_ok acct r s
  | _ :: _, _ => false
  end.

(* ---- the property on the observation ---- *)
Fixpoint all_same (p : precisions) (ts : list stxn) (items : list item) : bool :=
  match ts, items with
  | [], [] => true
  | t :: r, ITxn u :: s => same_txn p t u && all_same p r s
  | _, _ => false
  end.

Definition spec_holds (c : case) : bool :=
  match c with
  | CRun p acct intended records trees _ _ (RItems items false) =>
      (N.of_nat (length trees) =? records) && all_same p trees items && intents_ok acct intended items
  | CRefused _ _ => true                  (* nothing was printed: no figure of the statement was changed *)
  | _ => false
  end.

(* the first built transaction that was not read back as itself *)
Fixpoint first_bad (p : precisions) (ts : list stxn) (items : list item) : option stxn :=
  match ts, items with
  | [], _ => None
  | t :: r, ITxn u :: s => if same_txn p t u then first_bad p r s else Some t
  | t :: _, _ => Some t
  end.

(* ---- comparison with the model ---- *)
Definition pdec_eqb (a b : pdec) : bool :=
  Bool.eqb (neg a) (neg b) && (mant a =? mant b) && Nat.eqb (scale a) (scale b)
  && match pfmt a, pfmt b with
     | None, None => true | Some Plain, Some Plain => true | Some Comma3Dot, Some Comma3Dot => true
     | _, _ => false
     end.
Definition samount_eqb (a b : samount) : bool := pdec_eqb (sa_value a) (sa_value b) && str_eqb (sa_comm a) (sa_comm b).
Definition sposting_eqb (a b : sposting) : bool :=
  str_eqb (sp_account a) (sp_account b) && clear_eqb (sp_clear a) (sp_clear b)
  && opt_same (fun x y => samount_eqb (pa_amount x) (pa_amount y) && opt_same samount_eqb (pa_cost x) (pa_cost y))
              (sp_amount a) (sp_amount b)
  && opt_same samount_eqb (sp_balance a) (sp_balance b)
  && list_same meta_eqb (sp_meta a) (sp_meta b).
Definition stxn_eqb (a b : stxn) : bool :=
  date_eqb (tr_date a) (tr_date b) && opt_same date_eqb (tr_edate a) (tr_edate b)
  && clear_eqb (tr_clear a) (tr_clear b) && opt_same str_eqb (tr_code a) (tr_code b)
  && str_eqb (tr_payee a) (tr_payee b) && list_same meta_eqb (tr_meta a) (tr_meta b)
  && list_same sposting_eqb (tr_posts a) (tr_posts b).
Definition item_eqb (a b : item) : bool :=
  match a, b with ITxn x, ITxn y => stxn_eqb x y | IOther, IOther => true | _, _ => false end.
Definition rres_eqb (a b : rres) : bool :=
  match a, b with
  | RItems x e, RItems y e' => list_same item_eqb x y && Bool.eqb e e'
  | RHang, RHang => true
  | RPanic, RPanic => true
  | _, _ => false
  end.

Definition model_agrees (c : case) : bool :=
  match c with
  | CRun p _ _ _ trees widths text parsed =>
      str_eqb (print_all p (map (map N.to_nat) widths) trees) text && rres_eqb (read_all text) parsed
  | CRefused cells code =>
      (* the model of str_to_comma_decimal refuses one of the cells, and the error is the number error *)
      existsb (fun s => match ImpCsv.str_to_comma_decimal s with ImpCsv.IErr _ => true | _ => false end) cells
      && (code =? 10)
  | CPanic => false
  end.

Definition classify (c : case) : N :=
  if spec_holds c then (if model_agrees c then 0 else 1)
  else
    match c with
    | CRun p _ _ _ trees _ _ (RItems items _) =>
        match first_bad p trees items with
        | Some t => match known_class t with Some k => 100 + k | None => 2 end
        | None => 2                         (* extra entries, the wrong number of transactions, or a
                                               figure that is not the statement's *)
        end
    | _ => 2
    end.

Definition verdicts (cs : list case) : list N := map classify cs.
