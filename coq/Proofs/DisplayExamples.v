(* Non-vacuity: the hypotheses of the C19 theorems are satisfiable, and the model prints the
   texts of display::tests::posting_non_expr and display_txn. *)
From Coq Require Import List NArith ZArith Bool Arith Lia.
From Okv Require Import Model.Lit Model.Syntax Model.Display Model.DisplaySpec.
From Okv Require Import Proofs.DisplayExpr Proofs.DisplayLayout Proofs.DisplayLines.
Import ListNotations.
Open Scope N_scope.

(* an oracle that is right on ASCII: the length *)
Definition len_width (s : str) : nat := length s.
Example len_width_ok : ascii_width_ok len_width.
Proof. intros s _. reflexivity. Qed.

Definition s_Account : str := [65; 99; 99; 111; 117; 110; 116].
Definition s_USD : str := [85; 83; 68].
Definition s_JPY : str := [74; 80; 89].
Definition num (m : N) (sc : nat) : pdec := {| neg := false; mant := m; scale := sc; pfmt := None |}.
Definition amt (m : N) (sc : nat) (c : str) : s_vexpr := SAmount {| sa_value := num m sc; sa_commodity := c |}.
Definition d20220520 : date := {| d_year := 2022; d_month := 5; d_day := 20 |}.
Definition s_note : str := [112; 114; 105; 110; 116; 97; 98; 108; 101; 32; 110; 111; 116; 101].

Definition ex_all : s_posting :=
  {| sp_account := s_Account; sp_clear := Uncleared;
     sp_amount := Some {| pa_amount := amt 1 0 s_USD; pa_cost := Some (SRate (amt 100 0 s_JPY));
                          pa_lot := {| lot_price := Some (SRate (amt 11 1 s_USD));
                                       lot_date := Some d20220520; lot_note := Some s_note |} |};
     sp_balance := Some (amt 1 0 s_USD); sp_metadata := [] |}.
Definition ex_noamount : s_posting :=
  {| sp_account := s_Account; sp_clear := Uncleared; sp_amount := None;
     sp_balance := Some (amt 1 0 s_USD); sp_metadata := [] |}.
Definition ex_zerobalance : s_posting :=
  {| sp_account := s_Account; sp_clear := Uncleared; sp_amount := None;
     sp_balance := Some (amt 0 0 []); sp_metadata := [] |}.

(* "    Account                                        1 USD {1.1 USD} [2022/05/20] (printable note) @ 100 JPY = 1 USD\n" *)
Example ex_all_text : print_posting len_width ex_all =
  spaces 4 ++ s_Account ++ spaces 40 ++ [49; 32] ++ s_USD ++
  [32; 123; 49; 46; 49; 32] ++ s_USD ++ [125] ++
  [32; 91; 50; 48; 50; 50; 47; 48; 53; 47; 50; 48; 93] ++
  [32; 40] ++ s_note ++ [41] ++ [32; 64; 32; 49; 48; 48; 32] ++ s_JPY ++
  [32; 61; 32; 49; 32] ++ s_USD ++ [10].
Proof. vm_compute. reflexivity. Qed.

(* "    Account                                              = 1 USD\n": "=" at column 58 = 54 + 4 *)
Example ex_noamount_text : print_posting len_width ex_noamount =
  spaces 4 ++ s_Account ++ spaces 46 ++ [61; 32; 49; 32] ++ s_USD ++ [10].
Proof. vm_compute. reflexivity. Qed.

(* "    Account                                          = 0\n" *)
Example ex_zerobalance_text : print_posting len_width ex_zerobalance =
  spaces 4 ++ s_Account ++ spaces 42 ++ [61; 32; 48; 10].
Proof. vm_compute. reflexivity. Qed.

(* the aligned regime of C19_amount_column / C19_balance_only is inhabited ... *)
Example ex_all_aligned :
  (account_width len_width ex_all + length (vexpr_align_prefix (amt 1 0 s_USD)) + 2 < 48)%nat.
Proof. vm_compute. lia. Qed.
Example ex_noamount_aligned :
  (account_width len_width ex_noamount + 3 < 50 + balance_trailing len_width (amt 1 0 s_USD))%nat.
Proof. vm_compute. lia. Qed.

(* ... and so is the other one: a 60 column account (the F11 witness), two spaces before "=" *)
Definition long_account : str := repeat 65 60.
Definition ex_long : s_posting :=
  {| sp_account := long_account; sp_clear := Cleared; sp_amount := None;
     sp_balance := Some (amt 0 0 []); sp_metadata := [] |}.
Example ex_long_text : print_posting len_width ex_long =
  spaces 4 ++ [42; 32] ++ long_account ++ [32; 32; 61; 32; 48; 10].
Proof. vm_compute. reflexivity. Qed.
Example ex_long_not_aligned :
  ~ (account_width len_width ex_long + 3 < 50 + balance_trailing len_width (amt 0 0 []))%nat.
Proof. vm_compute. lia. Qed.

(* a transaction in the domain of C19_indent / C19_one_blank_line *)
Definition ex_txn : s_txn :=
  {| st_date := {| d_year := 2022; d_month := 12; d_day := 23 |}; st_edate := None;
     st_clear := Pending; st_code := Some [35; 49]; st_payee := [71; 114; 111; 99; 101; 114; 121];
     st_posts := [ex_all; ex_noamount; ex_long];
     st_metadata := [MWordTags [[97]; [98]]; MKeyValue [107] (MText [118])] |}.
Example ex_txn_ok : txn_ok ex_txn = true.
Proof. vm_compute. reflexivity. Qed.
Example ex_entries_ok :
  forallb entry_ok [STxn ex_txn; SComment [32; 97; 10; 98; 10]; SEndApplyTag;
                    SAccount s_Account [ADComment [32; 99; 10]; ADAlias [65]]] = true.
Proof. vm_compute. reflexivity. Qed.

(* expressions with and without a commodity-bearing literal *)
(* ((1.20 + 2.67) * 3.1 USD + 5 USD): alignment 20 as in test_fmt_with_alignment_complex_expr *)
Definition ex_complex : s_vexpr :=
  SParen (SBinary SAdd
    (SBinary SMul
       (SValue (SParen (SBinary SAdd (SValue (amt 120 2 [])) (SValue (amt 267 2 [])))))
       (SValue (amt 31 1 s_USD)))
    (SValue (amt 5 0 s_USD))).
Example ex_complex_align : fmt_vexpr ex_complex =
  ([40; 40; 49; 46; 50; 48; 32; 43; 32; 50; 46; 54; 55; 41; 32; 42; 32; 51; 46; 49; 32] ++ s_USD ++
   [32; 43; 32; 53; 32] ++ s_USD ++ [41], Complete 20).
Proof. vm_compute. reflexivity. Qed.
Example ex_complex_has_comm : has_comm (toks_v ex_complex) = true.
Proof. vm_compute. reflexivity. Qed.
Example ex_plain_no_comm : has_comm (toks_v (SParen (SBinary SAdd (SValue (amt 1 0 [])) (SValue (amt 1 0 []))))) = false
  /\ fmt_vexpr (SParen (SBinary SAdd (SValue (amt 1 0 [])) (SValue (amt 1 0 [])))) = ([40; 49; 32; 43; 32; 49; 41], Partial 7).
Proof. split; vm_compute; reflexivity. Qed.
