"""Registry: one entry per claimed property."""

PROPS = {
    "C07": {
        "props": "Props/C07.v",
        "classify": "Run/Classify_C07.v",
        "explanation": "theorems about Model/Lit.v (transcription of PrettyDecimal::from_str and Display) against the declarative grammar Model/LitSpec.v; correspondence = exhaustive short strings + random long literals through the real from_str/to_string",
        "trusted": ["rust_decimal: Decimal::try_from_i128_with_scale limits (96-bit mantissa, scale <= 28), mantissa()/scale()/is_sign_negative() accessors"],
    },
}
