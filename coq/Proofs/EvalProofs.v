(* Lemmas for property C08, meaning: the evaluator model of Model/Amount.v (association
   lists, entry()/or_default, fold over the right operand) computes the denotation of
   Model/EvalSpec.v (functions commodity -> Q), errors included. *)
From Coq Require Import List NArith ZArith Bool QArith Qcanon Permutation Lia.
From Okv Require Import Base.Maps Base.Dec Model.Amount Model.EvalSpec.
Import ListNotations.
Open Scope Qc_scope.

(* ---------- numbers ---------- *)
Lemma qc_zero_true : forall x, qc_zero x = true <-> x = 0.
Proof.
  intros x. unfold qc_zero. split.
  - apply Qc_eq_bool_correct.
  - intros ->. unfold Qc_eq_bool. destruct (Qc_eq_dec 0 0); congruence.
Qed.

Lemma qc_zero_false : forall x, qc_zero x = false <-> x <> 0.
Proof.
  intros x. split.
  - intros H E. apply qc_zero_true in E. congruence.
  - intros H. destruct (qc_zero x) eqn:E; [apply qc_zero_true in E; contradiction | reflexivity].
Qed.

Lemma bool_eq_iff : forall a b : bool, (a = true <-> b = true) -> a = b.
Proof.
  intros a b [H1 H2]. destruct a, b; try reflexivity.
  - symmetry. apply H1. reflexivity.
  - apply H2. reflexivity.
Qed.

Lemma Qc_div_0_l : forall k, 0 / k = 0.
Proof. intros k. unfold Qcdiv. ring. Qed.

Lemma NoDup_app_intro : forall {A} (l1 l2 : list A),
  NoDup l1 -> NoDup l2 -> (forall x, In x l1 -> ~ In x l2) -> NoDup (l1 ++ l2).
Proof.
  intros A l1 l2 N1 N2 H. induction l1 as [|a r IH]; cbn [app]; [exact N2|].
  inversion N1 as [|? ? NI N1']; subst. constructor.
  - rewrite in_app_iff. intros [I|I]; [contradiction | apply (H a); [left; reflexivity | exact I]].
  - apply IH; [exact N1' | intros x I; apply H; right; exact I].
Qed.

(* ---------- association lists ---------- *)
Section Alist.
  Context {V : Type}.
  Implicit Types (m : amap V).

  Lemma get_none_iff : forall m k, get k m = None <-> ~ In k (keys m).
  Proof.
    induction m as [|[k' v] r IH]; intros k; cbn [get keys map fst].
    - split; auto.
    - destruct (N.eqb_spec k' k) as [-> | N].
      + split; [discriminate | intros H; exfalso; apply H; left; reflexivity].
      + rewrite IH. unfold keys. split; intros H.
        * intros [E|I]; [congruence | auto].
        * intros I. apply H. right. exact I.
  Qed.

  Lemma get_some_in : forall m k v, get k m = Some v -> In k (keys m).
  Proof.
    intros m k v H. destruct (in_dec N.eq_dec k (keys m)) as [I|N]; auto.
    apply get_none_iff in N. congruence.
  Qed.

  Lemma in_get : forall m k v, NoDup (keys m) -> In (k, v) m -> get k m = Some v.
  Proof.
    induction m as [|[k' v'] r IH]; intros k v ND I; [destruct I|].
    cbn [get]. unfold keys in ND. cbn [map fst] in ND. inversion ND as [|? ? NI ND']; subst.
    destruct I as [E|I].
    - inversion E; subst. rewrite N.eqb_refl. reflexivity.
    - destruct (N.eqb_spec k' k) as [-> | N].
      + exfalso. apply NI. change (In k (keys r)). apply (in_map fst) in I. exact I.
      + apply IH; assumption.
  Qed.

  Lemma get_in : forall m k v, get k m = Some v -> In (k, v) m.
  Proof.
    induction m as [|[k' v'] r IH]; intros k v H; cbn [get] in H; [discriminate|].
    destruct (N.eqb_spec k' k) as [-> | N].
    - inversion H; subst. left. reflexivity.
    - right. apply IH. exact H.
  Qed.

  Lemma get_app_new : forall m k v, get k m = None -> get k (m ++ [(k, v)]) = Some v.
  Proof.
    induction m as [|[k' v'] r IH]; intros k v H; cbn [get app] in *.
    - rewrite N.eqb_refl. reflexivity.
    - destruct (k' =? k)%N; [discriminate | apply IH; exact H].
  Qed.

  Lemma get_app_other : forall m k k' v, k' <> k -> get k' (m ++ [(k, v)]) = get k' m.
  Proof.
    induction m as [|[k0 v0] r IH]; intros k k' v N; cbn [get app].
    - destruct (N.eqb_spec k k'); [congruence | reflexivity].
    - destruct (k0 =? k')%N; [reflexivity | apply IH; exact N].
  Qed.

  Lemma get_set_same : forall m k v, get k (set k v m) = Some v.
  Proof.
    induction m as [|[k0 v0] r IH]; intros k v; cbn [get set].
    - rewrite N.eqb_refl. reflexivity.
    - destruct (N.eqb_spec k0 k) as [-> | N]; cbn [get].
      + rewrite N.eqb_refl. reflexivity.
      + destruct (N.eqb_spec k0 k); [congruence | apply IH].
  Qed.

  Lemma get_set_other : forall m k k' v, k' <> k -> get k' (set k v m) = get k' m.
  Proof.
    induction m as [|[k0 v0] r IH]; intros k k' v N; cbn [get set].
    - destruct (N.eqb_spec k k'); [congruence | reflexivity].
    - destruct (N.eqb_spec k0 k) as [-> | N0]; cbn [get].
      + destruct (N.eqb_spec k k'); [congruence | reflexivity].
      + destruct (k0 =? k')%N; [reflexivity | apply IH; exact N].
  Qed.

  Lemma keys_set_present : forall m k v x, get k m = Some x -> keys (set k v m) = keys m.
  Proof.
    induction m as [|[k0 v0] r IH]; intros k v x H; cbn [get set] in *; [discriminate|].
    destruct (N.eqb_spec k0 k) as [-> | N]; unfold keys; cbn [map fst].
    - reflexivity.
    - f_equal. apply (IH k v x H).
  Qed.

  Lemma keys_app : forall m m', keys (m ++ m') = keys m ++ keys m'.
  Proof. intros. unfold keys. apply map_app. Qed.
End Alist.

Lemma keys_map_val : forall (h : Qc -> Qc) (a : amount), keys (map (fun p => (fst p, h (snd p))) a) = keys a.
Proof. intros h a. unfold keys. rewrite map_map. apply map_ext. intros [c v]. reflexivity. Qed.

Lemma get_map_val : forall (h : Qc -> Qc) (a : amount) c,
  get c (map (fun p => (fst p, h (snd p))) a) = option_map h (get c a).
Proof.
  intros h a c. induction a as [|[k v] r IH]; cbn [map get fst snd option_map]; [reflexivity|].
  destruct (k =? c)%N; [reflexivity | exact IH].
Qed.

Lemma a_get_map_val : forall (h : Qc -> Qc) (a : amount) c, h 0 = 0 ->
  a_get (map (fun p => (fst p, h (snd p))) a) c = h (a_get a c).
Proof.
  intros h a c H0. unfold a_get. rewrite get_map_val. destruct (get c a); cbn [option_map]; congruence.
Qed.

(* ---------- a_add1: *entry(c).or_default() += v ---------- *)
Lemma a_get_add1 : forall a c v c',
  a_get (a_add1 a c v) c' = a_get a c' + (if (c' =? c)%N then v else 0).
Proof.
  intros a c v c'. unfold a_add1, a_get.
  destruct (get c a) as [x|] eqn:G.
  - destruct (N.eqb_spec c' c) as [-> | N].
    + rewrite get_set_same, G. reflexivity.
    + rewrite get_set_other by exact N. ring.
  - destruct (N.eqb_spec c' c) as [-> | N].
    + rewrite get_app_new by exact G. rewrite G. ring.
    + rewrite get_app_other by exact N. ring.
Qed.

Lemma keys_add1 : forall a c v,
  keys (a_add1 a c v) = if mem c a then keys a else keys a ++ [c].
Proof.
  intros a c v. unfold a_add1, mem. destruct (get c a) eqn:G.
  - eapply keys_set_present. exact G.
  - rewrite keys_app. reflexivity.
Qed.

Lemma in_keys_add1 : forall a c v c', In c' (keys (a_add1 a c v)) <-> In c' (keys a) \/ c' = c.
Proof.
  intros a c v c'. rewrite keys_add1. unfold mem. destruct (get c a) eqn:G.
  - split; [auto | intros [I | ->]; [exact I | eapply get_some_in; exact G]].
  - rewrite in_app_iff. cbn [In]. intuition.
Qed.

Lemma nodup_keys_add1 : forall a c v, NoDup (keys a) -> NoDup (keys (a_add1 a c v)).
Proof.
  intros a c v ND. rewrite keys_add1. unfold mem. destruct (get c a) eqn:G; [exact ND|].
  apply get_none_iff in G.
  apply NoDup_app_intro; [exact ND | constructor; [intros [] | constructor] | ].
  intros x I [E|[]]. subst. apply G. exact I.
Qed.

(* ---------- the fold of `+=` / `-=` over the right operand ---------- *)
Definition addf (g : Qc -> Qc) (a b : amount) : amount :=
  fold_left (fun acc p => a_add1 acc (fst p) (g (snd p))) b a.

Lemma a_add_addf : forall a b, a_add a b = addf (fun x => x) a b.
Proof. reflexivity. Qed.
Lemma a_sub_addf : forall a b, a_sub a b = addf Qcopp a b.
Proof. reflexivity. Qed.

Lemma a_get_addf : forall g b a c, NoDup (keys b) ->
  a_get (addf g a b) c = a_get a c + match get c b with Some v => g v | None => 0 end.
Proof.
  intros g. induction b as [|[k v] r IH]; intros a c ND; unfold addf; cbn [fold_left get fst snd].
  - ring.
  - unfold keys in ND. cbn [map fst] in ND. inversion ND as [|? ? NI ND']; subst.
    change (fold_left (fun acc p => a_add1 acc (fst p) (g (snd p))) r (a_add1 a k (g v)))
      with (addf g (a_add1 a k (g v)) r).
    rewrite IH by exact ND'. rewrite a_get_add1.
    destruct (N.eqb_spec c k) as [-> | N].
    + rewrite N.eqb_refl.
      assert (G : get k r = None) by (apply get_none_iff; exact NI). rewrite G. ring.
    + destruct (N.eqb_spec k c); [congruence|]. ring.
Qed.

Lemma in_keys_addf : forall g b a c, In c (keys (addf g a b)) <-> In c (keys a) \/ In c (keys b).
Proof.
  intros g. induction b as [|[k v] r IH]; intros a c; unfold addf; cbn [fold_left fst snd].
  - cbn. intuition.
  - change (In c (keys (addf g (a_add1 a k (g v)) r)) <-> In c (keys a) \/ In c (keys ((k, v) :: r))).
    rewrite IH, in_keys_add1. unfold keys. cbn [map fst In]. intuition.
Qed.

Lemma nodup_keys_addf : forall g b a, NoDup (keys a) -> NoDup (keys (addf g a b)).
Proof.
  intros g. induction b as [|[k v] r IH]; intros a ND; unfold addf; cbn [fold_left fst snd]; [exact ND|].
  apply (IH (a_add1 a k (g v))). apply nodup_keys_add1. exact ND.
Qed.

Lemma a_get_add : forall a b c, NoDup (keys b) -> a_get (a_add a b) c = a_get a c + a_get b c.
Proof. intros. rewrite a_add_addf, a_get_addf by assumption. unfold a_get. destruct (get c b); reflexivity. Qed.

Lemma a_get_sub : forall a b c, NoDup (keys b) -> a_get (a_sub a b) c = a_get a c - a_get b c.
Proof.
  intros. rewrite a_sub_addf, a_get_addf by assumption. unfold a_get at 3. destruct (get c b); ring.
Qed.

(* ---------- zero tests ---------- *)
Lemma a_is_zero_iff : forall a, NoDup (keys a) ->
  (a_is_zero a = true <-> forall c, In c (keys a) -> a_get a c = 0).
Proof.
  intros a ND. unfold a_is_zero. rewrite forallb_forall. split.
  - intros H c I. unfold a_get. destruct (get c a) as [v|] eqn:G; [|reflexivity].
    apply qc_zero_true. apply (H (c, v)). apply get_in. exact G.
  - intros H [c v] I. cbn [snd]. apply qc_zero_true.
    assert (G : get c a = Some v) by (apply in_get; assumption).
    specialize (H c (get_some_in _ _ _ G)). unfold a_get in H. rewrite G in H. exact H.
Qed.

(* ---------- sets of keys ---------- *)
Lemma d_mem_iff : forall c ks, d_mem c ks = true <-> In c ks.
Proof.
  intros c ks. unfold d_mem. rewrite existsb_exists. split.
  - intros [x [I E]]. apply N.eqb_eq in E. subst. exact I.
  - intros I. exists c. split; [exact I | apply N.eqb_refl].
Qed.

Lemma in_d_union : forall k1 k2 c, In c (d_union k1 k2) <-> In c k1 \/ In c k2.
Proof.
  intros k1 k2 c. unfold d_union. rewrite in_app_iff, filter_In. split.
  - intros [I|[I _]]; auto.
  - intros [I|I]; [left; exact I|].
    destruct (d_mem c k1) eqn:M; [left; apply d_mem_iff; exact M | right; split; [exact I | reflexivity]].
Qed.

Lemma nodup_d_union : forall k1 k2, NoDup k1 -> NoDup k2 -> NoDup (d_union k1 k2).
Proof.
  intros k1 k2 N1 N2. unfold d_union. apply NoDup_app_intro; [exact N1 | apply NoDup_filter; exact N2 |].
  intros x I1 I2. apply filter_In in I2. destruct I2 as [_ M].
  apply d_mem_iff in I1. rewrite I1 in M. discriminate.
Qed.

Lemma same_set_length : forall l1 l2 : list N,
  NoDup l1 -> NoDup l2 -> (forall x, In x l1 <-> In x l2) -> length l1 = length l2.
Proof. intros l1 l2 N1 N2 H. apply Permutation_length. apply NoDup_Permutation; assumption. Qed.

(* ---------- wf of denotations ---------- *)
Lemma wf_d_unit : forall c q, wf_dval (DCom [c] (d_unit c q)).
Proof.
  intros c q. split; [constructor; [intros [] | constructor]|].
  intros c' NI. unfold d_unit. destruct (N.eqb_spec c' c) as [-> | ]; [exfalso; apply NI; left; reflexivity | reflexivity].
Qed.

Lemma wf_d_neg : forall d, wf_dval d -> wf_dval (d_neg d).
Proof.
  intros d W. destruct d as [q|ks f]; [exact I|]. destruct W as [ND Z].
  split; [exact ND|]. intros c NI. rewrite (Z c NI). ring.
Qed.

Lemma wf_d_binop : forall op a b d, wf_dval a -> wf_dval b -> d_binop op a b = inl d -> wf_dval d.
Proof.
  intros op a b d Wa Wb H. destruct op; cbn [d_binop] in H.
  - (* + *)
    destruct a as [qa|ka fa], b as [qb|kb fb]; cbn [d_add] in H; try discriminate; inversion H; subst; [exact I|].
    destruct Wa as [Na Za], Wb as [Nb Zb]. split; [apply nodup_d_union; assumption|].
    intros c NI. rewrite in_d_union in NI. rewrite Za, Zb by tauto. ring.
  - (* - *)
    destruct a as [qa|ka fa], b as [qb|kb fb]; cbn [d_sub] in H; try discriminate; inversion H; subst; [exact I|].
    destruct Wa as [Na Za], Wb as [Nb Zb]. split; [apply nodup_d_union; assumption|].
    intros c NI. rewrite in_d_union in NI. rewrite Za, Zb by tauto. ring.
  - (* x *)
    destruct a as [qa|ka fa], b as [qb|kb fb]; cbn [d_mul] in H; try discriminate; inversion H; subst.
    + exact I.
    + destruct Wb as [ND Z]. split; [exact ND|]. intros c NI. rewrite (Z c NI). ring.
    + destruct Wa as [ND Z]. split; [exact ND|]. intros c NI. rewrite (Z c NI). ring.
  - (* / *)
    unfold d_div in H. destruct (d_is_zero b); [discriminate|].
    destruct a as [qa|ka fa], b as [qb|kb fb]; try discriminate.
    + inversion H; subst. exact I.
    + destruct kb as [|c [|c2 r]]; try discriminate. inversion H; subst. apply wf_d_unit.
    + inversion H; subst. destruct Wa as [ND Z]. split; [exact ND|].
      intros c NI. rewrite (Z c NI). apply Qc_div_0_l.
Qed.

Scheme vexpr_mind := Induction for vexpr Sort Prop
  with expr_mind := Induction for expr Sort Prop.
Combined Scheme vexpr_expr_ind from vexpr_mind, expr_mind.

Lemma den_wf :
  (forall v d, den_v v = inl d -> wf_dval d) /\ (forall e d, den_e e = inl d -> wf_dval d).
Proof.
  apply vexpr_expr_ind.
  - intros e IH d H. cbn in H. apply IH. exact H.
  - intros q [c|] d H; cbn in H; inversion H; subst; [apply wf_d_unit | exact I].
  - intros x IH d H. cbn in H. destruct (den_e x) as [dx|]; [|discriminate]. inversion H; subst.
    apply wf_d_neg. apply IH. reflexivity.
  - intros op l IHl r IHr d H. cbn in H.
    destruct (den_e l) as [a|]; [|discriminate]. destruct (den_e r) as [b|]; [|discriminate].
    eapply wf_d_binop; [apply IHl | apply IHr | exact H]; reflexivity.
  - intros v IH d H. cbn in H. apply IH. exact H.
Qed.

(* ---------- one operator at a time ---------- *)
Lemma denotes_single : forall c q, denotes (ECom (a_single c q)) (DCom [c] (d_unit c q)).
Proof.
  intros c q. cbn. split; [constructor; [intros [] | constructor]|]. split; [tauto|].
  intros c'. unfold a_get, a_single, d_unit. cbn [get]. rewrite N.eqb_sym. destruct (c' =? c)%N; reflexivity.
Qed.

Lemma denotes_negate : forall v d, denotes v d -> denotes (ev_negate v) (d_neg d).
Proof.
  intros [q|a] [q'|ks f]; cbn [denotes ev_negate d_neg]; try tauto.
  - intros ->. reflexivity.
  - intros [ND [S G]]. unfold a_neg. rewrite (keys_map_val Qcopp). split; [exact ND|]. split; [exact S|].
    intros c. rewrite (a_get_map_val Qcopp) by ring. rewrite G. reflexivity.
Qed.

Lemma denotes_add : forall a b da db, denotes a da -> denotes b db -> agrees (ev_add a b) (d_add da db).
Proof.
  intros [qa|a] [qb|b] [qa'|ka fa] [qb'|kb fb]; cbn [denotes ev_add d_add agrees]; try tauto.
  - intros -> ->. reflexivity.
  - intros [Na [Sa Ga]] [Nb [Sb Gb]]. rewrite a_add_addf.
    split; [apply nodup_keys_addf; exact Na|]. split.
    + intros c. rewrite in_keys_addf, in_d_union, Sa, Sb. tauto.
    + intros c. rewrite <- a_add_addf, a_get_add by exact Nb. rewrite Ga, Gb. reflexivity.
Qed.

Lemma denotes_sub : forall a b da db, denotes a da -> denotes b db -> agrees (ev_sub a b) (d_sub da db).
Proof.
  intros [qa|a] [qb|b] [qa'|ka fa] [qb'|kb fb]; cbn [denotes ev_sub d_sub agrees]; try tauto.
  - intros -> ->. reflexivity.
  - intros [Na [Sa Ga]] [Nb [Sb Gb]]. rewrite a_sub_addf.
    split; [apply nodup_keys_addf; exact Na|]. split.
    + intros c. rewrite in_keys_addf, in_d_union, Sa, Sb. tauto.
    + intros c. rewrite <- a_sub_addf, a_get_sub by exact Nb. rewrite Ga, Gb. reflexivity.
Qed.

Lemma denotes_scale : forall a ks f k, denotes (ECom a) (DCom ks f) ->
  denotes (ECom (a_scale a k)) (DCom ks (fun c => f c * k)).
Proof.
  intros a ks f k [ND [S G]]. cbn [denotes]. unfold a_scale. rewrite (keys_map_val (fun x => x * k)). split; [exact ND|]. split; [exact S|].
  intros c. rewrite (a_get_map_val (fun x => x * k)) by ring. rewrite G. reflexivity.
Qed.

Lemma denotes_mul : forall a b da db, denotes a da -> denotes b db -> agrees (ev_mul a b) (d_mul da db).
Proof.
  intros [qa|a] [qb|b] [qa'|ka fa] [qb'|kb fb]; cbn [denotes ev_mul d_mul agrees]; try tauto.
  - intros -> ->. reflexivity.
  - intros -> H. apply denotes_scale. exact H.
  - intros H ->. apply denotes_scale. exact H.
Qed.

Lemma is_zero_agrees : forall v d, denotes v d -> ev_is_zero v = d_is_zero d.
Proof.
  intros [q|a] [q'|ks f]; cbn [denotes ev_is_zero d_is_zero]; try tauto.
  - intros ->. reflexivity.
  - intros [ND [S G]]. apply bool_eq_iff. rewrite (a_is_zero_iff a ND), forallb_forall. split.
    + intros H c I. apply qc_zero_true. rewrite <- G. apply H. apply S. exact I.
    + intros H c I. rewrite G. apply qc_zero_true. apply H. apply S. exact I.
Qed.

Lemma singleton_set : forall (ks : list N) c, NoDup ks -> (forall x, In x ks <-> x = c) -> ks = [c].
Proof.
  intros ks c ND H. destruct ks as [|k [|k2 r]].
  - exfalso. apply (proj2 (H c) eq_refl).
  - f_equal. apply H. left. reflexivity.
  - exfalso. inversion ND as [|? ? NI _]; subst. apply NI.
    assert (k = c) by (apply H; left; reflexivity).
    assert (k2 = c) by (apply H; right; left; reflexivity). subst. left. reflexivity.
Qed.

Lemma denotes_div : forall a b da db, denotes a da -> denotes b db -> wf_dval db ->
  agrees (ev_div a b) (d_div da db).
Proof.
  intros a b da db Ha Hb Wb. unfold ev_div, d_div. rewrite (is_zero_agrees b db Hb).
  destruct (d_is_zero db) eqn:Z; [reflexivity|].
  destruct a as [qa|a], b as [qb|b], da as [qa'|ka fa], db as [qb'|kb fb]; cbn [denotes] in Ha, Hb; try tauto.
  - subst. reflexivity.
  - (* number / amount *)
    subst. destruct Hb as [ND [S G]]. destruct Wb as [NDk _].
    assert (L : length (keys b) = length kb) by (apply same_set_length; assumption).
    destruct b as [|[c v] [|p2 r]].
    + destruct kb; [|discriminate]. cbn in Z. discriminate.
    + destruct kb as [|c' [|c2 r']]; try discriminate.
      assert (E : c' = c) by (destruct (proj1 (S c) (or_introl eq_refl)) as [E|[]]; exact E). subst c'.
      cbn [amount_to_single].
      assert (V : fb c = v) by (rewrite <- G; unfold a_get; cbn [get]; rewrite N.eqb_refl; reflexivity).
      cbn [d_is_zero forallb] in Z. rewrite V, andb_true_r in Z. rewrite Z. rewrite V.
      apply denotes_single.
    + cbn [amount_to_single]. destruct p2. destruct kb as [|c1 [|c2 r']]; try discriminate; reflexivity.
  - (* amount / number *)
    subst. cbn [agrees denotes]. destruct Ha as [ND [S G]]. unfold a_div. rewrite (keys_map_val (fun x => x / qb')).
    split; [exact ND|]. split; [exact S|].
    intros c. rewrite (a_get_map_val (fun x => x / qb')) by apply Qc_div_0_l. rewrite G. reflexivity.
  - reflexivity.
Qed.

(* ---------- the evaluator computes the denotation ---------- *)
Lemma eval_denotes_both :
  (forall v, agrees (eval_v v) (den_v v)) /\ (forall e, agrees (eval_e e) (den_e e)).
Proof.
  apply vexpr_expr_ind.
  - intros e IH. exact IH.
  - intros q [c|]; cbn [eval_v den_v agrees]; [apply denotes_single | reflexivity].
  - intros x IH. cbn [eval_e den_e]. destruct (eval_e x) as [v|er], (den_e x) as [d|er']; cbn [agrees] in *; try tauto.
    apply denotes_negate. exact IH.
  - intros op l IHl r IHr. cbn [eval_e den_e].
    destruct (eval_e l) as [a|el] eqn:El, (den_e l) as [da|el'] eqn:Dl; cbn [agrees] in IHl; try tauto.
    destruct (eval_e r) as [b|er] eqn:Er, (den_e r) as [db|er'] eqn:Dr; cbn [agrees] in IHr; try tauto.
    destruct op; cbn [d_binop].
    + apply denotes_add; assumption.
    + apply denotes_sub; assumption.
    + apply denotes_mul; assumption.
    + apply denotes_div; try assumption. apply (proj2 den_wf r). exact Dr.
  - intros v IH. exact IH.
Qed.

Theorem eval_e_denotes : forall e, agrees (eval_e e) (den_e e).
Proof. exact (proj2 eval_denotes_both). Qed.
Theorem eval_v_denotes : forall v, agrees (eval_v v) (den_v v).
Proof. exact (proj1 eval_denotes_both). Qed.

(* the form asked for: whenever the evaluator answers v, v denotes den e, pointwise *)
Theorem eval_denotes_pointwise : forall e v, eval_e e = inl v ->
  exists d, den_e e = inl d /\ wf_dval d /\ denotes v d.
Proof.
  intros e v H. pose proof (eval_e_denotes e) as A. rewrite H in A.
  destruct (den_e e) as [d|] eqn:D; cbn [agrees] in A; [|contradiction].
  exists d. split; [reflexivity|]. split; [apply (proj2 den_wf e); exact D | exact A].
Qed.

Theorem eval_error_iff : forall e x, eval_e e = inr x <-> den_e e = inr x.
Proof.
  intros e x. pose proof (eval_e_denotes e) as A.
  destruct (eval_e e), (den_e e); cbn [agrees] in A; try contradiction; split; intros H; inversion H; subst; congruence.
Qed.

(* ---------- conversions ---------- *)
Definition amount_denotes (a : amount) (ks : list cid) (f : cid -> Qc) : Prop := denotes (ECom a) (DCom ks f).

Lemma to_amount_agrees : forall v d, denotes v d ->
  match ev_to_amount v, d_to_amount d with
  | inl a, inl (ks, f) => amount_denotes a ks f
  | inr e, inr e' => e = e'
  | _, _ => False
  end.
Proof.
  intros [q|a] [q'|ks f]; cbn [denotes ev_to_amount d_to_amount]; try tauto.
  - intros ->. destruct (qc_zero q'); [|reflexivity].
    unfold amount_denotes. cbn [denotes]. split; [constructor|]. split; [tauto | reflexivity].
  - intros H. exact H.
Qed.

Lemma to_pa_agrees : forall v d, denotes v d -> wf_dval d ->
  match ev_to_pa v, d_to_pa d with
  | inl PZero, inl None => True
  | inl (PSingle c x), inl (Some (c', x')) => c = c' /\ x = x'
  | inr e, inr e' => e = e'
  | _, _ => False
  end.
Proof.
  intros v d H W. unfold ev_to_pa, d_to_pa. pose proof (to_amount_agrees v d H) as A.
  destruct (ev_to_amount v) as [a|e], (d_to_amount d) as [[ks f]|e'] eqn:D; try contradiction; [|exact A].
  assert (NDk : NoDup ks).
  { destruct d as [q|ks' f']; cbn in D.
    - destruct (qc_zero q); inversion D; subst. constructor.
    - inversion D; subst. apply W. }
  destruct A as [ND [S G]].
  assert (L : length (keys a) = length ks) by (apply same_set_length; assumption).
  destruct a as [|[c v0] [|p2 r]]; cbn [amount_to_pa].
  - destruct ks; [exact I | discriminate].
  - destruct ks as [|c' [|c2 r']]; try discriminate.
    assert (E : c' = c) by (destruct (proj1 (S c) (or_introl eq_refl)) as [E|[]]; exact E). subst c'. split; [reflexivity|].
    rewrite <- G. unfold a_get. cbn [get]. rewrite N.eqb_refl. reflexivity.
  - destruct p2. destruct ks as [|c1 [|c2 r']]; try discriminate. reflexivity.
Qed.

Lemma to_single_agrees : forall v d, denotes v d -> wf_dval d ->
  match ev_to_single v, d_to_single d with
  | inl (c, x), inl (c', x') => c = c' /\ x = x'
  | inr e, inr e' => e = e'
  | _, _ => False
  end.
Proof.
  intros v d H W. unfold ev_to_single, d_to_single. pose proof (to_amount_agrees v d H) as A.
  destruct (ev_to_amount v) as [a|e], (d_to_amount d) as [[ks f]|e'] eqn:D; try contradiction; [|exact A].
  assert (NDk : NoDup ks).
  { destruct d as [q|ks' f']; cbn in D.
    - destruct (qc_zero q); inversion D; subst. constructor.
    - inversion D; subst. apply W. }
  destruct A as [ND [S G]].
  assert (L : length (keys a) = length ks) by (apply same_set_length; assumption).
  destruct a as [|[c v0] [|p2 r]]; cbn [amount_to_single].
  - destruct ks; [reflexivity | discriminate].
  - destruct ks as [|c' [|c2 r']]; try discriminate.
    assert (E : c' = c) by (destruct (proj1 (S c) (or_introl eq_refl)) as [E|[]]; exact E). subst c'. split; [reflexivity|].
    rewrite <- G. unfold a_get. cbn [get]. rewrite N.eqb_refl. reflexivity.
  - destruct p2. destruct ks as [|c1 [|c2 r']]; try discriminate. reflexivity.
Qed.
