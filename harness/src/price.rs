//! Shared by C09 and C10: ledgers that carry price information (costs, lot prices, implied
//! exchanges) plus a price-DB file, the process runner with `ProcessOptions{price_db_path}`,
//! and a small brute-force reading of the price graph used ONLY for the measured input
//! distribution (ties, hops); verdicts are computed in Coq.
use crate::coq;
use crate::ledger::*;
use crate::prng::Rng;
use okane_core::{load, report};
use rust_decimal::Decimal;
use serde::{Deserialize, Serialize};
use std::collections::{BTreeMap, BTreeSet, HashMap};
use std::path::{Path, PathBuf};

#[derive(Clone, Debug, PartialEq, Serialize, Deserialize)]
pub struct PLine {
    pub date: i32,
    pub target: usize,
    pub m: i64,
    pub scale: u32,
    pub comm: usize,
}

#[derive(Clone, Debug, PartialEq, Serialize, Deserialize)]
pub struct PriceCase {
    pub entries: Vec<Entry>,
    pub db: Vec<PLine>,
    pub comms: Vec<usize>,
    pub exact: bool,
}

/// (date, x commodity, x value, y commodity, y value, from price DB)
#[derive(Clone, Debug)]
pub struct Ev {
    pub date: i32,
    pub xc: usize,
    pub xv: Decimal,
    pub yc: usize,
    pub yv: Decimal,
    pub db: bool,
}

pub const EXACT_RATES: [(i64, u32); 18] = [
    (5, 1), (8, 1), (125, 2), (4, 0), (125, 3), (100, 0), (64, 4), (25, 1), (2, 0),
    (10, 0), (2, 1), (16, 1), (8, 0), (25, 2), (20, 0), (4, 2), (1, 0), (5, 0),
];
pub const ANY_RATES: [(i64, u32); 14] = [
    (3, 0), (7, 0), (11, 1), (1715, 1), (9464, 4), (15712, 2), (3, 1), (13, 0), (107, 2),
    (6, 0), (7, 1), (16824, 2), (120, 0), (9, 0),
];
pub const EXACT_QTY: [(i64, u32); 12] = [
    (1, 0), (2, 0), (4, 0), (5, 0), (10, 0), (5, 1), (8, 0), (20, 0), (25, 0), (25, 1), (50, 0), (16, 0),
];
pub const ANY_QTY: [(i64, u32); 8] = [(1, 0), (3, 0), (7, 0), (12, 0), (15, 1), (6, 0), (33, 1), (9, 0)];

fn lit(m: i64, scale: u32, c: usize) -> VE {
    VE::Amt(Lit { m, scale, comm: Some(c), grouped: false })
}

fn pick_rate(r: &mut Rng, exact: bool) -> (i64, u32) {
    if exact {
        *r.pick(&EXACT_RATES)
    } else if r.chance(1, 4) {
        *r.pick(&EXACT_RATES)
    } else {
        *r.pick(&ANY_RATES)
    }
}

fn pick_qty(r: &mut Rng, exact: bool) -> (i64, u32) {
    let (m, s) = if exact || r.chance(1, 3) { *r.pick(&EXACT_QTY) } else { *r.pick(&ANY_QTY) };
    if r.chance(1, 4) {
        (-m, s)
    } else {
        (m, s)
    }
}

pub const EQUITY: usize = 2;

/// `DATE=EFFECTIVE` in the header of a transaction: later than the date (the value date of a
/// card payment), earlier, or the same day; most transactions have none.  Rates stated or
/// implied by the transaction and the date its postings are converted at stay at DATE.
pub fn pick_effective(r: &mut Rng, date: i32, span: i64) -> Option<i32> {
    let far = span.max(2) as u64 + 2;
    match r.below(9) {
        0 | 1 => Some(date + 1 + r.below(far) as i32),
        2 => Some(date - 1 - r.below(far) as i32),
        3 => Some(if r.chance(1, 2) { date } else { date + 1 }),
        _ => None,
    }
}

/// `rich`: more holdings, format declarations and values that need rounding (C10)
pub fn gen_price_case(r: &mut Rng, exact: bool, rich: bool) -> PriceCase {
    let ncomm = 2 + r.below(4) as usize;
    let mut comms: Vec<usize> = (0..COMMODITIES.len()).collect();
    r.shuffle(&mut comms);
    comms.truncate(ncomm);
    comms.sort();
    let nprices = 1 + r.below(8) as usize;
    // graph shape: random pairs (cycles, parallel records) / a chain / a star / two islands
    let mut shape = r.below(7);
    if shape >= 5 && ncomm < 4 {
        shape = r.below(5);
    }
    // diamond: two two-step chains between comms[0] and comms[1] (via comms[2] and via
    // comms[3]), sometimes with a direct quote as well: the choice between them is made by
    // ledger hops, then hops, then staleness
    let nprices = if shape >= 5 { 4 + r.below(3) as usize } else { nprices };
    let mut pairs: Vec<(usize, usize)> = Vec::new();
    for k in 0..nprices {
        let (a, b) = match shape {
            5 | 6 => match k {
                0 => (comms[0], comms[2]),
                1 => (comms[2], comms[1]),
                2 => (comms[0], comms[3]),
                3 => (comms[3], comms[1]),
                4 => (comms[0], comms[1]),
                _ => (comms[2], comms[3]),
            },
            0 | 1 => {
                let a = *r.pick(&comms);
                let mut b = *r.pick(&comms);
                while b == a {
                    b = *r.pick(&comms);
                }
                (a, b)
            }
            2 => {
                let i = k % (ncomm - 1).max(1);
                (comms[i], comms[(i + 1) % ncomm])
            }
            3 => (comms[0], comms[1 + k % (ncomm - 1)]),
            _ => {
                // islands: {0,1} and {2,3..}; the last commodity often stays unpriced
                if ncomm >= 4 && k % 2 == 1 {
                    (comms[2], comms[3])
                } else {
                    (comms[0], comms[1])
                }
            }
        };
        pairs.push(if r.chance(1, 2) { (a, b) } else { (b, a) });
    }
    // dates: few distinct values so that same-day records and on-the-day queries happen
    let base = r.range(0, 300) as i32;
    let span = *r.pick(&[1i64, 3, 10, 40]);
    let mut entries: Vec<Entry> = Vec::new();
    let mut db: Vec<PLine> = Vec::new();
    if rich || r.chance(1, 4) {
        for c in &comms {
            if r.chance(1, 2) {
                entries.push(Entry::Format(*c, gen_dp(r), FmtLit::gen(r)));
            }
        }
    }
    let db_share = if shape >= 5 { *r.pick(&[100u64, 100, 0, 50, 75]) } else { *r.pick(&[0u64, 20, 40, 70, 100]) };
    for (x, y) in pairs {
        let date = base + r.range(0, span) as i32;
        let (rm, rs) = pick_rate(r, exact);
        if r.chance(db_share, 100) {
            // price DB line; now and then a zero or negative rate, or a self-mention
            let (m, target, comm) = match if shape >= 5 { 39 } else { r.below(40) } {
                0 => (0, x, y),
                1 => (-rm, x, y),
                2 => (rm, x, x),
                _ => (rm, x, y),
            };
            db.push(PLine { date, target, m, scale: rs, comm });
            continue;
        }
        let acct = *r.pick(&[0usize, 1, 3, 4, 5]);
        let other = if rich { *r.pick(&[0usize, 1, 2, 2, 3, 4, 5]) } else { EQUITY };
        let (qm, qs) = pick_qty(r, exact);
        let omitted = Posting { account: other, amount: None, cost: None, lot: None, balance: None };
        let mut p = Posting { account: acct, amount: Some(lit(qm, qs, x)), cost: None, lot: None, balance: None };
        let posts = match r.below(12) {
            0..=2 => {
                p.cost = Some(Exch::Rate(lit(rm, rs, y)));
                vec![p, omitted]
            }
            3..=4 => {
                p.cost = Some(Exch::Total(lit(rm, rs, y)));
                vec![p, omitted]
            }
            5..=6 => {
                p.lot = Some(Exch::Rate(lit(rm, rs, y)));
                vec![p, omitted]
            }
            7 => {
                p.lot = Some(Exch::Total(lit(rm, rs, y)));
                vec![p, omitted]
            }
            8 => {
                // both: the cost gives the price event, the lot price balances
                let (lm, ls) = pick_rate(r, exact);
                let others: Vec<usize> = comms.iter().copied().filter(|c| *c != x).collect();
                let lc = *r.pick(&others);
                p.lot = Some(Exch::Rate(lit(lm, ls, lc)));
                p.cost = Some(Exch::Rate(lit(rm, rs, y)));
                vec![p, omitted]
            }
            9 => {
                // a zero quantity still quotes a unit price; with a total price it is ignored
                p.amount = Some(lit(0, 0, x));
                p.cost = Some(if r.chance(2, 3) { Exch::Rate(lit(rm, rs, y)) } else { Exch::Total(lit(rm, rs, y)) });
                vec![p, omitted]
            }
            _ => {
                // implied exchange: two commodities of opposite sign and nothing else
                let (a2m, a2s) = pick_qty(r, exact);
                let a2m = if (qm < 0) == (a2m < 0) { -a2m } else { a2m };
                let q = Posting { account: other, amount: Some(lit(a2m, a2s, y)), cost: None, lot: None, balance: None };
                if r.chance(1, 2) {
                    vec![p, q]
                } else {
                    vec![q, p]
                }
            }
        };
        entries.push(Entry::Txn(Txn { effective: pick_effective(r, date, span), date, posts, head: Head::gen(r) }));
    }
    // plain holdings without a price, also in commodities no price mentions
    let nhold = if rich { 1 + r.below(4) } else { r.below(2) };
    for _ in 0..nhold {
        let c = *r.pick(&comms);
        let date = base + r.range(-2, span + 2) as i32;
        let (m, s) = if rich {
            *r.pick(&[(4i64, 1u32), (4, 1), (5, 1), (15, 1), (25, 1), (1234, 2), (100005, 2), (-3337, 3), (7, 0), (125, 3), (-45, 2)])
        } else {
            pick_qty(r, exact)
        };
        let acct = *r.pick(&[0usize, 1, 3, 4, 5]);
        let other = if rich { *r.pick(&[0usize, 1, 2, 2, 3]) } else { EQUITY };
        entries.push(Entry::Txn(Txn {
            effective: pick_effective(r, date.max(0), span),
            date: date.max(0),
            posts: vec![
                Posting { account: acct, amount: Some(lit(m, s, c)), cost: None, lot: None, balance: None },
                Posting { account: other, amount: None, cost: None, lot: None, balance: None },
            ],
            head: Head::gen(r),
        }));
    }
    // file order is not date order
    if r.chance(1, 2) {
        let nfmt = entries.iter().take_while(|e| matches!(e, Entry::Format(..))).count();
        r.shuffle(&mut entries[nfmt..]);
    }
    r.shuffle(&mut db);
    if rich && r.chance(1, 5) {
        let c = *r.pick(&comms);
        let at = r.below(entries.len() as u64 + 1) as usize;
        entries.insert(at, Entry::Format(c, gen_dp(r), FmtLit::gen(r)));
    }
    PriceCase { entries, db, comms, exact }
}

// ---------- text and Coq form of the price DB ----------

fn iso(d: i32) -> String {
    let base = chrono::NaiveDate::from_ymd_opt(2020, 1, 1).unwrap();
    (base + chrono::Duration::days(d as i64)).format("%Y-%m-%d").to_string()
}
pub fn iso_date(d: i32) -> String {
    iso(d)
}
pub fn from_iso(s: &str) -> Option<i32> {
    let base = chrono::NaiveDate::from_ymd_opt(2020, 1, 1).unwrap();
    chrono::NaiveDate::parse_from_str(s, "%Y-%m-%d").ok().map(|d| (d - base).num_days() as i32)
}
pub fn comm_of(name: &str) -> Option<usize> {
    COMMODITIES.iter().position(|x| *x == name)
}

pub fn db_text(db: &[PLine], r_style: u64) -> String {
    let mut s = String::new();
    for (k, l) in db.iter().enumerate() {
        let date = if (r_style + k as u64) % 2 == 0 { date_text(l.date) } else { iso(l.date) };
        s.push_str(&format!("P {} {} {} {}\n", date, COMMODITIES[l.target], num_text(l.m, l.scale, false), COMMODITIES[l.comm]));
        if (r_style + k as u64) % 5 == 0 {
            s.push('\n');
        }
    }
    s
}

pub fn db_term(db: &[PLine]) -> String {
    coq::list(db.iter().map(|l| format!("(PL {} {} (D {} {}) {})", coq::z(l.date as i128), l.target, coq::z(l.m as i128), l.scale, l.comm)))
}

// ---------- the events the ledger and the DB give rise to (for statistics only) ----------

fn ve_lit(v: &VE) -> Option<(Decimal, usize)> {
    match v {
        VE::Amt(l) => l.comm.map(|c| (l.dec(), c)),
        _ => None,
    }
}

pub fn events(case: &PriceCase) -> Vec<Ev> {
    let mut out = Vec::new();
    for e in &case.entries {
        if let Entry::Txn(t) = e {
            let mut priced = false;
            for p in &t.posts {
                let x = p.cost.as_ref().or(p.lot.as_ref());
                if let (Some(a), Some(x)) = (p.amount.as_ref().and_then(ve_lit), x) {
                    priced = true;
                    match x {
                        Exch::Rate(v) => {
                            if let Some((rv, rc)) = ve_lit(v) {
                                out.push(Ev { date: t.date, xc: a.1, xv: Decimal::ONE, yc: rc, yv: rv, db: false });
                            }
                        }
                        Exch::Total(v) => {
                            if let Some((tv, tc)) = ve_lit(v) {
                                out.push(Ev { date: t.date, xc: a.1, xv: a.0.abs(), yc: tc, yv: tv, db: false });
                            }
                        }
                    }
                }
            }
            if !priced && t.posts.len() == 2 {
                if let (Some(a), Some(b)) = (t.posts[0].amount.as_ref().and_then(ve_lit), t.posts[1].amount.as_ref().and_then(ve_lit)) {
                    if a.1 != b.1 {
                        out.push(Ev { date: t.date, xc: a.1, xv: a.0.abs(), yc: b.1, yv: b.0.abs(), db: false });
                    }
                }
            }
        }
    }
    for l in &case.db {
        out.push(Ev { date: l.date, xc: l.target, xv: Decimal::ONE, yc: l.comm, yv: Decimal::new(l.m, l.scale), db: true });
    }
    out
}

/// commodities the report context knows after loading: everything the ledger or the DB mentions
pub fn known_commodities(case: &PriceCase) -> Vec<usize> {
    let mut s: BTreeSet<usize> = BTreeSet::new();
    fn ve(v: &VE, s: &mut BTreeSet<usize>) {
        if let VE::Amt(l) = v {
            if let Some(c) = l.comm {
                s.insert(c);
            }
        }
    }
    for e in &case.entries {
        match e {
            Entry::Txn(t) => {
                for p in &t.posts {
                    if let Some(a) = &p.amount {
                        ve(a, &mut s);
                    }
                    for x in [&p.cost, &p.lot].into_iter().flatten() {
                        match x {
                            Exch::Rate(v) | Exch::Total(v) => ve(v, &mut s),
                        }
                    }
                }
            }
            Entry::Format(c, _, _) => {
                s.insert(*c);
            }
            Entry::Comment => {}
        }
    }
    for l in &case.db {
        s.insert(l.target);
        s.insert(l.comm);
    }
    s.into_iter().collect()
}

#[derive(Clone, Debug)]
pub struct GEdge {
    pub to: usize,
    pub ledger: bool,
    pub stale: i32,
    pub rate: Decimal,
}

/// out-edges per commodity as of `date`
pub fn graph(evs: &[Ev], date: i32) -> BTreeMap<usize, Vec<GEdge>> {
    let mut recs: BTreeMap<(usize, usize), (bool, Vec<(i32, Decimal)>)> = BTreeMap::new();
    for pass_db in [false, true] {
        for e in evs.iter().filter(|e| e.db == pass_db) {
            if e.xv.is_zero() || e.yv.is_zero() {
                continue;
            }
            for (w, o, rate) in [(e.yc, e.xc, e.yv / e.xv), (e.xc, e.yc, e.xv / e.yv)] {
                let ent = recs.entry((w, o)).or_insert((false, Vec::new()));
                if pass_db && !ent.0 {
                    ent.0 = true;
                    ent.1.clear();
                }
                ent.1.push((e.date, rate));
            }
        }
    }
    let mut g: BTreeMap<usize, Vec<GEdge>> = BTreeMap::new();
    for ((w, o), (isdb, rs)) in recs {
        let best = rs.iter().filter(|(d, _)| *d <= date).max_by(|a, b| a.0.cmp(&b.0).then(a.1.cmp(&b.1)));
        if let Some((d, rate)) = best {
            g.entry(w).or_default().push(GEdge { to: o, ledger: !isdb, stale: date - d, rate: *rate });
        }
    }
    g
}

/// (least distance, hops of one optimal chain, number of distinct optimal rates)
pub fn brute_best(g: &BTreeMap<usize, Vec<GEdge>>, target: usize, c: usize) -> Option<((u32, u32, i32), usize)> {
    fn go(
        g: &BTreeMap<usize, Vec<GEdge>>,
        at: usize,
        c: usize,
        seen: &mut Vec<usize>,
        d: (u32, u32, i32),
        rate: Decimal,
        out: &mut Vec<((u32, u32, i32), Decimal)>,
    ) {
        if at == c && d.1 > 0 {
            out.push((d, rate));
            return;
        }
        if let Some(es) = g.get(&at) {
            for e in es {
                if seen.contains(&e.to) {
                    continue;
                }
                seen.push(e.to);
                let nd = (d.0 + e.ledger as u32, d.1 + 1, d.2.max(e.stale));
                go(g, e.to, c, seen, nd, rate * e.rate, out);
                seen.pop();
            }
        }
    }
    let mut out = Vec::new();
    let mut seen = vec![target];
    go(g, target, c, &mut seen, (0, 0, 0), Decimal::ONE, &mut out);
    let best = out.iter().map(|x| x.0).min()?;
    let mut rates: Vec<Decimal> = out.iter().filter(|x| x.0 == best).map(|x| x.1.round_dp(15)).collect();
    rates.sort();
    rates.dedup();
    Some((best, rates.len()))
}

pub fn price_dates(evs: &[Ev]) -> BTreeSet<i32> {
    evs.iter().map(|e| e.date).collect()
}

pub fn directly_priced(evs: &[Ev], a: usize, b: usize) -> bool {
    evs.iter().any(|e| (e.xc == a && e.yc == b) || (e.xc == b && e.yc == a))
}

/// query dates before / on / between / after the price dates
pub fn query_dates(r: &mut Rng, evs: &[Ev], extra: &[i32], max: usize) -> Vec<i32> {
    let pd = price_dates(evs);
    let mut cand: BTreeSet<i32> = BTreeSet::new();
    for d in pd.iter().chain(extra.iter()) {
        cand.insert(*d);
        cand.insert(*d - 1);
        cand.insert(*d + 1);
    }
    if let (Some(lo), Some(hi)) = (pd.iter().next(), pd.iter().next_back()) {
        cand.insert(*lo - 5);
        cand.insert(*hi + 30);
        cand.insert((*lo + *hi) / 2);
    }
    let mut v: Vec<i32> = cand.into_iter().filter(|d| *d >= 0).collect();
    r.shuffle(&mut v);
    // always keep one date that is a price date when there is one
    let mut out: Vec<i32> = Vec::new();
    if let Some(d) = v.iter().find(|d| pd.contains(d)) {
        out.push(*d);
    }
    for d in v {
        if out.len() >= max {
            break;
        }
        if !out.contains(&d) {
            out.push(d);
        }
    }
    out.sort();
    out
}

// ---------- running the implementation ----------

pub fn obs_amount(a: &report::Amount) -> AmountObs {
    let mut m = AmountObs::new();
    for (c, v) in a.clone().into_values() {
        m.insert(COMMODITIES.iter().position(|x| *x == c.as_str()).unwrap_or(999), v);
    }
    m
}

/// `commodity rate 1 AAPL into USD at 2024-01-01 not found` -> commodity id of the amount
pub fn not_found_commodity(msg: &str) -> Option<usize> {
    let i = msg.find("commodity rate ")?;
    let rest = &msg[i + "commodity rate ".len()..];
    let j = rest.find(" into ")?;
    let amt = &rest[..j];
    let name = amt.rsplit(' ').next()?;
    if !rest.contains("not found") {
        return None;
    }
    COMMODITIES.iter().position(|x| *x == name)
}

/// process the ledger text (FakeFileSystem) with the price DB at `db` (real file) and hand
/// context and ledger to `f`.  Err = what process() said, or "panic".
pub fn with_ledger<R>(
    text: &str,
    db: Option<&Path>,
    f: impl for<'c> FnOnce(&report::ReportContext<'c>, &mut report::query::Ledger<'c>) -> R,
) -> Result<R, String> {
    let res = std::panic::catch_unwind(std::panic::AssertUnwindSafe(|| {
        let arena = bumpalo::Bump::new();
        let mut ctx = report::ReportContext::new(&arena);
        let mut map: HashMap<PathBuf, Vec<u8>> = HashMap::new();
        map.insert(PathBuf::from("/main.ledger"), text.as_bytes().to_vec());
        let loader = load::Loader::new(PathBuf::from("/main.ledger"), load::FakeFileSystem::from(map))
            .with_error_renderer(annotate_snippets::Renderer::plain());
        // a struct-update literal: a field added to ProcessOptions must not stop the harness from building
        let opts = report::ProcessOptions { price_db_path: db.map(|p| p.to_path_buf()), ..Default::default() };
        let out = match report::process(&mut ctx, loader, &opts) {
            Ok(mut ledger) => Ok(f(&ctx, &mut ledger)),
            Err(e) => Err(format!("{:?}", e).chars().take(300).collect::<String>()),
        };
        out
    }));
    match res {
        Ok(r) => r,
        Err(_) => Err("panic".to_string()),
    }
}

/// what a conversion answered
#[derive(Clone, Debug, PartialEq)]
pub enum RObs {
    Ok(AmountObs),
    NotFound(usize),
    Other(String),
}

/// a run with `-X T`, T unknown to ledger and price DB
#[derive(Clone, Debug, PartialEq)]
pub enum UObs {
    NotFound,
    Report,
    Other(String),
}

pub struct URun {
    pub kind: &'static str,
    pub args: Vec<String>,
    pub obs: UObs,
}

/// names that no generated ledger or price DB mentions
pub const NEVER_MENTIONED: [&str; 6] = ["ZZZ", "XAU", "GBP", "BTC", "US", "USDX"];

/// a target name unknown to this case: never mentioned anywhere, or a known commodity in
/// another case of letters (names are case-sensitive)
pub fn unknown_target(r: &mut Rng, known: &[usize]) -> (&'static str, String) {
    if known.is_empty() || r.chance(1, 2) {
        ("never_mentioned", r.pick(&NEVER_MENTIONED).to_string())
    } else {
        let name = COMMODITIES[*r.pick(known)];
        let v = match r.below(3) {
            0 => name.to_lowercase(),
            1 => {
                let mut c = name.chars();
                let f = c.next().unwrap();
                format!("{}{}", f, c.as_str().to_lowercase())
            }
            _ => {
                let mut c = name.chars();
                let f = c.next().unwrap();
                format!("{}{}", f.to_lowercase(), c.as_str())
            }
        };
        ("known_name_in_other_case", v)
    }
}

/// run the command; `name` is the unknown target it was given
pub fn run_unknown(kind: &'static str, args: Vec<String>, name: &str) -> URun {
    let refs: Vec<&str> = args.iter().map(|s| s.as_str()).collect();
    let r = crate::cli::run(&refs);
    let obs = if r.panicked {
        UObs::Other("panic".into())
    } else if r.ok {
        UObs::Report
    } else if r.stderr.contains(&format!("commodity {} not found", name)) {
        UObs::NotFound
    } else {
        UObs::Other(r.stderr.chars().take(200).collect())
    };
    let shown = args.iter().map(|a| if a.contains("/scratch/") { format!("<{}>", a.rsplit('/').next().unwrap_or("")) } else { a.clone() }).collect();
    URun { kind, args: shown, obs }
}

pub fn uobs_term(u: &UObs) -> &'static str {
    match u {
        UObs::NotFound => "UNotFound",
        UObs::Report => "UReport",
        UObs::Other(_) => "UOther",
    }
}

pub fn urun_json(u: &URun) -> serde_json::Value {
    serde_json::json!({"unknown_target": u.kind, "args": u.args.join(" "), "result": format!("{:?}", u.obs)})
}

pub fn robs_term(o: &RObs) -> String {
    match o {
        RObs::Ok(a) => format!("(ROk {})", amount_term(a)),
        RObs::NotFound(c) => format!("(RNotFound {})", c),
        RObs::Other(_) => "ROther".into(),
    }
}

pub fn robs_json(o: &RObs) -> serde_json::Value {
    match o {
        RObs::Ok(a) => serde_json::json!(a.iter().map(|(c, v)| format!("{} {}", v, COMMODITIES.get(*c).unwrap_or(&"?"))).collect::<Vec<_>>().join(" + ")),
        RObs::NotFound(c) => serde_json::json!(format!("RateNotFound({})", COMMODITIES.get(*c).unwrap_or(&"?"))),
        RObs::Other(s) => serde_json::json!(format!("other: {}", s)),
    }
}

pub fn classify_err(msg: &str) -> RObs {
    match not_found_commodity(msg) {
        Some(c) => RObs::NotFound(c),
        None => RObs::Other(msg.chars().take(200).collect()),
    }
}

/// corpus / replay files carry the whole case under "case"
pub fn corpus_cases(dir: &Path, extra: &[String]) -> (Vec<(PriceCase, serde_json::Value)>, bool) {
    let mut out = Vec::new();
    let mut files: Vec<PathBuf> = Vec::new();
    let mut replay = false;
    if let Some(i) = extra.iter().position(|a| a == "--replay") {
        replay = true;
        if let Some(p) = extra.get(i + 1) {
            files.push(PathBuf::from(p));
        }
    } else if let Ok(rd) = std::fs::read_dir(dir) {
        files = rd.filter_map(|e| e.ok()).map(|e| e.path()).collect();
        files.sort();
    }
    for p in files {
        if let Ok(text) = std::fs::read_to_string(&p) {
            if let Ok(v) = serde_json::from_str::<serde_json::Value>(&text) {
                if let Some(c) = v.get("case") {
                    if let Ok(pc) = serde_json::from_value::<PriceCase>(c.clone()) {
                        out.push((pc, v.get("queries").cloned().unwrap_or(serde_json::Value::Null)));
                    }
                }
            }
        }
    }
    (out, replay)
}
