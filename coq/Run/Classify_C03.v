(* C03 classifier.  0 Agree | 1 ModelMismatch | 2 PropertyFail | 100 Known C03-K1.
   On an accepted ledger the inferred amounts the IMPLEMENTATION stored are re-derived:
   omitted = -(sum of the other postings' balancing values); assigned = X - balance before,
   leaving the account at X; nothing else moves. *)
From Coq Require Import List NArith ZArith Bool QArith Qcanon.
From Okv Require Import Base.Maps Base.Dec Model.Amount Model.Book Run.LedgerCase Run.Classify_C02.
Import ListNotations.

Record case := { c_entries : list entry; c_obs : lobs; c_diag : gdiag }.
Definition C (es : list entry) (o : lobs) : case := {| c_entries := es; c_obs := o; c_diag := GNone |}.
(* with the rendered error read back (Run/LedgerCase.v gdiag) *)
Definition CG (es : list entry) (o : lobs) (d : gdiag) : case := {| c_entries := es; c_obs := o; c_diag := d |}.

(* balancing value of an explicit-amount posting, from its syntax alone *)
Definition syntax_bv (p : posting) : option posting_amount :=
  match p_amount p with
  | None => None
  | Some sa =>
      match eval_pa sa with
      | Ok amt =>
          let cost := match p_cost p with Some x => match xchg_from_syntax amt x with Ok r => Some r | _ => None end | None => None end in
          let lot := match p_lot p with Some x => match xchg_from_syntax amt x with Ok r => Some r | _ => None end | None => None end in
          match balance_amount {| c_amount := amt; c_cost := cost; c_lot := lot |} with
          | Ok d => Some d
          | _ => None
          end
      | _ => None
      end
  end.

(* sum of balancing values of all postings except the omitted ones; assigned postings count with what was stored *)
Fixpoint others_sum (ps : list posting) (os : list oposting) (acc : amount) : option amount :=
  match ps, os with
  | [], [] => Some acc
  | p :: pr, o :: or_ =>
      match p_amount p, p_balance p with
      | None, None => others_sum pr or_ acc
      | None, Some _ => others_sum pr or_ (a_add acc (o_amount o))
      | Some _, _ => match syntax_bv p with
                     | Some d => others_sum pr or_ (a_add_pa acc d)
                     | None => None
                     end
      end
  | _, _ => None
  end.

Definition nz (a : amount) : amount := a_remove_zeros a.

(* per transaction: check omitted and assigned postings; returns (running', ok, known) *)
Fixpoint walk3 (all : list posting) (expected_omitted : option amount) (i : nat)
         (ps : list posting) (os : list oposting) (b : balance) (ok known : bool) : balance * bool * bool :=
  match ps, os with
  | p :: pr, o :: or_ =>
      let a := p_account p in
      let before := bal_get b a in
      let b' := run_add b a (o_amount o) in
      match p_amount p, p_balance p with
      | None, None =>
          let good := match expected_omitted with
                      | Some e => amount_eqb (nz (o_amount o)) (nz (a_neg e)) && (o_account o =? a)%N
                      | None => false
                      end in
          walk3 all expected_omitted (S i) pr or_ b' (ok && good) known
      | None, Some bexpr =>
          match (match eval_v bexpr with inl v => ev_to_pa v | inr e => inr e end) with
          | inl PZero =>
              (* stored = -(whole single-commodity balance); account left empty *)
              let good := amount_eqb (nz (o_amount o)) (nz (a_neg before)) && a_is_zero (bal_get b' a)
                          && (length (nz before) <=? 1)%nat in
              if good then walk3 all expected_omitted (S i) pr or_ b' ok known
              else if omitted_before a i all then walk3 all expected_omitted (S i) pr or_ b' ok true
              else walk3 all expected_omitted (S i) pr or_ b' false known
          | inl (PSingle c v) =>
              let good := amount_eqb (nz (o_amount o)) (nz (a_single c (v - a_get before c)%Qc))
                          && qc_eqb (a_get (bal_get b' a) c) v in
              if good then walk3 all expected_omitted (S i) pr or_ b' ok known
              else if omitted_before a i all then walk3 all expected_omitted (S i) pr or_ b' ok true
              else walk3 all expected_omitted (S i) pr or_ b' false known
          | inr _ => walk3 all expected_omitted (S i) pr or_ b' false known
          end
      | Some _, _ =>
          (* explicit amounts are stored as written: inference never alters another posting *)
          let good := match eval_pa match p_amount p with Some sa => sa | None => VAmt 0%Qc None end with
                      | Ok amt => amount_eqb (o_amount o) (pa_to_amount amt)
                      | _ => false
                      end in
          walk3 all expected_omitted (S i) pr or_ b' (ok && good) known
      end
  | [], [] => (b, ok, known)
  | _, _ => (b, false, known)
  end.

Fixpoint walk3_txns (ts : list txn) (os : list (Z * list oposting)) (b : balance) (ok known : bool) : balance * bool * bool :=
  match ts, os with
  | t :: tr, o :: or_ =>
      let '(b', ok', known') := walk3 (t_posts t) (others_sum (t_posts t) (snd o) []) 0 (t_posts t) (snd o) b ok known in
      walk3_txns tr or_ b' ok' known'
  | [], [] => (b, ok, known)
  | _, _ => (b, false, known)
  end.

(* final balances are exactly the sums of what was stored: inference touched no other account *)
Definition frame_ok (b : balance) (final : list (N * amount)) : bool :=
  forallb (fun p => amount_eqb (nz (bal_get b (fst p))) (nz (snd p))) final
  && forallb (fun p => a_is_zero (snd p) || mem (fst p) final) b.

Definition inference_error (e : bk_err) : bool :=
  match e with UndeduciblePostingAmount _ _ | BalanceFailure => true | _ => false end.
Definition obs_inference_error (x : xerr) : bool :=
  match x with XUndeducible _ _ | XBalanceFailure => true | _ => false end.

Definition classify (c : case) : N :=
  let m := process (c_entries c) in
  let agree := obs_agrees (c_obs c) m in
  match c_obs c with
  | LPanic => 2%N
  | LOk ts final =>
      let '(b, ok, known) := walk3_txns (txns_of (c_entries c)) ts [] true false in
      if negb (ok && frame_ok b final) then 2%N
      else if known then 100%N
      else if agree then 0%N
      else match m with
           | (Err e, _) => if inference_error e then 2%N else 1%N   (* accepted what must be rejected *)
           | _ => 1%N
           end
  | LErr k x =>
      if agree then
        (* rejected as the model rejects it: the printed error must name that transaction *)
        match m with
        | (Err e, k') => if gdiag_names (c_diag c) k' e then 0%N
                         else if gdiag_unreadable (c_diag c) then 9%N else 2%N
        | _ => 0%N
        end
      else match m with
           | (Err e, k') => if Bool.eqb (obs_inference_error x) (inference_error e) && (Nat.eqb k k' || negb (inference_error e)) then 1%N else 2%N
           | (Ok _, _) => if obs_inference_error x then 2%N else 1%N
           | _ => 1%N
           end
  end.

Definition verdicts (cs : list case) : list N := map classify cs.
