(* C14 — diagnostics name the right file and line (parser side: spans and line numbers).
   Offsets are byte offsets into the UTF-8 text; utf8_len is the byte length of a list of
   Unicode scalar values; count_lf counts U+000A characters, count_nl counts bytes 10. *)
From Coq Require Import List NArith.
From Okv Require Import Model.Comb Model.ParseLedger Proofs.ParseLines.
Import ListNotations.
Open Scope N_scope.

(* counting line feeds on bytes (what compute_line_number does) is counting them on
   characters: a byte 10 never occurs inside a multi-byte UTF-8 sequence *)
Theorem C14_lf_bytes : forall s, count_nl (utf8_encode s) = count_lf s.
Proof. exact count_nl_encode. Qed.
Print Assumptions C14_lf_bytes.

(* every entry the iterator yields (before the end or before the first error) spans exactly a
   slice [mid] of the text, and its line_start is 1 + the number of line feeds in what
   precedes it, whatever that is: blank lines, CRLF, multi-byte text, other entries *)
Theorem C14_line_start : forall s e, In e (result_entries (parse_ledger s)) ->
  exists pre mid post, s = pre ++ mid ++ post /\
    e_span e = (utf8_len pre, utf8_len pre + utf8_len mid) /\
    e_line_start e = 1 + count_lf pre.
Proof. exact line_start_of_entry. Qed.
Print Assumptions C14_line_start.

(* every tracked span (posting, account, amount, cost, lot price, balance) lies inside the
   span of its entry, and ParsedSpan::resolve (clip) rebases it without underflow *)
Theorem C14_spans_inside : forall s e p t,
  In e (result_entries (parse_ledger s)) -> In p (e_spans e) -> In t (spans_of p) ->
  aspan_in (e_span e) t /\
  clip (e_span e) t = Some (fst t - fst (e_span e), snd t - fst (e_span e)).
Proof. exact spans_inside_entry. Qed.
Print Assumptions C14_spans_inside.

(* a syntax error: the snippet is the text from a checkpoint [pre ++ .] of the original text,
   line_start is the line of that checkpoint, the error span lies inside the snippet, and the
   line a renderer shows for the error offset (line_start + line feeds before it in the
   snippet) is the line of that offset in the original text *)
Theorem C14_parse_error_lines : forall s es e, parse_ledger s = LErr es e ->
  exists pre rest, s = pre ++ rest /\
    pe_text_start e = utf8_len pre /\
    pe_line_start e = 1 + count_lf pre /\
    fst (pe_span e) <= snd (pe_span e) /\ snd (pe_span e) <= utf8_len rest /\
    pe_line_start e + count_nl (firstn (N.to_nat (fst (pe_span e))) (utf8_encode rest)) =
    1 + count_nl (firstn (N.to_nat (pe_text_start e + fst (pe_span e))) (utf8_encode s)).
Proof. exact parse_error_lines. Qed.
Print Assumptions C14_parse_error_lines.
