(* C05 round trip: trees that are the same up to the unobservable number-format flag print the
   same text (and alignment), and every same_X relation is an equivalence. *)
From Coq Require Import List NArith ZArith Bool Arith.
From Okv Require Import Model.Lit Model.Syntax Model.Display Model.RoundTripSpec Proofs.RoundTripNum.
Import ListNotations.
Open Scope N_scope.

(* ---- induction over the mutual value-expression / expression trees ---- *)
Scheme s_vexpr_mind := Induction for s_vexpr Sort Prop
  with s_expr_mind := Induction for s_expr Sort Prop.
Combined Scheme s_vexpr_expr_mind from s_vexpr_mind, s_expr_mind.

(* ---- generic helpers ---- *)
Lemma Forall2_flat_map_ext : forall {A B} (R : A -> A -> Prop) (f : A -> list B) l l',
  (forall x y, R x y -> f y = f x) -> Forall2 R l l' -> flat_map f l' = flat_map f l.
Proof.
  intros A B R f l l' Hf H. induction H as [| x y l l' Hxy _ IH]; [reflexivity |].
  cbn [flat_map]. rewrite (Hf x y Hxy), IH. reflexivity.
Qed.

Lemma Forall2_refl_gen : forall {A} (R : A -> A -> Prop), (forall x, R x x) -> forall l, Forall2 R l l.
Proof. intros A R HR l. induction l; constructor; auto. Qed.

Lemma Forall2_sym_gen : forall {A} (R : A -> A -> Prop), (forall x y, R x y -> R y x) ->
  forall l l', Forall2 R l l' -> Forall2 R l' l.
Proof. intros A R HR l l' H. induction H; constructor; auto. Qed.

Lemma Forall2_trans_gen : forall {A} (R : A -> A -> Prop), (forall x y z, R x y -> R y z -> R x z) ->
  forall l l' l'', Forall2 R l l' -> Forall2 R l' l'' -> Forall2 R l l''.
Proof.
  intros A R HR l l' l'' H. revert l''. induction H as [| x y l l' Hxy _ IH]; intros l'' H2.
  - inversion H2; subst. constructor.
  - inversion H2 as [| y' z l1 l2 Hyz Hr]; subst. constructor; [eapply HR; eauto | apply IH; exact Hr].
Qed.

Lemma same_opt_refl : forall {A} (R : A -> A -> Prop), (forall x, R x x) -> forall o, same_opt R o o.
Proof. intros A R HR [x |]; simpl; auto. Qed.

Lemma same_opt_sym : forall {A} (R : A -> A -> Prop), (forall x y, R x y -> R y x) ->
  forall o o', same_opt R o o' -> same_opt R o' o.
Proof. intros A R HR [x |] [y |]; simpl; auto. Qed.

Lemma same_opt_trans : forall {A} (R : A -> A -> Prop), (forall x y z, R x y -> R y z -> R x z) ->
  forall o o' o'', same_opt R o o' -> same_opt R o' o'' -> same_opt R o o''.
Proof. intros A R HR [x |] [y |] [z |]; simpl; try tauto. apply HR. Qed.

(* ================= part 1: the same trees print the same ================= *)

Theorem same_amount_fmt : forall a a', same_amount a a' -> fmt_amount a' = fmt_amount a.
Proof.
  intros a a' [Hn Hc]. unfold fmt_amount, rescale. rewrite Hc, (same_num_show _ _ Hn). reflexivity.
Qed.

Lemma same_ve_fmt :
  (forall v v', same_v v v' -> fmt_vexpr v' = fmt_vexpr v) /\
  (forall e e', same_e e e' -> fmt_expr e' = fmt_expr e).
Proof.
  apply s_vexpr_expr_mind.
  - intros e IH v' H. destruct v' as [e' | a']; simpl in H; [| contradiction].
    simpl. rewrite (IH e' H). reflexivity.
  - intros a v' H. destruct v' as [e' | a']; simpl in H; [contradiction |].
    simpl. apply same_amount_fmt. exact H.
  - intros e IH e' H. destruct e' as [e1 | op' l' r' | v']; simpl in H; try contradiction.
    simpl. rewrite (IH e1 H). reflexivity.
  - intros op l IHl r IHr e' H. destruct e' as [e1 | op' l' r' | v']; simpl in H; try contradiction.
    destruct H as (Hop & Hl & Hr). subst op'.
    simpl. rewrite (IHl l' Hl), (IHr r' Hr). reflexivity.
  - intros v IH e' H. destruct e' as [e1 | op' l' r' | v']; simpl in H; try contradiction.
    simpl. apply IH. exact H.
Qed.

Theorem same_v_fmt : forall v v', same_v v v' -> fmt_vexpr v' = fmt_vexpr v.
Proof. exact (proj1 same_ve_fmt). Qed.

Theorem same_e_fmt : forall e e', same_e e e' -> fmt_expr e' = fmt_expr e.
Proof. exact (proj2 same_ve_fmt). Qed.

Corollary same_v_show : forall v v', same_v v v' -> show_vexpr v' = show_vexpr v.
Proof. intros v v' H. unfold show_vexpr. rewrite (same_v_fmt v v' H). reflexivity. Qed.

Corollary same_v_align : forall v v', same_v v v' -> align_vexpr v' = align_vexpr v.
Proof. intros v v' H. unfold align_vexpr. rewrite (same_v_fmt v v' H). reflexivity. Qed.

Lemma same_lot_print : forall l l', same_lot l l' -> print_lot l' = print_lot l.
Proof.
  intros [p d n] [p' d' n'] (Hp & Hd & Hn). cbn [lot_price lot_date lot_note] in *. subst d' n'.
  unfold print_lot. cbn [lot_price lot_date lot_note]. f_equal.
  destruct p as [[v | v] |], p' as [[v' | v'] |]; simpl in Hp; try contradiction; try reflexivity;
    rewrite (same_v_show v v' Hp); reflexivity.
Qed.

Lemma same_cost_print : forall c c', same_opt same_exchange c c' -> print_cost c' = print_cost c.
Proof.
  intros c c' H. unfold print_cost.
  destruct c as [[v | v] |], c' as [[v' | v'] |]; simpl in H; try contradiction; try reflexivity;
    rewrite (same_v_show v v' H); reflexivity.
Qed.

Lemma same_posting_amount_print : forall aw pa pa', same_posting_amount pa pa' ->
  print_posting_amount aw pa' = print_posting_amount aw pa.
Proof.
  intros aw pa pa' (Ha & Hc & Hl). unfold print_posting_amount.
  rewrite (same_v_fmt _ _ Ha), (same_lot_print _ _ Hl), (same_cost_print _ _ Hc). reflexivity.
Qed.

Section WithWidth.
Variable width : str -> nat.

Lemma same_posting_account_width : forall p p', same_posting p p' ->
  account_width width p' = account_width width p.
Proof. intros p p' (Ha & Hc & _). unfold account_width. rewrite Ha, Hc. reflexivity. Qed.

Lemma same_v_balance_trailing : forall b b', same_v b b' ->
  balance_trailing width b' = balance_trailing width b.
Proof.
  intros b b' H. unfold balance_trailing. rewrite (same_v_show _ _ H), (same_v_align _ _ H). reflexivity.
Qed.

Lemma same_v_balance_underflow : forall b b', same_v b b' ->
  balance_underflow width b' = balance_underflow width b.
Proof.
  intros b b' H. unfold balance_underflow. rewrite (same_v_show _ _ H), (same_v_align _ _ H). reflexivity.
Qed.

Lemma same_balance_padding : forall p p' b b', same_posting p p' -> same_v b b' ->
  balance_padding width p' b' = balance_padding width p b.
Proof.
  intros p p' b b' Hp Hb. unfold balance_padding.
  rewrite (same_posting_account_width _ _ Hp), (same_v_balance_trailing _ _ Hb).
  destruct Hp as (_ & _ & Ham & _).
  destruct (sp_amount p), (sp_amount p'); simpl in Ham; try contradiction; reflexivity.
Qed.

Lemma same_posting_balance_print : forall p p' b b', same_posting p p' -> same_v b b' ->
  print_posting_balance width p' b' = print_posting_balance width p b.
Proof.
  intros p p' b b' Hp Hb. unfold print_posting_balance.
  rewrite (same_balance_padding _ _ _ _ Hp Hb), (same_v_show _ _ Hb). reflexivity.
Qed.

Lemma same_posting_line : forall p p', same_posting p p' ->
  posting_line width p' = posting_line width p.
Proof.
  intros p p' Hp. unfold posting_line.
  rewrite (same_posting_account_width _ _ Hp).
  pose proof (fun b b' => same_posting_balance_print p p' b b' Hp) as HB.
  destruct Hp as (Ha & Hc & Ham & Hb & _). rewrite Ha, Hc.
  f_equal. f_equal. f_equal. f_equal.
  - destruct (sp_amount p) as [pa |], (sp_amount p') as [pa' |]; simpl in Ham; try contradiction;
      [apply same_posting_amount_print; exact Ham | reflexivity].
  - destruct (sp_balance p) as [b |], (sp_balance p') as [b' |]; simpl in Hb; try contradiction;
      [apply HB; exact Hb | reflexivity].
Qed.

Lemma same_posting_print : forall p p', same_posting p p' ->
  print_posting width p' = print_posting width p.
Proof.
  intros p p' Hp. unfold print_posting. rewrite (same_posting_line _ _ Hp).
  destruct Hp as (_ & _ & _ & _ & Hm). rewrite Hm. reflexivity.
Qed.

Lemma same_posting_hazard : forall p p', same_posting p p' ->
  posting_hazard width p' = posting_hazard width p.
Proof.
  intros p p' (_ & _ & _ & Hb & _). unfold posting_hazard.
  destruct (sp_balance p) as [b |], (sp_balance p') as [b' |]; simpl in Hb; try contradiction;
    [apply same_v_balance_underflow; exact Hb | reflexivity].
Qed.

Lemma same_txn_header : forall t t', same_txn t t' -> txn_header t' = txn_header t.
Proof.
  intros t t' (Hd & He & Hc & Hk & Hp & _ & _). unfold txn_header.
  rewrite Hd, He, Hc, Hk, Hp. reflexivity.
Qed.

Lemma same_txn_print : forall t t', same_txn t t' -> print_txn width t' = print_txn width t.
Proof.
  intros t t' H. unfold print_txn. rewrite (same_txn_header _ _ H).
  destruct H as (_ & _ & _ & _ & _ & Hps & Hm). rewrite Hm.
  rewrite (Forall2_flat_map_ext same_posting (print_posting width) _ _ same_posting_print Hps).
  reflexivity.
Qed.

End WithWidth.

Lemma same_commodity_detail_print : forall d d', same_commodity_detail d d' ->
  print_commodity_detail d' = print_commodity_detail d.
Proof.
  intros d d' H. destruct d as [s | s | s | a]; simpl in H; try (subst d'; reflexivity).
  destruct d' as [s' | s' | s' | a']; try (inversion H; reflexivity).
  simpl. rewrite (same_amount_fmt _ _ H). reflexivity.
Qed.

Theorem same_entry_print : forall w e e', same_entry e e' -> print_entry w e' = print_entry w e.
Proof.
  intros w e e' H.
  destruct e as [t | s | k v | | p | n ds | n ds]; simpl in H; try (subst e'; reflexivity).
  - destruct e' as [t' | s' | k' v' | | p' | n' ds' | n' ds']; try contradiction.
    simpl. apply same_txn_print. exact H.
  - destruct e' as [t' | s' | k' v' | | p' | n' ds' | n' ds']; try contradiction.
    destruct H as [Hn Hds]. subst n'. simpl.
    rewrite (Forall2_flat_map_ext same_commodity_detail print_commodity_detail _ _
               same_commodity_detail_print Hds).
    reflexivity.
Qed.

Theorem same_entry_hazard : forall w e e', same_entry e e' -> entry_hazard w e' = entry_hazard w e.
Proof.
  intros w e e' H.
  destruct e as [t | s | k v | | p | n ds | n ds]; simpl in H; try (subst e'; reflexivity).
  - destruct e' as [t' | s' | k' v' | | p' | n' ds' | n' ds']; try contradiction.
    simpl. destruct H as (_ & _ & _ & _ & _ & Hps & _).
    induction Hps as [| x y l l' Hxy _ IH]; [reflexivity |].
    cbn [existsb]. rewrite (same_posting_hazard w _ _ Hxy), IH. reflexivity.
  - destruct e' as [t' | s' | k' v' | | p' | n' ds' | n' ds']; try contradiction. reflexivity.
Qed.

Theorem same_meaning_format : forall w es es', same_meaning es es' ->
  format_entries w es' = format_entries w es.
Proof.
  intros w es es' H. unfold format_entries.
  apply (Forall2_flat_map_ext same_entry (fun e => print_entry w e ++ [10]) es es'); [| exact H].
  intros x y Hxy. rewrite (same_entry_print w _ _ Hxy). reflexivity.
Qed.

(* ================= part 2: every same_X is an equivalence ================= *)

(* ---- amounts ---- *)
Lemma same_amount_refl : forall a, same_amount a a.
Proof. intros a. split; [apply same_num_refl | reflexivity]. Qed.

Lemma same_amount_sym : forall a a', same_amount a a' -> same_amount a' a.
Proof. intros a a' [Hn Hc]. split; [apply same_num_sym; exact Hn | symmetry; exact Hc]. Qed.

Lemma same_amount_trans : forall a b c, same_amount a b -> same_amount b c -> same_amount a c.
Proof.
  intros a b c [Hn Hc] [Hn' Hc']. split; [eapply same_num_trans; eauto | congruence].
Qed.

(* ---- value expressions ---- *)
Lemma same_ve_refl : (forall v, same_v v v) /\ (forall e, same_e e e).
Proof.
  apply s_vexpr_expr_mind; simpl; intros; auto using same_amount_refl.
Qed.

Lemma same_v_refl : forall v, same_v v v.
Proof. exact (proj1 same_ve_refl). Qed.
Lemma same_e_refl : forall e, same_e e e.
Proof. exact (proj2 same_ve_refl). Qed.

Lemma same_ve_sym :
  (forall v v', same_v v v' -> same_v v' v) /\ (forall e e', same_e e e' -> same_e e' e).
Proof.
  apply s_vexpr_expr_mind.
  - intros e IH v' H. destruct v' as [e' | a']; simpl in H; [| contradiction]. simpl. auto.
  - intros a v' H. destruct v' as [e' | a']; simpl in H; [contradiction |].
    simpl. apply same_amount_sym. exact H.
  - intros e IH e' H. destruct e' as [e1 | op' l' r' | v']; simpl in H; try contradiction. simpl. auto.
  - intros op l IHl r IHr e' H. destruct e' as [e1 | op' l' r' | v']; simpl in H; try contradiction.
    destruct H as (Hop & Hl & Hr). simpl. auto.
  - intros v IH e' H. destruct e' as [e1 | op' l' r' | v']; simpl in H; try contradiction. simpl. auto.
Qed.

Lemma same_v_sym : forall v v', same_v v v' -> same_v v' v.
Proof. exact (proj1 same_ve_sym). Qed.
Lemma same_e_sym : forall e e', same_e e e' -> same_e e' e.
Proof. exact (proj2 same_ve_sym). Qed.

Lemma same_ve_trans :
  (forall v v' v'', same_v v v' -> same_v v' v'' -> same_v v v'') /\
  (forall e e' e'', same_e e e' -> same_e e' e'' -> same_e e e'').
Proof.
  apply s_vexpr_expr_mind.
  - intros e IH v' v'' H H'. destruct v' as [e' | a']; simpl in H; [| contradiction].
    destruct v'' as [e'' | a'']; simpl in H'; [| contradiction]. simpl. eauto.
  - intros a v' v'' H H'. destruct v' as [e' | a']; simpl in H; [contradiction |].
    destruct v'' as [e'' | a'']; simpl in H'; [contradiction |]. simpl.
    eapply same_amount_trans; eauto.
  - intros e IH e' e'' H H'. destruct e' as [e1 | op' l' r' | v']; simpl in H; try contradiction.
    destruct e'' as [e2 | op'' l'' r'' | v'']; simpl in H'; try contradiction. simpl. eauto.
  - intros op l IHl r IHr e' e'' H H'.
    destruct e' as [e1 | op' l' r' | v']; simpl in H; try contradiction.
    destruct e'' as [e2 | op'' l'' r'' | v'']; simpl in H'; try contradiction.
    destruct H as (Hop & Hl & Hr). destruct H' as (Hop' & Hl' & Hr'). simpl.
    split; [congruence |]. split; eauto.
  - intros v IH e' e'' H H'. destruct e' as [e1 | op' l' r' | v']; simpl in H; try contradiction.
    destruct e'' as [e2 | op'' l'' r'' | v'']; simpl in H'; try contradiction. simpl. eauto.
Qed.

Lemma same_v_trans : forall v v' v'', same_v v v' -> same_v v' v'' -> same_v v v''.
Proof. exact (proj1 same_ve_trans). Qed.
Lemma same_e_trans : forall e e' e'', same_e e e' -> same_e e' e'' -> same_e e e''.
Proof. exact (proj2 same_ve_trans). Qed.

(* ---- exchange ---- *)
Lemma same_exchange_refl : forall x, same_exchange x x.
Proof. intros [v | v]; simpl; apply same_v_refl. Qed.

Lemma same_exchange_sym : forall x x', same_exchange x x' -> same_exchange x' x.
Proof. intros [v | v] [v' | v']; simpl; try tauto; apply same_v_sym. Qed.

Lemma same_exchange_trans : forall x y z, same_exchange x y -> same_exchange y z -> same_exchange x z.
Proof. intros [v | v] [v' | v'] [v'' | v'']; simpl; try tauto; apply same_v_trans. Qed.

(* ---- lot ---- *)
Lemma same_lot_refl : forall l, same_lot l l.
Proof. intros l. split; [apply same_opt_refl, same_exchange_refl | split; reflexivity]. Qed.

Lemma same_lot_sym : forall l l', same_lot l l' -> same_lot l' l.
Proof.
  intros l l' (Hp & Hd & Hn). split; [apply same_opt_sym; [exact same_exchange_sym | exact Hp] |].
  split; symmetry; assumption.
Qed.

Lemma same_lot_trans : forall a b c, same_lot a b -> same_lot b c -> same_lot a c.
Proof.
  intros a b c (Hp & Hd & Hn) (Hp' & Hd' & Hn').
  split; [eapply same_opt_trans; [exact same_exchange_trans | exact Hp | exact Hp'] |].
  split; congruence.
Qed.

(* ---- posting amount ---- *)
Lemma same_posting_amount_refl : forall pa, same_posting_amount pa pa.
Proof.
  intros pa. split; [apply same_v_refl |].
  split; [apply same_opt_refl, same_exchange_refl | apply same_lot_refl].
Qed.

Lemma same_posting_amount_sym : forall pa pa', same_posting_amount pa pa' -> same_posting_amount pa' pa.
Proof.
  intros pa pa' (Ha & Hc & Hl). split; [apply same_v_sym; exact Ha |].
  split; [apply same_opt_sym; [exact same_exchange_sym | exact Hc] | apply same_lot_sym; exact Hl].
Qed.

Lemma same_posting_amount_trans : forall a b c,
  same_posting_amount a b -> same_posting_amount b c -> same_posting_amount a c.
Proof.
  intros a b c (Ha & Hc & Hl) (Ha' & Hc' & Hl'). split; [eapply same_v_trans; eauto |].
  split; [eapply same_opt_trans; [exact same_exchange_trans | exact Hc | exact Hc'] |
          eapply same_lot_trans; eauto].
Qed.

(* ---- posting ---- *)
Lemma same_posting_refl : forall p, same_posting p p.
Proof.
  intros p. split; [reflexivity |]. split; [reflexivity |].
  split; [apply same_opt_refl, same_posting_amount_refl |].
  split; [apply same_opt_refl, same_v_refl | reflexivity].
Qed.

Lemma same_posting_sym : forall p p', same_posting p p' -> same_posting p' p.
Proof.
  intros p p' (Ha & Hc & Ham & Hb & Hm). split; [symmetry; exact Ha |]. split; [symmetry; exact Hc |].
  split; [apply same_opt_sym; [exact same_posting_amount_sym | exact Ham] |].
  split; [apply same_opt_sym; [exact same_v_sym | exact Hb] | symmetry; exact Hm].
Qed.

Lemma same_posting_trans : forall a b c, same_posting a b -> same_posting b c -> same_posting a c.
Proof.
  intros a b c (Ha & Hc & Ham & Hb & Hm) (Ha' & Hc' & Ham' & Hb' & Hm').
  split; [congruence |]. split; [congruence |].
  split; [eapply same_opt_trans; [exact same_posting_amount_trans | exact Ham | exact Ham'] |].
  split; [eapply same_opt_trans; [exact same_v_trans | exact Hb | exact Hb'] | congruence].
Qed.

(* ---- transaction ---- *)
Lemma same_txn_refl : forall t, same_txn t t.
Proof.
  intros t. unfold same_txn. repeat split. apply Forall2_refl_gen, same_posting_refl.
Qed.

Lemma same_txn_sym : forall t t', same_txn t t' -> same_txn t' t.
Proof.
  intros t t' (Hd & He & Hc & Hk & Hp & Hps & Hm). unfold same_txn.
  repeat split; try (symmetry; assumption).
  apply Forall2_sym_gen; [exact same_posting_sym | exact Hps].
Qed.

Lemma same_txn_trans : forall a b c, same_txn a b -> same_txn b c -> same_txn a c.
Proof.
  intros a b c (Hd & He & Hc & Hk & Hp & Hps & Hm) (Hd' & He' & Hc' & Hk' & Hp' & Hps' & Hm').
  unfold same_txn. repeat split; try congruence.
  eapply Forall2_trans_gen; [exact same_posting_trans | exact Hps | exact Hps'].
Qed.

(* ---- commodity sub-directive ---- *)
Lemma same_commodity_detail_refl : forall d, same_commodity_detail d d.
Proof. intros [s | s | s | a]; simpl; try reflexivity. apply same_amount_refl. Qed.

Lemma same_commodity_detail_sym : forall d d', same_commodity_detail d d' -> same_commodity_detail d' d.
Proof.
  intros d d' H. destruct d as [s | s | s | a]; simpl in H; try (subst d'; simpl; reflexivity).
  destruct d' as [s' | s' | s' | a']; try discriminate H.
  simpl. apply same_amount_sym. exact H.
Qed.

Lemma same_commodity_detail_trans : forall a b c,
  same_commodity_detail a b -> same_commodity_detail b c -> same_commodity_detail a c.
Proof.
  intros a b c H H'. destruct a as [s | s | s | x]; simpl in H; try (subst b; exact H').
  destruct b as [s' | s' | s' | y]; try discriminate H.
  destruct c as [s'' | s'' | s'' | z]; simpl in H'; try discriminate H'.
  simpl. eapply same_amount_trans; eauto.
Qed.

(* ---- entries ---- *)
Theorem same_entry_refl : forall e, same_entry e e.
Proof.
  intros [t | s | k v | | p | n ds | n ds]; simpl; try reflexivity.
  - apply same_txn_refl.
  - split; [reflexivity | apply Forall2_refl_gen, same_commodity_detail_refl].
Qed.

Theorem same_entry_sym : forall e e', same_entry e e' -> same_entry e' e.
Proof.
  intros e e' H.
  destruct e as [t | s | k v | | p | n ds | n ds]; simpl in H; try (subst e'; simpl; reflexivity).
  - destruct e' as [t' | s' | k' v' | | p' | n' ds' | n' ds']; try contradiction.
    simpl. apply same_txn_sym. exact H.
  - destruct e' as [t' | s' | k' v' | | p' | n' ds' | n' ds']; try contradiction.
    destruct H as [Hn Hds]. simpl. split; [symmetry; exact Hn |].
    apply Forall2_sym_gen; [exact same_commodity_detail_sym | exact Hds].
Qed.

Theorem same_entry_trans : forall a b c, same_entry a b -> same_entry b c -> same_entry a c.
Proof.
  intros a b c H H'.
  destruct a as [t | s | k v | | p | n ds | n ds]; simpl in H; try (subst b; exact H').
  - destruct b as [t' | s' | k' v' | | p' | n' ds' | n' ds']; try contradiction.
    destruct c as [t'' | s'' | k'' v'' | | p'' | n'' ds'' | n'' ds'']; simpl in H'; try contradiction.
    simpl. eapply same_txn_trans; eauto.
  - destruct b as [t' | s' | k' v' | | p' | n' ds' | n' ds']; try contradiction.
    destruct c as [t'' | s'' | k'' v'' | | p'' | n'' ds'' | n'' ds'']; simpl in H'; try contradiction.
    destruct H as [Hn Hds]. destruct H' as [Hn' Hds']. simpl. split; [congruence |].
    eapply Forall2_trans_gen; [exact same_commodity_detail_trans | exact Hds | exact Hds'].
Qed.

(* ---- entry lists ---- *)
Theorem same_meaning_refl : forall es, same_meaning es es.
Proof. intros es. apply Forall2_refl_gen, same_entry_refl. Qed.

Theorem same_meaning_sym : forall es es', same_meaning es es' -> same_meaning es' es.
Proof. intros es es' H. apply Forall2_sym_gen; [exact same_entry_sym | exact H]. Qed.

Theorem same_meaning_trans : forall a b c, same_meaning a b -> same_meaning b c -> same_meaning a c.
Proof.
  intros a b c H H'. eapply Forall2_trans_gen; [exact same_entry_trans | exact H | exact H'].
Qed.

Print Assumptions same_meaning_format.
Print Assumptions same_entry_print.
Print Assumptions same_entry_hazard.
Print Assumptions same_meaning_trans.
Print Assumptions same_meaning_sym.
Print Assumptions same_meaning_refl.
