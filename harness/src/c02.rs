//! C02 (assertions) and C03 (inference): the shared ledger generator with other biases.
use crate::coq::{self, Shards, Stats};
use crate::diag::{self, Diag};
use crate::ledger::*;
use crate::prng::Rng;
use crate::Opts;

fn lit(m: i64, scale: u32, c: usize) -> VE {
    VE::Amt(Lit { m, scale, comm: Some(c), grouped: false })
}
fn bare_zero() -> VE {
    VE::Amt(Lit { m: 0, scale: 0, comm: None, grouped: false })
}
fn post(a: usize, amt: Option<VE>, bal: Option<VE>) -> Posting {
    Posting { account: a, amount: amt, cost: None, lot: None, balance: bal }
}
fn txn(d: i32, posts: Vec<Posting>) -> Entry {
    Entry::Txn(Txn { effective: None, date: d, posts, head: Head::default() })
}

fn fixed_cases() -> Vec<Vec<Entry>> {
    let mut out = Vec::new();
    // F12: omitted posting on A, then an assertion / assignment on A in the same transaction
    out.push(vec![txn(1, vec![post(0, None, None), post(0, Some(lit(5, 0, 4)), Some(lit(5, 0, 4))), post(1, Some(lit(3, 0, 4)), None)])]);
    out.push(vec![txn(1, vec![post(0, None, None), post(0, None, Some(lit(5, 0, 4))), post(1, Some(lit(3, 0, 4)), None)])]);
    // several assertions on one account inside one transaction
    out.push(vec![txn(1, vec![
        post(0, Some(lit(200, 0, 3)), Some(lit(200, 0, 3))),
        post(1, Some(lit(0, 0, 3)), Some(lit(0, 0, 3))),
        post(1, Some(lit(-100, 0, 3)), Some(lit(-100, 0, 3))),
        post(1, Some(lit(-100, 0, 3)), Some(lit(-200, 0, 3))),
    ])]);
    // bare = 0 with one, two, zero commodities
    for k in 0..3 {
        let mut es = Vec::new();
        let mut ps = vec![];
        if k >= 1 {
            ps.push(post(0, Some(lit(10, 0, 4)), None));
        }
        if k >= 2 {
            ps.push(post(0, Some(lit(7, 0, 2)), None));
        }
        ps.push(post(2, None, None));
        es.push(txn(1, ps));
        es.push(txn(2, vec![post(0, None, Some(bare_zero())), post(2, None, None)]));
        out.push(es);
        let mut es2 = Vec::new();
        let mut ps = vec![post(2, None, None)];
        if k >= 1 {
            ps.push(post(0, Some(lit(10, 0, 4)), None));
        }
        if k >= 2 {
            ps.push(post(0, Some(lit(7, 0, 2)), None));
        }
        es2.push(txn(1, ps));
        es2.push(txn(2, vec![post(0, Some(lit(-10, 0, 4)), Some(bare_zero())), post(2, None, None)]));
        out.push(es2);
    }
    // `= 0 USD` on an account holding other commodities; negative balances
    out.push(vec![
        txn(1, vec![post(0, Some(lit(10, 0, 2)), None), post(0, Some(lit(-4, 0, 4)), Some(lit(-4, 0, 4))), post(2, None, None)]),
        txn(2, vec![post(0, Some(lit(4, 0, 4)), Some(lit(0, 0, 4))), post(2, None, None)]),
        txn(3, vec![post(0, Some(lit(0, 0, 4)), Some(bare_zero())), post(2, None, None)]),
    ]);
    // two unconstrained postings
    out.push(vec![txn(1, vec![post(0, None, None), post(1, Some(lit(1, 0, 4)), None), post(2, None, None)])]);
    out
}

/// bytes outside ASCII in the text of entry `entry` in front of posting `posting`
fn non_ascii_before(r: &Rendered, entry: usize, posting: usize) -> usize {
    let start = r.entry_line.get(entry).map(|l| r.text.split('\n').take(l - 1).map(|x| x.len() + 1).sum::<usize>()).unwrap_or(0);
    let end = r.posting_span.get(entry).and_then(|s| s.get(posting)).map(|s| s.line_off).unwrap_or(start);
    r.text.as_bytes()[start.min(end)..end].iter().filter(|b| **b >= 0x80).count()
}

/// C02: as `emit_ledger_case`, on a decorated rendering, and with the rendered diagnostic of
/// a failed assertion read back to postings: case `CD entries obs diag`
fn emit_c02(sh: &mut Shards, st: &mut Stats, entries: &[Entry], deco: &Deco, nontrivial: &dyn Fn(&Shape, &Obs) -> bool, tag: &str) {
    let r = render_deco(entries, deco);
    let names = Names::default_names();
    let files = [("/main.ledger".to_string(), r.text.clone())];
    let o = run_process(&files, &names, Some(&r));
    let mut rendered: Option<String> = None;
    let d = match &o {
        Obs::Err { entry, err: ErrObs::Assertion { posting, .. }, .. } => {
            st.count("diag:assertion_failures_rendered");
            let na = non_ascii_before(&r, *entry, *posting);
            if na > 0 {
                st.count("diag:non_ascii_text_before_the_failing_posting");
            }
            if r.posting_span.get(*entry).and_then(|s| s.get(*posting)).map_or(false, |s| !r.text[s.line_off..s.account.end].is_ascii()) {
                st.count("diag:non_ascii_account_on_the_failing_line");
            }
            match diag::rendered_error(&files) {
                Err(m) => Diag::Panic(m),
                Ok(None) => Diag::Unreadable("no error on the second run".into()),
                Ok(Some(text)) => {
                    let d = diag::read_assertion_diag(&text, &r, *entry, &names.commodities);
                    rendered = Some(text);
                    d
                }
            }
        }
        _ => Diag::NotApplicable,
    };
    st.count(match &d {
        Diag::NotApplicable => "diag:not_applicable",
        Diag::Panic(_) => "diag:render_panic",
        Diag::Unreadable(_) => "diag:unreadable",
        Diag::Wide => "diag:excerpt_cut_not_read",
        Diag::Seen(_) => "diag:read_back",
    });
    let s = shape(entries);
    st.eval(&r.text, nontrivial(&s, &o));
    st.count(&obs_kind(&o));
    st.count(&format!("gen:{}", tag));
    st.count(if deco.is_plain() { "text:plain" } else { "text:decorated" });
    if entries.iter().any(|e| matches!(e, Entry::Txn(t) if t.posts.iter().any(|p| p.account >= ACCOUNTS.len()))) {
        st.count("text:non_ascii_account_names");
    }
    st.add("shape:txns", s.txns as u64);
    st.add("shape:postings", s.postings as u64);
    st.add("shape:omitted", s.omitted as u64);
    st.add("shape:assigned", s.assigned as u64);
    st.add("shape:asserted", s.asserted as u64);
    st.add("shape:cost", s.cost as u64);
    st.add("shape:lot", s.lot as u64);
    st.add("shape:signed_total", s.neg_total as u64);
    st.add("shape:signed_rate", s.neg_rate as u64);
    st.add("shape:paren_expr", s.exprs as u64);
    st.add("shape:format_decl", s.formats as u64);
    shape_text_stats(st, &s);
    let mut rep = case_json("C02", entries, &r.text, &o);
    if !deco.is_plain() {
        rep["deco"] = serde_json::to_value(deco).unwrap();
    }
    if !matches!(d, Diag::NotApplicable) {
        rep["impl"]["rendered"] = serde_json::json!(rendered);
        rep["impl"]["rendered_read_as"] = diag::diag_json(&d);
    }
    if st.samples.len() < 3 || (st.samples.len() < 6 && matches!(o, Obs::Err { .. })) {
        st.sample(rep.clone(), 6);
    }
    let term = format!("CD {} {} {}", coq::list(entries.iter().map(entry_term)), obs_term(&o), diag::diag_term(&d));
    sh.push(term, vec![rep]);
}

pub fn run(o: &Opts, prop: &str) {
    let mut st = Stats::new();
    let classify = if prop == "C02" { "Classify_C02" } else { "Classify_C03" };
    let mut sh = Shards::new(&o.out, o.shards, &header(classify));
    let is02 = prop == "C02";
    st.rule = if is02 {
        "generated ledgers with raised assertion density (several per account per transaction, after assignments and omitted postings, multi-commodity accounts, `= 0` vs `= 0 X`, negative balances; 1 in 8 assertions false) + fixed boundary ledgers; three ledgers in four are written with text outside ASCII that the book-keeping never reads (payees, codes, comment lines under the header and under postings, trailing comments, comment entries: two-, three- and four-byte characters, double-width and combining ones) and/or with account names outside ASCII; for every failed assertion the rendered error (Display of ReportError) is read back - excerpt, `--> line:col`, the two labelled markers, the balances of title and label - and related to postings of the ledger text; non-trivial = at least one assertion was evaluated (the ledger carries one and processing reached it); distinct by ledger text".to_string()
    } else {
        "generated ledgers biased to an omitted-amount or assignment posting at every position among 1-5 others with costs/lots/several commodities (one cost or lot price in four written with a minus sign: `@@ -1,000 USD`, `{{-5 EUR}}`, `@ -2 USD`), after a history giving the assigned account 0/1/2 commodities + fixed boundary ledgers; three ledgers in four written with text and account names outside ASCII as in C02; every rejected ledger's error is rendered as the user sees it and read back - title, location, excerpt lines, every labelled marker - and must name the entry and posting(s) the model says fail (diag:* counts); non-trivial = the ledger has an omitted or assigned posting and is not rejected before reaching it; distinct by ledger text".to_string()
    };
    st.rule = format!("{}; {}", st.rule, TEXT_SHAPES_RULE);
    st.assumptions.push("literal mantissas below 10^7 with scale <= 3: every intermediate Decimal is exact".into());
    st.assumptions.push("no total price on an expression-produced zero (sign bit of zero is not modelled)".into());
    {
        st.assumptions.push(format!("errors are rendered by annotate-snippets' plain renderer on a terminal of {} columns, so that no excerpt line is cut (a line beyond {} columns would be counted as diag:excerpt_cut_not_read); marker columns are related to bytes with unicode-width, the width table annotate-snippets itself uses", diag::TERM_WIDTH, diag::MAX_LINE_COLS));
    }
    let nontrivial = move |s: &Shape, o: &Obs| -> bool {
        let has = if is02 { s.asserted > 0 } else { s.omitted + s.assigned > 0 };
        has && !matches!(o, Obs::Err { err: ErrObs::Eval(_), .. } | Obs::Err { err: ErrObs::Other(_), .. })
    };
    let (corpus, replay) = corpus_entries(&o.corpus, &o.extra);
    let decos = corpus_decos(&o.corpus, &o.extra);
    for (k, es) in corpus.iter().enumerate() {
        if is02 {
            emit_c02(&mut sh, &mut st, es, decos.get(k).unwrap_or(&Deco::default()), &nontrivial, "corpus");
        } else {
            emit_ledger_case(&mut sh, &mut st, prop, es, decos.get(k).unwrap_or(&Deco::default()), &nontrivial, "corpus");
        }
    }
    if !replay {
        for (n, mut es) in fixed_cases().into_iter().enumerate() {
            // each fixed ledger in its own header / sample-number shape
            vary_shapes_nth(&mut es, n);
            if is02 {
                emit_c02(&mut sh, &mut st, &es, &Deco::default(), &nontrivial, "fixed");
            } else {
                emit_ledger_case(&mut sh, &mut st, prop, &es, &Deco::default(), &nontrivial, "fixed");
            }
        }
        // the text the book-keeping never reads: its own stream, so that the ledgers stay those of the seed
        let mut rd = Rng::new(o.seed, 1102);
        let mut r = Rng::new(o.seed, if is02 { 102 } else { 103 });
        let n = if o.thorough { 40000 } else { 2500 };
        for _ in 0..n {
            let mut b = Bias::default_bias();
            if is02 {
                b.assert_pct = 60;
                b.wrong_assert_pct = 12;
                b.unbalanced_pct = 5;
                b.assign_pct = 15;
                b.max_txns = 6;
                b.neg_exch_pct = 15;
            } else {
                b.omit_pct = 50;
                b.assign_pct = 35;
                b.assert_pct = 10;
                b.wrong_assert_pct = 2;
                b.unbalanced_pct = 5;
                b.cost_pct = 30;
                b.lot_pct = 15;
                b.neg_exch_pct = 25;
            }
            let mut es = gen_ledger(&mut r, &b);
            let deco = decorate(&mut rd, &mut es);
            if is02 {
                emit_c02(&mut sh, &mut st, &es, &deco, &nontrivial, "random");
            } else {
                emit_ledger_case(&mut sh, &mut st, prop, &es, &deco, &nontrivial, "random");
            }
        }
    }
    sh.finish(&st);
}
