(* compute_price_table (Model/PriceDb.v pt_loop) for an ARBITRARY pop order: every label is
   the (distance, rate) of a walk from the target (soundness); when the queue runs empty the
   labels are closed under relaxation, hence no walk is shorter (optimality); the loop
   terminates (each push strictly lowers a label in a well-founded order). *)
From Coq Require Import List NArith ZArith Bool QArith Qcanon Lia Wellfounded Relations.
From Okv Require Import Base.Maps Base.Dec Model.Amount Model.Book Model.PriceDb Model.PriceSpec
     Proofs.PriceProofs Proofs.PriceGraph.
Import ListNotations.
Open Scope Qc_scope.

(* ---- take_at ---- *)
Lemma take_at_none : forall {A} i (q : list A), take_at i q = None <-> q = [].
Proof.
  intros A i q. destruct q as [|x r]; cbn; [split; reflexivity|].
  destruct i; [split; discriminate|]. destruct (take_at i r) as [[y r']|]; split; discriminate.
Qed.

Lemma take_at_in : forall {A} (q : list A) i x q',
  take_at i q = Some (x, q') -> forall y, In y q <-> y = x \/ In y q'.
Proof.
  intros A q. induction q as [|a r IH]; intros i x q' H y; cbn in H; [discriminate|].
  destruct i as [|k].
  - inversion H; subst. cbn. intuition.
  - destruct (take_at k r) as [[z r']|] eqn:E.
    + inversion H; subst. cbn. rewrite (IH _ _ _ E). intuition.
    + inversion H; subst. cbn. intuition.
Qed.

Lemma take_at_length : forall {A} (q : list A) i x q',
  take_at i q = Some (x, q') -> length q = S (length q').
Proof.
  intros A q. induction q as [|a r IH]; intros i x q' H; cbn in H; [discriminate|].
  destruct i as [|k].
  - inversion H; subst. reflexivity.
  - destruct (take_at k r) as [[z r']|] eqn:E.
    + inversion H; subst. cbn. f_equal. eapply IH; eassumption.
    + inversion H; subst. reflexivity.
Qed.

Section Table.
  Variable recs : records.
  Variable date : Z.
  Variable target : cid.

  Let out := out_edges recs date.
  Notation is_walk := (is_walk out).

  Definition relax_edges (cd : dist) (prate : Qc) (es : list edge) (tq : table * queue) : table * queue :=
    fold_left (relax1 cd prate) es tq.

  Lemma relax_as_edges : forall cd prate inn tq,
    relax date cd prate inn tq = relax_edges cd prate (omap (edge_of date) inn) tq.
  Proof.
    intros cd prate inn. unfold relax, relax_edges. induction inn as [|je r IH]; intros tq; cbn; [reflexivity|].
    destruct (edge_of date je); cbn; apply IH.
  Qed.

  (* ---- one relaxation ---- *)
  Lemma relax1_spec : forall cd prate t q e t1 q1,
    relax1 cd prate (t, q) e = (t1, q1) ->
    (* labels only decrease *)
    (forall c d r, get c t = Some (d, r) -> exists d' r', get c t1 = Some (d', r') /\ leP d' d) /\
    (* the queue only grows *)
    (forall x, In x q -> In x q1) /\
    (* the edge is relaxed *)
    (exists d' r', get (e_to e) t1 = Some (d', r') /\ leP d' (ext cd e)) /\
    (* a label is the old one or was just pushed with the walk it extends *)
    (forall c d r, get c t1 = Some (d, r) ->
                   get c t = Some (d, r) \/
                   (In (d, (c, r)) q1 /\ c = e_to e /\ d = ext cd e /\ r = prate * e_rate e)) /\
    (forall x, In x q1 -> In x q \/ x = (ext cd e, (e_to e, prate * e_rate e))).
  Proof.
    intros cd prate t q e t1 q1 H. unfold relax1 in H. fold (ext cd e) in H.
    destruct (get (e_to e) t) as [[d0 r0]|] eqn:G.
    - destruct (dist_leb d0 (ext cd e)) eqn:L; cbn [negb] in H.
      + inversion H; subst t1 q1. apply dist_leb_iff in L. repeat split.
        * intros c d r Hc. exists d, r. split; [assumption|apply leP_refl].
        * auto.
        * exists d0, r0. split; assumption.
        * intros c d r Hc. left; assumption.
        * intros x Hx. left; assumption.
      + inversion H; subst t1 q1. apply dist_leb_false_iff in L. repeat split.
        * intros c d r Hc. destruct (N.eq_dec (e_to e) c) as [<-|Hne].
          -- rewrite pget_set_same. rewrite G in Hc. inversion Hc; subst.
             eexists _, _. split; [reflexivity|apply ltP_leP; assumption].
          -- rewrite pget_set_other by assumption. exists d, r. split; [assumption|apply leP_refl].
        * intros x Hx. apply in_or_app. left; assumption.
        * rewrite pget_set_same. eexists _, _. split; [reflexivity|apply leP_refl].
        * intros c d r Hc. destruct (N.eq_dec (e_to e) c) as [<-|Hne].
          -- rewrite pget_set_same in Hc. inversion Hc; subst. right.
             split; [apply in_or_app; right; left; reflexivity|auto].
          -- rewrite pget_set_other in Hc by assumption. left; assumption.
        * intros x Hx. apply in_app_or in Hx. destruct Hx as [Hx|[<-|[]]]; [left; assumption|right; reflexivity].
    - cbn in H. inversion H; subst t1 q1. repeat split.
      + intros c d r Hc. destruct (N.eq_dec (e_to e) c) as [<-|Hne].
        * rewrite G in Hc. discriminate.
        * rewrite pget_set_other by assumption. exists d, r. split; [assumption|apply leP_refl].
      + intros x Hx. apply in_or_app. left; assumption.
      + rewrite pget_set_same. eexists _, _. split; [reflexivity|apply leP_refl].
      + intros c d r Hc. destruct (N.eq_dec (e_to e) c) as [<-|Hne].
        * rewrite pget_set_same in Hc. inversion Hc; subst. right.
          split; [apply in_or_app; right; left; reflexivity|auto].
        * rewrite pget_set_other in Hc by assumption. left; assumption.
      + intros x Hx. apply in_app_or in Hx. destruct Hx as [Hx|[<-|[]]]; [left; assumption|right; reflexivity].
  Qed.

  (* ---- a whole `for` loop over the out-edges ---- *)
  Lemma relax_edges_spec : forall cd prate es t q t1 q1,
    relax_edges cd prate es (t, q) = (t1, q1) ->
    (forall c d r, get c t = Some (d, r) -> exists d' r', get c t1 = Some (d', r') /\ leP d' d) /\
    (forall x, In x q -> In x q1) /\
    (forall e, In e es -> exists d' r', get (e_to e) t1 = Some (d', r') /\ leP d' (ext cd e)) /\
    (forall c d r, get c t1 = Some (d, r) ->
                   get c t = Some (d, r) \/
                   (In (d, (c, r)) q1 /\ exists e, In e es /\ c = e_to e /\ d = ext cd e /\ r = prate * e_rate e)) /\
    (forall x, In x q1 -> In x q \/ exists e, In e es /\ x = (ext cd e, (e_to e, prate * e_rate e))).
  Proof.
    intros cd prate es. induction es as [|e r IH]; intros t q t1 q1 H; unfold relax_edges in H; cbn [fold_left] in H.
    - inversion H; subst. repeat split.
      + intros c d r0 Hc. exists d, r0. split; [assumption|apply leP_refl].
      + auto.
      + intros e [].
      + intros c d r0 Hc. left; assumption.
      + intros x Hx. left; assumption.
    - destruct (relax1 cd prate (t, q) e) as [t0 q0] eqn:E1.
      destruct (relax1_spec _ _ _ _ _ _ _ E1) as (A1 & A2 & A3 & A4 & A5).
      destruct (IH _ _ _ _ H) as (B1 & B2 & B3 & B4 & B5). repeat split.
      + intros c d r0 Hc. destruct (A1 _ _ _ Hc) as (d' & r' & G' & L').
        destruct (B1 _ _ _ G') as (d'' & r'' & G'' & L''). exists d'', r''. split; [assumption|].
        eapply leP_trans; eassumption.
      + auto.
      + intros e' [<-|Hin].
        * destruct A3 as (d' & r' & G' & L'). destruct (B1 _ _ _ G') as (d'' & r'' & G'' & L'').
          exists d'', r''. split; [assumption|eapply leP_trans; eassumption].
        * apply B3; assumption.
      + intros c d r0 Hc. destruct (B4 _ _ _ Hc) as [G0|(Hq & e' & He' & X)].
        * destruct (A4 _ _ _ G0) as [G|(Hq & X1 & X2 & X3)]; [left; assumption|].
          right. split; [apply B2; assumption|]. exists e. split; [left; reflexivity|auto].
        * right. split; [assumption|]. exists e'. split; [right; assumption|assumption].
      + intros x Hx. destruct (B5 _ Hx) as [H0|(e' & He' & X)].
        * destruct (A5 _ H0) as [Hq|X]; [left; assumption|].
          right. exists e. split; [left; reflexivity|assumption].
        * right. exists e'. split; [right; assumption|assumption].
  Qed.

  (* ---- invariants ---- *)
  Definition walk_to (c : cid) (d : dist) (r : Qc) : Prop :=
    exists w, is_walk target w c /\ walk_dist w = d /\ walk_rate w = r.

  (* I1: labels and queue entries are (distance, rate) of actual walks from the target *)
  Definition Inv1 (t : table) (q : queue) : Prop :=
    (forall c d r, get c t = Some (d, r) ->
                   exists w, w <> [] /\ is_walk target w c /\ walk_dist w = d /\ walk_rate w = r) /\
    (forall d c r, In (d, (c, r)) q -> walk_to c d r).

  Definition pending (q : queue) (n : cid) (d : dist) : Prop :=
    exists d' r', In (d', (n, r')) q /\ leP d' d.
  Definition closed (t : table) (n : cid) (d : dist) : Prop :=
    forall e, In e (out n) -> exists d' r', get (e_to e) t = Some (d', r') /\ leP d' (ext d e).
  Definition src (t : table) (n : cid) (d : dist) : Prop :=
    (n = target /\ d = dist0) \/ exists r, get n t = Some (d, r).
  (* I2: every source of relaxations is pending in the queue or has all out-edges relaxed *)
  Definition Inv2 (t : table) (q : queue) : Prop :=
    forall n d, src t n d -> pending q n d \/ closed t n d.

  Lemma closed_mono : forall t n d1 d2, leP d1 d2 -> closed t n d1 -> closed t n d2.
  Proof.
    intros t n d1 d2 L H e He. destruct (H e He) as (d' & r' & G & L'). exists d', r'.
    split; [assumption|]. eapply leP_trans; [eassumption|apply extend_mono; assumption].
  Qed.

  Lemma inv_init : Inv1 [] [(dist0, (target, 1))] /\ Inv2 [] [(dist0, (target, 1))].
  Proof.
    split; [split|].
    - intros c d r H. discriminate.
    - intros d c r [E|[]]. inversion E; subst. exists []. repeat split; reflexivity.
    - intros n d [[-> ->]|[r H]]; [|discriminate]. left. exists dist0, 1. split; [left; reflexivity|apply leP_refl].
  Qed.

  Lemma inv1_relax : forall cd prev prate t q t1 q1,
    Inv1 t q -> walk_to prev cd prate ->
    relax_edges cd prate (out prev) (t, q) = (t1, q1) -> Inv1 t1 q1.
  Proof.
    intros cd prev prate t q t1 q1 [I1 I1q] (w & Hw & Hd & Hr) H.
    destruct (relax_edges_spec _ _ _ _ _ _ _ H) as (_ & _ & _ & R4 & R5).
    assert (Hext : forall e, In e (out prev) ->
                   exists w', w' <> [] /\ is_walk target w' (e_to e) /\ walk_dist w' = ext cd e /\
                              walk_rate w' = prate * e_rate e).
    { intros e He. exists (w ++ [e]). split; [destruct w; discriminate|]. split.
      - apply is_walk_app. exists prev. split; [assumption|]. cbn. auto.
      - rewrite walk_dist_snoc, walk_rate_snoc, Hd, Hr. auto. }
    split.
    - intros c d r Hc. destruct (R4 _ _ _ Hc) as [G|(_ & e & He & -> & -> & ->)]; [apply I1; assumption|].
      apply Hext; assumption.
    - intros d c r Hin. destruct (R5 _ Hin) as [Hq|(e & He & E)]; [eapply I1q; eassumption|].
      inversion E; subst. destruct (Hext e He) as (w' & _ & X). exists w'. exact X.
  Qed.

  Lemma inv2_relax : forall cd prev prate t q q' t1 q1,
    Inv2 t q -> (forall y, In y q <-> y = (cd, (prev, prate)) \/ In y q') ->
    relax_edges cd prate (out prev) (t, q') = (t1, q1) -> Inv2 t1 q1.
  Proof.
    intros cd prev prate t q q' t1 q1 I2 Hq H.
    destruct (relax_edges_spec _ _ _ _ _ _ _ H) as (R1 & R2 & R3 & R4 & _).
    assert (Hold : forall n d, src t n d -> pending q1 n d \/ closed t1 n d).
    { intros n d Hs. destruct (I2 n d Hs) as [(d' & r' & Hin & L)|Hc].
      - apply Hq in Hin. destruct Hin as [E|Hin].
        + inversion E; subst. right. apply (closed_mono t1 prev cd d L). exact R3.
        + left. exists d', r'. split; [apply R2; assumption|assumption].
      - right. intros e He. destruct (Hc e He) as (d' & r' & G & L).
        destruct (R1 _ _ _ G) as (d'' & r'' & G'' & L''). exists d'', r''.
        split; [assumption|eapply leP_trans; eassumption]. }
    intros n d [[-> ->]|[r G]].
    - apply Hold. left. auto.
    - destruct (R4 _ _ _ G) as [G0|(Hin & _)].
      + apply Hold. right. exists r. assumption.
      + left. exists d, r. split; [assumption|apply leP_refl].
  Qed.

  Lemma inv2_skip : forall cd prev prate t q q' pd pr,
    Inv1 t q -> Inv2 t q -> (forall y, In y q <-> y = (cd, (prev, prate)) \/ In y q') ->
    get prev t = Some (pd, pr) -> ltP pd cd -> Inv2 t q'.
  Proof.
    intros cd prev prate t q q' pd pr [I1 _] I2 Hq G Lt n d Hs.
    destruct (I2 n d Hs) as [(d' & r' & Hin & L)|Hc]; [|right; assumption].
    apply Hq in Hin. destruct Hin as [E|Hin]; [|left; exists d', r'; auto].
    exfalso. inversion E; subst. destruct Hs as [[-> ->]|[r G']].
    - destruct (I1 _ _ _ G) as (w & _ & _ & Hd & _).
      pose proof (walk_dist_ge0 w) as Hge. rewrite Hd in Hge.
      exact (leP_not_ltP _ _ Hge (ltP_leP_trans _ _ _ Lt L)).
    - rewrite G in G'. inversion G'; subst. exact (leP_not_ltP _ _ L Lt).
  Qed.

  Lemma inv2_no_records : forall cd prev prate t q q',
    Inv2 t q -> (forall y, In y q <-> y = (cd, (prev, prate)) \/ In y q') ->
    get prev recs = None -> Inv2 t q'.
  Proof.
    intros cd prev prate t q q' I2 Hq Hn n d Hs.
    destruct (I2 n d Hs) as [(d' & r' & Hin & L)|Hc]; [|right; assumption].
    apply Hq in Hin. destruct Hin as [E|Hin]; [|left; exists d', r'; auto].
    inversion E; subst. right. intros e He. unfold out, out_edges in He. rewrite Hn in He. destruct He.
  Qed.

  (* ---- the loop ---- *)
  Lemma pt_loop_inv : forall choose fuel t q t',
    Inv1 t q -> Inv2 t q -> pt_loop fuel choose recs date t q = PTDone t' ->
    Inv1 t' [] /\ Inv2 t' [].
  Proof.
    intros choose fuel. induction fuel as [|f IH]; intros t q t' I1 I2 H; cbn [pt_loop] in H.
    - destruct (take_at (choose q) q) as [[[cd [prev prate]] q']|] eqn:T; [discriminate|].
      apply take_at_none in T. subst q. inversion H; subst. auto.
    - destruct (take_at (choose q) q) as [[[cd [prev prate]] q']|] eqn:T.
      2:{ apply take_at_none in T. subst q. inversion H; subst. auto. }
      pose proof (take_at_in _ _ _ _ T) as Hq.
      assert (I1' : Inv1 t q').
      { destruct I1 as [A B]. split; [assumption|]. intros d c r Hin. apply (B d c r). apply Hq. right; assumption. }
      assert (Hx : walk_to prev cd prate).
      { destruct I1 as [_ B]. apply B. apply Hq. left; reflexivity. }
      destruct (match get prev t with Some (pd, _) => dist_ltb pd cd | None => false end) eqn:Sk.
      + destruct (get prev t) as [[pd pr]|] eqn:G; [|discriminate]. apply dist_ltb_iff in Sk.
        eapply IH; [exact I1'| |exact H]. exact (inv2_skip cd prev prate t q q' pd pr I1 I2 Hq G Sk).
      + destruct (get prev recs) as [inn|] eqn:R.
        * rewrite relax_as_edges in H.
          assert (Eo : omap (edge_of date) inn = out prev) by (unfold out, out_edges; rewrite R; reflexivity).
          rewrite Eo in H.
          destruct (relax_edges cd prate (out prev) (t, q')) as [t1 q1] eqn:E.
          eapply IH; [| |exact H].
          -- exact (inv1_relax cd prev prate t q' t1 q1 I1' Hx E).
          -- exact (inv2_relax cd prev prate t q q' t1 q1 I2 Hq E).
        * eapply IH; [exact I1'| |exact H]. exact (inv2_no_records cd prev prate t q q' I2 Hq R).
  Qed.

  (* closure under relaxation bounds every walk *)
  Lemma closed_bounds_walks : forall t,
    Inv2 t [] -> forall w c, w <> [] -> is_walk target w c ->
    exists d r, get c t = Some (d, r) /\ leP d (walk_dist w).
  Proof.
    intros t I2. assert (Hcl : forall n d, src t n d -> closed t n d).
    { intros n d Hs. destruct (I2 n d Hs) as [(d' & r' & [] & _)|Hc]. assumption. }
    intros w. induction w as [|e w' IH] using rev_ind; intros c Hne Hw; [contradiction Hne; reflexivity|].
    apply is_walk_app in Hw. destruct Hw as (n & Hw' & He). cbn in He. destruct He as [He <-].
    rewrite walk_dist_snoc. destruct w' as [|e0 w0].
    - cbn in Hw'. subst n. apply (Hcl target dist0); [left; auto|assumption].
    - destruct (IH n) as (dn & rn & G & L); [discriminate|assumption|].
      destruct (Hcl n dn (or_intror (ex_intro _ rn G)) e He) as (d' & r' & G' & L').
      exists d', r'. split; [assumption|]. eapply leP_trans; [eassumption|apply extend_mono; assumption].
  Qed.

  (* C09_table_sound *)
  Theorem table_sound : forall choose fuel t c d r,
    price_table fuel choose recs target date = PTDone t -> get c t = Some (d, r) ->
    exists w, w <> [] /\ is_walk target w c /\ walk_dist w = d /\ walk_rate w = r.
  Proof.
    intros choose fuel t c d r H G. destruct inv_init as [I1 I2].
    destruct (pt_loop_inv _ _ _ _ _ I1 I2 H) as [[A _] _]. apply A. assumption.
  Qed.

  (* C09_table_optimal, walk form: no walk from the target is shorter than the label *)
  Theorem table_optimal : forall choose fuel t w c,
    price_table fuel choose recs target date = PTDone t -> w <> [] -> is_walk target w c ->
    exists d r, get c t = Some (d, r) /\ leP d (walk_dist w).
  Proof.
    intros choose fuel t w c H Hne Hw. destruct inv_init as [I1 I2].
    destruct (pt_loop_inv _ _ _ _ _ I1 I2 H) as [_ B]. eapply closed_bounds_walks; eassumption.
  Qed.
End Table.

(* ------------------------------------------------------------------ *)
(* termination                                                         *)
(* ------------------------------------------------------------------ *)

(* lexicographic product of well-founded orders, by hand (the stdlib's goes through Eqdep) *)
Lemma lex_pair_wf : forall {A B} (RA : A -> A -> Prop) (RB : B -> B -> Prop),
  well_founded RA -> well_founded RB ->
  well_founded (fun p q : A * B => RA (fst p) (fst q) \/ (fst p = fst q /\ RB (snd p) (snd q))).
Proof.
  intros A B RA RB wa wb [a b]. revert b. induction (wa a) as [a _ IHa]. intros b.
  induction (wb b) as [b _ IHb]. constructor. intros [a' b'] [H|[E H]]; cbn [fst snd] in *.
  - apply IHa. assumption.
  - subst a'. apply IHb. assumption.
Qed.

(* strictly smaller distance with a non-negative staleness: well-founded *)
Definition dlt (x y : dist) : Prop := ltP x y /\ (0 <= d_stale x)%Z.

Lemma dlt_wf : well_founded dlt.
Proof.
  set (f := fun d : dist => (d_ledger d, (d_all d, d_stale d))).
  set (R3 := fun p q : nat * (nat * Z) =>
               (fst p < fst q)%nat \/
               (fst p = fst q /\ ((fst (snd p) < fst (snd q))%nat \/
                                  (fst (snd p) = fst (snd q) /\ (0 <= snd (snd p) < snd (snd q))%Z)))).
  assert (W : well_founded R3).
  { apply (lex_pair_wf lt (fun p q : nat * Z => (fst p < fst q)%nat \/ (fst p = fst q /\ (0 <= snd p < snd q)%Z))).
    - apply lt_wf.
    - apply (lex_pair_wf lt (fun x y : Z => (0 <= x < y)%Z)); [apply lt_wf|apply (Z.lt_wf 0)]. }
  apply (wf_incl _ _ (fun x y => R3 (f x) (f y))).
  - intros x y [H Hs]. unfold R3, f, ltP in *. cbn [fst snd]. lia.
  - apply (wf_inverse_image _ _ R3 f W).
Qed.

(* labels: None (no label yet) is above every label *)
Definition olt (a b : option dist) : Prop :=
  match a, b with
  | Some x, Some y => dlt x y
  | Some x, None => (0 <= d_stale x)%Z
  | None, _ => False
  end.
Definition ole (a b : option dist) : Prop := a = b \/ olt a b.

Lemma olt_wf : well_founded olt.
Proof.
  assert (S : forall x, Acc olt (Some x)).
  { intros x. induction (dlt_wf x) as [x _ IH]. constructor. intros [y|] H; [|destruct H].
    apply IH. exact H. }
  intros [x|]; [apply S|]. constructor. intros [y|] H; [apply S|destruct H].
Qed.
Lemma olt_irrefl : forall a, ~ olt a a.
Proof. intros [x|] H; [destruct H as [H _]; exact (ltP_irrefl _ H)|exact H]. Qed.
Lemma olt_trans : forall a b c, olt a b -> olt b c -> olt a c.
Proof.
  intros [x|] [y|] [z|]; cbn; try tauto.
  - intros [H1 S1] [H2 S2]. split; [eapply ltP_trans; eassumption|assumption].
  - intros [H1 S1] _. assumption.
Qed.
Lemma ole_trans : forall a b c, ole a b -> ole b c -> ole a c.
Proof.
  intros a b c [->|H1] [->|H2]; [left; reflexivity|right; assumption|right; assumption|].
  right. eapply olt_trans; eassumption.
Qed.
Lemma ole_olt_trans : forall a b c, ole a b -> olt b c -> olt a c.
Proof. intros a b c [->|H1] H2; [assumption|eapply olt_trans; eassumption]. Qed.
Lemma olt_ole_trans : forall a b c, olt a b -> ole b c -> olt a c.
Proof. intros a b c H1 [<-|H2]; [assumption|eapply olt_trans; eassumption]. Qed.

(* lists of labels of equal length, lexicographically *)
Fixpoint lexlt (l1 l2 : list (option dist)) : Prop :=
  match l1, l2 with
  | x :: a, y :: b => olt x y \/ (x = y /\ lexlt a b)
  | _, _ => False
  end.
Definition Rlex (l1 l2 : list (option dist)) : Prop := length l1 = length l2 /\ lexlt l1 l2.

Lemma Rlex_wf : well_founded Rlex.
Proof.
  assert (H : forall n l, length l = n -> Acc Rlex l).
  { induction n as [|k IHn]; intros l Hl.
    - destruct l; [|discriminate]. constructor. intros l' [_ X]. destruct l'; destruct X.
    - destruct l as [|x a]; [discriminate|]. injection Hl as Hl. revert a Hl.
      induction (olt_wf x) as [x _ IHx]. intros a Hl.
      induction (IHn a Hl) as [a _ IHa]. constructor. intros l' [Hlen X].
      destruct l' as [|x' a']; [destruct X|]. cbn in Hlen. injection Hlen as Hlen.
      destruct X as [X|[-> X]].
      + apply IHx; [assumption|congruence].
      + apply IHa; [split; assumption|congruence]. }
  intros l. apply (H (length l)). reflexivity.
Qed.

Lemma lexlt_pointwise : forall (U : list cid) (f' f : cid -> option dist),
  (forall c, In c U -> ole (f' c) (f c)) -> (exists c, In c U /\ olt (f' c) (f c)) ->
  lexlt (map f' U) (map f U).
Proof.
  induction U as [|c0 U' IH]; intros f' f Hle (c & Hin & Hlt); [destruct Hin|].
  cbn [map lexlt]. destruct (Hle c0 (or_introl eq_refl)) as [E|L]; [|left; assumption].
  right. split; [assumption|]. apply IH.
  - intros c' Hc'. apply Hle. right; assumption.
  - destruct Hin as [<-|Hin]; [rewrite E in Hlt; destruct (olt_irrefl _ Hlt)|].
    exists c. split; assumption.
Qed.

Section Termination.
  Variable recs : records.
  Variable date : Z.
  Variable U : list cid.
  Hypothesis out_closed : forall a e, In e (out_edges recs date a) -> In (e_to e) U.

  Definition lbl (t : table) (c : cid) : option dist := option_map fst (get c t).
  Definition vec (t : table) : list (option dist) := map (lbl t) U.

  Definition Rstate (s' s : table * queue) : Prop :=
    Rlex (vec (fst s')) (vec (fst s)) \/
    (vec (fst s') = vec (fst s) /\ (length (snd s') < length (snd s))%nat).

  Definition Rpair (p q : list (option dist) * nat) : Prop :=
    Rlex (fst p) (fst q) \/ (fst p = fst q /\ (snd p < snd q)%nat).
  Definition meas (s : table * queue) : list (option dist) * nat := (vec (fst s), length (snd s)).

  Lemma Rstate_wf : well_founded Rstate.
  Proof.
    apply (wf_incl _ _ (fun s' s => Rpair (meas s') (meas s))).
    - intros s' s H. exact H.
    - apply (wf_inverse_image _ _ Rpair meas). unfold Rpair.
      apply (lex_pair_wf Rlex lt Rlex_wf lt_wf).
  Qed.

  (* queue entries carry a non-negative staleness *)
  Definition Inv3 (q : queue) : Prop := forall d c r, In (d, (c, r)) q -> (0 <= d_stale d)%Z.

  (* one relaxation: nothing changes, or one label in U is strictly lowered *)
  Lemma relax1_measure : forall cd prate t q e t1 q1,
    (0 <= d_stale cd)%Z -> In (e_to e) U -> Inv3 q ->
    relax1 cd prate (t, q) e = (t1, q1) ->
    Inv3 q1 /\
    ((t1 = t /\ q1 = q) \/
     ((forall c, ole (lbl t1 c) (lbl t c)) /\ exists c, In c U /\ olt (lbl t1 c) (lbl t c))).
  Proof.
    intros cd prate t q e t1 q1 Hcd HU I3 H. unfold relax1 in H.
    set (nd := extend cd (e_src e) (e_stale e)) in *.
    assert (Hnd : (0 <= d_stale nd)%Z) by (apply extend_stale_nonneg; assumption).
    assert (Hpush : Inv3 (q ++ [(nd, (e_to e, prate * e_rate e))])).
    { intros d c r Hin. apply in_app_or in Hin. destruct Hin as [Hin|[E|[]]]; [eapply I3; eassumption|].
      inversion E; subst. assumption. }
    assert (Hset : forall old, olt (Some nd) old ->
                   lbl t (e_to e) = old ->
                   (forall c, ole (lbl (set (e_to e) (nd, prate * e_rate e) t) c) (lbl t c)) /\
                   exists c, In c U /\ olt (lbl (set (e_to e) (nd, prate * e_rate e) t) c) (lbl t c)).
    { intros old Hlt Hold. split.
      - intros c. unfold lbl. destruct (N.eq_dec (e_to e) c) as [<-|Hne].
        + rewrite pget_set_same. right. cbn [option_map fst]. unfold lbl in Hold. rewrite Hold. assumption.
        + rewrite pget_set_other by assumption. left; reflexivity.
      - exists (e_to e). split; [assumption|]. unfold lbl. rewrite pget_set_same. cbn [option_map fst].
        unfold lbl in Hold. rewrite Hold. assumption. }
    destruct (get (e_to e) t) as [[d0 r0]|] eqn:G.
    - destruct (dist_leb d0 nd) eqn:L; cbn [negb] in H; inversion H; subst t1 q1.
      + split; [assumption|left; split; reflexivity].
      + split; [assumption|right]. apply dist_leb_false_iff in L.
        apply (Hset (Some d0)); [split; assumption|unfold lbl; rewrite G; reflexivity].
    - cbn in H. inversion H; subst t1 q1. split; [assumption|right].
      apply (Hset None); [exact Hnd|unfold lbl; rewrite G; reflexivity].
  Qed.

  Lemma relax_edges_measure : forall cd prate es t q t1 q1,
    (0 <= d_stale cd)%Z -> (forall e, In e es -> In (e_to e) U) -> Inv3 q ->
    relax_edges cd prate es (t, q) = (t1, q1) ->
    Inv3 q1 /\
    ((t1 = t /\ q1 = q) \/
     ((forall c, ole (lbl t1 c) (lbl t c)) /\ exists c, In c U /\ olt (lbl t1 c) (lbl t c))).
  Proof.
    intros cd prate es. induction es as [|e r IH]; intros t q t1 q1 Hcd HU I3 H;
      unfold relax_edges in H; cbn [fold_left] in H.
    - inversion H; subst. split; [assumption|left; split; reflexivity].
    - destruct (relax1 cd prate (t, q) e) as [t0 q0] eqn:E1.
      destruct (relax1_measure _ _ _ _ _ _ _ Hcd (HU e (or_introl eq_refl)) I3 E1) as (I3' & C1).
      destruct (IH t0 q0 t1 q1 Hcd (fun e' He' => HU e' (or_intror He')) I3' H) as (I3'' & C2).
      split; [assumption|].
      destruct C1 as [[-> ->]|[A1 (c1 & U1 & L1)]]; [exact C2|].
      destruct C2 as [[-> ->]|[A2 (c2 & U2 & L2)]].
      + right. split; [assumption|exists c1; split; assumption].
      + right. split.
        * intros c. eapply ole_trans; [apply A2|apply A1].
        * exists c1. split; [assumption|]. eapply ole_olt_trans; [apply A2|exact L1].
  Qed.

  Lemma pt_loop_terminates : forall choose s,
    Inv3 (snd s) -> exists fuel t', pt_loop fuel choose recs date (fst s) (snd s) = PTDone t'.
  Proof.
    intros choose s. induction (Rstate_wf s) as [[t q] _ IH]. cbn [fst snd] in *. intros I3.
    destruct (take_at (choose q) q) as [[[cd [prev prate]] q']|] eqn:T.
    2:{ exists O, t. cbn. rewrite T. reflexivity. }
    pose proof (take_at_in _ _ _ _ T) as Hq. pose proof (take_at_length _ _ _ _ T) as Hlen.
    assert (I3' : Inv3 q').
    { intros d c r Hin. apply (I3 d c r). apply Hq. right; assumption. }
    assert (Hcd : (0 <= d_stale cd)%Z).
    { apply (I3 cd prev prate). apply Hq. left; reflexivity. }
    assert (Hsame : exists fuel t', pt_loop fuel choose recs date t q' = PTDone t').
    { apply (IH (t, q')); [|exact I3']. right. cbn [fst snd]. split; [reflexivity|lia]. }
    destruct (match get prev t with Some (pd, _) => dist_ltb pd cd | None => false end) eqn:Sk.
    - destruct Hsame as (f & t' & Hf). exists (S f), t'. cbn [pt_loop]. rewrite T, Sk. exact Hf.
    - destruct (get prev recs) as [inn|] eqn:R.
      + destruct (relax date cd prate inn (t, q')) as [t1 q1] eqn:E.
        pose proof E as E'. rewrite relax_as_edges in E'.
        assert (HU : forall e, In e (omap (edge_of date) inn) -> In (e_to e) U).
        { intros e He. apply (out_closed prev). unfold out_edges. rewrite R. assumption. }
        destruct (relax_edges_measure _ _ _ _ _ _ _ Hcd HU I3' E') as (I3'' & C).
        assert (Hnext : exists fuel t', pt_loop fuel choose recs date t1 q1 = PTDone t').
        { destruct C as [[-> ->]|[A (c & Uc & L)]]; [exact Hsame|].
          apply (IH (t1, q1)); [|exact I3'']. left. cbn [fst snd]. split.
          - unfold vec. rewrite !map_length. reflexivity.
          - apply lexlt_pointwise; [intros c' _; apply A|exists c; split; assumption]. }
        destruct Hnext as (f & t' & Hf). exists (S f), t'. cbn [pt_loop]. rewrite T, Sk, R, E. exact Hf.
      + destruct Hsame as (f & t' & Hf). exists (S f), t'. cbn [pt_loop]. rewrite T, Sk, R. exact Hf.
  Qed.
End Termination.

(* every commodity an edge can lead to *)
Definition rec_comms (recs : records) : list cid := flat_map (fun wi => keys (snd wi)) recs.

Lemma out_edges_in_rec_comms : forall recs date a e,
  In e (out_edges recs date a) -> In (e_to e) (rec_comms recs).
Proof.
  intros recs date a e H. unfold out_edges in H. destruct (get a recs) as [inn|] eqn:G; [|destruct H].
  apply in_omap in H. destruct H as ([o en] & Hin & Hf). unfold edge_of in Hf. cbn [fst snd] in Hf.
  destruct (as_of (pe_rates en) date) as [[rd rate]|]; [|discriminate]. inversion Hf; subst. cbn [e_to].
  unfold rec_comms. apply in_flat_map. exists (a, inn). split; [apply get_In; assumption|].
  cbn [snd]. unfold keys. change o with (fst (o, en)). apply in_map. assumption.
Qed.

(* C09 termination: for every pop order there is a fuel with which the search finishes *)
Theorem table_terminates : forall choose recs target date,
  exists fuel t, price_table fuel choose recs target date = PTDone t.
Proof.
  intros choose recs target date. unfold price_table.
  apply (pt_loop_terminates recs date (rec_comms recs) (out_edges_in_rec_comms recs date) choose
                            ([], [(dist0, (target, 1))])).
  intros d c r [E|[]]. inversion E; subst. cbn. lia.
Qed.

(* more fuel never changes a finished search; hence one fuel serves finitely many dates *)
Lemma pt_loop_fuel_mono : forall choose recs date f t q t',
  pt_loop f choose recs date t q = PTDone t' ->
  forall k, pt_loop (f + k) choose recs date t q = PTDone t'.
Proof.
  intros choose recs date f. induction f as [|f IH]; intros t q t' H k.
  - cbn [pt_loop] in H. destruct (take_at (choose q) q) as [[[cd [prev prate]] q']|] eqn:T; [discriminate|].
    destruct (0 + k)%nat; cbn [pt_loop]; rewrite T; exact H.
  - cbn [Nat.add pt_loop] in *. destruct (take_at (choose q) q) as [[[cd [prev prate]] q']|] eqn:T; [|exact H].
    destruct (match get prev t with Some (pd, _) => dist_ltb pd cd | None => false end).
    + apply IH. exact H.
    + destruct (get prev recs) as [inn|].
      * destruct (relax date cd prate inn (t, q')) as [t1 q1]. apply IH. exact H.
      * apply IH. exact H.
Qed.

Theorem uniform_fuel : forall choose recs target (dates : list Z),
  exists fuel, forall d, In d dates -> exists t, price_table fuel choose recs target d = PTDone t.
Proof.
  intros choose recs target dates. induction dates as [|d r IH].
  - exists O. intros d [].
  - destruct IH as [f2 H2]. destruct (table_terminates choose recs target d) as (f1 & t1 & H1).
    exists (f1 + f2)%nat. intros d' [<-|Hin].
    + exists t1. apply pt_loop_fuel_mono. exact H1.
    + destruct (H2 d' Hin) as [t2 E2]. exists t2. rewrite Nat.add_comm. apply pt_loop_fuel_mono. exact E2.
Qed.
