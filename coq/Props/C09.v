(* C09 — commodity conversion uses the right price.
   Model: Model/PriceDb.v (report::price_db).  Spec: Model/PriceSpec.v.  A price graph is the
   function `out_edges recs D` (edges out of a commodity as of date D); walks, their distance
   (ledger hops, hops, greatest staleness; lexicographic `leP`/`ltP`) and rate are PriceSpec's.
   The target's own table entry (a cycle back to it) is never read: statements are for
   c <> target. *)
From Coq Require Import List NArith ZArith Bool QArith Qcanon.
From Okv Require Import Base.Maps Base.Dec Model.Amount Model.Book Model.PriceDb Model.PriceSpec
     Proofs.PriceProofs Proofs.PriceGraph Proofs.PriceTable Proofs.PriceMain.
Import ListNotations.
Open Scope Qc_scope.

(* the record used is dated <= D and is the latest such (the greatest rate among several of
   that day); on what `build` stores, i.e. the sorted vector *)
Theorem C09_as_of : forall rs D d r,
  as_of (dr_sort rs) D = Some (d, r) <->
  In (d, r) rs /\ (d <= D)%Z /\
  forall d' r', In (d', r') rs -> (d' <= D)%Z -> dr_leP (d', r') (d, r).
Proof. exact as_of_build_some. Qed.
Print Assumptions C09_as_of.

(* no record is used exactly when all are dated after D *)
Theorem C09_as_of_none : forall rs D,
  as_of (dr_sort rs) D = None <-> forall d r, In (d, r) rs -> (D < d)%Z.
Proof. exact as_of_build_none. Qed.
Print Assumptions C09_as_of_none.

(* converting into the commodity the value already has is the identity; no price is looked up *)
Theorem C09_identity : forall fuel choose recs c v date,
  convert_single fuel choose recs c v c date = COk (c, v).
Proof. exact convert_single_identity. Qed.
Print Assumptions C09_identity.

(* after the ledger's events and then the price DB, an ordered pair holds exactly the price-DB
   records if there is one, else the ledger-derived ones (sorted); `pair_records` reads them
   off the event lists *)
Theorem C09_source_precedence : forall evs db w o,
  (forall e, In e evs -> e_source e = SLedger) ->
  lookup (repository evs db) w o =
  match pair_records evs db w o with
  | (_, []) => None
  | (src, rs) => Some {| pe_source := src; pe_rates := dr_sort rs |}
  end.
Proof. exact repository_lookup. Qed.
Print Assumptions C09_source_precedence.

(* a record for (A, B) at rate r is a record for (B, A) at 1/r with the same date and source *)
Theorem C09_reciprocal : forall evs db a b en d r,
  (forall x, In x evs -> e_source x = SLedger) ->
  lookup (repository evs db) a b = Some en -> In (d, r) (pe_rates en) ->
  r <> 0 /\
  exists en', lookup (repository evs db) b a = Some en' /\ pe_source en' = pe_source en /\
              In (d, / r) (pe_rates en').
Proof. exact repository_reciprocal. Qed.
Print Assumptions C09_reciprocal.

(* the graph the rate-table search walks is the one read off the events by the spec *)
Theorem C09_edges_from_events : forall evs db D w e,
  (forall x, In x evs -> e_source x = SLedger) ->
  (In e (out_edges (repository evs db) D w) <-> In e (spec_out evs db (ev_comms evs db) D w)).
Proof. exact edges_from_events. Qed.
Print Assumptions C09_edges_from_events.

(* every label of the table is the (distance, rate) of an actual chain of edges from the
   target, whatever order the heap pops in *)
Theorem C09_table_sound : forall recs date target choose fuel t c d r,
  price_table fuel choose recs target date = PTDone t -> get c t = Some (d, r) ->
  exists w, w <> [] /\ is_walk (out_edges recs date) target w c /\ walk_dist w = d /\ walk_rate w = r.
Proof. exact table_sound. Qed.
Print Assumptions C09_table_sound.

(* at termination no chain from the target is shorter than the label *)
Theorem C09_table_optimal_walks : forall recs date target choose fuel t w c,
  price_table fuel choose recs target date = PTDone t -> w <> [] ->
  is_walk (out_edges recs date) target w c ->
  exists d r, get c t = Some (d, r) /\ leP d (walk_dist w).
Proof. exact table_optimal. Qed.
Print Assumptions C09_table_optimal_walks.

(* the table against the executable brute force over simple paths: same distance, the rate is
   that of an optimal chain, and no entry exactly when there is no chain *)
Theorem C09_table_optimal : forall choose fuel recs target date t c,
  price_table fuel choose recs target date = PTDone t -> c <> target ->
  (forall d r, get c t = Some (d, r) ->
               best (out_edges recs date) (length (rec_comms recs)) target c = Some d /\
               In r (best_rates (out_edges recs date) (length (rec_comms recs)) target c)) /\
  (get c t = None <-> best (out_edges recs date) (length (rec_comms recs)) target c = None).
Proof. exact table_vs_best_rec. Qed.
Print Assumptions C09_table_optimal.

(* `best` is what it claims: the least distance over ALL chains, attained *)
Theorem C09_best_is_least : forall recs date target c d,
  best (out_edges recs date) (length (rec_comms recs)) target c = Some d ->
  (exists w, w <> [] /\ is_walk (out_edges recs date) target w c /\ walk_dist w = d) /\
  (forall w, w <> [] -> c <> target -> is_walk (out_edges recs date) target w c -> leP d (walk_dist w)).
Proof. exact best_is_least_rec. Qed.
Print Assumptions C09_best_is_least.

(* from the events to the answer: the rate in the table is one of the optimal rates of the
   spec computed from the events alone (the predicate of the correspondence check) *)
Theorem C09_table_from_events : forall evs db choose fuel target date t c,
  (forall x, In x evs -> e_source x = SLedger) ->
  price_table fuel choose (repository evs db) target date = PTDone t -> c <> target ->
  (forall d r, get c t = Some (d, r) -> In r (spec_rates evs db date target c)) /\
  (get c t = None <-> spec_rates evs db date target c = []).
Proof. exact table_from_events. Qed.
Print Assumptions C09_table_from_events.

(* the conversion fails exactly when no chain of prices exists *)
Theorem C09_fails_iff_no_chain : forall fuel choose recs c v target date t,
  price_table fuel choose recs target date = PTDone t -> c <> target ->
  ((exists e, convert_single fuel choose recs c v target date = CErr e) <->
   (forall w, ~ is_walk (out_edges recs date) target w c)).
Proof. exact fails_iff_no_chain. Qed.
Print Assumptions C09_fails_iff_no_chain.

(* the search terminates for every pop order (each push strictly lowers a label in a
   well-founded order): some fuel suffices *)
Theorem C09_terminates : forall choose recs target date,
  exists fuel t, price_table fuel choose recs target date = PTDone t.
Proof. exact table_terminates. Qed.
Print Assumptions C09_terminates.
