(* C02: balance assertions are checked against the live balance right after their posting;
   the live balance is the file-order running sum except for the known class C02-K1. *)
From Coq Require Import List NArith ZArith Bool QArith Qcanon Lia.
From Okv Require Import Base.Maps Base.Dec Model.Amount Model.Book Model.Query Model.BookSpecB
     Proofs.BookB_Maps Proofs.BookB_Inv.
Import ListNotations.
Open Scope Qc_scope.

(* ---- assert_balance ---- *)
Lemma holds_ext expected f g : (forall c, f c = g c) -> holds expected f -> holds expected g.
Proof.
  intros H. destruct expected as [|c v]; cbn [holds].
  - intros Hf c. now rewrite <- H.
  - now rewrite <- H.
Qed.

Lemma nozero_get_all_zero cur : nozero cur -> (forall c, a_get cur c = 0) -> cur = [].
Proof.
  intros Hnz H. destruct cur as [|[c v] r]; [reflexivity|]. exfalso.
  specialize (H c). unfold a_get in H. cbn [get] in H. rewrite N.eqb_refl in H.
  eapply Hnz; [left; reflexivity|exact H].
Qed.

Lemma assert_balance_nil_iff cur expected :
  nozero cur -> (assert_balance cur expected = [] <-> holds expected (a_get cur)).
Proof.
  intro Hnz. destruct expected as [|c v]; cbn [assert_balance holds].
  - destruct (a_is_zero cur) eqn:E.
    + split; [intros _|reflexivity]. apply a_is_zero_nozero in E; [|assumption]. subst. intro c. apply a_get_nil.
    + split.
      * intro H. destruct cur; [discriminate E|discriminate H].
      * intro H. apply nozero_get_all_zero in H; [|assumption]. subst. discriminate E.
  - destruct (qc_zero (v - a_get cur c)) eqn:E.
    + split; [intros _|reflexivity]. apply qc_zero_true in E.
      transitivity (a_get cur c + (v - a_get cur c)); [rewrite E|]; ring.
    + split; [discriminate|]. intro H. apply qc_zero_false in E. exfalso. apply E. rewrite H. ring.
Qed.

Lemma assert_balance_diff cur expected :
  assert_balance cur expected <> [] -> assert_balance cur expected = assert_diff expected cur.
Proof.
  destruct expected as [|c v]; cbn [assert_balance assert_diff].
  - destruct (a_is_zero cur); [congruence|reflexivity].
  - destruct (qc_zero (v - a_get cur c)); [congruence|reflexivity].
Qed.

(* ---- C02(1): the check made by process_posting ---- *)
Theorem assert_checked b date i p sa bc expected :
  p_amount p = Some sa -> p_balance p = Some bc -> eval_pa bc = Ok expected ->
  (forall r, process_posting b date i p = Ok r ->
     exists amt, eval_pa sa = Ok amt /\
       let current := snd (bal_add_pa b (p_account p) amt) in
       fst (fst r) = fst (bal_add_pa b (p_account p) amt)
       /\ assert_balance current expected = []
       /\ holds expected (a_get current)
       /\ (expected = PZero -> current = []))
  /\ (forall amt cl, eval_pa sa = Ok amt -> eval_cost_lot amt p = Ok cl ->
       let current := snd (bal_add_pa b (p_account p) amt) in
       ~ holds expected (a_get current) ->
       process_posting b date i p = Err (BalanceAssertionFailure i current (assert_diff expected current))).
Proof.
  intros Hsa Hbc Hexp. split.
  - intros r H. destruct (pp_amount _ _ _ _ _ _ Hsa H) as (amt & conv & delta & ev & Eamt & Hr & Has).
    exists amt. split; [assumption|]. cbn zeta. subst r. cbn [fst]. split; [reflexivity|].
    destruct (Has bc Hbc) as (expected' & Hexp' & Hnil). rewrite Hexp in Hexp'. injection Hexp' as <-.
    split; [assumption|].
    pose proof (bal_add_pa_nozero b (p_account p) amt) as Hnz.
    assert (Hh : holds expected (a_get (snd (bal_add_pa b (p_account p) amt))))
      by (now apply assert_balance_nil_iff).
    split; [assumption|]. intros ->. cbn [holds] in Hh. now apply nozero_get_all_zero.
  - intros amt [cost lot] Eamt Ecl current Hnh.
    assert (Hne : assert_balance current expected <> []).
    { intro Hx. apply Hnh. apply assert_balance_nil_iff; [apply bal_add_pa_nozero|assumption]. }
    unfold process_posting. rewrite Hsa, Eamt. cbn [bind].
    unfold eval_cost_lot in Ecl.
    destruct (match p_cost p with Some x => do r <- xchg_from_syntax amt x; Ok (Some r) | None => Ok None end)
      as [cost'|e|]; cbn [bind] in Ecl; try discriminate. cbn [bind].
    destruct (match p_lot p with Some x => do r <- xchg_from_syntax amt x; Ok (Some r) | None => Ok None end)
      as [lot'|e|]; cbn [bind] in Ecl; try discriminate. cbn [bind].
    subst current. destruct (bal_add_pa b (p_account p) amt) as [b' current] eqn:Eb. cbn [snd] in *.
    rewrite Hbc, Hexp. cbn [bind].
    destruct (assert_balance current expected) as [|d0 dr] eqn:Ed; [congruence|].
    cbn [a_is_absolute_zero bind]. rewrite <- Ed, assert_balance_diff by congruence. reflexivity.
Qed.

(* ---- C02(2): no zero entries, distinct keys, in every reachable state ---- *)
Theorem balance_no_zero_entries s :
  reachable s ->
  NoDup (keys (s_bal s))
  /\ forall a x, In (a, x) (s_bal s) -> NoDup (keys x) /\ forall c v, In (c, v) x -> v <> 0.
Proof. intro R. destruct (inv_bal _ (reachable_inv _ R)) as [H1 H2]. split; [assumption|]. intros a x Hin. apply (H2 a x Hin). Qed.

(* ---- C02(3): the live balance is the sum of the stored postings ---- *)
Theorem running_balance s :
  reachable s -> forall a c, a_get (bal_get (s_bal s) a) c = sum_posts (all_postings s) a c.
Proof. intro R. apply (inv_sum _ (reachable_inv _ R)). Qed.

(* the balance an assertion on posting i is checked against *)
Theorem live_balance_at_assertion s t i st p sa amt :
  Inv s -> loop_upto s t i = Ok st -> nth_error (t_posts t) i = Some p ->
  p_amount p = Some sa -> eval_pa sa = Ok amt ->
  let current := snd (bal_add_pa (l_bal st) (p_account p) amt) in
  forall c, a_get current c =
            sum_posts (all_postings s) (p_account p) c
            + sum_posts (rev (l_posts st)) (p_account p) c + pa_get amt c.
Proof.
  intros I Hl Hn Hsa Eamt current c. subst current.
  assert (Hi : (i <= length (t_posts t))%nat).
  { apply Nat.lt_le_incl. apply nth_error_Some. congruence. }
  pose proof (loop_upto_inv s t (inv_bal _ I) i st Hi Hl) as L.
  rewrite bal_add_pa_snd, bal_add_pa_get by apply (li_bal _ _ _ _ L).
  rewrite N.eqb_refl, (li_sum _ _ _ _ L), (inv_sum _ I). ring.
Qed.

(* ---- sums over the postings of the current transaction ---- *)
Definition acct_match (p : posting) (o : oposting) : Prop := o_account o = p_account p.

Lemma sum_live_same syn : forall posts posts' n a c,
  Forall2 same_amt posts posts' -> sum_live syn posts n a c = sum_live syn posts' n a c.
Proof.
  induction syn as [|p syn IH]; intros posts posts' n a c H; destruct n; try reflexivity.
  destruct H as [|o o' posts posts' Ho H]; [reflexivity|]. cbn [sum_live].
  rewrite (IH _ _ n a c H), (contrib_same a c _ _ Ho). reflexivity.
Qed.

Lemma sum_live_set_nth f syn : forall posts u q n a c,
  nth_error syn u = Some q -> is_omitted q = true ->
  sum_live syn (set_nth u f posts) n a c = sum_live syn posts n a c.
Proof.
  induction syn as [|p syn IH]; intros posts u q n a c Hq Hom; destruct u; cbn in Hq; try discriminate.
  - injection Hq as ->. destruct posts as [|o posts]; destruct n; try reflexivity.
    cbn [set_nth sum_live]. now rewrite Hom.
  - destruct posts as [|o posts]; destruct n; try reflexivity.
    cbn [set_nth sum_live]. now rewrite (IH posts u q n a c Hq Hom).
Qed.

(* the live sum equals the sum over the loop's postings: an omitted posting holds [] there *)
Lemma sum_live_loop syn : forall posts n a c,
  Forall2 (fun p o => o_account o = p_account p /\ (is_omitted p = true -> o_amount o = [])) syn posts ->
  sum_live syn posts n a c = sum_posts (firstn n posts) a c.
Proof.
  induction syn as [|p syn IH]; intros posts n a c H; inversion H as [|? o ? posts' [Ha Ho] H']; subst.
  - destruct n; reflexivity.
  - destruct n; [reflexivity|]. cbn [sum_live firstn]. rewrite sum_posts_cons, (IH _ n a c H').
    destruct (is_omitted p) eqn:E; [|reflexivity].
    unfold contrib. rewrite (Ho eq_refl), a_get_nil. destruct (o_account o =? a)%N; reflexivity.
Qed.

(* outside C02-K1 the live sum is the file-order sum *)
Lemma sum_live_file syn : forall posts n a c,
  Forall2 acct_match syn posts -> omitted_before a n syn = false ->
  sum_live syn posts n a c = sum_posts (firstn n posts) a c.
Proof.
  induction syn as [|p syn IH]; intros posts n a c H Hk; inversion H as [|? o ? posts' Ha H']; subst.
  - destruct n; reflexivity.
  - destruct n; [reflexivity|]. cbn [sum_live firstn]. cbn [omitted_before] in Hk.
    apply orb_false_iff in Hk. destruct Hk as [Hk1 Hk2].
    rewrite sum_posts_cons, (IH _ n a c H' Hk2).
    destruct (is_omitted p) eqn:E; [|reflexivity].
    rewrite andb_true_r in Hk1. unfold contrib. red in Ha. rewrite Ha, Hk1. reflexivity.
Qed.

Lemma omitted_before_S a : forall syn i p,
  omitted_before a i syn = false -> nth_error syn i = Some p -> is_omitted p = false ->
  omitted_before a (S i) syn = false.
Proof.
  induction syn as [|q syn IH]; intros i p Hk Hn Hom; [destruct i; discriminate|].
  destruct i.
  - cbn in Hn. injection Hn as ->. cbn [omitted_before]. rewrite Hom, andb_false_r. cbn [orb].
    destruct syn; reflexivity.
  - cbn in Hn. cbn [omitted_before] in Hk. apply orb_false_iff in Hk. destruct Hk as [Hk1 Hk2].
    change (omitted_before a (S (S i)) (q :: syn)) with
      (((p_account q =? a)%N && is_omitted q) || omitted_before a (S i) syn).
    rewrite Hk1. cbn [orb]. eapply IH; eauto.
Qed.

Lemma acct_match_set_nth d : forall syn posts u,
  Forall2 acct_match syn posts -> Forall2 acct_match syn (set_nth u (fill_deduced d) posts).
Proof.
  intros syn posts u H. revert u. induction H as [|p o syn posts Hpo H IH]; intros [|u]; cbn [set_nth];
    constructor; auto.
Qed.

Lemma acct_match_same syn posts posts' :
  Forall2 acct_match syn posts -> Forall2 same_amt posts posts' -> Forall2 acct_match syn posts'.
Proof.
  intro H. revert posts'. induction H as [|p o syn posts Hpo H IH]; intros posts' Hs;
    inversion Hs as [|? o' ? posts'' [Ha _] Hs']; subst; constructor; auto.
  unfold acct_match in *. congruence.
Qed.

(* a passed assertion, seen from the loop step *)
Lemma loop_step_assert date st i p st' sa bc expected :
  loop_step date (Ok st) (i, p) = Ok st' ->
  p_amount p = Some sa -> p_balance p = Some bc -> eval_pa bc = Ok expected ->
  holds expected (a_get (bal_get (l_bal st') (p_account p))).
Proof.
  intros H Hsa Hbc Hexp. unfold loop_step in H. cbn [bind] in H.
  destruct (process_posting (l_bal st) date i p) as [r|e|] eqn:Epp; cbn [bind] in H; try discriminate.
  destruct (proj1 (assert_checked _ date i _ _ _ _ Hsa Hbc Hexp) r Epp) as (amt & _ & Hb & _ & Hh & _).
  destruct r as [[b' ep] ev]. cbn [fst] in Hb.
  assert (Hst : l_bal st' = b').
  { destruct ep as [e|]; [injection H as <-; reflexivity|].
    destruct (l_unfilled st); [discriminate|]. injection H as <-. reflexivity. }
  rewrite Hst, Hb, <- bal_add_pa_snd. exact Hh.
Qed.

(* ---- C02(3), in-transaction: what a passed assertion says about the stored postings ---- *)
Theorem assertion_live s t s' i p sa bc expected :
  Inv s -> add_transaction s t = Ok s' ->
  nth_error (t_posts t) i = Some p -> p_amount p = Some sa -> p_balance p = Some bc ->
  eval_pa bc = Ok expected ->
  exists ot, s_txns s' = s_txns s ++ [ot]
    /\ Forall2 acct_match (t_posts t) (o_posts ot)
    /\ holds expected (running_live (all_postings s) (t_posts t) (o_posts ot) i (p_account p)).
Proof.
  intros I H Hn Hsa Hbc Hexp.
  destruct (add_transaction_stored _ _ _ H) as (stf & ot & Hloop & Htx & _ & _ & Hcase).
  pose proof (inv_bal _ I) as Hwf.
  pose proof (txn_loop_inv s t stf Hwf Hloop) as Lf.
  pose proof (li_match _ _ _ _ Lf) as Hm. rewrite firstn_all in Hm.
  assert (Hi : (i < length (t_posts t))%nat) by (apply nth_error_Some; congruence).
  rewrite <- loop_upto_all in Hloop.
  replace (length (t_posts t)) with (S i + (length (t_posts t) - S i))%nat in Hloop by lia.
  assert (Hle : (S i + (length (t_posts t) - S i) <= length (t_posts t))%nat) by lia.
  destruct (loop_upto_prefix s t Hwf _ _ _ Hle Hloop) as (st1 & H1 & Hrev).
  destruct (loop_upto_prev _ _ _ _ _ Hn H1) as (st0 & H0 & Hstep).
  pose proof (loop_step_assert _ _ _ _ _ _ _ _ Hstep Hsa Hbc Hexp) as Hh.
  assert (Hle1 : (S i <= length (t_posts t))%nat) by lia.
  pose proof (loop_upto_inv s t Hwf (S i) st1 Hle1 H1) as L1.
  assert (Hm' : Forall2 acct_match (t_posts t) (rev (l_posts stf))).
  { clear -Hm. induction Hm as [|a b l l' [Hx _] _ IH]; constructor; assumption. }
  (* the live sum over the final stored postings = the sum over the loop's postings *)
  assert (Hlive : forall c, sum_live (t_posts t) (o_posts ot) (S i) (p_account p) c
                            = sum_posts (firstn (S i) (rev (l_posts stf))) (p_account p) c).
  { intro c. rewrite <- (sum_live_loop _ _ _ _ _ Hm).
    destruct (l_unfilled stf) as [u|] eqn:Eu.
    - destruct Hcase as [Hposts _]. rewrite Hposts.
      pose proof (li_unf _ _ _ _ Lf) as Hu. rewrite Eu in Hu. destruct Hu as (_ & (q & Hq & Hqom) & _).
      eapply sum_live_set_nth; eauto.
    - destruct Hcase as [Hsame _]. symmetry. now apply sum_live_same. }
  exists ot. split; [assumption|]. split.
  - destruct (l_unfilled stf) as [u|].
    + destruct Hcase as [-> _]. now apply acct_match_set_nth.
    + destruct Hcase as [Hsame _]. eapply acct_match_same; eauto.
  - eapply holds_ext; [|exact Hh]. intro c. unfold running_live.
    rewrite (li_sum _ _ _ _ L1), (inv_sum _ I), Hrev, Hlive. reflexivity.
Qed.

Theorem assertions_hold_outside_K1_txn s t s' i p sa bc expected :
  Inv s -> add_transaction s t = Ok s' ->
  nth_error (t_posts t) i = Some p -> p_amount p = Some sa -> p_balance p = Some bc ->
  eval_pa bc = Ok expected -> known_class t i = false ->
  exists ot, s_txns s' = s_txns s ++ [ot]
    /\ holds expected (running (all_postings s) (o_posts ot) i (p_account p)).
Proof.
  intros I H Hn Hsa Hbc Hexp Hk.
  destruct (assertion_live _ _ _ _ _ _ _ _ I H Hn Hsa Hbc Hexp) as (ot & Htx & Hm & Hh).
  exists ot. split; [assumption|]. eapply holds_ext; [|exact Hh]. intro c.
  unfold running_live, running. f_equal. apply sum_live_file; [assumption|].
  unfold known_class in Hk. rewrite Hn in Hk. eapply omitted_before_S; eauto.
  unfold is_omitted. now rewrite Hsa.
Qed.

(* ---- whole ledgers ---- *)
Lemma process_from_split es1 : forall i s e es2 r n,
  process_from i s (es1 ++ e :: es2) = (r, n) ->
  (exists s1, process_from i s es1 = (Ok s1, (i + length es1)%nat)
              /\ process_from (i + length es1) s1 (e :: es2) = (r, n))
  \/ (exists x, r = Err x /\ (n < i + length es1)%nat /\ process_from i s es1 = (r, n))
  \/ (r = Panic /\ (n < i + length es1)%nat /\ process_from i s es1 = (r, n)).
Proof.
  induction es1 as [|e1 es1 IH]; intros i s e es2 r n H.
  - left. exists s. cbn [app length] in *. rewrite Nat.add_0_r. split; [reflexivity|assumption].
  - cbn [app process_from] in H. cbn [process_from length].
    destruct (process_entry s e1) as [s1|x|] eqn:E.
    + replace (i + S (length es1))%nat with (S i + length es1)%nat by lia. now apply IH.
    + injection H as <- <-. right. left. exists x. repeat split; [lia].
    + injection H as <- <-. right. right. repeat split; lia.
Qed.

Lemma process_from_txns es : forall i s L n,
  process_from i s es = (Ok L, n) ->
  exists rest, s_txns L = s_txns s ++ rest /\ length rest = count_txns es.
Proof.
  induction es as [|e es IH]; intros i s L n H; cbn [process_from] in H.
  - injection H as <- _. exists []. now rewrite app_nil_r.
  - destruct (process_entry s e) as [s1|x|] eqn:E; try discriminate.
    destruct (IH _ _ _ _ H) as (rest & Hr & Hl).
    destruct e as [t|c dp|]; cbn [process_entry] in E.
    + destruct (add_transaction_stored _ _ _ E) as (_ & ot & _ & Htx & _).
      exists (ot :: rest). rewrite Hr, Htx, <- app_assoc. split; [reflexivity|].
      unfold count_txns in *. cbn [filter length]. now rewrite Hl.
    + injection E as <-. exists rest. split; assumption.
    + injection E as <-. exists rest. split; assumption.
Qed.

Theorem assertions_hold_outside_K1 es es1 t es2 L n i p sa bc expected :
  process es = (Ok L, n) -> es = es1 ++ ETxn t :: es2 ->
  nth_error (t_posts t) i = Some p -> p_amount p = Some sa -> p_balance p = Some bc ->
  eval_pa bc = Ok expected -> known_class t i = false ->
  exists pre ot post,
    s_txns L = pre ++ ot :: post /\ length pre = count_txns es1
    /\ holds expected (running (flat_map o_posts pre) (o_posts ot) i (p_account p)).
Proof.
  intros H -> Hn Hsa Hbc Hexp Hk. unfold process in H.
  destruct (process_from_split _ _ _ _ _ _ _ H) as [(s1 & H1 & H2)|[(x & Hx & _)|(Hx & _)]]; try discriminate.
  cbn [process_from] in H2.
  destruct (process_entry s1 (ETxn t)) as [s2|x|] eqn:E; try discriminate. cbn [process_entry] in E.
  pose proof (process_from_inv _ _ _ _ _ Inv_init H1) as I1.
  destruct (assertions_hold_outside_K1_txn _ _ _ _ _ _ _ _ I1 E Hn Hsa Hbc Hexp Hk) as (ot & Htx & Hh).
  destruct (process_from_txns _ _ _ _ _ H2) as (post & Hpost & _).
  destruct (process_from_txns _ _ _ _ _ H1) as (pre & Hpre & Hlen). cbn [bstate0 s_txns app] in Hpre.
  exists (s_txns s1), ot, post. split; [|split].
  - rewrite Hpost, Htx, <- app_assoc. reflexivity.
  - now rewrite Hpre.
  - exact Hh.
Qed.

(* ---- C02(4): the first false assertion is the one reported ---- *)
Lemma loop_first_err s t e : forall n,
  (n <= length (t_posts t))%nat -> loop_upto s t n = Err e ->
  exists k st p, (k < n)%nat /\ loop_upto s t k = Ok st /\ nth_error (t_posts t) k = Some p
                 /\ loop_step (t_date t) (Ok st) (k, p) = Err e.
Proof.
  induction n as [|n IH]; intros Hn H.
  - discriminate H.
  - destruct (nth_error (t_posts t) n) as [p|] eqn:Hp.
    2:{ apply nth_error_None in Hp. lia. }
    rewrite (loop_upto_S _ _ _ _ Hp) in H.
    destruct (loop_upto s t n) as [st|e'|] eqn:E.
    + exists n, st, p. repeat split; try assumption. lia.
    + cbn in H. injection H as ->. destruct (IH ltac:(lia) eq_refl) as (k & st & q & Hk & Hrest).
      exists k, st, q. split; [lia|assumption].
    + discriminate H.
Qed.

Lemma process_from_err es : forall i0 s0 x k, Inv s0 ->
  process_from i0 s0 es = (Err x, k) ->
  exists es1 e es2 s, es = es1 ++ e :: es2 /\ (i0 + length es1)%nat = k
    /\ process_from i0 s0 es1 = (Ok s, k) /\ Inv s /\ process_entry s e = Err x.
Proof.
  induction es as [|e es IH]; intros i0 s0 x k I0 H; cbn [process_from] in H; [discriminate|].
  destruct (process_entry s0 e) as [s1|y|] eqn:E.
  - destruct (IH _ _ _ _ (process_entry_inv _ _ _ I0 E) H) as (es1 & e' & es2 & s & -> & Hk & Hp & Is & Ht).
    exists (e :: es1), e', es2, s. cbn [app length process_from]. rewrite E.
    split; [reflexivity|]. split; [lia|]. split; [assumption|]. split; assumption.
  - injection H as -> <-. exists [], e, es, s0. cbn [app length process_from]. rewrite Nat.add_0_r.
    split; [reflexivity|]. split; [reflexivity|]. split; [reflexivity|]. split; assumption.
  - discriminate.
Qed.

Lemma loop_step_err_assert date st k p j computed diff :
  loop_step date (Ok st) (k, p) = Err (BalanceAssertionFailure j computed diff) ->
  process_posting (l_bal st) date k p = Err (BalanceAssertionFailure j computed diff).
Proof.
  unfold loop_step. cbn [bind].
  destruct (process_posting (l_bal st) date k p) as [r|e|]; cbn [bind]; try discriminate.
  - destruct r as [[b' ep] ev]. destruct ep; [discriminate|]. destruct (l_unfilled st); discriminate.
  - intros [= ->]. reflexivity.
Qed.

Lemma add_transaction_assert_err s t j computed diff :
  add_transaction s t = Err (BalanceAssertionFailure j computed diff) ->
  exists k st p, loop_upto s t k = Ok st /\ nth_error (t_posts t) k = Some p
                 /\ loop_step (t_date t) (Ok st) (k, p) = Err (BalanceAssertionFailure j computed diff).
Proof.
  intro H. assert (Hl : txn_loop s t = Err (BalanceAssertionFailure j computed diff)).
  { unfold add_transaction in H. unfold txn_loop.
    destruct (fold_left (loop_step (t_date t)) (enumerate 0 (t_posts t))
                (Ok {| l_bal := s_bal s; l_posts := []; l_unfilled := None; l_residual := a_zero; l_events := [] |}))
      as [st|e|]; cbn [bind] in H; try discriminate.
    - exfalso. destruct (l_unfilled st); [discriminate|].
      unfold check_balance in H.
      repeat match type of H with
             | context [match ?x with _ => _ end] => destruct x; cbn [bind] in H; try discriminate
             | context [if ?x then _ else _] => destruct x; cbn [bind] in H; try discriminate
             end.
    - now injection H as ->. }
  rewrite <- loop_upto_all in Hl.
  destruct (loop_first_err _ _ _ _ (Nat.le_refl _) Hl) as (k & st & p & _ & H1 & H2 & H3).
  exists k, st, p. split; [assumption|]. split; assumption.
Qed.

Theorem first_failure_reported es i computed diff k :
  process es = (Err (BalanceAssertionFailure i computed diff), k) ->
  exists es1 t es2 s,
    es = es1 ++ ETxn t :: es2 /\ length es1 = k /\ process es1 = (Ok s, k)
    /\ exists st p sa bc amt expected,
         loop_upto s t i = Ok st /\ nth_error (t_posts t) i = Some p
         /\ p_amount p = Some sa /\ p_balance p = Some bc
         /\ eval_pa sa = Ok amt /\ eval_pa bc = Ok expected
         /\ computed = snd (bal_add_pa (l_bal st) (p_account p) amt)
         /\ diff = assert_diff expected computed
         /\ ~ holds expected (a_get computed)
         /\ forall c, a_get computed c =
                      sum_posts (all_postings s) (p_account p) c
                      + sum_posts (rev (l_posts st)) (p_account p) c + pa_get amt c.
Proof.
  unfold process. intro H.
  destruct (process_from_err _ _ _ _ _ Inv_init H) as (es1 & e & es2 & s & -> & Hk & Hp & Is & He).
  cbn [Nat.add] in Hk.
  destruct e as [t|c dp|]; cbn [process_entry] in He; try discriminate.
  exists es1, t, es2, s. split; [reflexivity|]. split; [assumption|]. split; [assumption|].
  destruct (add_transaction_assert_err _ _ _ _ _ He) as (j & st & p & Hl & Hn & Hs).
  apply loop_step_err_assert in Hs.
  destruct (pp_assert_err _ _ _ _ _ _ _ Hs) as (<- & sa & bc & amt & cl & expected & Hsa & Hbc & Eamt & Ecl & Eexp & Hc & Hd & Hne).
  exists st, p, sa, bc, amt, expected.
  split; [assumption|]. split; [assumption|]. split; [assumption|]. split; [assumption|].
  split; [assumption|]. split; [assumption|]. split; [assumption|]. split; [|split].
  - rewrite Hd. apply assert_balance_diff. now rewrite <- Hd.
  - intro Hh. apply Hne. rewrite Hd. apply assert_balance_nil_iff; [|assumption].
    rewrite Hc. apply bal_add_pa_nozero.
  - rewrite Hc. eapply live_balance_at_assertion; eauto.
Qed.

(* ---- the converse: a false assertion is rejected, at its posting ---- *)
Lemma txn_loop_from_upto s t k :
  txn_loop s t = fold_left (loop_step (t_date t)) (skipn k (enumerate 0 (t_posts t))) (loop_upto s t k).
Proof.
  unfold txn_loop, loop_upto. rewrite <- fold_left_app, firstn_skipn. reflexivity.
Qed.

Lemma process_from_app_ok es1 : forall i s s1 es2,
  process_from i s es1 = (Ok s1, (i + length es1)%nat) ->
  process_from i s (es1 ++ es2) = process_from (i + length es1) s1 es2.
Proof.
  induction es1 as [|e es1 IH]; intros i s s1 es2 H; cbn [process_from app length] in *.
  - injection H as <-. now rewrite Nat.add_0_r.
  - destruct (process_entry s e) as [s'|x|] eqn:E.
    + replace (i + S (length es1))%nat with (S i + length es1)%nat in * by lia. now apply IH.
    + injection H as _ H. lia.
    + injection H as H. lia.
Qed.

Theorem false_rejected es1 t es2 s i st p sa bc amt cl expected :
  process es1 = (Ok s, length es1) ->
  loop_upto s t i = Ok st -> nth_error (t_posts t) i = Some p ->
  p_amount p = Some sa -> p_balance p = Some bc ->
  eval_pa sa = Ok amt -> eval_cost_lot amt p = Ok cl -> eval_pa bc = Ok expected ->
  let computed := snd (bal_add_pa (l_bal st) (p_account p) amt) in
  ~ holds expected (a_get computed) ->
  process (es1 ++ ETxn t :: es2)
  = (Err (BalanceAssertionFailure i computed (assert_diff expected computed)), length es1).
Proof.
  intros H1 Hl Hn Hsa Hbc Eamt Ecl Eexp computed Hnh.
  unfold process in *. rewrite (process_from_app_ok es1 0 bstate0 s) by exact H1.
  cbn [Nat.add process_from process_entry].
  assert (Ht : add_transaction s t = Err (BalanceAssertionFailure i computed (assert_diff expected computed))).
  { assert (Hloop : txn_loop s t = Err (BalanceAssertionFailure i computed (assert_diff expected computed))).
    { rewrite (txn_loop_from_upto s t (S i)), (loop_upto_S _ _ _ _ Hn), Hl.
      unfold loop_step at 2. cbn [bind].
      rewrite (proj2 (assert_checked (l_bal st) (t_date t) i p sa bc expected Hsa Hbc Eexp) amt cl Eamt Ecl Hnh).
      cbn [bind]. apply fold_loop_err. }
    unfold add_transaction. unfold txn_loop in Hloop. rewrite Hloop. reflexivity. }
  now rewrite Ht.
Qed.
