(* C20 — the golden-file helper compares faithfully and only writes when told to.
   Theorems only.  Model: Model/Golden.v (world = one file + the UPDATE_GOLDEN variable). *)
From Coq Require Import List NArith Bool.
From Okv Require Import Model.Golden Proofs.GoldenProofs.
Import ListNotations.
Open Scope N_scope.

(* not updating, file present with content c: new succeeds, and assert passes exactly when
   got = c with CRLF normalised (got itself is not normalised), and panics otherwise *)
Theorem C20_assert_iff : forall w c got,
  is_update_golden w = false -> file w = Some c ->
  exists g, golden_new w = (w, NewOk g) /\
            (snd (golden_assert w g got) = Pass <-> got = normalise c) /\
            (snd (golden_assert w g got) = AssertPanic <-> got <> normalise c).
Proof. exact assert_iff. Qed.
Print Assumptions C20_assert_iff.

(* not updating: neither new nor assert (on any Golden value, for any got) changes the world *)
Theorem C20_no_write : forall w,
  is_update_golden w = false ->
  fst (golden_new w) = w /\ forall g got, fst (golden_assert w g got) = w.
Proof. exact no_write. Qed.
Print Assumptions C20_no_write.

(* new never writes, whatever the environment *)
Theorem C20_new_never_writes : forall w, fst (golden_new w) = w.
Proof. exact new_never_writes. Qed.
Print Assumptions C20_new_never_writes.

Theorem C20_missing_is_error : forall w,
  is_update_golden w = false -> file w = None -> golden_new w = (w, NewErr NotFound).
Proof. exact missing_is_error. Qed.
Print Assumptions C20_missing_is_error.

(* updating: afterwards the file is exactly got and the assertion passes, for every Golden
   value (whatever the file held or whether it existed) *)
Theorem C20_update_writes : forall w g got,
  is_update_golden w = true ->
  file (fst (golden_assert w g got)) = Some got /\ snd (golden_assert w g got) = Pass /\
  env (fst (golden_assert w g got)) = env w.
Proof. exact update_writes. Qed.
Print Assumptions C20_update_writes.

(* updating means: the variable is set to a non-empty value, nothing else *)
Theorem C20_update_iff_env_nonempty : forall w,
  is_update_golden w = true <-> exists c r, env w = Some (c :: r).
Proof. exact update_iff_env_nonempty. Qed.
Print Assumptions C20_update_iff_env_nonempty.

(* a variable set to the empty string behaves as an unset one *)
Theorem C20_env_empty_is_unset : forall f,
  let we := {| file := f; env := Some [] |} in
  let wn := {| file := f; env := None |} in
  is_update_golden we = false /\
  snd (golden_new we) = snd (golden_new wn) /\
  (forall g got, snd (golden_assert we g got) = snd (golden_assert wn g got) /\
                 file (fst (golden_assert we g got)) = f) /\
  (forall got, snd (session we (Some []) got) = snd (session wn None got) /\
               file (fst (session we (Some []) got)) = f).
Proof. exact env_empty_is_unset. Qed.
Print Assumptions C20_env_empty_is_unset.

(* new followed by assert under one environment, all cases *)
Theorem C20_session : forall w got,
  session w (env w) got =
    if is_update_golden w then (write_file w got, SAsserted Pass)
    else match file w with
         | None => (w, SNewErr NotFound)
         | Some c => (w, SAsserted (if text_eqb (normalise c) got then Pass else AssertPanic))
         end.
Proof. exact session_spec. Qed.
Print Assumptions C20_session.

(* normalise: every "\r\n" becomes "\n" ... *)
Theorem C20_normalise_crlf : forall a b,
  normalise (a ++ [CR; LF] ++ b) = normalise a ++ [LF] ++ normalise b.
Proof. exact normalise_crlf. Qed.
Print Assumptions C20_normalise_crlf.

(* ... it is the identity exactly on the texts that hold no "\r\n" (so a lone "\r" stays) ... *)
Theorem C20_normalise_id_iff : forall s, normalise s = s <-> ~ contains_crlf s.
Proof. exact normalise_id_iff. Qed.
Print Assumptions C20_normalise_id_iff.

(* ... it distributes over any cut that does not fall between a "\r" and a "\n" ... *)
Theorem C20_normalise_app : forall a b,
  ends_cr a && starts_lf b = false -> normalise (a ++ b) = normalise a ++ normalise b.
Proof. exact normalise_app. Qed.
Print Assumptions C20_normalise_app.

(* ... it removes one byte per "\r\n" and nothing else ... *)
Theorem C20_normalise_length : forall s, (length (normalise s) + count_crlf s = length s)%nat.
Proof. exact normalise_length. Qed.
Print Assumptions C20_normalise_length.

(* ... and, str::replace being a single pass, a "\r\n" can remain, but only from "\r\r\n" *)
Theorem C20_normalise_crlf_origin : forall s,
  contains_crlf (normalise s) -> exists a b, s = a ++ [CR; CR; LF] ++ b.
Proof. exact normalise_crlf_origin. Qed.
Print Assumptions C20_normalise_crlf_origin.

Theorem C20_normalise_single_pass :
  normalise [CR; CR; LF] = [CR; LF] /\ normalise (normalise [CR; CR; LF]) = [LF].
Proof. exact normalise_not_idempotent_witness. Qed.
Print Assumptions C20_normalise_single_pass.

(* The rest of the directory (Model/Golden.v dirworld: the golden file's path together with every
   other entry of its directory): Golden::new, Golden::assert and a whole session leave every
   other entry exactly as it was - whatever UPDATE_GOLDEN holds, whether the comparison passes
   or not - and what they do to the golden file itself is what the one-path theorems above say. *)
Theorem C20_other_files_untouched : forall d e got g,
  others (fst (dir_new d)) = others d /\
  others (fst (dir_assert d g got)) = others d /\
  others (fst (dir_session d e got)) = others d /\
  dw (fst (dir_session d e got)) = fst (session (dw d) e got) /\
  snd (dir_session d e got) = snd (session (dw d) e got).
Proof. exact dir_untouched_all. Qed.
Print Assumptions C20_other_files_untouched.
