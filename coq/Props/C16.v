(* C16 — CSV import books each row with the right sign, amount and balance.  Theorems only. *)
From Coq Require Import List NArith Bool.
From Okv Require Import Model.ImpConfig Model.ImpSingleEntry.
Import ListNotations.

(* placeholder until Proofs/ImpCsvProofs.v lands *)
Theorem C16_two_postings_without_charges : forall t src,
  t_charges t = [] -> length (st_posts (to_double_entry t src)) = 2%nat.
Proof. intros t src H. unfold to_double_entry. rewrite H. destruct (negb _); reflexivity. Qed.
Print Assumptions C16_two_postings_without_charges.
