//! The rendered diagnostic of a failed balance assertion (C02): what `Display` of
//! `ReportError::BookKeep` prints - the title, the `--> file:line:col` location and the
//! source excerpt with its labelled markers - read back into positions of the ledger text.
//!
//! ```text
//! error: balance assertion off by -10000 JPY, computed balance is 90000 JPY
//!   --> /main.ledger:10:58
//!    |
//!  9 |     Expenses:Food                             10,000 JPY
//! 10 |     Assets:Bank                              -10,000 JPY = 80,000 JPY
//!    |     ----------- computed balance: 90000 JPY              ^^^^^^^^^^^^ not match the computed balance
//!    |
//! ```
//!
//! A marker is a run of `-` or `^` under a source line; its label stands one blank after the
//! run on the marker row, or in a later row at the column where the run starts
//! (annotate-snippets 0.11 `format_line`: `range.1 + 1` / `range.0`).  Marker columns are
//! display columns of the source line (unicode-width, as annotate-snippets counts them); the
//! location column counts characters.  Both are mapped to byte offsets of the ledger text and
//! from there to the posting whose account name / `= X` stands exactly there.
use crate::ledger::{parse_inline, AmountObs, Rendered};
use okane_core::{load, report};
use std::collections::HashMap;
use std::path::PathBuf;
use unicode_width::UnicodeWidthChar;

pub const NO_POSTING: usize = 99;
/// the renderer cuts source lines that do not fit its terminal width and shifts the markers
/// accordingly: the harness renders on a terminal of TERM_WIDTH columns, and an excerpt with
/// a line beyond MAX_LINE_COLS would not be read back (none is generated that long)
pub const TERM_WIDTH: usize = 4096;
pub const MAX_LINE_COLS: usize = 4000;

pub const LABEL_COMPUTED: &str = "computed balance: ";
pub const LABEL_MARK: &str = "not match the computed balance";

#[derive(Clone, Debug, PartialEq)]
pub enum Diag {
    /// no diagnostic to look at (the run did not end in a failed balance assertion)
    NotApplicable,
    /// rendering the error panicked
    Panic(String),
    /// the text could not be related to the ledger text at all (reason)
    Unreadable(String),
    /// a line of the excerpt is too wide for the renderer: cut lines are not read back
    Wide,
    Seen(Seen),
}

#[derive(Clone, Debug, PartialEq)]
pub struct Seen {
    pub loc_line: usize,
    pub loc_col: usize,
    /// posting of the failing entry whose `= X` starts exactly at line:col (else NO_POSTING)
    pub loc_posting: usize,
    /// posting whose account name the `computed balance: ..` marker covers exactly
    pub label_posting: usize,
    /// posting whose `= X` the `not match the computed balance` marker covers exactly
    pub mark_posting: usize,
    /// lines the excerpt shows: first and last source line number
    pub first_line: usize,
    pub last_line: usize,
    /// the entry that starts at the first line of the excerpt (else NO_POSTING)
    pub excerpt_entry: usize,
    pub title_diff: AmountObs,
    pub title_computed: AmountObs,
    pub label_computed: AmountObs,
}

/// `format!("{}", err)` of what report::process returns on this file tree
pub fn rendered_error(files: &[(String, String)]) -> Result<Option<String>, String> {
    let res = std::panic::catch_unwind(|| {
        let arena = bumpalo::Bump::new();
        let mut ctx = report::ReportContext::new(&arena);
        let mut map: HashMap<PathBuf, Vec<u8>> = HashMap::new();
        for (p, c) in files {
            map.insert(PathBuf::from(p), c.as_bytes().to_vec());
        }
        let loader = load::Loader::new(PathBuf::from("/main.ledger"), load::FakeFileSystem::from(map))
            .with_error_renderer(annotate_snippets::Renderer::plain().term_width(TERM_WIDTH));
        let out = match report::process(&mut ctx, loader, &report::ProcessOptions::default()) {
            Ok(_) => None,
            Err(e) => Some(format!("{}", e)),
        };
        out
    });
    res.map_err(|p| {
        p.downcast_ref::<String>()
            .cloned()
            .or_else(|| p.downcast_ref::<&str>().map(|s| s.to_string()))
            .unwrap_or_default()
    })
}

fn cols(s: &str) -> usize {
    s.chars().map(|c| c.width().unwrap_or(0)).sum()
}

/// byte offset in `line` of display column `col` (None when the column falls inside a wide character)
fn byte_at_col(line: &str, col: usize) -> Option<usize> {
    let mut c = 0;
    for (i, ch) in line.char_indices() {
        if c == col {
            return Some(i);
        }
        if c > col {
            return None;
        }
        c += ch.width().unwrap_or(0);
    }
    if c == col {
        Some(line.len())
    } else if col > c {
        // beyond the end of the line: one column per missing position
        Some(line.len() + (col - c))
    } else {
        None
    }
}

fn byte_at_char(line: &str, n: usize) -> usize {
    line.char_indices().nth(n).map(|(i, _)| i).unwrap_or(line.len() + n.saturating_sub(line.chars().count()))
}

struct Row {
    /// Some(n): source line n; None: an annotation row
    lineno: Option<usize>,
    /// what follows `NN | ` (chars, so that columns can be indexed)
    content: Vec<char>,
}

/// the run of `ch` covering column `at` in `row`: (start, end) columns
fn run_around(row: &[char], at: usize) -> Option<(usize, usize)> {
    let ch = *row.get(at)?;
    if ch != '-' && ch != '^' {
        return None;
    }
    let mut s = at;
    while s > 0 && row[s - 1] == ch {
        s -= 1;
    }
    let mut e = at + 1;
    while e < row.len() && row[e] == ch {
        e += 1;
    }
    Some((s, e))
}

fn find_sub(hay: &[char], needle: &str) -> Option<usize> {
    let n: Vec<char> = needle.chars().collect();
    if n.is_empty() || hay.len() < n.len() {
        return None;
    }
    (0..=hay.len() - n.len()).find(|i| hay[*i..*i + n.len()] == n[..])
}

/// where the label `needle` stands under source line `lineno`: (line number, marker run as
/// display columns, the text of the label)
fn locate_label(rows: &[Row], needle: &str) -> Option<(usize, (usize, usize), String)> {
    let mut cur: Option<usize> = None; // index of the last source row
    for (k, row) in rows.iter().enumerate() {
        if row.lineno.is_some() {
            cur = Some(k);
            continue;
        }
        let src = match cur {
            Some(s) => s,
            None => continue,
        };
        if let Some(at) = find_sub(&row.content, needle) {
            let marker_row = &rows.get(src + 1)?.content;
            let run = if k == src + 1 {
                // on the marker row: one blank after the end of its run
                if at < 2 {
                    return None;
                }
                run_around(marker_row, at - 2)?
            } else {
                // below: at the column where its run starts
                let (s, e) = run_around(marker_row, at)?;
                if s != at {
                    return None;
                }
                (s, e)
            };
            let mut text = String::new();
            let mut i = at;
            while i < row.content.len() {
                // the label ends at a gap of two blanks or where the next marker (`^`) begins
                if row.content[i] == ' ' && row.content.get(i + 1).map_or(true, |c| *c == ' ' || *c == '^') {
                    break;
                }
                text.push(row.content[i]);
                i += 1;
            }
            return Some((rows[src].lineno.unwrap(), run, text));
        }
    }
    None
}

/// read the rendering of a BalanceAssertionFailure raised in entry `entry` of `r`
pub fn read_assertion_diag(rendered: &str, r: &Rendered, entry: usize, comms: &[String]) -> Diag {
    let lines: Vec<&str> = rendered.lines().collect();
    let src_lines: Vec<&str> = r.text.split('\n').collect();
    // title
    let title = match lines.first() {
        Some(t) => *t,
        None => return Diag::Unreadable("empty".into()),
    };
    let (title_diff, title_computed) = {
        let a = "balance assertion off by ";
        let b = ", computed balance is ";
        match (title.find(a), title.find(b)) {
            (Some(i), Some(j)) if i + a.len() <= j => {
                (parse_inline(&title[i + a.len()..j], comms), parse_inline(&title[j + b.len()..], comms))
            }
            _ => return Diag::Unreadable(format!("title: {}", title)),
        }
    };
    // location
    let loc_idx = match lines.iter().position(|l| l.trim_start().starts_with("--> ")) {
        Some(i) => i,
        None => return Diag::Unreadable("no location line".into()),
    };
    let loc = lines[loc_idx].trim_start().trim_start_matches("--> ");
    let mut it = loc.rsplitn(3, ':');
    let loc_col: usize = match it.next().and_then(|x| x.trim().parse().ok()) {
        Some(v) => v,
        None => return Diag::Unreadable(format!("location: {}", loc)),
    };
    let loc_line: usize = match it.next().and_then(|x| x.parse().ok()) {
        Some(v) => v,
        None => return Diag::Unreadable(format!("location: {}", loc)),
    };
    // gutter: `NN |` with the line number right-aligned to the column where "-->" starts
    let w = lines[loc_idx].find("-->").unwrap_or(0);
    let mut rows: Vec<Row> = Vec::new();
    for l in &lines[loc_idx + 1..] {
        let b = l.as_bytes();
        if b.len() < w + 2 || b[w + 1] != b'|' || !l.is_char_boundary(w + 2) {
            return Diag::Unreadable(format!("excerpt row: {}", l));
        }
        let gutter = l[..w + 1].trim();
        let lineno = if gutter.is_empty() { None } else { gutter.parse::<usize>().ok() };
        if !gutter.is_empty() && lineno.is_none() {
            return Diag::Unreadable(format!("gutter: {}", l));
        }
        let rest = &l[w + 2..];
        let rest = rest.strip_prefix(' ').unwrap_or(rest);
        rows.push(Row { lineno, content: rest.chars().collect() });
    }
    // the excerpt must show lines of the ledger text as they are, uncut
    let mut first_line = 0;
    let mut last_line = 0;
    for row in &rows {
        if let Some(n) = row.lineno {
            let shown: String = row.content.iter().collect();
            let want = src_lines.get(n.wrapping_sub(1)).copied().unwrap_or("\u{0}");
            if cols(want) > MAX_LINE_COLS {
                return Diag::Wide;
            }
            // annotate-snippets shows a tab as four blanks (a header may end in one; the marked
            // posting lines have none, so columns map to bytes as they are)
            if shown.trim_end() != want.replace('\t', "    ").trim_end() {
                return Diag::Unreadable(format!("line {} is shown as {:?}", n, shown));
            }
            if first_line == 0 {
                first_line = n;
            }
            last_line = n;
        }
    }
    let spans = match r.posting_span.get(entry) {
        Some(s) => s,
        None => return Diag::Unreadable("entry out of range".into()),
    };
    let line_off = |n: usize| -> Option<usize> {
        if n == 0 || n > src_lines.len() {
            return None;
        }
        Some(src_lines[..n - 1].iter().map(|l| l.len() + 1).sum())
    };
    // marker -> byte range -> posting
    let run_bytes = |n: usize, run: (usize, usize)| -> Option<(usize, usize)> {
        let off = line_off(n)?;
        let line = src_lines[n - 1];
        Some((off + byte_at_col(line, run.0)?, off + byte_at_col(line, run.1)?))
    };
    let (label_posting, label_computed) = match locate_label(&rows, LABEL_COMPUTED) {
        Some((n, run, text)) => {
            let p = run_bytes(n, run)
                .and_then(|(s, e)| spans.iter().position(|sp| sp.account.start == s && sp.account.end == e))
                .unwrap_or(NO_POSTING);
            (p, parse_inline(&text[LABEL_COMPUTED.len()..], comms))
        }
        None => (NO_POSTING, AmountObs::new()),
    };
    let mark_posting = match locate_label(&rows, LABEL_MARK) {
        Some((n, run, _)) => run_bytes(n, run)
            .and_then(|(s, e)| {
                // from the `=` to the end of X; okane's span of `= X` runs on over the blanks
                // that separate it from a trailing comment, nothing else may be covered
                spans.iter().position(|sp| {
                    sp.balance.as_ref().map_or(false, |b| {
                        b.start == s && b.end <= e && r.text.as_bytes().get(b.end..e).map_or(false, |x| x.iter().all(|c| *c == b' '))
                    })
                })
            })
            .unwrap_or(NO_POSTING),
        None => NO_POSTING,
    };
    let loc_posting = match line_off(loc_line) {
        Some(off) if loc_col >= 1 => {
            let at = off + byte_at_char(src_lines[loc_line - 1], loc_col - 1);
            spans.iter().position(|sp| sp.balance.as_ref().map_or(false, |b| b.start == at)).unwrap_or(NO_POSTING)
        }
        _ => NO_POSTING,
    };
    let excerpt_entry = r.entry_line.iter().position(|l| *l == first_line).unwrap_or(NO_POSTING);
    Diag::Seen(Seen {
        excerpt_entry,
        loc_line,
        loc_col,
        loc_posting,
        label_posting,
        mark_posting,
        first_line,
        last_line,
        title_diff,
        title_computed,
        label_computed,
    })
}

// ---------- every book-keeping error (C01, C03): which entry and posting the rendering names ----------

pub const LABELS: [&str; 9] = [
    "error occured",
    "first posting without constraints",
    "cannot deduce this posting",
    "absolute zero posting should not have exchange",
    "exchange with zero amount",
    "posting amount",
    "exchange cannot have the same commodity with posting",
    "not match the computed balance",
    "computed balance: ",
];

/// title line -> kind of error (Run/LedgerCase.v title_code; 0 = none of them)
pub fn title_code(title: &str) -> u32 {
    const T: [(&str, u32); 11] = [
        ("failed to evaluate the expression: ", 1),
        ("failed to meet balance condition: ", 2),
        ("transaction cannot have multiple postings without constraints", 3),
        ("transaction cannot have unbalanced postings: ", 4),
        ("balance assertion off by ", 5),
        ("posting without commodity should not have exchange", 6),
        ("cost or lot exchange must not be zero", 7),
        ("cost or lot exchange must have different commodity from the amount commodity", 8),
        ("failed to register account: ", 9),
        ("failed to register commodity: ", 10),
        ("posting amount must be resolved as a simple value with commodity or zero", 11),
    ];
    let t = title.strip_prefix("error: ").unwrap_or(title);
    T.iter().find(|(p, _)| t.starts_with(p)).map(|x| x.1).unwrap_or(0)
}

#[derive(Clone, Debug, PartialEq)]
pub enum GDiag {
    NotApplicable,
    Panic(String),
    Unreadable(String),
    Wide,
    Seen(GSeen),
}

#[derive(Clone, Debug, PartialEq)]
pub struct Mark {
    pub label: usize,
    pub entry: usize,
    /// posting in whose lines the marker starts (POSTING_HEAD above the first posting)
    pub posting: usize,
    /// the marker runs from the first to the last line of the entry
    pub whole: bool,
    pub first_line: usize,
    pub last_line: usize,
}

pub const POSTING_HEAD: usize = 98;

#[derive(Clone, Debug, PartialEq)]
pub struct GSeen {
    pub title: u32,
    pub first_entry: usize,
    pub last_entry: usize,
    pub loc_line: usize,
    pub loc_col: usize,
    pub loc_entry: usize,
    pub loc_posting: usize,
    pub first_line: usize,
    pub last_line: usize,
    pub marks: Vec<Mark>,
}

/// (entry, posting) whose lines contain line `n`
fn place_of_line(r: &Rendered, n: usize) -> (usize, usize) {
    for (k, first) in r.entry_line.iter().enumerate() {
        let last = r.entry_last_line.get(k).copied().unwrap_or(0);
        if *first <= n && n <= last {
            let spans = &r.posting_span[k];
            let p = match spans.iter().rposition(|sp| sp.line <= n) {
                Some(i) => i,
                None => POSTING_HEAD,
            };
            return (k, p);
        }
    }
    (NO_POSTING, NO_POSTING)
}

/// read the rendering of any book-keeping error raised on `r`: title, location, excerpt, markers.
/// Source rows of an excerpt carry the columns of multi-line markers in front (`/ ` on the
/// line where one starts, `| ` below it, `|____^ label` on a row of its own where it ends);
/// a single-line marker is a run of `^`/`-` under the line with its label on that row or below.
pub fn read_error_diag(rendered: &str, r: &Rendered) -> GDiag {
    let lines: Vec<&str> = rendered.lines().collect();
    let src_lines: Vec<&str> = r.text.split('\n').collect();
    let title = match lines.first() {
        Some(t) => title_code(t),
        None => return GDiag::Unreadable("empty".into()),
    };
    let loc_idx = match lines.iter().position(|l| l.trim_start().starts_with("--> ")) {
        Some(i) => i,
        None => return GDiag::Unreadable("no location line".into()),
    };
    let loc = lines[loc_idx].trim_start().trim_start_matches("--> ");
    let mut it = loc.rsplitn(3, ':');
    let loc_col: usize = match it.next().and_then(|x| x.trim().parse().ok()) {
        Some(v) => v,
        None => return GDiag::Unreadable(format!("location: {}", loc)),
    };
    let loc_line: usize = match it.next().and_then(|x| x.parse().ok()) {
        Some(v) => v,
        None => return GDiag::Unreadable(format!("location: {}", loc)),
    };
    let w = lines[loc_idx].find("-->").unwrap_or(0);
    let mut first_line = 0;
    let mut last_line = 0;
    let mut cur: Option<usize> = None; // last source line seen
    let mut open: Option<usize> = None; // line where the multi-line marker being drawn starts
    let mut marks = Vec::new();
    for l in &lines[loc_idx + 1..] {
        let b = l.as_bytes();
        if b.len() < w + 2 || b[w + 1] != b'|' || !l.is_char_boundary(w + 2) {
            return GDiag::Unreadable(format!("excerpt row: {}", l));
        }
        let gutter = l[..w + 1].trim();
        let lineno = if gutter.is_empty() { None } else { gutter.parse::<usize>().ok() };
        if !gutter.is_empty() && lineno.is_none() {
            return GDiag::Unreadable(format!("gutter: {}", l));
        }
        let rest = &l[w + 2..];
        let rest = rest.strip_prefix(' ').unwrap_or(rest);
        match lineno {
            Some(n) => {
                let want = src_lines.get(n.wrapping_sub(1)).copied().unwrap_or("\u{0}");
                if cols(want) > MAX_LINE_COLS {
                    return GDiag::Wide;
                }
                let want = want.replace('\t', "    ");
                let mut found = None;
                for pw in [0usize, 2, 4, 6] {
                    if rest.len() >= pw
                        && rest.is_char_boundary(pw)
                        && rest[..pw].chars().all(|c| c == ' ' || c == '/' || c == '|')
                        && rest[pw..].trim_end() == want.trim_end()
                    {
                        found = Some(pw);
                        break;
                    }
                }
                let pw = match found {
                    Some(pw) => pw,
                    None => return GDiag::Unreadable(format!("line {} is shown as {:?}", n, rest)),
                };
                if rest[..pw].contains('/') {
                    open = Some(n);
                }
                if first_line == 0 {
                    first_line = n;
                }
                last_line = n;
                cur = Some(n);
            }
            None => {
                let n = match cur {
                    Some(n) => n,
                    None => continue, // the empty row above the excerpt
                };
                for (k, label) in LABELS.iter().enumerate() {
                    if let Some(at) = rest.find(label) {
                        // `|____^ label`: the end of a multi-line marker
                        let multi = rest[..at].contains('_');
                        let (a, z) = if multi {
                            match open {
                                Some(s) => (s, n),
                                None => return GDiag::Unreadable(format!("marker without a start: {}", l)),
                            }
                        } else {
                            (n, n)
                        };
                        let (ea, pa) = place_of_line(r, a);
                        let (ez, _) = place_of_line(r, z);
                        let entry = if ea == ez { ea } else { NO_POSTING };
                        let whole = entry != NO_POSTING && r.entry_line[entry] == a && r.entry_last_line[entry] == z;
                        marks.push(Mark { label: k, entry, posting: pa, whole, first_line: a, last_line: z });
                    }
                }
            }
        }
    }
    let first_entry = r.entry_line.iter().position(|l| *l == first_line).unwrap_or(NO_POSTING);
    let last_entry = r.entry_last_line.iter().position(|l| *l == last_line).unwrap_or(NO_POSTING);
    let (loc_entry, loc_posting) = place_of_line(r, loc_line);
    GDiag::Seen(GSeen { title, first_entry, last_entry, loc_line, loc_col, loc_entry, loc_posting, first_line, last_line, marks })
}

pub fn gdiag_term(d: &GDiag) -> String {
    match d {
        GDiag::NotApplicable => "GNone".into(),
        GDiag::Panic(_) => "GPanic".into(),
        GDiag::Unreadable(_) => "GUnreadable".into(),
        GDiag::Wide => "GWide".into(),
        GDiag::Seen(s) => format!(
            "(GSeen {} {} {} {} {} {})",
            s.title,
            s.first_entry,
            s.last_entry,
            s.loc_entry,
            s.loc_posting,
            crate::coq::list(s.marks.iter().map(|m| format!("({}%N, {}%nat, {}%nat, {}%N)", m.label, m.entry, m.posting, m.whole as u8)))
        ),
    }
}

pub fn gdiag_json(d: &GDiag) -> serde_json::Value {
    use serde_json::json;
    match d {
        GDiag::NotApplicable => json!(null),
        GDiag::Panic(m) => json!({ "render_panic": m }),
        GDiag::Unreadable(m) => json!({ "unreadable": m }),
        GDiag::Wide => json!("excerpt wider than the renderer's terminal: not read"),
        GDiag::Seen(s) => json!({"title_kind": s.title, "location": format!("{}:{}", s.loc_line, s.loc_col),
            "location_in_entry": s.loc_entry, "location_in_posting": s.loc_posting,
            "excerpt_lines": [s.first_line, s.last_line], "excerpt_starts_entry": s.first_entry, "excerpt_ends_entry": s.last_entry,
            "markers": s.marks.iter().map(|m| json!({"label": LABELS[m.label], "lines": [m.first_line, m.last_line], "entry": m.entry, "posting": m.posting, "whole_entry": m.whole})).collect::<Vec<_>>()}),
    }
}

// ---------- the error chain a command prints (C02 command leg) ----------

pub fn strip_ansi(s: &str) -> String {
    let mut out = String::new();
    let mut it = s.chars().peekable();
    while let Some(c) = it.next() {
        if c == '\u{1b}' && it.peek() == Some(&'[') {
            it.next();
            for d in it.by_ref() {
                if d.is_ascii_alphabetic() {
                    break;
                }
            }
        } else {
            out.push(c);
        }
    }
    out
}

/// what a command's error chain says about a book-keeping error
#[derive(Clone, Debug, PartialEq)]
pub enum CmdErr {
    /// `balance assertion off by DIFF, computed balance is COMPUTED` located at the `= X` of
    /// this posting of this entry (NO_POSTING where the location is no such place)
    Assert { entry: usize, posting: usize, computed: AmountObs, diff: AmountObs },
    /// another book-keeping error (title kind) located in this entry
    Other { title: u32, entry: usize },
    /// no book-keeping error in the chain (a query error, a usage error, ...)
    NoBookKeeping,
}

pub fn read_cmd_error(stderr: &str, r: &Rendered, comms: &[String]) -> CmdErr {
    let text = strip_ansi(stderr);
    let lines: Vec<&str> = text.lines().collect();
    let src_lines: Vec<&str> = r.text.split('\n').collect();
    let (ti, title, code) = match lines.iter().enumerate().find_map(|(i, l)| {
        let at = l.find("error: ")?;
        let t = &l[at..];
        let c = title_code(t);
        if c != 0 {
            Some((i, t, c))
        } else {
            None
        }
    }) {
        Some(x) => x,
        None => return CmdErr::NoBookKeeping,
    };
    let (loc_line, loc_col) = match lines[ti + 1..].iter().find(|l| l.trim_start().starts_with("--> ")).and_then(|l| {
        let loc = l.trim_start().trim_start_matches("--> ");
        let mut it = loc.rsplitn(3, ':');
        let c: usize = it.next()?.trim().parse().ok()?;
        let n: usize = it.next()?.parse().ok()?;
        Some((n, c))
    }) {
        Some(x) => x,
        None => return CmdErr::Other { title: code, entry: NO_POSTING },
    };
    let (entry, _) = place_of_line(r, loc_line);
    if code != 5 {
        return CmdErr::Other { title: code, entry };
    }
    let a = "balance assertion off by ";
    let b = ", computed balance is ";
    let (diff, computed) = match (title.find(a), title.find(b)) {
        (Some(i), Some(j)) if i + a.len() <= j => (parse_inline(&title[i + a.len()..j], comms), parse_inline(&title[j + b.len()..], comms)),
        _ => (AmountObs::new(), AmountObs::new()),
    };
    let posting = if entry != NO_POSTING && loc_line >= 1 && loc_line <= src_lines.len() && loc_col >= 1 {
        let off: usize = src_lines[..loc_line - 1].iter().map(|l| l.len() + 1).sum();
        let at = off + byte_at_char(src_lines[loc_line - 1], loc_col - 1);
        r.posting_span[entry].iter().position(|sp| sp.balance.as_ref().map_or(false, |b| b.start == at)).unwrap_or(NO_POSTING)
    } else {
        NO_POSTING
    };
    CmdErr::Assert { entry, posting, computed, diff }
}

pub fn diag_term(d: &Diag) -> String {
    use crate::ledger::amount_term;
    match d {
        Diag::NotApplicable => "DNone".into(),
        Diag::Panic(_) => "DPanic".into(),
        Diag::Unreadable(_) => "DUnreadable".into(),
        Diag::Wide => "DWide".into(),
        Diag::Seen(s) => format!(
            "(DSeen {} {} {} {} {} {} {})",
            s.excerpt_entry,
            s.loc_posting,
            s.label_posting,
            s.mark_posting,
            amount_term(&s.title_computed),
            amount_term(&s.title_diff),
            amount_term(&s.label_computed)
        ),
    }
}

pub fn diag_json(d: &Diag) -> serde_json::Value {
    use serde_json::json;
    match d {
        Diag::NotApplicable => json!(null),
        Diag::Panic(m) => json!({ "render_panic": m }),
        Diag::Unreadable(m) => json!({ "unreadable": m }),
        Diag::Wide => json!("excerpt wider than the renderer's terminal: not read"),
        Diag::Seen(s) => json!({"location": format!("{}:{}", s.loc_line, s.loc_col),
            "location_is_assertion_of_posting": s.loc_posting, "computed_label_under_account_of_posting": s.label_posting,
            "not_match_marker_under_assertion_of_posting": s.mark_posting, "excerpt_lines": [s.first_line, s.last_line], "excerpt_starts_entry": s.excerpt_entry}),
    }
}
