//! C02 (assertions) and C03 (inference): the shared ledger generator with other biases.
use crate::coq::{Shards, Stats};
use crate::ledger::*;
use crate::prng::Rng;
use crate::Opts;

fn lit(m: i64, scale: u32, c: usize) -> VE {
    VE::Amt(Lit { m, scale, comm: Some(c), grouped: false })
}
fn bare_zero() -> VE {
    VE::Amt(Lit { m: 0, scale: 0, comm: None, grouped: false })
}
fn post(a: usize, amt: Option<VE>, bal: Option<VE>) -> Posting {
    Posting { account: a, amount: amt, cost: None, lot: None, balance: bal }
}
fn txn(d: i32, posts: Vec<Posting>) -> Entry {
    Entry::Txn(Txn { effective: None, date: d, posts })
}

fn fixed_cases() -> Vec<Vec<Entry>> {
    let mut out = Vec::new();
    // F12: omitted posting on A, then an assertion / assignment on A in the same transaction
    out.push(vec![txn(1, vec![post(0, None, None), post(0, Some(lit(5, 0, 4)), Some(lit(5, 0, 4))), post(1, Some(lit(3, 0, 4)), None)])]);
    out.push(vec![txn(1, vec![post(0, None, None), post(0, None, Some(lit(5, 0, 4))), post(1, Some(lit(3, 0, 4)), None)])]);
    // several assertions on one account inside one transaction
    out.push(vec![txn(1, vec![
        post(0, Some(lit(200, 0, 3)), Some(lit(200, 0, 3))),
        post(1, Some(lit(0, 0, 3)), Some(lit(0, 0, 3))),
        post(1, Some(lit(-100, 0, 3)), Some(lit(-100, 0, 3))),
        post(1, Some(lit(-100, 0, 3)), Some(lit(-200, 0, 3))),
    ])]);
    // bare = 0 with one, two, zero commodities
    for k in 0..3 {
        let mut es = Vec::new();
        let mut ps = vec![];
        if k >= 1 {
            ps.push(post(0, Some(lit(10, 0, 4)), None));
        }
        if k >= 2 {
            ps.push(post(0, Some(lit(7, 0, 2)), None));
        }
        ps.push(post(2, None, None));
        es.push(txn(1, ps));
        es.push(txn(2, vec![post(0, None, Some(bare_zero())), post(2, None, None)]));
        out.push(es);
        let mut es2 = Vec::new();
        let mut ps = vec![post(2, None, None)];
        if k >= 1 {
            ps.push(post(0, Some(lit(10, 0, 4)), None));
        }
        if k >= 2 {
            ps.push(post(0, Some(lit(7, 0, 2)), None));
        }
        es2.push(txn(1, ps));
        es2.push(txn(2, vec![post(0, Some(lit(-10, 0, 4)), Some(bare_zero())), post(2, None, None)]));
        out.push(es2);
    }
    // `= 0 USD` on an account holding other commodities; negative balances
    out.push(vec![
        txn(1, vec![post(0, Some(lit(10, 0, 2)), None), post(0, Some(lit(-4, 0, 4)), Some(lit(-4, 0, 4))), post(2, None, None)]),
        txn(2, vec![post(0, Some(lit(4, 0, 4)), Some(lit(0, 0, 4))), post(2, None, None)]),
        txn(3, vec![post(0, Some(lit(0, 0, 4)), Some(bare_zero())), post(2, None, None)]),
    ]);
    // two unconstrained postings
    out.push(vec![txn(1, vec![post(0, None, None), post(1, Some(lit(1, 0, 4)), None), post(2, None, None)])]);
    out
}

pub fn run(o: &Opts, prop: &str) {
    let mut st = Stats::new();
    let classify = if prop == "C02" { "Classify_C02" } else { "Classify_C03" };
    let mut sh = Shards::new(&o.out, o.shards, &header(classify));
    let is02 = prop == "C02";
    st.rule = if is02 {
        "generated ledgers with raised assertion density (several per account per transaction, after assignments and omitted postings, multi-commodity accounts, `= 0` vs `= 0 X`, negative balances; 1 in 8 assertions false) + fixed boundary ledgers; non-trivial = at least one assertion was evaluated (the ledger carries one and processing reached it); distinct by ledger text".to_string()
    } else {
        "generated ledgers biased to an omitted-amount or assignment posting at every position among 1-5 others with costs/lots/several commodities, after a history giving the assigned account 0/1/2 commodities + fixed boundary ledgers; non-trivial = the ledger has an omitted or assigned posting and is not rejected before reaching it; distinct by ledger text".to_string()
    };
    st.assumptions.push("literal mantissas below 10^7 with scale <= 3: every intermediate Decimal is exact".into());
    st.assumptions.push("no total price on an expression-produced zero (sign bit of zero is not modelled)".into());
    let nontrivial = move |s: &Shape, o: &Obs| -> bool {
        let has = if is02 { s.asserted > 0 } else { s.omitted + s.assigned > 0 };
        has && !matches!(o, Obs::Err { err: ErrObs::Eval(_), .. } | Obs::Err { err: ErrObs::Other(_), .. })
    };
    let (corpus, replay) = corpus_entries(&o.corpus, &o.extra);
    for es in corpus {
        emit_ledger_case(&mut sh, &mut st, prop, &es, &nontrivial, "corpus");
    }
    if !replay {
        for es in fixed_cases() {
            emit_ledger_case(&mut sh, &mut st, prop, &es, &nontrivial, "fixed");
        }
        let mut r = Rng::new(o.seed, if is02 { 102 } else { 103 });
        let n = if o.thorough { 40000 } else { 2500 };
        for _ in 0..n {
            let mut b = Bias::default_bias();
            if is02 {
                b.assert_pct = 60;
                b.wrong_assert_pct = 12;
                b.unbalanced_pct = 5;
                b.assign_pct = 15;
                b.max_txns = 6;
            } else {
                b.omit_pct = 50;
                b.assign_pct = 35;
                b.assert_pct = 10;
                b.wrong_assert_pct = 2;
                b.unbalanced_pct = 5;
                b.cost_pct = 30;
                b.lot_pct = 15;
            }
            let es = gen_ledger(&mut r, &b);
            emit_ledger_case(&mut sh, &mut st, prop, &es, &nontrivial, "random");
        }
    }
    sh.finish(&st);
}
