(* Declarative reading of property C07: what a well-formed numeric literal is and what it
   means.  Independent of the scanner's state machine: strip an optional minus, take the
   maximal digit run, then (only after a leading run of one to three digits) zero or more
   groups "," d d d, then optionally "." and a digit run, then the end; at least one digit. *)
From Coq Require Import List NArith ZArith Bool QArith.
From Okv Require Import Model.Lit.
Import ListNotations.
Open Scope N_scope.

Record lit := { l_neg : bool; l_int : list N; l_frac : list N; l_grouped : bool }.

Fixpoint span_digits (l : list N) : list N * list N :=
  match l with
  | c :: r => if is_digit c then let '(a, b) := span_digits r in (c :: a, b) else ([], l)
  | [] => ([], [])
  end.

Fixpoint groups (l : list N) : list N * list N :=
  match l with
  | 44 :: a :: b :: c :: r =>
      if is_digit a && is_digit b && is_digit c
      then let '(ds, rest) := groups r in (a :: b :: c :: ds, rest)
      else ([], l)
  | _ => ([], l)
  end.

Definition nonempty {A} (l : list A) : bool := match l with [] => false | _ => true end.

Definition spec_scan (l : list N) : option lit :=
  let '(ng, body) := match l with 45 :: r => (true, r) | _ => (false, l) end in
  let '(g0, r1) := span_digits body in
  let '(gs, r2) := if (1 <=? length g0)%nat && (length g0 <=? 3)%nat then groups r1 else ([], r1) in
  let ip := g0 ++ gs in
  match r2 with
  | [] => if nonempty ip
          then Some {| l_neg := ng; l_int := ip; l_frac := []; l_grouped := nonempty gs |}
          else None
  | 46 :: r3 =>
      let '(fp, r4) := span_digits r3 in
      match r4 with
      | [] => if nonempty (ip ++ fp)
              then Some {| l_neg := ng; l_int := ip; l_frac := fp; l_grouped := nonempty gs |}
              else None
      | _ => None
      end
  | _ => None
  end.

(* meaning *)
Definition digits_val (l : list N) : N := fold_left (fun a c => a * 10 + (c - 48)) l 0.
Definition lit_mant (t : lit) : N := digits_val (l_int t ++ l_frac t).
Definition lit_places (t : lit) : nat := length (l_frac t).
Fixpoint pow10 (n : nat) : positive := match n with O => 1%positive | S k => (10 * pow10 k)%positive end.
Definition lit_value (t : lit) : Q :=
  (if l_neg t then -1 else 1) * (Z.of_N (lit_mant t) # pow10 (lit_places t)).
Definition fits (t : lit) : bool :=
  (Z.of_N (lit_mant t) <=? max96)%Z && (lit_places t <=? 28)%nat.

(* the Decimal a well-formed, representable literal denotes, with its print style *)
Definition pdec_of (t : lit) : pdec :=
  {| neg := l_neg t && negb (lit_mant t =? 0);
     mant := lit_mant t;
     scale := lit_places t;
     pfmt := if l_grouped t then Some Comma3Dot
             else if (4 <=? length (l_int t))%nat then Some Plain else None |}.

Definition pdec_value (d : pdec) : Q :=
  (if neg d then -1 else 1) * (Z.of_N (mant d) # pow10 (scale d)).

Fixpoint pow10_N (n : nat) : N := match n with O => 1 | S k => 10 * pow10_N k end.
