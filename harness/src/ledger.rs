//! Report-layer cases: ledger trees, their text, their Coq form, and what
//! `report::process` did with them.
use crate::coq;
use crate::prng::Rng;
use okane_core::{load, report};
use rust_decimal::Decimal;
use serde::{Deserialize, Serialize};
use serde_json::json;
use std::collections::{BTreeMap, HashMap};
use std::fmt::Write as _;
use std::path::PathBuf;

pub const COMMODITIES: [&str; 5] = ["AAPL", "CHF", "EUR", "JPY", "USD"]; // byte-sorted: id = index
pub const ACCOUNTS: [&str; 6] = [
    "Assets:Bank",
    "Assets:Cash",
    "Equity:Opening",
    "Expenses:Food",
    "Income:Job",
    "Liabilities:Card",
]; // byte-sorted: id = index
/// accounts 6..11: names outside ASCII (two-, three-byte and double-width letters); every one
/// sorts after the ASCII names and they are byte-sorted among themselves, so id = index + 6
pub const ACCOUNTS_WIDE: [&str; 6] = [
    "Revenus:Été",
    "Tillgångar:Börs",
    "Ärenden:Öl",
    "Активы:Банк",
    "資産:銀行",
    "食費:スーパー",
];

pub fn account_name(id: usize) -> &'static str {
    if id < ACCOUNTS.len() {
        ACCOUNTS[id]
    } else {
        ACCOUNTS_WIDE.get(id - ACCOUNTS.len()).copied().unwrap_or("?")
    }
}

#[derive(Clone, Debug, PartialEq, Serialize, Deserialize)]
pub struct Lit {
    pub m: i64,
    pub scale: u32,
    pub comm: Option<usize>,
    pub grouped: bool,
}

impl Lit {
    pub fn dec(&self) -> Decimal {
        Decimal::new(self.m, self.scale)
    }
}

#[derive(Clone, Copy, Debug, PartialEq, Serialize, Deserialize)]
pub enum Op {
    Add,
    Sub,
    Mul,
    Div,
}

#[derive(Clone, Debug, PartialEq, Serialize, Deserialize)]
pub enum VE {
    Paren(Box<Ex>),
    Amt(Lit),
}

#[derive(Clone, Debug, PartialEq, Serialize, Deserialize)]
pub enum Ex {
    Neg(Box<Ex>),
    Bin(Op, Box<Ex>, Box<Ex>),
    Val(Box<VE>),
}

#[derive(Clone, Debug, PartialEq, Serialize, Deserialize)]
pub enum Exch {
    Total(VE),
    Rate(VE),
}

#[derive(Clone, Debug, PartialEq, Serialize, Deserialize)]
pub struct Posting {
    pub account: usize,
    pub amount: Option<VE>,
    pub cost: Option<Exch>,
    pub lot: Option<Exch>,
    pub balance: Option<VE>,
}

/// How the header line of a transaction is written after the date(s).  The book-keeping reads
/// none of it; what matters is that the line ends where it ends and the postings below are all
/// read.  The default is the plain header `DATE txn<k>`.
#[derive(Clone, Copy, Debug, Default, PartialEq, Eq, Serialize, Deserialize)]
pub struct Head {
    /// 0 no clear mark, 1 `*`, 2 `!`
    #[serde(default)]
    pub mark: u8,
    /// a code `(c<k>)`
    #[serde(default)]
    pub code: bool,
    /// no payee at all: the header is `DATE`, `DATE *`, `DATE (code)`, `DATE ! (code)` ...
    #[serde(default)]
    pub bare: bool,
    /// nothing between mark, code and payee (`*txn0`, `*(c0)txn0`) instead of one blank
    #[serde(default)]
    pub tight: bool,
    /// blanks after the last word of the header: 0 none, 1 ` `, 2 three blanks, 3 a tab, 4 ` \t `
    #[serde(default)]
    pub trail: u8,
    /// `; head` at the end of the header line
    #[serde(default)]
    pub note: bool,
}

pub const HEAD_TRAILS: [&str; 5] = ["", " ", "   ", "\t", " \t "];

impl Head {
    /// the n-th header shape of a fixed enumeration (for enumerated case sets without a
    /// random stream): mark x payee x code x trailing blanks x tight x note
    pub fn nth(n: usize) -> Head {
        Head {
            mark: (n % 3) as u8,
            bare: (n / 3) % 2 == 1,
            code: (n / 6) % 3 == 2,
            trail: ((n / 18) % HEAD_TRAILS.len()) as u8,
            tight: (n / 90) % 4 == 3,
            note: (n / 360) % 4 == 3,
        }
    }
    pub fn gen(r: &mut Rng) -> Head {
        if r.chance(2, 5) {
            return Head::default();
        }
        Head {
            mark: *r.pick(&[0u8, 1, 1, 1, 2, 2]),
            code: r.chance(1, 4),
            bare: r.chance(1, 2),
            tight: r.chance(1, 6),
            trail: *r.pick(&[0u8, 0, 0, 0, 1, 2, 3, 4]),
            note: r.chance(1, 8),
        }
    }
    /// the header ends (blanks aside) right after the clear mark: `DATE *`, `DATE=EFF !  `
    pub fn ends_after_mark(&self, d: Option<&TxnDeco>) -> bool {
        self.mark != 0 && !self.note && !self.has_code(d) && !self.has_payee(d)
    }
    fn has_code(&self, d: Option<&TxnDeco>) -> bool {
        self.code || d.map_or(false, |d| d.code.is_some())
    }
    fn has_payee(&self, d: Option<&TxnDeco>) -> bool {
        !self.bare || d.map_or(false, |d| d.payee.is_some())
    }
    /// the header line after the date(s), without the line end; `k` numbers payee and code
    pub fn text(&self, k: usize, d: Option<&TxnDeco>) -> String {
        let mut words: Vec<String> = Vec::new();
        match self.mark {
            1 => words.push("*".into()),
            2 => words.push("!".into()),
            _ => {}
        }
        match d.and_then(|d| d.code.as_ref()) {
            Some(c) => words.push(format!("({})", c)),
            None if self.code => words.push(format!("(c{})", k)),
            None => {}
        }
        match d.and_then(|d| d.payee.as_ref()) {
            Some(p) => words.push(p.clone()),
            None if !self.bare => words.push(format!("txn{}", k)),
            None => {}
        }
        let mut s = String::new();
        for (i, w) in words.iter().enumerate() {
            // the blank after the date is required; a payee cannot follow a mark or code
            // directly unless written `tight`; two words of a payee never come from here
            if i == 0 || !self.tight {
                s.push(' ');
            }
            s.push_str(w);
        }
        s.push_str(HEAD_TRAILS[self.trail as usize % HEAD_TRAILS.len()]);
        if self.note {
            if !s.ends_with([' ', '\t']) {
                s.push(' ');
            }
            s.push_str("; head");
        }
        s
    }
}

/// How the sample number of a `format` sub-directive is written.  The declared precision is
/// its number of decimals and nothing else (CommodityStore::get_decimal_point = scale of the
/// parsed number), whatever its magnitude, sign or digit grouping.
#[derive(Clone, Copy, Debug, Default, PartialEq, Eq, Serialize, Deserialize)]
pub enum FmtLit {
    /// `1,000.00` (the form of okane's own tests)
    #[default]
    Grouped1000,
    /// `0.00`
    Zero,
    /// `1.00`
    One,
    /// `999.99`
    Below1000,
    /// `1000.00`
    Plain1000,
    /// `1,000,000.00`
    Million,
    /// `-1.00`
    NegOne,
    /// `-1,234.50` with the last decimal a zero
    NegGrouped,
}

pub const FMT_LITS: [FmtLit; 8] = [
    FmtLit::Grouped1000,
    FmtLit::Zero,
    FmtLit::One,
    FmtLit::Below1000,
    FmtLit::Plain1000,
    FmtLit::Million,
    FmtLit::NegOne,
    FmtLit::NegGrouped,
];

impl FmtLit {
    pub fn nth(n: usize) -> FmtLit {
        FMT_LITS[n % FMT_LITS.len()]
    }
    pub fn gen(r: &mut Rng) -> FmtLit {
        *r.pick(&FMT_LITS)
    }
    /// written with a digit-group comma (the literal scanner records a `format` for these only)
    pub fn has_comma(&self) -> bool {
        matches!(self, FmtLit::Grouped1000 | FmtLit::Million | FmtLit::NegGrouped)
    }
    pub fn name(&self) -> &'static str {
        match self {
            FmtLit::Grouped1000 => "1,000.00",
            FmtLit::Zero => "0.00",
            FmtLit::One => "1.00",
            FmtLit::Below1000 => "999.99",
            FmtLit::Plain1000 => "1000.00",
            FmtLit::Million => "1,000,000.00",
            FmtLit::NegOne => "-1.00",
            FmtLit::NegGrouped => "-1,234.50",
        }
    }
    /// the sample number with `dp` decimals
    pub fn text(&self, dp: u32) -> String {
        let unit = 10i64.pow(dp);
        match self {
            FmtLit::Grouped1000 => num_text(1000 * unit, dp, true),
            FmtLit::Zero => num_text(0, dp, false),
            FmtLit::One => num_text(unit, dp, false),
            FmtLit::Below1000 => num_text(1000 * unit - 1, dp, false),
            FmtLit::Plain1000 => num_text(1000 * unit, dp, false),
            FmtLit::Million => num_text(1_000_000 * unit, dp, true),
            FmtLit::NegOne => num_text(-unit, dp, false),
            FmtLit::NegGrouped => num_text(-(1234 * unit + unit / 2), dp, true),
        }
    }
}

/// the part of a generation rule (evidence) that describes how headers and samples are written
pub const TEXT_SHAPES_RULE: &str = "transaction headers are written in every shape of the grammar - payee or none, clear mark `*` / `!` or none, code or none, one blank or none between them, nothing / blanks / a tab after the last word, `; note` on the header line, `DATE=EFFECTIVE` on one in eight (two headers in five are the plain `DATE payee`; the counts of headers without payee, ending right after the clear mark, with a code, with trailing blanks are in the distribution) - and the sample number of a `format` line has 0-6 decimals and is written as 0.00 / 1.00 / 999.99 / 1000.00 / 1,000.00 / 1,000,000.00 / -1.00 / -1,234.50 (counted per form); the models take the postings and the number of decimals only";

/// decimals of a generated `format` declaration: 0, 2, 3 most often, 1 and 4..6 now and then
pub fn gen_dp(r: &mut Rng) -> u32 {
    *r.pick(&[0u32, 2, 2, 3, 0, 2, 2, 3, 0, 2, 3, 1, 4, 5, 6, 2])
}

#[derive(Clone, Debug, PartialEq, Serialize, Deserialize)]
pub struct Txn {
    pub date: i32, // days since 2020-01-01
    /// `DATE=EFFECTIVE` in the header; the report layer never reads it
    #[serde(default)]
    pub effective: Option<i32>,
    pub posts: Vec<Posting>,
    /// how the header line is written; the report layer never reads it
    #[serde(default)]
    pub head: Head,
}

#[derive(Clone, Debug, PartialEq, Serialize, Deserialize)]
pub enum Entry {
    Txn(Txn),
    /// `commodity C` + `format <sample> C`: commodity, decimals, how the sample is written
    Format(usize, u32, #[serde(default)] FmtLit),
    Comment,
}

/// give every transaction and format declaration of a generated ledger a drawn header shape /
/// sample-number shape (generators that build their trees without the shared `gen_txn`)
pub fn vary_shapes(entries: &mut [Entry], r: &mut Rng) {
    for e in entries.iter_mut() {
        match e {
            Entry::Txn(t) => t.head = Head::gen(r),
            Entry::Format(_, _, f) => *f = FmtLit::gen(r),
            Entry::Comment => {}
        }
    }
}

/// the same for enumerated case sets: the n-th ledger of the set gets the n-th shapes
pub fn vary_shapes_nth(entries: &mut [Entry], n: usize) {
    for (i, e) in entries.iter_mut().enumerate() {
        match e {
            Entry::Txn(t) => t.head = Head::nth(n + 7 * i),
            Entry::Format(_, _, f) => *f = FmtLit::nth(n + i),
            Entry::Comment => {}
        }
    }
}

// ---------- text ----------

pub fn date_text(d: i32) -> String {
    let base = chrono::NaiveDate::from_ymd_opt(2020, 1, 1).unwrap();
    (base + chrono::Duration::days(d as i64)).format("%Y/%m/%d").to_string()
}

pub fn num_text(m: i64, scale: u32, grouped: bool) -> String {
    let neg = m < 0;
    let digits = m.unsigned_abs().to_string();
    let digits = if digits.len() <= scale as usize {
        format!("{}{}", "0".repeat(scale as usize + 1 - digits.len()), digits)
    } else {
        digits
    };
    let (ip, fp) = digits.split_at(digits.len() - scale as usize);
    let mut s = String::new();
    if neg {
        s.push('-');
    }
    if grouped && ip.len() > 3 {
        let first = ((ip.len() - 1) % 3) + 1;
        s.push_str(&ip[..first]);
        let rest = &ip[first..];
        for k in (0..rest.len()).step_by(3) {
            s.push(',');
            s.push_str(&rest[k..k + 3]);
        }
    } else {
        s.push_str(ip);
    }
    if scale > 0 {
        s.push('.');
        s.push_str(fp);
    }
    s
}

fn lit_text(l: &Lit) -> String {
    let n = num_text(l.m, l.scale, l.grouped);
    match l.comm {
        Some(c) => format!("{} {}", n, COMMODITIES[c]),
        None => n,
    }
}

pub fn ve_text(v: &VE) -> String {
    match v {
        VE::Paren(e) => format!("({})", ex_text(e)),
        VE::Amt(l) => lit_text(l),
    }
}

pub fn ex_text(e: &Ex) -> String {
    match e {
        Ex::Neg(x) => format!("-{}", ex_text(x)),
        Ex::Bin(op, l, r) => format!(
            "{} {} {}",
            ex_text(l),
            match op {
                Op::Add => "+",
                Op::Sub => "-",
                Op::Mul => "*",
                Op::Div => "/",
            },
            ex_text(r)
        ),
        Ex::Val(v) => ve_text(v),
    }
}

pub fn posting_text(p: &Posting) -> String {
    posting_text_spans(p).0
}

/// the posting line, the byte range of the account name in it and of `= X` (from the `=`)
pub fn posting_text_spans(p: &Posting) -> (String, std::ops::Range<usize>, Option<std::ops::Range<usize>>) {
    let name = account_name(p.account);
    let mut s = format!("    {}", name);
    let acct = 4..s.len();
    if let Some(a) = &p.amount {
        write!(s, "  {}", ve_text(a)).unwrap();
        match &p.lot {
            Some(Exch::Rate(v)) => write!(s, " {{{}}}", ve_text(v)).unwrap(),
            Some(Exch::Total(v)) => write!(s, " {{{{{}}}}}", ve_text(v)).unwrap(),
            None => {}
        }
        match &p.cost {
            Some(Exch::Rate(v)) => write!(s, " @ {}", ve_text(v)).unwrap(),
            Some(Exch::Total(v)) => write!(s, " @@ {}", ve_text(v)).unwrap(),
            None => {}
        }
    }
    let mut bal = None;
    if let Some(b) = &p.balance {
        s.push_str("  ");
        let st = s.len();
        write!(s, "= {}", ve_text(b)).unwrap();
        bal = Some(st..s.len());
    }
    (s, acct, bal)
}

/// Text around the postings that the book-keeping never reads: payees, codes, comment lines
/// under the header and under a posting, a trailing comment on a posting line, the text of
/// comment entries.  Keys are entry indices / posting indices.  The default is the plain
/// rendering (`txn<k>` payees, no comments).
#[derive(Clone, Debug, Default, PartialEq, Serialize, Deserialize)]
pub struct Deco {
    #[serde(default)]
    pub txns: BTreeMap<usize, TxnDeco>,
    #[serde(default)]
    pub comments: BTreeMap<usize, String>,
}

#[derive(Clone, Debug, Default, PartialEq, Serialize, Deserialize)]
pub struct TxnDeco {
    #[serde(default)]
    pub code: Option<String>,
    #[serde(default)]
    pub payee: Option<String>,
    #[serde(default)]
    pub notes: Vec<String>,
    #[serde(default)]
    pub posts: BTreeMap<usize, PostDeco>,
}

#[derive(Clone, Debug, Default, PartialEq, Serialize, Deserialize)]
pub struct PostDeco {
    #[serde(default)]
    pub tail: Option<String>,
    #[serde(default)]
    pub after: Vec<String>,
}

impl Deco {
    pub fn is_plain(&self) -> bool {
        self.txns.is_empty() && self.comments.is_empty()
    }
}

/// where one posting stands in the rendered text (absolute byte offsets, 1-based line)
#[derive(Clone, Debug, PartialEq)]
pub struct PostingSpan {
    pub line: usize,
    pub line_off: usize,
    pub account: std::ops::Range<usize>,
    pub balance: Option<std::ops::Range<usize>>,
}

pub struct Rendered {
    pub text: String,
    /// 1-based first line of each entry
    pub entry_line: Vec<usize>,
    /// 1-based last line of each entry (the line before the blank line that ends it)
    pub entry_last_line: Vec<usize>,
    /// byte offset of the start of each posting line, per entry
    pub posting_off: Vec<Vec<usize>>,
    /// line, account-name range and `= X` range of each posting, per entry
    pub posting_span: Vec<Vec<PostingSpan>>,
}

pub fn render(entries: &[Entry]) -> Rendered {
    render_deco(entries, &Deco::default())
}

pub fn render_deco(entries: &[Entry], deco: &Deco) -> Rendered {
    let mut text = String::new();
    let mut entry_line = Vec::new();
    let mut entry_last_line = Vec::new();
    let mut posting_off = Vec::new();
    let mut posting_span = Vec::new();
    let mut line = 1usize;
    for (k, e) in entries.iter().enumerate() {
        entry_line.push(line);
        let mut offs = Vec::new();
        let mut spans = Vec::new();
        match e {
            Entry::Txn(t) => {
                let none = TxnDeco::default();
                let d = deco.txns.get(&k).unwrap_or(&none);
                write!(text, "{}", date_text(t.date)).unwrap();
                if let Some(ed) = t.effective {
                    write!(text, "={}", date_text(ed)).unwrap();
                }
                writeln!(text, "{}", t.head.text(k, deco.txns.get(&k))).unwrap();
                line += 1;
                for n in &d.notes {
                    writeln!(text, "    ; {}", n).unwrap();
                    line += 1;
                }
                for (i, p) in t.posts.iter().enumerate() {
                    let off = text.len();
                    offs.push(off);
                    let (pt, acct, bal) = posting_text_spans(p);
                    spans.push(PostingSpan {
                        line,
                        line_off: off,
                        account: off + acct.start..off + acct.end,
                        balance: bal.map(|b| off + b.start..off + b.end),
                    });
                    text.push_str(&pt);
                    let pd = d.posts.get(&i);
                    if let Some(tail) = pd.and_then(|x| x.tail.as_ref()) {
                        write!(text, "  ; {}", tail).unwrap();
                    }
                    text.push('\n');
                    line += 1;
                    for n in pd.map(|x| x.after.as_slice()).unwrap_or(&[]) {
                        writeln!(text, "        ; {}", n).unwrap();
                        line += 1;
                    }
                }
            }
            Entry::Format(c, dp, lit) => {
                writeln!(text, "commodity {}", COMMODITIES[*c]).unwrap();
                writeln!(text, "    format {} {}", lit.text(*dp), COMMODITIES[*c]).unwrap();
                line += 2;
            }
            Entry::Comment => {
                match deco.comments.get(&k) {
                    Some(c) => writeln!(text, "; {}", c).unwrap(),
                    None => writeln!(text, "; comment {}", k).unwrap(),
                }
                line += 1;
            }
        }
        posting_off.push(offs);
        posting_span.push(spans);
        entry_last_line.push(line - 1);
        text.push('\n');
        line += 1;
    }
    Rendered { text, entry_line, entry_last_line, posting_off, posting_span }
}

// ---------- text around the postings (C01-C03: the diagnostic must still name the entry and the posting) ----------

pub const PAYEES: [&str; 12] = [
    "スーパーマーケットで食料品と日用品を購入",
    "Café Zürich – déjeuner d'équipe",
    "Оплата аренды за март",
    "😀 lunch 🍣🍣",
    "ｆｕｌｌｗｉｄｔｈ　ｓｈｏｐ",
    "naïve façade coöp",
    "e\u{301}cole de\u{301}ja\u{300}",
    "期首残高",
    "plain ascii payee",
    "Ångström Ærø Łódź",
    "한국어 가게",
    "مطعم",
];
pub const NOTES: [&str; 10] = [
    "領収書あり",
    "reçu n° 42 — payé",
    "чек прилагается",
    ":タグ:経費:",
    "メモ: 割り勘",
    "ascii note",
    "🧾🧾🧾",
    "ｗｉｄｅ",
    "ÄÖÜäöüß",
    "備考 備考 備考 備考 備考 備考",
];
pub const CODES: [&str; 4] = ["#12", "領収-7", "n°3", "Ж-9"];

/// Rename a random subset of the accounts to their non-ASCII twins (the same twin everywhere
/// in the ledger) and put text the book-keeping never reads around the postings.
pub fn decorate(r: &mut Rng, entries: &mut [Entry]) -> Deco {
    let mut d = Deco::default();
    let style = r.below(4); // 0: plain rendering, 1: names only, 2: text only, 3: both
    if style == 0 {
        return d;
    }
    if style == 1 || style == 3 {
        let twin: Vec<bool> = (0..ACCOUNTS.len()).map(|_| r.chance(1, 2)).collect();
        for e in entries.iter_mut() {
            if let Entry::Txn(t) = e {
                for p in t.posts.iter_mut() {
                    if p.account < ACCOUNTS.len() && twin[p.account] {
                        p.account += ACCOUNTS.len();
                    }
                }
            }
        }
    }
    if style >= 2 {
        for (k, e) in entries.iter().enumerate() {
            match e {
                Entry::Txn(t) => {
                    let mut td = TxnDeco::default();
                    if r.chance(2, 3) {
                        td.payee = Some(r.pick(&PAYEES).to_string());
                    }
                    if r.chance(1, 5) {
                        td.code = Some(r.pick(&CODES).to_string());
                    }
                    for _ in 0..r.below(3) {
                        td.notes.push(r.pick(&NOTES).to_string());
                    }
                    for i in 0..t.posts.len() {
                        let mut pd = PostDeco::default();
                        if r.chance(1, 4) {
                            pd.tail = Some(r.pick(&NOTES).to_string());
                        }
                        if r.chance(1, 5) {
                            for _ in 0..1 + r.below(2) {
                                pd.after.push(r.pick(&NOTES).to_string());
                            }
                        }
                        if pd != PostDeco::default() {
                            td.posts.insert(i, pd);
                        }
                    }
                    if td != TxnDeco::default() {
                        d.txns.insert(k, td);
                    }
                }
                Entry::Comment => {
                    if r.chance(2, 3) {
                        d.comments.insert(k, format!("{} {}", r.pick(&NOTES), r.pick(&PAYEES)));
                    }
                }
                Entry::Format(..) => {}
            }
        }
    }
    d
}

/// corpus / replay files: the entry tree under "entries", the text around it under "deco"
pub fn corpus_decos(dir: &std::path::Path, extra: &[String]) -> Vec<Deco> {
    let mut files: Vec<std::path::PathBuf> = Vec::new();
    if let Some(i) = extra.iter().position(|a| a == "--replay") {
        if let Some(p) = extra.get(i + 1) {
            files.push(std::path::PathBuf::from(p));
        }
    } else if let Ok(rd) = std::fs::read_dir(dir) {
        files = rd.filter_map(|e| e.ok()).map(|e| e.path()).collect();
        files.sort();
    }
    let mut out = Vec::new();
    for p in files {
        if let Ok(text) = std::fs::read_to_string(&p) {
            if let Ok(v) = serde_json::from_str::<serde_json::Value>(&text) {
                if v.get("entries").and_then(|e| serde_json::from_value::<Vec<Entry>>(e.clone()).ok()).is_some() {
                    out.push(v.get("deco").and_then(|d| serde_json::from_value::<Deco>(d.clone()).ok()).unwrap_or_default());
                }
            }
        }
    }
    out
}

// ---------- Coq ----------

pub fn dec_term(d: &Decimal) -> String {
    format!("(D {} {})", coq::z(d.mantissa()), d.scale())
}

fn lit_term(l: &Lit) -> String {
    format!(
        "(VAmt (D {} {}) {})",
        coq::z(l.m as i128),
        l.scale,
        match l.comm {
            Some(c) => format!("(Some {})", c),
            None => "None".into(),
        }
    )
}

pub fn ve_term(v: &VE) -> String {
    match v {
        VE::Paren(e) => format!("(VParen {})", ex_term(e)),
        VE::Amt(l) => lit_term(l),
    }
}

pub fn ex_term(e: &Ex) -> String {
    match e {
        Ex::Neg(x) => format!("(EUnaryNeg {})", ex_term(x)),
        Ex::Bin(op, l, r) => format!(
            "(EBin {} {} {})",
            match op {
                Op::Add => "OAdd",
                Op::Sub => "OSub",
                Op::Mul => "OMul",
                Op::Div => "ODiv",
            },
            ex_term(l),
            ex_term(r)
        ),
        Ex::Val(v) => format!("(EVal {})", ve_term(v)),
    }
}

fn exch_term(x: &Option<Exch>) -> String {
    match x {
        None => "None".into(),
        Some(Exch::Total(v)) => format!("(Some (XTotal {}))", ve_term(v)),
        Some(Exch::Rate(v)) => format!("(Some (XRate {}))", ve_term(v)),
    }
}

pub fn entry_term(e: &Entry) -> String {
    match e {
        Entry::Txn(t) => {
            let posts: Vec<String> = t
                .posts
                .iter()
                .map(|p| {
                    format!(
                        "(P {} {} {} {} {})",
                        p.account,
                        coq::opt(p.amount.as_ref().map(ve_term)),
                        exch_term(&p.cost),
                        exch_term(&p.lot),
                        coq::opt(p.balance.as_ref().map(ve_term))
                    )
                })
                .collect();
            match t.effective {
                // the effective date is written into the case; the book-keeping model has no place
                // for it (add_transaction reads txn.date only): Run/LedgerCase.v TE
                Some(ed) => format!("(ETxn (TE {} {} [{}]))", coq::z(t.date as i128), coq::z(ed as i128), posts.join("; ")),
                None => format!("(ETxn (T {} [{}]))", coq::z(t.date as i128), posts.join("; ")),
            }
        }
        // the model takes the number of decimals only
        Entry::Format(c, dp, _) => format!("(EFormat {} {})", c, dp),
        Entry::Comment => "ENop".into(),
    }
}

// ---------- observation ----------

pub type AmountObs = BTreeMap<usize, Decimal>; // commodity id -> value

#[derive(Clone, Debug, PartialEq)]
pub struct PostingObs {
    pub account: usize,
    pub amount: AmountObs,
    pub converted: Option<(usize, Decimal)>,
}

#[derive(Clone, Debug, PartialEq)]
pub enum ErrObs {
    Eval(u8),
    BalanceFailure,
    Undeducible(usize, usize),
    Unbalanced(AmountObs),
    Assertion { posting: usize, computed: AmountObs, diff: AmountObs },
    ZeroAmountWithExchange,
    ZeroExchangeRate,
    ExchangeWithAmountCommodity,
    InvalidAccount(u8),
    InvalidCommodity(u8),
    Other(String),
}

#[derive(Clone, Debug, PartialEq)]
pub enum Obs {
    Ok { txns: Vec<(i32, Vec<PostingObs>)>, balance: Vec<(usize, AmountObs)> },
    Err { entry: usize, err: ErrObs, text: String },
    Panic(String),
}

pub fn comm_id(name: &str, names: &[String]) -> usize {
    names.iter().position(|c| c == name).unwrap_or(999)
}

/// parse `as_inline_display` output: "0" | "v C" | "(v C + v C ...)"
pub fn parse_inline(s: &str, comms: &[String]) -> AmountObs {
    let mut m = AmountObs::new();
    let s = s.trim();
    if s == "0" {
        return m;
    }
    let body = s.trim_start_matches('(').trim_end_matches(')');
    for part in body.split(" + ") {
        let mut it = part.trim().splitn(2, ' ');
        let v = it.next().unwrap_or("0");
        let c = it.next().unwrap_or("");
        if let Ok(d) = v.parse::<Decimal>() {
            m.insert(comm_id(c, comms), d);
        }
    }
    m
}

pub fn amount_obs(a: &report::Amount, comms: &[String]) -> AmountObs {
    let mut m = AmountObs::new();
    for (c, v) in a.clone().into_values() {
        m.insert(comm_id(c.as_str(), comms), v);
    }
    m
}

pub fn eval_code(s: &str) -> u8 {
    match s {
        "UnmatchingOperation" => 1,
        "UnmatchingCommodities" => 2,
        "UnknownCommodity" => 3,
        "DivideByZero" => 4,
        "NumberOverflow" => 5,
        "AmountRequired" => 6,
        "PostingAmountRequired" => 7,
        "SingleAmountRequired" => 8,
        _ => 0,
    }
}

/// InternError kind inside a Debug rendering: 1 AlreadyCanonical, 2 AlreadyAlias, 3 ConflictingAlias
fn intern_code(dbg: &str) -> u8 {
    if dbg.contains("AlreadyCanonical") {
        1
    } else if dbg.contains("AlreadyAlias") {
        2
    } else if dbg.contains("ConflictingAlias") {
        3
    } else {
        0
    }
}

fn ident_after<'a>(s: &'a str, prefix: &str) -> &'a str {
    let rest = &s[prefix.len()..];
    let end = rest.find(|c: char| !c.is_alphanumeric()).unwrap_or(rest.len());
    &rest[..end]
}

fn field_str(dbg: &str, field: &str) -> String {
    // `field: "...."` in a Debug rendering
    let pat = format!("{}: \"", field);
    if let Some(i) = dbg.find(&pat) {
        let rest = &dbg[i + pat.len()..];
        if let Some(j) = rest.find('"') {
            return rest[..j].to_string();
        }
    }
    String::new()
}

fn all_ints_after(dbg: &str, pat: &str) -> Vec<usize> {
    let mut out = Vec::new();
    let mut rest = dbg;
    while let Some(i) = rest.find(pat) {
        let r = &rest[i + pat.len()..];
        let end = r.find(|c: char| !c.is_ascii_digit()).unwrap_or(r.len());
        if let Ok(v) = r[..end].parse() {
            out.push(v);
        }
        rest = &r[end..];
    }
    out
}

pub struct Names {
    pub accounts: Vec<String>,
    pub commodities: Vec<String>,
}

impl Names {
    pub fn default_names() -> Self {
        Names {
            accounts: ACCOUNTS.iter().chain(ACCOUNTS_WIDE.iter()).map(|s| s.to_string()).collect(),
            commodities: COMMODITIES.iter().map(|s| s.to_string()).collect(),
        }
    }
}

/// one `Ledger::balance` call with a date range (C04)
#[derive(Clone, Debug, PartialEq)]
pub struct QueryObs {
    pub start: Option<i32>,
    pub end: Option<i32>,
    pub result: Vec<(usize, AmountObs)>,
    pub error: Option<String>,
}

/// what the report queries returned on an accepted ledger (C04)
#[derive(Clone, Debug, PartialEq, Default)]
pub struct ReportObs {
    pub queries: Vec<QueryObs>,
    /// account, amount, running total: `Ledger::postings` accumulated as RegisterCmd does
    pub register: Vec<(usize, AmountObs, AmountObs)>,
}

pub fn day_to_date(d: i32) -> chrono::NaiveDate {
    chrono::NaiveDate::from_ymd_opt(2020, 1, 1).unwrap() + chrono::Duration::days(d as i64)
}

/// Run report::process on an in-memory file tree; root is /main.ledger.
pub fn run_process(files: &[(String, String)], names: &Names, r: Option<&Rendered>) -> Obs {
    run_process_ext(files, names, r, None).0
}

/// As `run_process`; on success additionally asks `Ledger::balance` for every given
/// (start, end) pair and lists `Ledger::postings` with the running total of `okane register`.
pub fn run_process_ext(
    files: &[(String, String)],
    names: &Names,
    r: Option<&Rendered>,
    ranges: Option<&[(Option<i32>, Option<i32>)]>,
) -> (Obs, Option<ReportObs>) {
    let res = std::panic::catch_unwind(|| {
        let mut report_obs: Option<ReportObs> = None;
        let arena = bumpalo::Bump::new();
        let mut ctx = report::ReportContext::new(&arena);
        let mut map: HashMap<PathBuf, Vec<u8>> = HashMap::new();
        for (p, c) in files {
            map.insert(PathBuf::from(p), c.as_bytes().to_vec());
        }
        let loader = load::Loader::new(PathBuf::from("/main.ledger"), load::FakeFileSystem::from(map))
            .with_error_renderer(annotate_snippets::Renderer::plain());
        let obs = match report::process(&mut ctx, loader, &report::ProcessOptions::default()) {
            Ok(mut ledger) => {
                let base = chrono::NaiveDate::from_ymd_opt(2020, 1, 1).unwrap();
                let mut txns = Vec::new();
                for t in ledger.transactions() {
                    let mut ps = Vec::new();
                    for p in t.postings.iter() {
                        let conv = p.converted_amount.map(|sa| {
                            let s = sa.to_string();
                            let mut it = s.splitn(2, ' ');
                            let v: Decimal = it.next().unwrap().parse().unwrap();
                            (comm_id(it.next().unwrap_or(""), &names.commodities), v)
                        });
                        ps.push(PostingObs {
                            account: comm_id(p.account.as_str(), &names.accounts),
                            amount: amount_obs(&p.amount, &names.commodities),
                            converted: conv,
                        });
                    }
                    txns.push(((t.date - base).num_days() as i32, ps));
                }
                let bal = ledger
                    .balance(&ctx, &report::query::BalanceQuery::default())
                    .map(|b| b.into_owned().into_vec())
                    .unwrap_or_default();
                let balance = bal
                    .iter()
                    .map(|(a, am)| (comm_id(a.as_str(), &names.accounts), amount_obs(am, &names.commodities)))
                    .collect();
                if let Some(ranges) = ranges {
                    let mut ro = ReportObs::default();
                    for (s, e) in ranges {
                        let q = report::query::BalanceQuery {
                            conversion: None,
                            date_range: report::query::DateRange { start: s.map(day_to_date), end: e.map(day_to_date) },
                        };
                        let (result, error) = match ledger.balance(&ctx, &q) {
                            Ok(b) => (
                                b.into_owned()
                                    .into_vec()
                                    .iter()
                                    .map(|(a, am)| (comm_id(a.as_str(), &names.accounts), amount_obs(am, &names.commodities)))
                                    .collect(),
                                None,
                            ),
                            Err(err) => (Vec::new(), Some(format!("{:?}", err))),
                        };
                        ro.queries.push(QueryObs { start: *s, end: *e, result, error });
                    }
                    let mut total = report::Amount::default();
                    for p in ledger.postings(&ctx, &report::query::PostingQuery { account: None }) {
                        total += p.amount.clone();
                        ro.register.push((
                            comm_id(p.account.as_str(), &names.accounts),
                            amount_obs(&p.amount, &names.commodities),
                            amount_obs(&total, &names.commodities),
                        ));
                    }
                    report_obs = Some(ro);
                }
                Obs::Ok { txns, balance }
            }
            Err(report::ReportError::BookKeep(b, ectx)) => {
                let dbg = format!("{:?}", b);
                let cdbg = format!("{:?}", ectx);
                let line_start = all_ints_after(&cdbg, "line_start: ").first().copied().unwrap_or(0);
                let entry = r
                    .and_then(|r| r.entry_line.iter().position(|l| *l == line_start))
                    .unwrap_or(9999);
                let name: String = dbg.chars().take_while(|c| c.is_alphanumeric()).collect();
                let err = match name.as_str() {
                    "EvalFailure" => ErrObs::Eval(eval_code(ident_after(&dbg, "EvalFailure("))),
                    "BalanceFailure" => ErrObs::BalanceFailure,
                    "UndeduciblePostingAmount" => {
                        let v = all_ints_after(&dbg, "value: ");
                        ErrObs::Undeducible(*v.first().unwrap_or(&99), *v.get(1).unwrap_or(&99))
                    }
                    "UnbalancedPostings" => {
                        let inner = dbg.trim_start_matches("UnbalancedPostings(\"").trim_end_matches("\")");
                        ErrObs::Unbalanced(parse_inline(inner, &names.commodities))
                    }
                    "BalanceAssertionFailure" => {
                        let off = all_ints_after(&dbg, "account_span: TrackedSpan(").first().copied().unwrap_or(0);
                        let posting = r
                            .and_then(|r| r.posting_off.get(entry))
                            .map(|offs| offs.iter().rposition(|o| *o <= off).unwrap_or(99))
                            .unwrap_or(99);
                        ErrObs::Assertion {
                            posting,
                            computed: parse_inline(&field_str(&dbg, "computed"), &names.commodities),
                            diff: parse_inline(&field_str(&dbg, "diff"), &names.commodities),
                        }
                    }
                    "ZeroAmountWithExchange" => ErrObs::ZeroAmountWithExchange,
                    "ZeroExchangeRate" => ErrObs::ZeroExchangeRate,
                    "ExchangeWithAmountCommodity" => ErrObs::ExchangeWithAmountCommodity,
                    "InvalidAccount" => ErrObs::InvalidAccount(intern_code(&dbg)),
                    "InvalidCommodity" => ErrObs::InvalidCommodity(intern_code(&dbg)),
                    _ => ErrObs::Other(dbg.clone()),
                };
                Obs::Err { entry, err, text: dbg }
            }
            Err(other) => {
                let d = format!("{:?}", other);
                Obs::Err { entry: 9999, err: ErrObs::Other(d.clone()), text: d }
            }
        };
        (obs, report_obs)
    });
    match res {
        Ok(o) => o,
        Err(p) => (
            Obs::Panic(
                p.downcast_ref::<String>()
                    .cloned()
                    .or_else(|| p.downcast_ref::<&str>().map(|s| s.to_string()))
                    .unwrap_or_default(),
            ),
            None,
        ),
    }
}

pub fn amount_term(a: &AmountObs) -> String {
    coq::list(a.iter().map(|(c, v)| format!("({}, {})", c, dec_term(v))))
}

pub fn obs_term(o: &Obs) -> String {
    match o {
        Obs::Ok { txns, balance } => {
            let ts = coq::list(txns.iter().map(|(d, ps)| {
                format!(
                    "({}, {})",
                    coq::z(*d as i128),
                    coq::list(ps.iter().map(|p| format!(
                        "(OP {} {} {})",
                        p.account,
                        amount_term(&p.amount),
                        match &p.converted {
                            Some((c, v)) => format!("(Some ({}, {}))", c, dec_term(v)),
                            None => "None".into(),
                        }
                    )))
                )
            }));
            let bs = coq::list(balance.iter().map(|(a, am)| format!("({}, {})", a, amount_term(am))));
            format!("(LOk {} {})", ts, bs)
        }
        Obs::Err { entry, err, .. } => {
            let e = match err {
                ErrObs::Eval(k) => format!("(XEval {})", k),
                ErrObs::BalanceFailure => "XBalanceFailure".into(),
                ErrObs::Undeducible(i, j) => format!("(XUndeducible {} {})", i, j),
                ErrObs::Unbalanced(a) => format!("(XUnbalanced {})", amount_term(a)),
                ErrObs::Assertion { posting, computed, diff } => {
                    format!("(XAssertion {} {} {})", posting, amount_term(computed), amount_term(diff))
                }
                ErrObs::ZeroAmountWithExchange => "XZeroAmountWithExchange".into(),
                ErrObs::ZeroExchangeRate => "XZeroExchangeRate".into(),
                ErrObs::ExchangeWithAmountCommodity => "XExchangeWithAmountCommodity".into(),
                ErrObs::InvalidAccount(k) => format!("(XInvalidAccount {})", k),
                ErrObs::InvalidCommodity(k) => format!("(XInvalidCommodity {})", k),
                ErrObs::Other(_) => "XOther".into(),
            };
            format!("(LErr {} {})", entry, e)
        }
        Obs::Panic(_) => "LPanic".into(),
    }
}

pub fn obs_json(o: &Obs) -> serde_json::Value {
    match o {
        Obs::Ok { txns, balance } => json!({"ok": {"transactions": txns.len(),
            "balance": balance.iter().map(|(a, am)| format!("{}: {}", account_name(*a),
                am.iter().map(|(c, v)| format!("{} {}", v, COMMODITIES.get(*c).unwrap_or(&"?"))).collect::<Vec<_>>().join(" + "))).collect::<Vec<_>>()}}),
        Obs::Err { entry, text, .. } => json!({"err": text, "entry": entry}),
        Obs::Panic(m) => json!({ "panic": m }),
    }
}

// ---------- generation ----------

#[derive(Clone)]
pub struct Bias {
    pub assert_pct: u64,
    pub wrong_assert_pct: u64,
    pub omit_pct: u64,
    pub assign_pct: u64,
    pub cost_pct: u64,
    pub lot_pct: u64,
    pub expr_pct: u64,
    pub unbalanced_pct: u64,
    pub format_pct: u64,
    pub max_txns: u64,
    pub zero_pct: u64,
    /// share of costs / lot prices written with a minus sign (`@@ -1,000 USD`, `{{-5 EUR}}`,
    /// `@ -2 USD`); 0 draws nothing from the stream
    pub neg_exch_pct: u64,
}

impl Bias {
    pub fn default_bias() -> Self {
        Bias {
            assert_pct: 20,
            wrong_assert_pct: 10,
            omit_pct: 30,
            assign_pct: 10,
            cost_pct: 20,
            lot_pct: 10,
            expr_pct: 15,
            unbalanced_pct: 20,
            format_pct: 40,
            max_txns: 5,
            zero_pct: 8,
            neg_exch_pct: 0,
        }
    }
}

type Bal = BTreeMap<usize, BTreeMap<usize, Decimal>>;

fn gen_lit(r: &mut Rng, comm: Option<usize>, b: &Bias) -> Lit {
    let scale = *r.pick(&[0u32, 0, 2, 2, 2, 3]);
    let mag = match r.below(10) {
        0 => 0,
        1..=5 => r.range(1, 200),
        6..=7 => r.range(1, 5000),
        _ => r.range(1000, 3_000_000),
    };
    let m = if r.chance(b.zero_pct, 100) { 0 } else if r.chance(1, 2) { -mag } else { mag };
    Lit { m, scale, comm, grouped: r.chance(1, 3) }
}

/// a value expression whose value is `comm`-typed; returns (tree, value)
fn gen_amount_expr(r: &mut Rng, comm: usize, b: &Bias, depth: u32) -> (VE, Decimal) {
    if depth == 0 || !r.chance(b.expr_pct, 100) {
        let l = gen_lit(r, Some(comm), b);
        let v = l.dec();
        return (VE::Amt(l), v);
    }
    // parenthesised expression generated along the grammar add := mul (op mul)*
    let n_terms = 1 + r.below(3);
    let mut acc: Option<(Ex, Decimal)> = None;
    for _ in 0..n_terms {
        let (t, tv) = gen_mul_term(r, comm, b, depth - 1);
        acc = Some(match acc {
            None => (t, tv),
            Some((l, lv)) => {
                if r.chance(1, 2) {
                    (Ex::Bin(Op::Add, Box::new(l), Box::new(t)), lv + tv)
                } else {
                    (Ex::Bin(Op::Sub, Box::new(l), Box::new(t)), lv - tv)
                }
            }
        });
    }
    let (e, v) = acc.unwrap();
    (VE::Paren(Box::new(e)), v)
}

fn small_num(r: &mut Rng) -> Lit {
    let (m, scale) = *r.pick(&[(2i64, 0u32), (3, 0), (5, 0), (10, 0), (15, 1), (25, 2), (4, 0), (-2, 0), (125, 2), (8, 1)]);
    Lit { m, scale, comm: None, grouped: false }
}

fn gen_mul_term(r: &mut Rng, comm: usize, b: &Bias, depth: u32) -> (Ex, Decimal) {
    // unary := -value | value ; mul := unary ((*|/) unary)*
    let (v, val) = gen_amount_expr(r, comm, b, depth);
    let mut e = Ex::Val(Box::new(v));
    let mut val = val;
    if r.chance(1, 6) {
        e = Ex::Neg(Box::new(e));
        val = -val;
    }
    if r.chance(1, 3) {
        let k = small_num(r);
        let kv = k.dec();
        if r.chance(2, 3) {
            e = Ex::Bin(Op::Mul, Box::new(e), Box::new(Ex::Val(Box::new(VE::Amt(k)))));
            val *= kv;
        } else {
            // exact quotients only: divisor made of 2s and 5s
            let q = val / kv;
            if q * kv == val && q.scale() <= 9 {
                e = Ex::Bin(Op::Div, Box::new(e), Box::new(Ex::Val(Box::new(VE::Amt(k)))));
                val = q;
            }
        }
    } else if r.chance(1, 5) {
        // a division by a number without a finite reciprocal (3, 7, 0.3 ...) of an exact
        // multiple of it: the quotient - the value `val` the term had anyway - is exact, the
        // reciprocal of the divisor is not.  The dividend is written as a literal, as the
        // product `term * d`, or as a sum of two literals.
        let (dm, ds) = *r.pick(&NT_DIVISORS);
        let d = Decimal::new(dm, ds);
        let big = val * d;
        let dl = Ex::Val(Box::new(VE::Amt(Lit { m: dm, scale: ds, comm: None, grouped: false })));
        let small = big.scale() <= 6 && big.mantissa().abs() < 1_000_000_000;
        let dividend = match r.below(3) {
            0 if small => Ex::Val(Box::new(VE::Amt(Lit { m: big.mantissa() as i64, scale: big.scale(), comm: Some(comm), grouped: r.chance(1, 3) }))),
            1 if small => {
                let x = Decimal::new(r.range(1, 5000), big.scale().min(3));
                let y = big - x;
                let lit = |v: Decimal| Ex::Val(Box::new(VE::Amt(Lit { m: v.mantissa() as i64, scale: v.scale(), comm: Some(comm), grouped: false })));
                Ex::Val(Box::new(VE::Paren(Box::new(Ex::Bin(Op::Add, Box::new(lit(x)), Box::new(lit(y)))))))
            }
            _ => Ex::Bin(Op::Mul, Box::new(e), Box::new(dl.clone())),
        };
        e = Ex::Bin(Op::Div, Box::new(dividend), Box::new(dl));
    }
    (e, val)
}

/// divisors d with 1/d not a terminating decimal: (mantissa, scale)
pub const NT_DIVISORS: [(i64, u32); 12] = [(3, 0), (6, 0), (7, 0), (9, 0), (11, 0), (12, 0), (13, 0), (3, 1), (7, 2), (15, 0), (21, 0), (14, 1)];

/// divisions by a bare literal whose reciprocal does not terminate, in an amount expression
fn nt_div_count_ve(v: &VE) -> usize {
    match v {
        VE::Paren(e) => nt_div_count(e),
        VE::Amt(_) => 0,
    }
}
fn nt_div_count(e: &Ex) -> usize {
    match e {
        Ex::Neg(x) => nt_div_count(x),
        Ex::Val(v) => nt_div_count_ve(v),
        Ex::Bin(op, l, r) => {
            let here = match (op, &**r) {
                (Op::Div, Ex::Val(v)) => match &**v {
                    VE::Amt(Lit { m, scale, comm: None, .. }) if *m != 0 => {
                        let d = Decimal::new(*m, *scale);
                        (Decimal::ONE / d) * d != Decimal::ONE
                    }
                    _ => false,
                },
                _ => false,
            };
            here as usize + nt_div_count(l) + nt_div_count(r)
        }
    }
}

fn add_to(bal: &mut Bal, acct: usize, comm: usize, v: Decimal) {
    let e = bal.entry(acct).or_default().entry(comm).or_insert(Decimal::ZERO);
    *e += v;
    if e.is_zero() {
        bal.get_mut(&acct).unwrap().remove(&comm);
    }
}

fn plain_lit(v: Decimal, comm: usize) -> VE {
    let v = v.normalize();
    VE::Amt(Lit { m: v.mantissa() as i64, scale: v.scale(), comm: Some(comm), grouped: false })
}

/// one transaction; `bal` is the generator's own idea of the running balances, used only to
/// write mostly-true assertions
pub fn gen_txn(r: &mut Rng, date: i32, b: &Bias, bal: &mut Bal, formats: &BTreeMap<usize, u32>) -> Txn {
    let n = 1 + r.below(4) as usize;
    let ncomm = 1 + r.below(3) as usize;
    let mut comms: Vec<usize> = (0..COMMODITIES.len()).collect();
    r.shuffle(&mut comms);
    comms.truncate(ncomm);
    let mut posts = Vec::new();
    let mut residual: BTreeMap<usize, Decimal> = BTreeMap::new();
    let mut local = bal.clone();
    for _ in 0..n {
        let account = r.below(ACCOUNTS.len() as u64) as usize;
        let comm = *r.pick(&comms);
        let (amt, val) = gen_amount_expr(r, comm, b, 2);
        let mut p = Posting { account, amount: Some(amt), cost: None, lot: None, balance: None };
        let mut bv = (comm, val);
        let other: Vec<usize> = (0..COMMODITIES.len()).filter(|c| *c != comm).collect();
        // a zero that went through negation carries rust_decimal's sign bit (-0), which the
        // exact-rational model does not represent: no total price on such amounts
        let signed_zero_risk = val.is_zero() && !matches!(p.amount, Some(VE::Amt(_)));
        if r.chance(b.cost_pct, 100) {
            let oc = if r.chance(1, 12) { comm } else { *r.pick(&other) };
            let mut l = gen_lit(r, Some(oc), b);
            l.m = l.m.abs().max(if r.chance(1, 15) { 0 } else { 1 });
            if b.neg_exch_pct > 0 && r.chance(b.neg_exch_pct, 100) {
                // a written sign: a total only follows the sign of the amount, a rate multiplies
                l.m = -l.m;
            }
            if r.chance(1, 2) || signed_zero_risk {
                p.cost = Some(Exch::Rate(VE::Amt(l.clone())));
                bv = (oc, l.dec() * val);
            } else {
                p.cost = Some(Exch::Total(VE::Amt(l.clone())));
                bv = (oc, if val.is_sign_negative() { -l.dec().abs() } else { l.dec().abs() });
            }
        }
        if r.chance(b.lot_pct, 100) {
            let oc = *r.pick(&other);
            let mut l = gen_lit(r, Some(oc), b);
            l.m = l.m.abs().max(1);
            if b.neg_exch_pct > 0 && r.chance(b.neg_exch_pct, 100) {
                l.m = -l.m;
            }
            if r.chance(2, 3) || signed_zero_risk {
                p.lot = Some(Exch::Rate(VE::Amt(l.clone())));
                bv = (oc, l.dec() * val);
            } else {
                p.lot = Some(Exch::Total(VE::Amt(l.clone())));
                bv = (oc, if val.is_sign_negative() { -l.dec().abs() } else { l.dec().abs() });
            }
        }
        // the pure statement-check form: a commodity-less `0` amount carrying an assertion
        if p.cost.is_none() && p.lot.is_none() && r.chance(b.assert_pct, 800) {
            p.amount = Some(VE::Amt(Lit { m: 0, scale: 0, comm: None, grouped: false }));
            let held: Vec<(usize, Decimal)> = local.get(&account).map(|m| m.iter().map(|(c, v)| (*c, *v)).collect()).unwrap_or_default();
            let wrong = r.chance(b.wrong_assert_pct.max(20), 100);
            p.balance = Some(if held.is_empty() || r.chance(1, 3) {
                // bare `= 0` (true only when the account is empty)
                VE::Amt(Lit { m: 0, scale: 0, comm: None, grouped: false })
            } else {
                let (c, v) = held[r.below(held.len() as u64) as usize];
                plain_lit(if wrong { v + Decimal::new(r.range(1, 3), 0) } else { v }, c)
            });
            posts.push(p);
            continue;
        }
        *residual.entry(bv.0).or_insert(Decimal::ZERO) += bv.1;
        add_to(&mut local, account, comm, val);
        if r.chance(b.assert_pct, 100) {
            let cur = local.get(&account).and_then(|m| m.get(&comm)).copied().unwrap_or(Decimal::ZERO);
            // false assertions: off by whole units, or by less than half a unit of a declared precision
            let shown = if r.chance(b.wrong_assert_pct, 100) {
                if r.chance(1, 2) {
                    cur + Decimal::new(r.range(1, 3), 0)
                } else {
                    let dp = formats.get(&comm).copied().unwrap_or(2);
                    cur + Decimal::new(*r.pick(&[1i64, -1, 4, -4, 2, 49, -49]), dp + 1 + r.below(2) as u32)
                }
            } else {
                cur
            };
            p.balance = Some(plain_lit(shown, comm));
            // ill-typed asserted values must be rejected, not skipped: a non-zero bare number
            // (commodity forgotten) or a sum over two commodities
            if r.chance(1, 25) {
                p.balance = Some(if r.chance(1, 2) {
                    VE::Amt(Lit { m: 1 + r.below(999) as i64, scale: 0, comm: None, grouped: false })
                } else {
                    let oc = (comm + 1 + r.below(4) as usize) % COMMODITIES.len();
                    VE::Paren(Box::new(Ex::Bin(
                        Op::Add,
                        Box::new(Ex::Val(Box::new(plain_lit(shown, comm)))),
                        Box::new(Ex::Val(Box::new(plain_lit(Decimal::new(1 + r.below(50) as i64, 0), oc)))),
                    )))
                });
            }
        }
        posts.push(p);
    }
    // closing move
    let mode = r.below(100);
    let omit = mode < b.omit_pct;
    let assign = !omit && mode < b.omit_pct + b.assign_pct;
    let leave_unbalanced = !omit && !assign && r.chance(b.unbalanced_pct, 100);
    if omit {
        let account = r.below(ACCOUNTS.len() as u64) as usize;
        let pos = r.below(posts.len() as u64 + 1) as usize;
        for (c, v) in &residual {
            add_to(&mut local, account, *c, -*v);
        }
        posts.insert(pos, Posting { account, amount: None, cost: None, lot: None, balance: None });
        if r.chance(1, 12) {
            // a second unconstrained posting: must be rejected
            posts.push(Posting { account: r.below(ACCOUNTS.len() as u64) as usize, amount: None, cost: None, lot: None, balance: None });
        }
    } else if assign {
        // `Account = X`: choose X so that the transaction balances when possible
        let account = r.below(ACCOUNTS.len() as u64) as usize;
        let nz: Vec<(usize, Decimal)> = residual.iter().filter(|(_, v)| !v.is_zero()).map(|(c, v)| (*c, *v)).collect();
        let (c, need) = if nz.len() == 1 { (nz[0].0, -nz[0].1) } else { (*r.pick(&comms), Decimal::new(r.range(-50, 50), 0)) };
        let cur = local.get(&account).and_then(|m| m.get(&c)).copied().unwrap_or(Decimal::ZERO);
        let target = cur + need;
        let bare_zero = target.is_zero() && r.chance(1, 2);
        let bexpr = if bare_zero {
            VE::Amt(Lit { m: 0, scale: 0, comm: None, grouped: false })
        } else {
            plain_lit(target, c)
        };
        add_to(&mut local, account, c, need);
        posts.push(Posting { account, amount: None, cost: None, lot: None, balance: Some(bexpr) });
    } else if !leave_unbalanced {
        // explicit balancing postings, one per commodity; sometimes leave an implied exchange
        let nz: Vec<(usize, Decimal)> = residual.iter().filter(|(_, v)| !v.is_zero()).map(|(c, v)| (*c, *v)).collect();
        let keep_pair = nz.len() == 2 && (nz[0].1.is_sign_negative() != nz[1].1.is_sign_negative()) && r.chance(1, 2);
        if !keep_pair {
            for (c, v) in nz {
                let account = r.below(ACCOUNTS.len() as u64) as usize;
                // off by half a unit of the declared precision now and then
                let mut amt = -v;
                if let Some(dp) = formats.get(&c) {
                    if r.chance(1, 4) {
                        let half = Decimal::new(*r.pick(&[5i64, -5, 4, 6, 15, 25]), dp + 1);
                        amt += half;
                    }
                }
                add_to(&mut local, account, c, amt);
                let mut p = Posting { account, amount: Some(plain_lit(amt, c)), cost: None, lot: None, balance: None };
                if r.chance(b.assert_pct, 100) {
                    let cur = local.get(&account).and_then(|m| m.get(&c)).copied().unwrap_or(Decimal::ZERO);
                    p.balance = Some(plain_lit(cur, c));
                }
                posts.push(p);
            }
        }
    }
    *bal = local;
    // the header: any of the shapes the grammar allows; an effective date now and then
    let head = Head::gen(r);
    let effective = if r.chance(1, 8) { Some((date + r.range(0, 20) as i32 - 5).max(0)) } else { None };
    Txn { effective, date, posts, head }
}

pub fn gen_ledger(r: &mut Rng, b: &Bias) -> Vec<Entry> {
    let mut entries = Vec::new();
    let mut formats: BTreeMap<usize, u32> = BTreeMap::new();
    if r.chance(b.format_pct, 100) {
        let k = 1 + r.below(3);
        for _ in 0..k {
            let c = r.below(COMMODITIES.len() as u64) as usize;
            let dp = gen_dp(r);
            formats.insert(c, dp);
            entries.push(Entry::Format(c, dp, FmtLit::gen(r)));
        }
    }
    let mut bal = Bal::new();
    let n = 1 + r.below(b.max_txns);
    let mut date = r.range(0, 400) as i32;
    for _ in 0..n {
        if r.chance(1, 8) {
            entries.push(Entry::Comment);
        }
        if r.chance(1, 10) {
            let c = r.below(COMMODITIES.len() as u64) as usize;
            let dp = gen_dp(r);
            formats.insert(c, dp);
            entries.push(Entry::Format(c, dp, FmtLit::gen(r)));
        }
        date += r.range(0, 40) as i32 - if r.chance(1, 10) { 30 } else { 0 };
        entries.push(Entry::Txn(gen_txn(r, date.max(0), b, &mut bal, &formats)));
    }
    entries
}

pub fn case_json(prop: &str, entries: &[Entry], text: &str, o: &Obs) -> serde_json::Value {
    json!({"property": prop, "ledger": text, "impl": obs_json(o), "entries": serde_json::to_value(entries).unwrap(),
           "reproduce": "write `ledger` to a file and run: okane balance <file>"})
}

// ---------- shared driver for C01-C04 ----------

pub const HEADER: &str = "From Coq Require Import List NArith ZArith QArith Qcanon.\nFrom Okv Require Import Base.Maps Base.Dec Model.Amount Model.Book Run.LedgerCase";

pub fn header(classify: &str) -> String {
    format!("{} Run.{}.\nImport ListNotations.\nOpen Scope N_scope.", HEADER, classify)
}

pub struct Shape {
    pub txns: usize,
    pub postings: usize,
    pub omitted: usize,
    pub assigned: usize,
    pub asserted: usize,
    pub cost: usize,
    pub lot: usize,
    pub exprs: usize,
    pub formats: usize,
    /// costs / lot prices written with a minus sign: (totals, rates)
    pub neg_total: usize,
    pub neg_rate: usize,
    /// header shapes: no payee at all / ends right after the clear mark (`DATE *`, blanks aside)
    /// / carries a code / has blanks after its last word / `DATE=EFFECTIVE`
    pub head_bare: usize,
    pub head_mark_only: usize,
    pub head_code: usize,
    pub head_trailing_blank: usize,
    pub head_effective: usize,
    /// format samples written without a digit-group comma (`0.00`, `999.99`, `1000.00`, `-1.00`)
    pub fmt_no_comma: usize,
    pub fmt_lits: Vec<FmtLit>,
    /// divisions of an exact multiple by a number without a finite reciprocal (`810 JPY / 3`)
    pub nt_divisions: usize,
}

/// the counts of `Shape` that describe how the text is written
pub fn shape_text_stats(st: &mut crate::coq::Stats, s: &Shape) {
    st.add("shape:header_without_payee", s.head_bare as u64);
    st.add("shape:header_ends_after_clear_mark", s.head_mark_only as u64);
    st.add("shape:header_with_code", s.head_code as u64);
    st.add("shape:header_trailing_blanks", s.head_trailing_blank as u64);
    st.add("shape:header_effective_date", s.head_effective as u64);
    st.add("shape:format_sample_without_comma", s.fmt_no_comma as u64);
    st.add("shape:exact_division_by_number_without_finite_reciprocal", s.nt_divisions as u64);
    if s.nt_divisions > 0 {
        st.count("cases_with:exact_division_by_number_without_finite_reciprocal");
    }
    for f in &s.fmt_lits {
        st.add(&format!("format_sample:{}", f.name()), 1);
    }
}

pub fn shape(entries: &[Entry]) -> Shape {
    let mut s = Shape { txns: 0, postings: 0, omitted: 0, assigned: 0, asserted: 0, cost: 0, lot: 0, exprs: 0, formats: 0, neg_total: 0, neg_rate: 0,
        head_bare: 0, head_mark_only: 0, head_code: 0, head_trailing_blank: 0, head_effective: 0, fmt_no_comma: 0, fmt_lits: Vec::new(), nt_divisions: 0 };
    for e in entries {
        match e {
            Entry::Txn(t) => {
                s.txns += 1;
                s.head_bare += t.head.bare as usize;
                s.head_mark_only += t.head.ends_after_mark(None) as usize;
                s.head_code += t.head.code as usize;
                s.head_trailing_blank += (t.head.trail != 0) as usize;
                s.head_effective += t.effective.is_some() as usize;
                for p in &t.posts {
                    s.postings += 1;
                    match (&p.amount, &p.balance) {
                        (None, None) => s.omitted += 1,
                        (None, Some(_)) => s.assigned += 1,
                        (Some(a), b) => {
                            if b.is_some() {
                                s.asserted += 1;
                            }
                            if matches!(a, VE::Paren(_)) {
                                s.exprs += 1;
                            }
                            s.nt_divisions += nt_div_count_ve(a);
                        }
                    }
                    if p.cost.is_some() {
                        s.cost += 1;
                    }
                    if p.lot.is_some() {
                        s.lot += 1;
                    }
                    for x in [&p.cost, &p.lot].into_iter().flatten() {
                        match x {
                            Exch::Total(VE::Amt(l)) if l.m < 0 => s.neg_total += 1,
                            Exch::Rate(VE::Amt(l)) if l.m < 0 => s.neg_rate += 1,
                            _ => {}
                        }
                    }
                }
            }
            Entry::Format(_, _, f) => {
                s.formats += 1;
                s.fmt_no_comma += !f.has_comma() as usize;
                s.fmt_lits.push(*f);
            }
            Entry::Comment => {}
        }
    }
    s
}

pub fn obs_kind(o: &Obs) -> String {
    match o {
        Obs::Ok { .. } => "impl:accepted".into(),
        Obs::Err { err, .. } => format!(
            "impl:err:{}",
            match err {
                ErrObs::Eval(k) => format!("eval{}", k),
                ErrObs::BalanceFailure => "balance_failure".into(),
                ErrObs::Undeducible(..) => "undeducible".into(),
                ErrObs::Unbalanced(_) => "unbalanced".into(),
                ErrObs::Assertion { .. } => "assertion".into(),
                ErrObs::ZeroAmountWithExchange => "zero_amount_with_exchange".into(),
                ErrObs::ZeroExchangeRate => "zero_exchange_rate".into(),
                ErrObs::ExchangeWithAmountCommodity => "exchange_with_amount_commodity".into(),
                ErrObs::InvalidAccount(_) => "invalid_account".into(),
                ErrObs::InvalidCommodity(_) => "invalid_commodity".into(),
                ErrObs::Other(_) => "other".into(),
            }
        ),
        Obs::Panic(_) => "impl:panic".into(),
    }
}

/// run one ledger through the implementation and record it as a case `CG entries obs diag`:
/// the ledger is written with the text of `deco` around the postings, and when it is rejected
/// the error is rendered as the user sees it and read back (diag::read_error_diag)
pub fn emit_ledger_case(
    sh: &mut crate::coq::Shards,
    st: &mut crate::coq::Stats,
    prop: &str,
    entries: &[Entry],
    deco: &Deco,
    nontrivial: &dyn Fn(&Shape, &Obs) -> bool,
    tag: &str,
) -> Obs {
    use crate::diag::{self, GDiag};
    let r = render_deco(entries, deco);
    let names = Names::default_names();
    let files = [("/main.ledger".to_string(), r.text.clone())];
    let o = run_process(&files, &names, Some(&r));
    let mut rendered: Option<String> = None;
    let d = match &o {
        Obs::Err { entry, err, .. } if *entry != 9999 => {
            st.count("diag:errors_rendered");
            st.count(&format!("diag:rendered:{}", err_kind(err)));
            let lo = r.entry_line.get(*entry).map(|l| r.text.split('\n').take(l - 1).map(|x| x.len() + 1).sum::<usize>()).unwrap_or(0);
            let hi = r.entry_last_line.get(*entry).map(|l| r.text.split('\n').take(*l).map(|x| x.len() + 1).sum::<usize>()).unwrap_or(lo);
            if !r.text[lo..hi.min(r.text.len())].is_ascii() {
                st.count("diag:non_ascii_text_in_the_failing_entry");
            }
            match diag::rendered_error(&files) {
                Err(m) => GDiag::Panic(m),
                Ok(None) => GDiag::Unreadable("no error on the second run".into()),
                Ok(Some(text)) => {
                    let d = diag::read_error_diag(&text, &r);
                    rendered = Some(text);
                    d
                }
            }
        }
        _ => GDiag::NotApplicable,
    };
    st.count(match &d {
        GDiag::NotApplicable => "diag:not_applicable",
        GDiag::Panic(_) => "diag:render_panic",
        GDiag::Unreadable(_) => "diag:unreadable",
        GDiag::Wide => "diag:excerpt_cut_not_read",
        GDiag::Seen(_) => "diag:read_back",
    });
    let s = shape(entries);
    st.eval(&r.text, nontrivial(&s, &o));
    st.count(&obs_kind(&o));
    st.count(&format!("gen:{}", tag));
    st.count(if deco.is_plain() { "text:plain" } else { "text:decorated" });
    if entries.iter().any(|e| matches!(e, Entry::Txn(t) if t.posts.iter().any(|p| p.account >= ACCOUNTS.len()))) {
        st.count("text:non_ascii_account_names");
    }
    st.add("shape:txns", s.txns as u64);
    st.add("shape:postings", s.postings as u64);
    st.add("shape:omitted", s.omitted as u64);
    st.add("shape:assigned", s.assigned as u64);
    st.add("shape:asserted", s.asserted as u64);
    st.add("shape:cost", s.cost as u64);
    st.add("shape:lot", s.lot as u64);
    st.add("shape:signed_total", s.neg_total as u64);
    st.add("shape:signed_rate", s.neg_rate as u64);
    st.add("shape:paren_expr", s.exprs as u64);
    st.add("shape:format_decl", s.formats as u64);
    shape_text_stats(st, &s);
    let mut rep = case_json(prop, entries, &r.text, &o);
    if !deco.is_plain() {
        rep["deco"] = serde_json::to_value(deco).unwrap();
    }
    if !matches!(d, GDiag::NotApplicable) {
        rep["impl"]["rendered"] = json!(rendered);
        rep["impl"]["rendered_read_as"] = diag::gdiag_json(&d);
    }
    if st.samples.len() < 3 || (st.samples.len() < 6 && matches!(o, Obs::Err { .. })) {
        st.sample(rep.clone(), 6);
    }
    let term = format!("CG {} {} {}", coq::list(entries.iter().map(entry_term)), obs_term(&o), diag::gdiag_term(&d));
    sh.push(term, vec![rep]);
    o
}

pub fn err_kind(e: &ErrObs) -> &'static str {
    match e {
        ErrObs::Eval(_) => "EvalFailure",
        ErrObs::BalanceFailure => "BalanceFailure",
        ErrObs::Undeducible(..) => "UndeduciblePostingAmount",
        ErrObs::Unbalanced(_) => "UnbalancedPostings",
        ErrObs::Assertion { .. } => "BalanceAssertionFailure",
        ErrObs::ZeroAmountWithExchange => "ZeroAmountWithExchange",
        ErrObs::ZeroExchangeRate => "ZeroExchangeRate",
        ErrObs::ExchangeWithAmountCommodity => "ExchangeWithAmountCommodity",
        ErrObs::InvalidAccount(_) => "InvalidAccount",
        ErrObs::InvalidCommodity(_) => "InvalidCommodity",
        ErrObs::Other(_) => "other",
    }
}

/// corpus / replay files carry the entry tree as JSON under "entries"
pub fn corpus_entries(dir: &std::path::Path, extra: &[String]) -> (Vec<Vec<Entry>>, bool) {
    let mut out = Vec::new();
    let mut files: Vec<PathBuf> = Vec::new();
    let mut replay = false;
    if let Some(i) = extra.iter().position(|a| a == "--replay") {
        replay = true;
        if let Some(p) = extra.get(i + 1) {
            files.push(PathBuf::from(p));
        }
    } else if let Ok(rd) = std::fs::read_dir(dir) {
        files = rd.filter_map(|e| e.ok()).map(|e| e.path()).collect();
        files.sort();
    }
    for p in files {
        if let Ok(text) = std::fs::read_to_string(&p) {
            if let Ok(v) = serde_json::from_str::<serde_json::Value>(&text) {
                if let Some(e) = v.get("entries") {
                    if let Ok(es) = serde_json::from_value::<Vec<Entry>>(e.clone()) {
                        out.push(es);
                    }
                }
            }
        }
    }
    (out, replay)
}
