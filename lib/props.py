"""Registry: one entry per claimed property."""

PROPS = {
    "C07": {
        "props": "Props/C07.v",
        "classify": "Run/Classify_C07.v",
        "explanation": "theorems about Model/Lit.v (transcription of PrettyDecimal::from_str and Display) against the declarative grammar Model/LitSpec.v; correspondence = exhaustive short strings + random long literals through the real from_str/to_string",
        "trusted": ["rust_decimal: Decimal::try_from_i128_with_scale limits (96-bit mantissa, scale <= 28), mantissa()/scale()/is_sign_negative() accessors"],
    },
    "C01": {
        "props": "Props/C01.v",
        "classify": "Run/Classify_C01.v",
        "explanation": "theorems about Model/Book.v (transcription of report::book_keeping add_transaction/process_posting/check_balance over exact rationals); correspondence = generated ledger text through the real parser and report::process, compared posting by posting",
        "trusted": ["rust_decimal exact + - * within the generator's range; Decimal division compared up to 1e-18 relative", "winnow/parser glue is exercised, not modelled, at this layer"],
    },
    "C02": {
        "props": "Props/C02.v",
        "classify": "Run/Classify_C02.v",
        "explanation": "assertions re-checked against running sums of the amounts the implementation stored, in file order; theorems about process_posting/assert_balance in Model/Book.v",
        "trusted": ["rust_decimal exact + - * within the generator's range", "winnow/parser glue is exercised, not modelled, at this layer"],
    },
    "C03": {
        "props": "Props/C03.v",
        "classify": "Run/Classify_C03.v",
        "explanation": "inferred (omitted / assigned) amounts re-derived from the implementation's stored amounts; theorems about the deduction branch and set_partial in Model/Book.v",
        "trusted": ["rust_decimal exact + - * within the generator's range", "winnow/parser glue is exercised, not modelled, at this layer"],
    },
}
