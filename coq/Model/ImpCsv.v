(* Model of cli/src/import/csv.rs: str_to_comma_decimal (Amount::try_from(&str), i.e. the
   `unary_amount` parser of core/src/parse/expr.rs over the C07 scanner), FieldMap::{try_new,
   extract, resolve, amount}, template rendering (template.rs) and `import`.  Definitions only.

   Oracles (not modelled): the `csv` crate splitting the text into records (after skip.head
   and with the configured delimiter) and chrono parsing the date string.  The model starts
   from the header record, the data records and, per record, the day number chrono produced
   for its date string (None = chrono rejected it). *)
From Coq Require Import List NArith ZArith Bool QArith Qcanon.
From Okv Require Import Base.Dec Model.Lit Model.ImpConfig Model.ImpExtract Model.ImpSingleEntry.
Import ListNotations.

Inductive ierr :=
| ELabelsNotFound | ENoDateField | ENoPayeeField | ENoValueField | EExtractor
| EShortRecord | EFieldMissing | ERender | EDate | EDecimal | ECreditDebitEmpty
| ENoOperator | ENoRate | ENoSecondaryCommodity | ENoSecondaryAmount | ESameCommodityRate
| EZeroRate.

Inductive ires (A : Type) := IOk (a : A) | IErr (e : ierr) | IPanic.
Arguments IOk {A} a. Arguments IErr {A} e. Arguments IPanic {A}.
Definition ibind {A B} (x : ires A) (f : A -> ires B) : ires B :=
  match x with IOk a => f a | IErr e => IErr e | IPanic => IPanic end.
Notation "'ido' x <- a ; b" := (ibind a (fun x => b)) (at level 200, x pattern, a at level 100, b at level 200).

(* ---- numbers ---- *)
Definition dec_of_pdec (d : pdec) : dec :=
  {| d_neg := neg d; d_mag := of_dec (Z.of_N (mant d)) (scale d) |}.

(* NON_COMMODITY_CHARS = " \t\r\n0123456789.,;:?!-+*/^&|=<>[](){}@" *)
Definition non_commodity (c : N) : bool :=
  existsb (N.eqb c)
    [32;9;13;10;48;49;50;51;52;53;54;55;56;57;46;44;59;58;63;33;45;43;42;47;94;38;124;61;60;62;91;93;40;41;123;125;64]%N.
Definition is_sp (c : N) : bool := (c =? 32)%N || (c =? 9)%N.

Fixpoint span (p : N -> bool) (l : str) : str * str :=
  match l with
  | c :: r => if p c then let '(a, b) := span p r in (c :: a, b) else ([], l)
  | [] => ([], [])
  end.
Definition space0 (l : str) : str := snd (span is_sp l).

(* primitive::pretty_decimal's token: (opt(one_of('-')), take_while(0.., [0-9,.])).take(), verified
   non-empty: a minus sign belongs to the number only as its first character (/repo f8c7ec3), so
   `12.50-` is the number 12.50 followed by `-` *)
Definition is_num_char (c : N) : bool := is_digit c || (c =? 44)%N || (c =? 46)%N.
Definition num_token (l : str) : str * str :=
  match l with
  | 45%N :: r => let '(a, b) := span is_num_char r in (45%N :: a, b)
  | _ => span is_num_char l
  end.

(* terminated(pretty_decimal, space0) *)
Definition dec_tok (l : str) : option (pdec * str) :=
  let '(tok, rest) := num_token l in
  match tok with
  | [] => None
  | _ => match scan tok with SOk d => Some (d, space0 rest) | SErr _ => None end
  end.
(* terminated(commodity, space0): never fails *)
Definition comm_tok (l : str) : str := space0 (snd (span (fun c => negb (non_commodity c)) l)).

(* unary_amount under Parser::parse (parse_single): the whole cell must be consumed, so a cell that
   merely starts with a number (6'540.35, 1 234.56, 12.50-, 5 USD EUR) is a parse error; the
   commodity is discarded by the caller.
   permutation((decimal, commodity)) tries the decimal first in every round. *)
Definition unary_amount (l : str) : option dec :=
  let '(negate, l1) := match l with 45%N :: r => (true, r) | _ => (false, l) end in
  let fin (d : pdec) (rest : str) : option dec :=
    match rest with
    | [] => Some (if negate then dec_opp (dec_of_pdec d) else dec_of_pdec d)
    | _ => None
    end in
  match dec_tok l1 with
  | Some (d, l2) => fin d (comm_tok l2)
  | None => match dec_tok (comm_tok l1) with
            | Some (d, l3) => fin d l3
            | None => None
            end
  end.

Definition str_to_comma_decimal (l : str) : ires (option dec) :=
  match l with
  | [] => IOk None
  | _ => match unary_amount l with Some d => IOk (Some d) | None => IErr EDecimal end
  end.

(* ---- FieldMap ---- *)
Inductive field := ColumnIndex (i : nat) | Template (segs : list segment).
Inductive value_field := CreditDebit (credit debit : field) | AmountField (a : field).
Record field_map := { fm_date : field; fm_payee : field; fm_value : value_field;
                      fm_all : list (field_key * field); fm_max : nat }.

Fixpoint fget {V} (k : field_key) (m : list (field_key * V)) : option V :=
  match m with
  | [] => None
  | (k', v) :: r => if field_key_eqb k' k then Some v else fget k r
  end.

(* header.iter().enumerate().map(|(k, v)| (v, k)).collect::<HashMap>(): the last column wins *)
Fixpoint label_index_from (i : nat) (header : list str) (l : str) : option nat :=
  match header with
  | [] => None
  | h :: r => match label_index_from (S i) r l with
              | Some j => Some j
              | None => if str_eqb h l then Some i else None
              end
  end.
Definition label_index := label_index_from 0.

Definition fieldmap_new (mapping : list (field_key * field_pos)) (header : list str) : ires field_map :=
  let missing := existsb (fun kv => match snd kv with
                                    | PLabel l => match label_index header l with None => true | Some _ => false end
                                    | _ => false
                                    end) mapping in
  if missing then IErr ELabelsNotFound else
  let ki := map (fun kv => (fst kv,
                            match snd kv with
                            | PIndex i => ColumnIndex i
                            | PLabel l => ColumnIndex (match label_index header l with Some i => i | None => 0 end)
                            | PTemplate segs => Template segs
                            end)) mapping in
  let max_column := fold_left (fun m kf => match snd kf with ColumnIndex i => Nat.max m i | Template _ => m end) ki 0%nat in
  match fget FDate ki with
  | None => IErr ENoDateField
  | Some date =>
  match fget FPayee ki with
  | None => IErr ENoPayeeField
  | Some payee =>
  match (match fget FAmount ki with
         | Some a => Some (AmountField a)
         | None => match fget FCredit ki, fget FDebit ki with
                   | Some c, Some d => Some (CreditDebit c d)
                   | _, _ => None
                   end
         end) with
  | None => IErr ENoValueField
  | Some v => IOk {| fm_date := date; fm_payee := payee; fm_value := v; fm_all := ki; fm_max := max_column |}
  end end end.

(* MappedRecord::query *)
Definition query (fm : field_map) (rec : list str) (k : tkey) : option str :=
  match k with
  | TNamed fk => match fget fk (fm_all fm) with
                 | Some (ColumnIndex c) => nth_error rec c
                 | Some (Template _) => None
                 | None => None
                 end
  | TIndexed i => nth_error rec i
  end.

(* Template::render followed by Display; None = RenderError *)
Fixpoint render (fm : field_map) (rec : list str) (key : field_key) (segs : list segment) : option str :=
  match segs with
  | [] => Some []
  | SLit s :: r => option_map (app s) (render fm rec key r)
  | SRef k :: r =>
      match k with
      | TNamed fk => if field_key_eqb fk key then None
                     else match query fm rec k with
                          | Some v => option_map (app v) (render fm rec key r)
                          | None => None
                          end
      | TIndexed _ => match query fm rec k with
                      | Some v => option_map (app v) (render fm rec key r)
                      | None => None
                      end
      end
  end.

(* FieldMap::resolve *)
Definition resolve (fm : field_map) (key : field_key) (f : field) (rec : list str) : ires (option str) :=
  match f with
  | ColumnIndex i => IOk (nth_error rec i)
  | Template segs => match render fm rec key segs with Some s => IOk (Some s) | None => IErr ERender end
  end.

(* FieldMap::extract *)
Definition fm_extract (fm : field_map) (key : field_key) (rec : list str) : ires (option str) :=
  match fget key (fm_all fm) with
  | None => IOk None
  | Some f => resolve fm key f rec
  end.

Definition nonempty (s : str) : bool := match s with [] => false | _ => true end.

Definition or_zero (d : option dec) : dec := match d with Some x => x | None => dec_zero end.

(* FieldMap::amount *)
Definition fm_amount (fm : field_map) (at_ : account_type) (rec : list str) : ires dec :=
  match fm_value fm with
  | CreditDebit cf df =>
      ido credit <- resolve fm FCredit cf rec;
      match credit with None => IErr EFieldMissing | Some credit =>
      ido debit <- resolve fm FDebit df rec;
      match debit with None => IErr EFieldMissing | Some debit =>
      if nonempty credit then ido v <- str_to_comma_decimal credit; IOk (or_zero v)
      else if nonempty debit then ido v <- str_to_comma_decimal debit; IOk (dec_opp (or_zero v))
      else IErr ECreditDebitEmpty
      end end
  | AmountField af =>
      ido s <- resolve fm FAmount af rec;
      match s with None => IErr EFieldMissing | Some s =>
      ido v <- str_to_comma_decimal s;
      IOk (match at_ with Asset => or_zero v | Liability => dec_opp (or_zero v) end)
      end
  end.

(* a decimal field that may be absent: extract(..).map_or(Ok(None), str_to_comma_decimal) *)
Definition fm_decimal (fm : field_map) (key : field_key) (rec : list str) : ires (option dec) :=
  ido s <- fm_extract fm key rec;
  match s with None => IOk None | Some s => str_to_comma_decimal s end.

(* str::trim().is_empty() on text whose white space is ASCII *)
Definition blank (s : str) : bool := forallb is_ws s.

(* ---- the entity the CSV matchers look at, and the matcher itself ---- *)
Record record := { rc_payee : str; rc_category : option str; rc_secondary_commodity : option str }.

Section Import.
  Context {P : Type}.
  (* the `regex` oracle: captures of pattern p in text s (None = no match) *)
  Variable re_captures : P -> str -> option captures.
  (* does the pattern compile *)
  Variable re_valid : P -> bool.

  (* CsvMatcher::try_from *)
  Definition csv_valid (m : rewrite_field * P) : bool :=
    match fst m with
    | RPayee | RCategory | RSecondaryCommodity => re_valid (snd m)
    | _ => false
    end.

  (* impl EntityMatcher for CsvMatcher *)
  Definition csv_matches (m : rewrite_field * P) (e : record) (f : frag) : option captures :=
    match fst m with
    | RPayee => re_captures (snd m) (match g_payee f with Some p => p | None => rc_payee e end)
    | RCategory => match rc_category e with
                   | Some c => match re_captures (snd m) c with Some _ => Some no_captures | None => None end
                   | None => None
                   end
    | RSecondaryCommodity =>
        match rc_secondary_commodity e with
        | Some c => match re_captures (snd m) c with Some _ => Some no_captures | None => None end
        | None => None
        end
    | _ => None
    end.

  Record row := { row_fields : list str; row_date : option Z }.

  Definition set_comment (t : txn) (c : str) : txn :=
    {| t_date := t_date t; t_edate := t_edate t; t_code := t_code t; t_payee := t_payee t;
       t_comments := t_comments t ++ [one_line c]; t_dest := t_dest t; t_clear := t_clear t;
       t_transferred := t_transferred t; t_amount := t_amount t; t_rates := t_rates t;
       t_balance := t_balance t; t_charges := t_charges t |}.
  Definition set_balance (t : txn) (b : oamount) : txn :=
    {| t_date := t_date t; t_edate := t_edate t; t_code := t_code t; t_payee := t_payee t;
       t_comments := t_comments t; t_dest := t_dest t; t_clear := t_clear t;
       t_transferred := t_transferred t; t_amount := t_amount t; t_rates := t_rates t;
       t_balance := Some b; t_charges := t_charges t |}.
  Definition add_charge (t : txn) (payee : str) (a : oamount) : txn :=
    {| t_date := t_date t; t_edate := t_edate t; t_code := t_code t; t_payee := t_payee t;
       t_comments := t_comments t; t_dest := t_dest t; t_clear := t_clear t;
       t_transferred := t_transferred t; t_amount := t_amount t; t_rates := t_rates t;
       t_balance := t_balance t; t_charges := t_charges t ++ [(one_line payee, a)] |}.
  Definition set_transferred (t : txn) (a : oamount) : txn :=
    {| t_date := t_date t; t_edate := t_edate t; t_code := t_code t; t_payee := t_payee t;
       t_comments := t_comments t; t_dest := t_dest t; t_clear := t_clear t;
       t_transferred := Some a; t_amount := t_amount t; t_rates := t_rates t;
       t_balance := t_balance t; t_charges := t_charges t |}.

  (* the conversion block of `import` *)
  Definition apply_conversion (conv : conv_spec) (amount : dec) (commodity : str) (rate : option dec)
             (secondary_amount : option dec) (secondary_commodity : option str) (t : txn) : ires txn :=
    match rate with None => IErr ENoRate | Some rate =>
    match option_or (cv_commodity conv) secondary_commodity with
    | None => IErr ENoSecondaryCommodity
    | Some sc =>
        ido kc <- (match cv_rate conv with
                   | PriceOfPrimary => IOk (sc, commodity, dec_mul amount rate)
                   | PriceOfSecondary => match dec_div amount rate with
                                         | Some q => IOk (commodity, sc, q)
                                         | None => IErr EZeroRate  (* checked_div; was a panic, C16-F16 *)
                                         end
                   end);
        let '(source, target, computed) := kc in
        match add_rate t source target rate with
        | None => IErr ESameCommodityRate
        | Some t1 =>
            ido transferred <- (match cv_amount conv with
                                | Extract => match secondary_amount with
                                             | Some v => IOk v
                                             | None => IErr ENoSecondaryAmount
                                             end
                                | Compute => IOk computed
                                end);
            IOk (set_transferred t1 {| oa_value := transferred; oa_commodity := sc |})
        end
    end end.

  (* what one record contributes, read in the order the source reads it *)
  Record row_data := { rd_date : Z; rd_payee : str; rd_amount : dec; rd_balance : option dec;
                       rd_secondary_amount : option dec; rd_secondary_commodity : option str;
                       rd_category : option str; rd_commodity : str; rd_rate : option dec;
                       rd_note : option str; rd_charge : option str }.

  (* the first half of one iteration of `for may_record in rdr.records()`: the field reads
     (None = the row is skipped for its empty date) *)
  Definition read_row (cfg : entry P) (fm : field_map) (r : row) : ires (option row_data) :=
    let rec := row_fields r in
    if (length rec <=? fm_max fm)%nat then IErr EShortRecord else
    ido datestr <- fm_extract fm FDate rec;
    match datestr with None => IErr EFieldMissing | Some datestr =>
    if negb (nonempty datestr) then IOk None else
    match row_date r with None => IErr EDate | Some date =>
    ido payee0 <- fm_extract fm FPayee rec;
    match payee0 with None => IErr EFieldMissing | Some original_payee =>
    ido amount <- fm_amount fm (e_account_type cfg) rec;
    ido balance <- fm_decimal fm FBalance rec;
    ido secondary_amount <- fm_decimal fm FSecondaryAmount rec;
    ido secondary_commodity <- fm_extract fm FSecondaryCommodity rec;
    ido category <- fm_extract fm FCategory rec;
    ido commodity0 <- fm_extract fm FCommodity rec;
    ido rate <- fm_decimal fm FRate rec;
    ido note <- fm_extract fm FNote rec;
    ido charge <- fm_extract fm FCharge rec;
    IOk (Some {| rd_date := date; rd_payee := original_payee; rd_amount := amount; rd_balance := balance;
                 rd_secondary_amount := secondary_amount; rd_secondary_commodity := secondary_commodity;
                 rd_category := category;
                 rd_commodity := match commodity0 with Some c => c | None => cs_primary (e_commodity cfg) end;
                 rd_rate := rate; rd_note := note; rd_charge := charge |})
    end end end.

  (* the rules applied to the record *)
  Definition row_fragment (cfg : entry P) (d : row_data) : frag :=
    extract csv_matches (compile (e_rewrite cfg))
            {| rc_payee := rd_payee d; rc_category := rd_category d;
               rc_secondary_commodity := rd_secondary_commodity d |}.

  (* the conversion in force for the row: the rule's, else the account's default when rate,
     secondary amount and secondary commodity are all present; none when disabled *)
  Definition row_conversion (cfg : entry P) (d : row_data) : option conv_spec :=
    let default_conversion :=
      match rd_rate d, rd_secondary_amount d, rd_secondary_commodity d with
      | Some _, Some _, Some _ => Some (cs_conversion (e_commodity cfg))
      | _, _, _ => None
      end in
    match option_or (g_conversion (row_fragment cfg d)) default_conversion with
    | Some c => if cv_disabled c then None else Some c
    | None => None
    end.

  (* Txn::new + code/dest/clear from the fragment + comment + balance *)
  Definition base_txn (cfg : entry P) (d : row_data) : txn :=
    let fragment := row_fragment cfg d in
    let payee := match g_payee fragment with Some p => p | None => rd_payee d end in
    let t0 := apply_fragment fragment
                (txn_new (rd_date d) payee {| oa_value := rd_amount d; oa_commodity := rd_commodity d |}) in
    let t1 := match rd_note d with
              | Some n => if blank n then t0 else set_comment t0 n
              | None => t0
              end in
    match rd_balance d with
    | Some b => set_balance t1 {| oa_value := b; oa_commodity := rd_commodity d |}
    | None => t1
    end.

  Definition with_charge (cfg : entry P) (d : row_data) (t : txn) : ires txn :=
    match rd_charge d with
    | None => IOk t
    | Some ch =>
        match e_operator cfg with
        | None => IErr ENoOperator
        | Some op =>
            ido v <- str_to_comma_decimal ch;
            match v with
            | Some v => if dec_is_zero v then IOk t
                        else IOk (add_charge t op {| oa_value := v; oa_commodity := rd_commodity d |})
            | None => IOk t
            end
        end
    end.

  (* the second half of the iteration *)
  Definition build_txn (cfg : entry P) (d : row_data) : ires txn :=
    ido t3 <- with_charge cfg d (base_txn cfg d);
    match row_conversion cfg d with
    | None => IOk t3
    | Some conv => apply_conversion conv (rd_amount d) (rd_commodity d) (rd_rate d)
                                    (rd_secondary_amount d) (rd_secondary_commodity d) t3
    end.

  Definition import_row (cfg : entry P) (fm : field_map) (r : row) : ires (option txn) :=
    ido d <- read_row cfg fm r;
    match d with
    | None => IOk None
    | Some d => ido t <- build_txn cfg d; IOk (Some t)
    end.

  Fixpoint import_rows (cfg : entry P) (fm : field_map) (rows : list row) : ires (list txn) :=
    match rows with
    | [] => IOk []
    | r :: rest =>
        ido t <- import_row cfg fm r;
        ido ts <- import_rows cfg fm rest;
        IOk (match t with Some t => t :: ts | None => ts end)
    end.

  (* csv::import after the reader has produced the header and the records *)
  Definition import (cfg : entry P) (header : list str) (rows : list row) : ires (list txn) :=
    ido fm <- fieldmap_new (fs_fields (e_format cfg)) header;
    if negb (rules_ok csv_valid (e_rewrite cfg)) then IErr EExtractor else
    ido ts <- import_rows cfg fm rows;
    IOk (match fs_row_order (e_format cfg) with OldToNew => ts | NewToOld => rev ts end).

  (* what ImportCmd prints: every transaction through to_double_entry on the configured account *)
  Definition import_double (cfg : entry P) (header : list str) (rows : list row) : ires (list stxn) :=
    ido ts <- import cfg header rows;
    IOk (map (fun t => to_double_entry t (e_account cfg)) ts).
End Import.
