(* C15 round trip, header line: `date[=edate] [*|! ][(code) ]payee` reads back as printed. *)
From Coq Require Import List NArith ZArith Bool Lia ZifyBool ZifyN ZifyNat.
From Okv Require Import Model.Lit Model.LitSpec Model.SingleEntry2 Model.TxnText Model.TxnTextSpec.
From Okv Require Import Proofs.LitProofs Proofs.LitShow Proofs.TxnTextLines.
Import ListNotations.
Open Scope N_scope.

Local Arguments N.add : simpl never.
Local Arguments N.mul : simpl never.
Local Arguments N.sub : simpl never.
Local Arguments N.leb : simpl never.
Local Arguments N.ltb : simpl never.
Local Arguments N.eqb : simpl never.
Local Arguments N.div : simpl never.
Local Arguments N.modulo : simpl never.

Ltac step := cbv beta iota zeta delta [orb andb negb fst snd].

(* ---------------- dates ---------------- *)
Lemma Forall_dig_forallb : forall l, Forall dig l -> forallb is_digit l = true.
Proof.
  intros l H. induction H as [|c l Hc _ IH]; [reflexivity|].
  cbn [forallb]. unfold dig in Hc. rewrite Hc, IH. reflexivity.
Qed.

Lemma digits_fuel_len : forall f n acc k, (1 <= k)%nat -> n < pow10_N k ->
  (length (digits_fuel f n acc) <= k + length acc)%nat.
Proof.
  induction f as [|f IH]; intros n acc k Hk Hn.
  - cbn [digits_fuel]. lia.
  - cbn [digits_fuel]. destruct (n <? 10) eqn:E.
    + cbn [length]. lia.
    + destruct k as [|[|k]]; [lia| |].
      * cbn [pow10_N] in Hn. lia.
      * assert (Hd : n / 10 < pow10_N (S k)).
        { apply N.div_lt_upper_bound; [lia|].
          change (pow10_N (S (S k))) with (10 * pow10_N (S k)) in Hn. exact Hn. }
        pose proof (IH (n / 10) ((48 + n mod 10) :: acc) (S k) ltac:(lia) Hd) as H.
        cbn [length] in H. lia.
Qed.

Lemma digits_of_len : forall n k, (1 <= k)%nat -> n < pow10_N k -> (length (digits_of n) <= k)%nat.
Proof.
  intros n k Hk Hn. unfold digits_of.
  pose proof (digits_fuel_len (S (N.size_nat n)) n [] k Hk Hn) as H. cbn [length] in H. lia.
Qed.

Lemma pad_value : forall k n, digits_value (pad_zeros k (digits_of n)) = n.
Proof.
  intros k n. change (dv 0 (pad_zeros k (digits_of n)) = n). unfold pad_zeros.
  rewrite dv_app, dv_zeros, <- digits_val_dv. apply digits_of_val.
Qed.

Lemma pad_digits : forall k n, forallb is_digit (pad_zeros k (digits_of n)) = true.
Proof.
  intros k n. unfold pad_zeros. apply forallb_app_true.
  - apply forallb_repeat. reflexivity.
  - apply Forall_dig_forallb, digits_of_dig.
Qed.

Lemma pad_len : forall k n, (1 <= k)%nat -> n < pow10_N k -> length (pad_zeros k (digits_of n)) = k.
Proof.
  intros k n Hk Hn. unfold pad_zeros. rewrite app_length, repeat_length.
  pose proof (digits_of_len n k Hk Hn). lia.
Qed.

Lemma pad_nonempty : forall k n, (1 <= k)%nat -> pad_zeros k (digits_of n) <> [].
Proof.
  intros k n Hk E. apply (f_equal (@length N)) in E. unfold pad_zeros in E.
  rewrite app_length, repeat_length in E. cbn [length] in E. lia.
Qed.

Lemma read_date_parts : forall ys ms ds rest,
  ys <> [] -> ms <> [] -> ds <> [] ->
  forallb is_digit ys = true -> forallb is_digit ms = true -> forallb is_digit ds = true ->
  stops is_digit rest ->
  ((length ys <=? 4)%nat && (length ms <=? 2)%nat && (length ds <=? 2)%nat
   && valid_date {| d_y := digits_value ys; d_m := digits_value ms; d_d := digits_value ds |}) = true ->
  read_date (ys ++ 47 :: ms ++ 47 :: ds ++ rest)
  = Some ({| d_y := digits_value ys; d_m := digits_value ms; d_d := digits_value ds |}, rest).
Proof.
  intros ys ms ds rest Hy Hm Hd Fy Fm Fd Hr Hv.
  destruct ys as [|y0 ys]; [congruence|]. destruct ms as [|m0 ms]; [congruence|].
  destruct ds as [|d0 ds]; [congruence|].
  unfold read_date.
  rewrite (span_app is_digit (y0 :: ys)) by (assumption || reflexivity).
  cbv beta iota zeta. ev_lit. cbn [orb]. cbv beta iota zeta.
  rewrite (span_app is_digit (m0 :: ms)) by (assumption || reflexivity).
  cbv beta iota zeta. ev_lit. cbv beta iota zeta.
  rewrite (span_app is_digit (d0 :: ds)) by assumption.
  cbv beta iota zeta. rewrite Hv. reflexivity.
Qed.

Lemma valid_date_bounds : forall d, valid_date d = true ->
  d_y d < pow10_N 4 /\ d_m d < pow10_N 2 /\ d_d d < pow10_N 2.
Proof.
  intros d H. unfold valid_date, days_in_month in H. cbn [pow10_N].
  destruct (d_m d =? 2); [destruct (leap (d_y d))|
    destruct ((d_m d =? 4) || (d_m d =? 6) || (d_m d =? 9) || (d_m d =? 11))]; lia.
Qed.

Lemma read_date_show : forall d rest, valid_date d = true -> stops is_digit rest ->
  read_date (show_date d ++ rest) = Some (d, rest).
Proof.
  intros d rest Hv Hr. destruct (valid_date_bounds d Hv) as (By & Bm & Bd).
  unfold show_date. repeat rewrite <- app_assoc. cbn [app].
  rewrite read_date_parts.
  - rewrite !pad_value. destruct d; reflexivity.
  - apply pad_nonempty; lia.
  - apply pad_nonempty; lia.
  - apply pad_nonempty; lia.
  - apply pad_digits.
  - apply pad_digits.
  - apply pad_digits.
  - exact Hr.
  - rewrite !pad_value. rewrite !pad_len by (assumption || lia).
    replace {| d_y := d_y d; d_m := d_m d; d_d := d_d d |} with d by (destruct d; reflexivity).
    rewrite Hv. reflexivity.
Qed.

Lemma show_date_head : forall d rest, exists c r, show_date d ++ rest = c :: r /\ is_digit c = true.
Proof.
  intros d rest. unfold show_date.
  pose proof (pad_digits 4 (d_y d)) as Hd. pose proof (pad_nonempty 4 (d_y d) ltac:(lia)) as Hne.
  destruct (pad_zeros 4 (digits_of (d_y d))) as [|c r]; [congruence|].
  cbn [app]. eexists _, _. split; [reflexivity|]. apply (forallb_hd _ _ _ Hd).
Qed.

Lemma show_date_nolf : forall d, nolf (show_date d) = true.
Proof.
  intros d. unfold show_date, nolf.
  assert (H : forall k n, forallb (fun c => negb (c =? 10)) (pad_zeros k (digits_of n)) = true).
  { intros k n. apply (forallb_imp is_digit); [intros c Hc; chr|apply pad_digits]. }
  apply forallb_app_true; [apply H|]. apply forallb_app_true; [reflexivity|].
  apply forallb_app_true; [apply H|]. apply forallb_app_true; [reflexivity|apply H].
Qed.

Lemma show_date_len : forall d, valid_date d = true -> length (show_date d) = 10%nat.
Proof.
  intros d Hv. destruct (valid_date_bounds d Hv) as (By & Bm & Bd).
  unfold show_date. rewrite !app_length, !pad_len by (assumption || lia). reflexivity.
Qed.

(* ---------------- the header line in stages ---------------- *)
Definition h_mk (d : date) (ed : option date) (cl : clear) (code : option str) (payee : str)
                (meta : list metadata) : hres :=
  HOk {| tr_date := d; tr_edate := ed; tr_clear := cl; tr_code := code; tr_payee := payee;
         tr_meta := meta; tr_posts := [] |}.

Definition h_payee (d : date) (ed : option date) (cl : clear) (cd : option str) (r7 : str) : hres :=
  let '(p, r8) := span is_payee_char r7 in
  match read_line_end r8 with
  | Some m => h_mk d ed cl cd (trim_end p) m
  | None => HErr
  end.

Definition h_code (d : date) (ed : option date) (cl : clear) (r4 : str) (paren_later : bool) : hres :=
  let code :=
    match r4 with
    | c1 :: r =>
        if c1 =? 40 then
          let '(cd, r5) := span (fun x => negb (x =? 41)) r in
          match r5 with
          | _ :: r6 => inl (Some cd, drop_sp r6)
          | [] => if paren_later then inr tt else inl (None, r4)
          end
        else inl (None, r4)
    | [] => inl (None, r4)
    end in
  match code with
  | inr _ => HUnsupported
  | inl (cd, r7) => h_payee d ed cl cd r7
  end.

Definition h_clear (d : date) (ed : option date) (r3 : str) (paren_later : bool) : hres :=
  let '(cl, r4) :=
    match r3 with
    | c1 :: r => if c1 =? 42 then (Cleared, drop_sp r) else if c1 =? 33 then (Pending, drop_sp r) else (Uncleared, r3)
    | [] => (Uncleared, r3)
    end in
  h_code d ed cl r4 paren_later.

Definition h_tail (d : date) (ed : option date) (r2 : str) (paren_later : bool) : hres :=
  if at_eol r2 then h_mk d ed Uncleared None [] []
  else
    match r2 with
    | c :: _ => if negb (is_sp c) then HErr else h_clear d ed (drop_sp r2) paren_later
    | [] => h_mk d ed Uncleared None [] []
    end.

Definition h_edate (d : date) (r1 : str) (paren_later : bool) : hres :=
  let '(ed, r2) :=
    match r1 with
    | c :: r => if c =? 61 then match read_date r with Some (e, r') => (Some e, r') | None => (None, r1) end
                else (None, r1)
    | [] => (None, r1)
    end in
  h_tail d ed r2 paren_later.

Lemma read_header_eq : forall l pl,
  read_header l pl = match read_date l with None => HErr | Some (d, r1) => h_edate d r1 pl end.
Proof. reflexivity. Qed.

(* ---- payee ---- *)
Lemma forallb_conj : forall (f g : N -> bool) l,
  forallb f l = true -> forallb g l = true -> forallb (fun c => f c && g c) l = true.
Proof.
  intros f g l. induction l as [|c l IH]; [reflexivity|]. cbn [forallb]. intros H1 H2.
  apply andb_true_iff in H1. apply andb_true_iff in H2. destruct H1 as [A1 A2]. destruct H2 as [B1 B2].
  rewrite A1, B1, (IH A2 B2). reflexivity.
Qed.

Lemma payee_chars : forall l, one_line l = true -> no_char 59 l = true -> forallb is_payee_char l = true.
Proof.
  intros l H1 H2. unfold one_line in H1. apply andb_true_iff in H1. destruct H1 as [A B].
  rewrite no_char_forallb in A, B, H2.
  pose proof (forallb_conj _ _ _ (forallb_conj _ _ _ A B) H2) as H.
  revert H. apply forallb_imp. intros c Hc. chr.
Qed.

Lemma h_payee_ok : forall d ed cl cd payee,
  one_line payee = true -> no_char 59 payee = true -> no_outer_white payee = true ->
  h_payee d ed cl cd payee = h_mk d ed cl cd payee [].
Proof.
  intros d ed cl cd payee H1 H2 H3. unfold h_payee.
  rewrite span_all by (apply payee_chars; assumption).
  step. change (read_line_end []) with (Some (@nil metadata)). step.
  rewrite trim_end_id by exact H3. reflexivity.
Qed.

(* ---- code ---- *)
Definition code_text (c : option str) : str :=
  match c with Some c => [40] ++ c ++ [41;32] | None => [] end.

Lemma h_code_ok : forall d ed cl code payee pl,
  match code with Some c => clean_code c = true | None => True end ->
  one_line payee = true -> no_char 59 payee = true -> no_outer_white payee = true ->
  starts_with 40 payee = false ->
  h_code d ed cl (code_text code ++ payee) pl = h_mk d ed cl code payee [].
Proof.
  intros d ed cl code payee pl Hc H1 H2 H3 H4.
  destruct code as [c|]; unfold code_text.
  - rewrite <- !app_assoc. cbn [app]. unfold h_code. step. ev_lit. step.
    unfold clean_code in Hc. apply andb_true_iff in Hc. destruct Hc as [_ Hc].
    rewrite no_char_forallb in Hc.
    rewrite span_app by (exact Hc || reflexivity). step.
    rewrite drop_sp_32, drop_sp_stop by (apply now_stops_sp; exact H3).
    apply h_payee_ok; assumption.
  - cbn [app]. unfold h_code. destruct payee as [|c1 r].
    + step. apply h_payee_ok; assumption.
    + cbn [starts_with] in H4. step. rewrite H4. step. apply h_payee_ok; assumption.
Qed.

(* ---- clear mark ---- *)
Lemma h_clear_ok : forall d ed cl X pl,
  stops is_sp X -> (cl = Uncleared -> stops (fun c => (c =? 42) || (c =? 33)) X) ->
  h_clear d ed (clear_text cl ++ X) pl = h_code d ed cl X pl.
Proof.
  intros d ed cl X pl Hs Hu. destruct cl; unfold clear_text, h_clear; cbn [app].
  - specialize (Hu eq_refl). destruct X as [|c1 r]; [reflexivity|].
    cbn [stops] in Hu. apply orb_false_iff in Hu. destruct Hu as [E1 E2]. step. rewrite E1, E2. reflexivity.
  - step. ev_lit. step. rewrite drop_sp_32, drop_sp_stop by exact Hs. reflexivity.
  - step. ev_lit. step. rewrite drop_sp_32, drop_sp_stop by exact Hs. reflexivity.
Qed.

Lemma h_tail_ok : forall d ed Y pl, stops is_sp Y ->
  h_tail d ed (32 :: Y) pl = h_clear d ed Y pl.
Proof.
  intros d ed Y pl Hs. unfold h_tail.
  assert (E : at_eol (32 :: Y) = false) by (destruct Y; reflexivity).
  rewrite E. change (is_sp 32) with true. step.
  rewrite drop_sp_32, drop_sp_stop by exact Hs. reflexivity.
Qed.

Definition edate_text (e : option date) : str :=
  match e with Some e => 61 :: show_date e | None => [] end.

Lemma h_edate_ok : forall d e Y pl,
  match e with Some e => valid_date e = true | None => True end ->
  h_edate d (edate_text e ++ 32 :: Y) pl = h_tail d e (32 :: Y) pl.
Proof.
  intros d e Y pl He. destruct e as [e|]; unfold edate_text, h_edate; cbn [app].
  - step. ev_lit. step. rewrite read_date_show by (exact He || reflexivity). reflexivity.
  - step. ev_lit. reflexivity.
Qed.

(* ---------------- the header line ---------------- *)
Definition header_line (t : stxn) : str :=
  show_date (tr_date t) ++ edate_text (tr_edate t) ++ [32] ++ clear_text (tr_clear t) ++
  code_text (tr_code t) ++ tr_payee t.

Lemma header_text_eq : forall t, header_text t = header_line t ++ [10].
Proof.
  intros t. unfold header_text, header_line, edate_text, code_text.
  repeat rewrite <- app_assoc. reflexivity.
Qed.

Definition hdr (t : stxn) : stxn :=
  {| tr_date := tr_date t; tr_edate := tr_edate t; tr_clear := tr_clear t; tr_code := tr_code t;
     tr_payee := tr_payee t; tr_meta := []; tr_posts := [] |}.

Definition clean_header (t : stxn) : bool :=
  clean_date (tr_date t)
  && (match tr_edate t with Some e => clean_date e | None => true end)
  && (match tr_code t with Some c => clean_code c | None => true end)
  && clean_payee (tr_clear t) (tr_payee t).

Theorem read_header_line : forall t pl, clean_header t = true ->
  read_header (header_line t) pl = HOk (hdr t).
Proof.
  intros t pl H. unfold clean_header in H.
  apply andb_true_iff in H. destruct H as [H Hp].
  apply andb_true_iff in H. destruct H as [H Hc].
  apply andb_true_iff in H. destruct H as [Hd He].
  unfold clean_date in *. unfold clean_payee in Hp.
  apply andb_true_iff in Hp. destruct Hp as [Hp P5].
  apply andb_true_iff in Hp. destruct Hp as [Hp P4].
  apply andb_true_iff in Hp. destruct Hp as [Hp P3].
  apply andb_true_iff in Hp. destruct Hp as [P1 P2].
  assert (P4' : starts_with 40 (tr_payee t) = false) by (destruct (starts_with 40 (tr_payee t)); [discriminate|reflexivity]).
  pose proof (now_stops_sp _ P3) as Psp.
  set (X := code_text (tr_code t) ++ tr_payee t).
  assert (HX : stops is_sp X).
  { unfold X. destruct (tr_code t); [reflexivity|exact Psp]. }
  assert (HY : stops is_sp (clear_text (tr_clear t) ++ X)).
  { destruct (tr_clear t); [exact HX|reflexivity|reflexivity]. }
  rewrite read_header_eq. unfold header_line. cbn [app]. fold X.
  rewrite read_date_show; [|exact Hd|destruct (tr_edate t); reflexivity].
  rewrite h_edate_ok by (destruct (tr_edate t); [exact He|exact I]).
  rewrite h_tail_ok by exact HY.
  rewrite h_clear_ok; [|exact HX|].
  - unfold X. rewrite h_code_ok; try assumption; [reflexivity|].
    destruct (tr_code t); [exact Hc|exact I].
  - intros E. rewrite E in P5. unfold X. destruct (tr_code t); [reflexivity|].
    cbn [code_text app]. destruct (tr_payee t) as [|c r]; [exact I|].
    cbn [starts_with stops] in *. destruct ((c =? 42) || (c =? 33)); [discriminate|reflexivity].
Qed.

(* what read_entries looks at before it calls read_header *)
Lemma header_line_head : forall t, clean_header t = true ->
  exists c r, header_line t = c :: r /\ is_digit c = true /\ r <> [].
Proof.
  intros t H. unfold header_line.
  destruct (show_date_head (tr_date t)
              (edate_text (tr_edate t) ++ [32] ++ clear_text (tr_clear t) ++ code_text (tr_code t) ++ tr_payee t))
    as (c & r & E & Hc).
  exists c, r. split; [exact E|]. split; [exact Hc|].
  intros ->. apply (f_equal (@length N)) in E. rewrite app_length in E.
  unfold clean_header in H. do 3 (apply andb_true_iff in H; destruct H as [H ?]).
  rewrite show_date_len in E by exact H. cbn [length] in E. lia.
Qed.

Lemma header_line_nolf : forall t, clean_header t = true -> nolf (header_line t) = true.
Proof.
  intros t H. unfold clean_header in H.
  apply andb_true_iff in H. destruct H as [H Hp].
  apply andb_true_iff in H. destruct H as [H Hc].
  unfold clean_payee in Hp. do 4 (apply andb_true_iff in Hp; destruct Hp as [Hp ?]).
  unfold header_line.
  apply nolf_app; [apply show_date_nolf|].
  apply nolf_app.
  { destruct (tr_edate t) as [e|]; [|reflexivity]. unfold edate_text.
    change (61 :: show_date e) with ([61] ++ show_date e). apply nolf_app; [reflexivity|apply show_date_nolf]. }
  apply nolf_app; [reflexivity|].
  apply nolf_app; [destruct (tr_clear t); reflexivity|].
  apply nolf_app.
  { destruct (tr_code t) as [c|]; [|reflexivity]. unfold code_text.
    apply nolf_app; [reflexivity|]. apply nolf_app; [|reflexivity].
    unfold clean_code in Hc. apply andb_true_iff in Hc. destruct Hc as [Hc _]. apply one_line_nolf. exact Hc. }
  apply one_line_nolf. exact Hp.
Qed.
