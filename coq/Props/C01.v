(* C01 — accepted transactions balance; unbalanced ones are rejected, not crashed on. *)
From Coq Require Import List NArith ZArith Bool QArith Qcanon.
From Okv Require Import Base.Maps Base.Dec Model.Amount Model.Book.
Import ListNotations.

(* placeholder until Proofs/BookProofs.v lands *)
Theorem C01_empty_txn_accepted : forall s d, exists s', add_transaction s {| t_date := d; t_posts := [] |} = Ok s'.
Proof. intros s d. eexists. reflexivity. Qed.
Print Assumptions C01_empty_txn_accepted.
