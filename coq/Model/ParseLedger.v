(* Model of core/src/parse.rs (parse_ledger_entry), parse/adaptor.rs (the entry iterator,
   ParsedContext, ParsedSpan::resolve/clip) and parse/error.rs (ParseError::new,
   compute_line_number), as repaired by the F3 and F15 "fix:" commits.  Definitions only. *)
From Coq Require Import List NArith ZArith Bool.
From Okv Require Import Model.Lit Model.Syntax Model.Comb Model.ParseExpr Model.ParseMeta
  Model.ParsePosting Model.ParseTxn Model.ParseDirective.
Import ListNotations.
Open Scope N_scope.

(* ---- the text as bytes ---- *)
Definition utf8_encode1 (c : N) : list N :=
  if c <? 128 then [c]
  else if c <? 2048 then [192 + c / 64; 128 + c mod 64]
  else if c <? 65536 then [224 + c / 4096; 128 + (c / 64) mod 64; 128 + c mod 64]
  else [240 + c / 262144; 128 + (c / 4096) mod 64; 128 + (c / 64) mod 64; 128 + c mod 64].
Definition utf8_encode (s : list N) : list N := flat_map utf8_encode1 s.

Definition blen (bs : list N) : N := N.of_nat (length bs).

Fixpoint count_nl (bs : list N) : N :=
  match bs with [] => 0 | b :: r => (if b =? 10 then 1 else 0) + count_nl r end.

(* error::compute_line_number: asserts pos <= len, then 1 + number of b'\n' before pos *)
Definition compute_line_number (bs : list N) (pos : N) : option N :=
  if pos <=? blen bs then Some (1 + count_nl (firstn (N.to_nat pos) bs)) else None.

(* str::is_char_boundary *)
Definition is_char_boundary (bs : list N) (e : N) : bool :=
  if e =? 0 then true
  else match nth_error bs (N.to_nat e) with
       | None => e =? blen bs
       | Some b => (b <? 128) || (192 <=? b)
       end.

(* (from..=from+n-1).find(is_char_boundary) *)
Fixpoint find_boundary (n : nat) (bs : list N) (e : N) : option N :=
  match n with
  | O => None
  | S n' => if is_char_boundary bs e then Some e else find_boundary n' bs (e + 1)
  end.

(* ---- parse.rs ---- *)
Definition parse_ledger_entry (fuel : nat) : parser (s_entry * list posting_spans) :=
  fun i =>
    match i with
    | [] => PErr false 0 i
    | c :: _ =>
        if c =? 97 then
          alt (preceded (peek (literal kw_account))
                        (cut_err (pmap (fun e => (e, [])) (account_declaration fuel))))
              (preceded (peek (literal kw_apply))
                        (cut_err (pmap (fun e => (e, [])) apply_tag))) i
        else if c =? 99 then pmap (fun e => (e, [])) (commodity_declaration fuel) i
        else if c =? 101 then pmap (fun e => (e, [])) end_apply_tag i
        else if c =? 105 then pmap (fun e => (e, [])) include i
        else if is_comment_prefix c then pmap (fun e => (e, [])) (top_comment fuel) i
        else if is_digit c then pmap (fun x => (STxn (fst x), snd x)) (transaction fuel) i
        else PErr false L_no_syntax i
    end.

(* character::newlines as repaired: runs of \r and \n, and lines of blanks
   (blanks followed by a line end or by the end of the input) *)
Definition vertical_space (fuel : nat) : parser unit :=
  void (many0 fuel (alt (void (take_while1 is_nl))
                        (void (terminated space1 (peek line_ending_or_eof))))).

(* ---- adaptor.rs / error.rs ---- *)
Definition span := (N * N)%type.     (* absolute byte offsets start..end *)

Record pspans := { a_posting : span; a_account : span; a_amount : option span; a_cost : option span;
                   a_lot_price : option span; a_balance : option span }.

Record parsed_entry := { e_span : span; e_line_start : N; e_entry : s_entry; e_spans : list pspans }.

Record parse_error := {
  pe_line_start : N;       (* line of the checkpoint taken before the separator *)
  pe_text_start : N;       (* absolute offset of that checkpoint: the snippet is the text from there *)
  pe_span : span;          (* error_span, relative to the snippet *)
  pe_cut : bool;
  pe_label : N }.

Inductive ledger_result :=
| LOk (es : list parsed_entry)
| LErr (es : list parsed_entry) (e : parse_error)
| LPanic (why : N)        (* 1,2: winnow assert; 3: compute_line_number assert *)
| LDiverge (why : N)      (* 2: the iterator does not advance (1 was the unbounded boundary search, F3) *)
| LFuel.

Definition abs_span (total : N) (r : rspan) : span := (total - fst r, total - snd r).
Definition abs_pspans (total : N) (p : posting_spans) : pspans :=
  {| a_posting := abs_span total (ps_posting p); a_account := abs_span total (ps_account p);
     a_amount := option_map (abs_span total) (ps_amount p);
     a_cost := option_map (abs_span total) (ps_cost p);
     a_lot_price := option_map (abs_span total) (ps_lot_price p);
     a_balance := option_map (abs_span total) (ps_balance p) |}.

(* ParseError::new(renderer, initial, input (where parsing stopped), start, error) *)
Definition parse_error_new (bs : list N) (total : N) (start stopped : list N) (cut : bool) (lbl : N)
  : option parse_error :=
  let start_abs := total - utf8_len start in
  let offset := utf8_len start - utf8_len stopped in
  match compute_line_number bs start_abs with
  | None => None
  | Some line =>
      let snippet := skipn (N.to_nat start_abs) bs in
      let e := match find_boundary (N.to_nat (blen snippet - offset)) snippet (offset + 1) with
               | Some e => e
               | None => offset
               end in
      Some {| pe_line_start := line; pe_text_start := start_abs; pe_span := (offset, e);
              pe_cut := cut; pe_label := lbl |}
  end.

(* ParsedIter: one call of next() per iteration *)
Fixpoint entries_loop (fuel n : nat) (bs : list N) (total : N) (i : list N) (acc : list parsed_entry)
  : ledger_result :=
  match n with
  | O => LFuel
  | S n' =>
      let fail_with (cut : bool) (lbl : N) (stopped : list N) :=
        match parse_error_new bs total i stopped cut lbl with
        | Some e => LErr (rev acc) e
        | None => LPanic 3
        end in
      match vertical_space fuel i with
      | POk _ r =>
          match r with
          | [] => LOk (rev acc)
          | _ =>
              match with_span (parse_ledger_entry fuel) r with
              | POk ((e, sps), sp) r' =>
                  let sp' := abs_span total sp in
                  match compute_line_number bs (fst sp') with
                  | None => LPanic 3
                  | Some line =>
                      if consumed r r'
                      then entries_loop fuel n' bs total r'
                             ({| e_span := sp'; e_line_start := line; e_entry := e;
                                 e_spans := map (abs_pspans total) sps |} :: acc)
                      else LDiverge 2
                  end
              | PErr c l stopped => fail_with c l stopped
              | PPanic w => LPanic w
              | PFuel => LFuel
              end
          end
      | PErr c l stopped => fail_with c l stopped
      | PPanic w => LPanic w
      | PFuel => LFuel
      end
  end.

Definition parse_ledger (s : list N) : ledger_result :=
  let bs := utf8_encode s in
  entries_loop (length s) (S (length s)) bs (utf8_len s) s [].

(* ParsedSpan::resolve = clip(parent, child): usize subtraction panics on underflow *)
Definition clip (parent child : span) : option span :=
  let s := N.max (fst parent) (fst child) in
  let e := N.min (snd parent) (snd child) in
  if (fst parent <=? s) && (fst parent <=? e) then Some (s - fst parent, e - fst parent) else None.
