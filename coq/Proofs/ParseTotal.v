(* Totality of the parser model: parse_ledger never returns a hazard value
   (Panic: winnow's repeat assertion / compute_line_number's assertion; Diverge: an entry
   iterator that does not advance; Fuel: the model's own recursion budget). *)
From Coq Require Import List NArith ZArith Bool Lia Arith.
From Okv Require Import Model.Lit Model.Syntax Model.Comb Model.ParseExpr Model.ParseMeta
  Model.ParsePosting Model.ParseTxn Model.ParseDirective Model.ParseLedger
  Proofs.CombSpec Proofs.ParseSafe.
Import ListNotations.

Definition no_hazard (r : ledger_result) : Prop :=
  match r with
  | LOk _ | LErr _ _ => True
  | LPanic _ | LDiverge _ | LFuel => False
  end.

Lemma utf8_encode1_length : forall c, N.of_nat (length (utf8_encode1 c)) = utf8_len1 c.
Proof.
  intros c. unfold utf8_encode1, utf8_len1.
  destruct (N.ltb c 128); [reflexivity |].
  destruct (N.ltb c 2048); [reflexivity |].
  destruct (N.ltb c 65536); reflexivity.
Qed.

Lemma blen_utf8_encode : forall s, blen (utf8_encode s) = utf8_len s.
Proof.
  unfold blen, utf8_encode. induction s; simpl; [reflexivity |].
  rewrite app_length, Nat2N.inj_add, utf8_encode1_length, IHs. reflexivity.
Qed.

Lemma compute_line_number_some : forall s pos, (pos <= utf8_len s)%N ->
  exists l, compute_line_number (utf8_encode s) pos = Some l.
Proof.
  intros s pos H. unfold compute_line_number. rewrite blen_utf8_encode.
  destruct (N.leb_spec pos (utf8_len s)); [eauto | lia].
Qed.

Lemma parse_error_new_some : forall s start stopped cut lbl,
  exists e, parse_error_new (utf8_encode s) (utf8_len s) start stopped cut lbl = Some e.
Proof.
  intros. unfold parse_error_new.
  destruct (compute_line_number_some s (utf8_len s - utf8_len start)%N) as [l ->]; [lia |].
  eauto.
Qed.

Lemma entries_loop_total : forall s n i acc,
  suffix i s -> (length i < n)%nat ->
  no_hazard (entries_loop (length s) n (utf8_encode s) (utf8_len s) i acc).
Proof.
  intros s. induction n; intros i acc Hs Hn; [lia |].
  assert (Hi : (length i <= length s)%nat) by (now apply suffix_length).
  simpl.
  pose proof (safe_vertical_space (length s) (length s) (le_n _) i Hi) as Hv.
  destruct (vertical_space (length s) i) as [u r | c l st | |]; try contradiction.
  2: { destruct (parse_error_new_some s i st c l) as [e ->]. exact I. }
  destruct Hv as [Hr _].
  destruct r as [| c0 r0]; [exact I |].
  set (r := c0 :: r0) in *.
  assert (Hrl : (length r <= length s)%nat) by (apply suffix_length in Hr; lia).
  pose proof (cons_parse_ledger_entry (length s) (length s) (le_n _) r Hrl) as He.
  unfold with_span.
  destruct (parse_ledger_entry (length s) r) as [[e sps] r' | c l st | |]; try contradiction.
  2: { destruct (parse_error_new_some s i st c l) as [e ->]. exact I. }
  destruct He as [Hr' Hlt].
  cbn [abs_span fst snd].
  destruct (compute_line_number_some s (utf8_len s - utf8_len r)%N) as [ln ->]; [lia |].
  rewrite consumed_true by assumption.
  apply IHn.
  - eapply suffix_trans; [eassumption |]. eapply suffix_trans; eassumption.
  - apply suffix_length in Hr. lia.
Qed.

Theorem parse_total : forall s, no_hazard (parse_ledger s).
Proof.
  intros s. unfold parse_ledger. apply entries_loop_total; [apply suffix_refl | lia].
Qed.

(* ---- the expression parser never builds a tree deeper than its budget ---- *)
Definition ok_val {A} (p : parser A) (P : A -> Prop) : Prop :=
  forall i a r, p i = POk a r -> P a.

Lemma okv_bind : forall A B (p : parser A) (k : A -> parser B) (P1 : A -> Prop) (P : B -> Prop),
  ok_val p P1 -> (forall a, P1 a -> ok_val (k a) P) -> ok_val (bind p k) P.
Proof.
  intros A B p k P1 P Hp Hk i b r H. unfold bind in H.
  destruct (p i) as [a m | | |] eqn:E; try discriminate.
  eapply Hk; eauto.
Qed.
Lemma okv_any : forall A (p : parser A), ok_val p (fun _ => True).
Proof. intros A p i a r _. exact I. Qed.
Lemma okv_pmap : forall A B (f : A -> B) p (P : B -> Prop),
  ok_val p (fun a => P (f a)) -> ok_val (pmap f p) P.
Proof.
  intros. unfold pmap. eapply okv_bind; eauto. intros a Ha i b r H0. inversion H0; subst. exact Ha.
Qed.
Lemma okv_delimited : forall A B C (p : parser A) (q : parser B) (r : parser C) (P : B -> Prop),
  ok_val q P -> ok_val (delimited p q r) P.
Proof.
  intros. unfold delimited. eapply okv_bind; [apply okv_any |]. intros _ _.
  eapply okv_bind; [eassumption |]. intros b Hb.
  eapply okv_bind; [apply okv_any |]. intros _ _ i x r0 H0. inversion H0; subst. exact Hb.
Qed.

Lemma okv_foldl1_loop : forall (operand : parser s_expr) (sep : parser s_binop) d,
  ok_val operand (fun e => (expr_depth e <= d)%nat) ->
  forall f acc, (expr_depth acc <= d)%nat ->
    ok_val (foldl1_loop f operand sep (fun l o r => SBinary o l r) acc) (fun e => (expr_depth e <= d)%nat).
Proof.
  intros operand sep d Hop. induction f; intros acc Hacc i e r H; simpl in H.
  - destruct (sep i) as [b m | [] l m | |]; try discriminate.
    + destruct (consumed i m); [| discriminate].
      destruct (operand m) as [a m' | [] l m' | |]; try discriminate. inversion H; subst; assumption.
    + inversion H; subst; assumption.
  - destruct (sep i) as [b m | [] l m | |]; try discriminate.
    + destruct (consumed i m); [| discriminate].
      destruct (operand m) as [a m' | [] l m' | |] eqn:E; try discriminate.
      * eapply IHf; [| eassumption]. simpl. apply Hop in E. lia.
      * inversion H; subst; assumption.
    + inversion H; subst; assumption.
Qed.
Lemma okv_infixl : forall fuel op operand d,
  ok_val operand (fun e => (expr_depth e <= d)%nat) ->
  ok_val (infixl fuel op operand) (fun e => (expr_depth e <= d)%nat).
Proof.
  intros fuel op operand d Hop i e r H. unfold infixl, separated_foldl1 in H.
  destruct (operand i) as [a m | | |] eqn:E; try discriminate.
  eapply okv_foldl1_loop; [eassumption | | eassumption]. eapply Hop; eassumption.
Qed.
Lemma okv_unary_expr : forall ve d,
  ok_val ve (fun v => (vexpr_depth v <= d)%nat) ->
  ok_val (unary_expr ve) (fun e => (expr_depth e <= d)%nat).
Proof.
  intros ve d Hve i e r H. unfold unary_expr in H. destruct i as [| c t]; [discriminate |].
  destruct (N.eqb c 45).
  - assert (G : ok_val (negate_expr ve) (fun e => (expr_depth e <= d)%nat)).
    { unfold negate_expr. apply okv_pmap. unfold preceded.
      eapply okv_bind; [apply okv_any |]. intros _ _ j v r' Hv. simpl. eapply Hve; eauto. }
    eapply G; eauto.
  - assert (G : ok_val (pmap SValue ve) (fun e => (expr_depth e <= d)%nat)).
    { apply okv_pmap. intros j v r' Hv. simpl. eapply Hve; eauto. }
    eapply G; eauto.
Qed.

Lemma value_expr_d_depth : forall fuel d,
  ok_val (value_expr_d fuel d) (fun v => (vexpr_depth v <= d)%nat).
Proof.
  intros fuel.
  assert (GA : forall d, ok_val (pmap SAmount amount) (fun v => (vexpr_depth v <= d)%nat)).
  { intros d. apply okv_pmap. intros j a r' _. simpl. lia. }
  induction d; intros i v r H; simpl in H; destruct i as [| c t]; try discriminate.
  - destruct (N.eqb c 40); [discriminate |]. eapply GA; eauto.
  - destruct (N.eqb c 40); [| eapply GA; eauto].
    match type of H with pmap SParen ?p _ = _ =>
      assert (G : ok_val (pmap SParen p) (fun v => (vexpr_depth v <= S d)%nat)) end.
    { apply okv_pmap. unfold paren. apply okv_delimited, okv_delimited.
      assert (G : ok_val (infixl fuel add_op (infixl fuel mul_op (unary_expr (value_expr_d fuel d))))
                         (fun e => (expr_depth e <= d)%nat)).
      { apply okv_infixl, okv_infixl, okv_unary_expr. exact IHd. }
      intros j e r' He. apply G in He. simpl. lia. }
    eapply G; eauto.
Qed.

Theorem value_expr_depth_bounded : forall fuel i v r,
  value_expr fuel i = POk v r -> (vexpr_depth v <= max_expr_depth)%nat.
Proof. intros fuel i v r H. eapply value_expr_d_depth. exact H. Qed.
