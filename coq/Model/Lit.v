(* Model of okane_core::syntax::pretty_decimal: PrettyDecimal::from_str (the literal
   scanner) and its Display.  Transcribed arm by arm from core/src/syntax/pretty_decimal.rs
   as repaired by the "fix:" commits recorded in known_findings.json (F4, F5, F14).

   Input is the byte string handed to from_str (list of byte values 0..255).
   Definitions only; lemmas live in Proofs/Lit*.v. *)
From Coq Require Import List NArith ZArith Bool.
Import ListNotations.
Open Scope N_scope.

Inductive fmt := Plain | Comma3Dot.

(* rust_decimal::Decimal is sign-magnitude: sign bit, 96-bit mantissa, scale 0..28. *)
Record pdec := { neg : bool; mant : N; scale : nat; pfmt : option fmt }.

Inductive serr :=
| UnexpectedChar (i : N)
| CommaRequired (i : N)
| IncompleteGroup (i : N)
| NoDigit
| InvalidDecimal.

Inductive sres := SOk (d : pdec) | SErr (e : serr).

Record st := { comma_pos : option N; format : option fmt; mantissa : Z; sc : option nat;
               prefix_len : N; sign : Z; has_digit : bool }.

Definition st0 : st :=
  {| comma_pos := None; format := None; mantissa := 0%Z; sc := None;
     prefix_len := 0; sign := 1%Z; has_digit := false |}.

Definition is_digit (c : N) : bool := (48 <=? c) && (c <=? 57).

Definition aligned_comma (offset : N) (cp : option N) (pos : N) : bool :=
  match cp with
  | None => (offset <? pos) && (pos <=? 3 + offset)
  | Some p => p =? pos
  end.

Definition oeqb (a : option N) (b : N) : bool :=
  match a with Some x => x =? b | None => false end.
Definition is_none {A} (a : option A) : bool := match a with None => true | Some _ => false end.

Definition i128_max : Z := (2 ^ 127 - 1)%Z.

Inductive step_res := Cont (s : st) | Stop (r : sres).

(* One iteration of `for (i, c) in s.bytes().enumerate()`; arms in source order. *)
Definition step (s : st) (i : N) (c : N) : step_res :=
  if (i =? 0) && (c =? 45) then
    Cont {| comma_pos := comma_pos s; format := format s; mantissa := mantissa s; sc := sc s;
            prefix_len := 1; sign := (-1)%Z; has_digit := has_digit s |}
  else if (c =? 44) && is_none (sc s) && aligned_comma (prefix_len s) (comma_pos s) i then
    Cont {| comma_pos := Some (i + 4); format := Some Comma3Dot; mantissa := mantissa s;
            sc := sc s; prefix_len := prefix_len s; sign := sign s; has_digit := has_digit s |}
  else if (c =? 46) && is_none (sc s) && (is_none (comma_pos s) || oeqb (comma_pos s) i) then
    Cont {| comma_pos := None; format := format s; mantissa := mantissa s; sc := Some 0%nat;
            prefix_len := prefix_len s; sign := sign s; has_digit := has_digit s |}
  else if oeqb (comma_pos s) i then Stop (SErr (CommaRequired i))
  else if is_digit c then
    let f := match sc s, format s with
             | None, None => if 3 + prefix_len s <=? i then Some Plain else None
             | _, f => f
             end in
    let m := (mantissa s * 10 + Z.of_N (c - 48))%Z in
    (* checked_mul / checked_add on i128 *)
    if (i128_max <? m)%Z then Stop (SErr InvalidDecimal)
    else Cont {| comma_pos := comma_pos s; format := f; mantissa := m;
                 sc := option_map S (sc s); prefix_len := prefix_len s; sign := sign s;
                 has_digit := true |}
  else Stop (SErr (UnexpectedChar i)).

Fixpoint run (s : st) (i : N) (l : list N) : step_res :=
  match l with
  | [] => Cont s
  | c :: r => match step s i c with
              | Cont s' => run s' (i + 1) r
              | Stop x => Stop x
              end
  end.

Definition max96 : Z := (2 ^ 96 - 1)%Z.

(* after the loop: group completeness, digit presence, Decimal::try_from_i128_with_scale *)
Definition group_incomplete (len : N) (s : st) : bool :=
  match comma_pos s with
  | Some cp => negb (cp =? len)
  | None => false
  end.

Definition finish (len : N) (s : st) : sres :=
  if group_incomplete len s then SErr (IncompleteGroup len)
  else if negb (has_digit s) then SErr NoDigit
  else
    let v := (sign s * mantissa s)%Z in
    let scl := match sc s with Some n => n | None => 0%nat end in
    if (28 <? scl)%nat then SErr InvalidDecimal
    else if (max96 <? Z.abs v)%Z then SErr InvalidDecimal
    else SOk {| neg := (v <? 0)%Z; mant := Z.abs_N v; scale := scl; pfmt := format s |}.

Definition scan (l : list N) : sres :=
  match run st0 0 l with
  | Cont s => finish (N.of_nat (length l)) s
  | Stop r => r
  end.

(* ---- Display ---- *)

(* decimal digits (ASCII codes) of n, most significant first; fuel = number of bits *)
Fixpoint digits_fuel (f : nat) (n : N) (acc : list N) : list N :=
  match f with
  | O => acc
  | S f' => if n <? 10 then (48 + n) :: acc
            else digits_fuel f' (n / 10) ((48 + n mod 10) :: acc)
  end.
Definition digits_of (n : N) : list N := digits_fuel (S (N.size_nat n)) n [].

Definition pad_zeros (w : nat) (l : list N) : list N :=
  repeat 48 (w - length l) ++ l.

(* insert commas every three digits counted from the right *)
Fixpoint group3_rev (l : list N) : list N :=
  match l with
  | a :: b :: c :: (_ :: _) as r => a :: b :: c :: 44 :: group3_rev r
  | _ => l
  end.
Definition group3 (l : list N) : list N := rev (group3_rev (rev l)).

Definition show (d : pdec) : list N :=
  let ds := pad_zeros (S (scale d)) (digits_of (mant d)) in
  let ilen := (length ds - scale d)%nat in
  let ip := firstn ilen ds in
  let fp := skipn ilen ds in
  (if neg d then [45] else []) ++
  (match pfmt d with Some Comma3Dot => group3 ip | _ => ip end) ++
  (match fp with [] => [] | _ => 46 :: fp end).
