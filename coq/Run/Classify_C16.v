(* C16 classifier: 0 Agree | 1 ModelMismatch | 2 PropertyFail | 101 known finding C16-K1 | 9 harness error.
   A case is one configuration document, the header and records the csv reader produced for a
   generated statement (with chrono's reading of each date), the transactions that came out of
   import::import + to_double_entry, and what report::process made of a funding transaction
   followed by the text ImportCmd prints for them.
   The property is re-derived from the observation: sign and amount of the posting on the
   configured account, the counter posting, rate placement, chronological order, balance
   assertions, and acceptance by the book-keeping with the final balance. *)
From Coq Require Import List NArith ZArith Bool QArith Qcanon.
From Okv Require Import Base.Maps Base.Dec Model.Amount Model.ImpConfig Model.ImpConfigSpec
     Model.ImpExtract Model.ImpExtractSpec Model.ImpSingleEntry Model.ImpCsv Model.ImpBook
     Run.ImpPattern Run.ImpCase.
From Okv Require Model.Book.
Import ListNotations.
Open Scope Qc_scope.

(* what report::process did: final balance of the configured account by commodity, or the
   kind of refusal (1 unbalanced, 2 assertion, 3 other book-keeping error, 9 anything else) *)
Inductive proc_obs := PNotRun | PAccepted (final : list (str * dec)) | PRejected (kind : N) | PPanic.

Record case := { q_doc : doc pat; q_path : str; q_header : list str; q_rows : list row;
                 q_imp : imp_obs; q_opening : list (str * dec); q_proc : proc_obs }.
Definition Q doc path header rows imp opening proc : case :=
  {| q_doc := doc; q_path := path; q_header := header; q_rows := rows; q_imp := imp;
     q_opening := opening; q_proc := proc |}.

Definition equity_opening : str := [69;113;117;105;116;121;58;79;112;101;110;105;110;103]%N.

(* ---- the model's book-keeping run ---- *)
Definition model_process (acct : str) (opening : list (str * dec)) (ts : list stxn)
  : Book.outcome Book.bstate :=
  fst (Book.process (book_entries str_code str_code (funding acct equity_opening (-1)%Z opening ++ ts))).

Definition bk_kind (e : Book.bk_err) : N :=
  match e with
  | Book.UnbalancedPostings _ => 1
  | Book.BalanceAssertionFailure _ _ _ => 2
  | _ => 3
  end%N.

Definition final_eqb (obs : list (str * dec)) (m : amount) : bool :=
  let m' := a_remove_zeros m in
  (length obs =? length m')%nat
  && forallb (fun cv => match get (str_code (fst cv)) m' with
                        | Some v => Qc_eq_bool v (dec_value (snd cv))
                        | None => false
                        end) obs.

Definition proc_agrees (acct : str) (o : proc_obs) (m : Book.outcome Book.bstate) : bool :=
  match o, m with
  | PAccepted f, Book.Ok s => final_eqb f (Book.bal_get (Book.s_bal s) (str_code acct))
  | PRejected k, Book.Err e => (k =? bk_kind e)%N
  | PPanic, Book.Panic => true
  | _, _ => false
  end.

(* ---- the property, on what the implementation produced ---- *)
Definition src_post (amount_neg : bool) (t : stxn) : option sposting :=
  if amount_neg then hd_error (rev (st_posts t)) else hd_error (st_posts t).
Definition ctr_post (amount_neg : bool) (t : stxn) : option sposting :=
  if amount_neg then hd_error (st_posts t) else hd_error (rev (st_posts t)).

Definition odec_same (a : option dec) (b : option oamount) (c : str) : bool :=
  match a, b with
  | None, None => true
  | Some x, Some y => dec_same x (oa_value y) && str_eqb (oa_commodity y) c
  | _, _ => false
  end.

(* the raw value of the row: +credit, else -debit; the amount column, negated for a liability *)
Definition expected_amount (fm : field_map) (at_ : account_type) (rec : list str) : option dec :=
  let col k := match fm_extract fm k rec with IOk (Some s) => Some s | _ => None end in
  let num s := match str_to_comma_decimal s with IOk (Some d) => Some d | IOk None => Some dec_zero | _ => None end in
  match fget FAmount (fm_all fm) with
  | Some _ => match col FAmount with
              | Some s => option_map (fun d => match at_ with Asset => d | Liability => dec_opp d end) (num s)
              | None => None
              end
  | None => match col FCredit, col FDebit with
            | Some c, Some d => if nonempty c then num c else if nonempty d then option_map dec_opp (num d) else None
            | _, _ => None
            end
  end.

Definition spec_txn (e : entry pat) (fm : field_map) (r : row) (t : stxn) : bool :=
  let rec := row_fields r in
  let col k := match fm_extract fm k rec with IOk x => x | _ => None end in
  let num k := match fm_decimal fm k rec with IOk x => x | _ => None end in
  let cell_is_number k := match col k with
                          | Some s => match str_to_comma_decimal s with IErr _ => false | _ => true end
                          | None => true
                          end in
  match expected_amount fm (e_account_type e) rec, col FPayee with
  | Some amount, Some payee0 =>
      let commodity := match col FCommodity with Some c => c | None => cs_primary (e_commodity e) end in
      let hs := hits (csv_matches re_captures) frag0 (compile (e_rewrite e))
                     {| rc_payee := payee0; rc_category := col FCategory;
                        rc_secondary_commodity := col FSecondaryCommodity |} in
      let default_conv := match num FRate, num FSecondaryAmount, col FSecondaryCommodity with
                          | Some _, Some _, Some _ => Some (cs_conversion (e_commodity e))
                          | _, _, _ => None
                          end in
      let conv := match option_or (spec_conversion hs) default_conv with
                  | Some c => if cv_disabled c then None else Some c
                  | None => None
                  end in
      match src_post (d_neg amount) t, ctr_post (d_neg amount) t with
      | Some src, Some ctr =>
          (* C16_sign *)
          str_eqb (sp_account src) (e_account e)
          && dec_same (oa_value (sp_amount src)) amount
          && str_eqb (oa_commodity (sp_amount src)) commodity
          (* C16_balance_assertion: the balance column, on the account's posting only *)
          && odec_same (num FBalance) (sp_balance src) commodity
          && forallb (fun p => match sp_balance p with None => true | Some _ => false end)
                     (if d_neg amount then removelast (st_posts t) else tl (st_posts t))
          (* every numeric cell of an imported row is a number of okane's grammar: a cell in another
             notation (6'540.35, 12.50-, 1.234,56) or with trailing junk is refused, not truncated *)
          && cell_is_number FBalance && cell_is_number FRate && cell_is_number FSecondaryAmount
          && cell_is_number FCharge
          && match conv with
             | None =>
                 (* C16_counter_posting *)
                 dec_same (oa_value (sp_amount ctr)) (dec_opp amount)
                 && str_eqb (oa_commodity (sp_amount ctr)) commodity
                 && forallb (fun p => match sp_cost p with None => true | Some _ => false end) (st_posts t)
             | Some cv =>
                 (* C16_conversion *)
                 match num FRate, option_or (cv_commodity cv) (col FSecondaryCommodity) with
                 | Some rate, Some sc =>
                     let priced := match cv_rate cv with PriceOfPrimary => commodity | PriceOfSecondary => sc end in
                     let other := match cv_rate cv with PriceOfPrimary => sc | PriceOfSecondary => commodity end in
                     str_eqb (oa_commodity (sp_amount ctr)) sc
                     && Bool.eqb (d_neg (oa_value (sp_amount ctr))) (negb (d_neg amount))
                     && match cv_amount cv with
                        | Extract => match num FSecondaryAmount with
                                     | Some sa => Qc_eq_bool (d_mag (oa_value (sp_amount ctr))) (d_mag sa)
                                     | None => false
                                     end
                        | Compute =>
                            match cv_rate cv with
                            | PriceOfPrimary => dec_close (oa_value (sp_amount ctr))
                                                  (dec_set_positive (dec_mul amount rate) (d_neg amount))
                            | PriceOfSecondary =>
                                match dec_div amount rate with
                                | Some q => dec_close (oa_value (sp_amount ctr)) (dec_set_positive q (d_neg amount))
                                | None => false
                                end
                            end
                        end
                     && forallb (fun p => if str_eqb (oa_commodity (sp_amount p)) priced
                                          then match sp_cost p with
                                               | Some c => dec_same (oa_value c) rate && str_eqb (oa_commodity c) other
                                               | None => false
                                               end
                                          else match sp_cost p with None => true | Some _ => false end)
                                (st_posts t)
                 | _, _ => false
                 end
             end
      | _, _ => false
      end
  | _, _ => false
  end.

Fixpoint spec_txns (e : entry pat) (fm : field_map) (rows : list row) (ts : list stxn) : bool :=
  match rows, ts with
  | [], [] => true
  | r :: rr, t :: tr => spec_txn e fm r t && spec_txns e fm rr tr
  | _, _ => false
  end.

Fixpoint sortedZ (l : list Z) : bool :=
  match l with
  | a :: ((b :: _) as r) => (a <=? b)%Z && sortedZ r
  | _ => true
  end.

Definition live_rows (fm : field_map) (rows : list row) : list row :=
  filter (fun r => match fm_extract fm FDate (row_fields r) with IOk (Some []) => false | _ => true end) rows.

(* C16_oldest_first *)
Definition spec_order (e : entry pat) (fm : field_map) (rows : list row) (ts : list stxn) : bool :=
  let dates := flat_map (fun r => match row_date r with Some d => [d] | None => [] end) (live_rows fm rows) in
  let declared := match fs_row_order (e_format e) with OldToNew => dates | NewToOld => rev dates end in
  negb (sortedZ declared) || sortedZ (map st_date ts).

(* ---- C16_statement_accepted on the observation ---- *)
Definition delta (p : sposting) : str * Qc :=
  match sp_cost p with
  | Some c => (oa_commodity c, dec_value (oa_value c) * dec_value (oa_value (sp_amount p)))
  | None => (oa_commodity (sp_amount p), dec_value (oa_value (sp_amount p)))
  end.
Definition sum_for (c : str) (ds : list (str * Qc)) : Qc :=
  fold_left (fun a d => if str_eqb (fst d) c then a + snd d else a) ds 0.
Definition txn_balanced (t : stxn) : bool :=
  let ds := map delta (st_posts t) in
  forallb (fun d => qc_zero (sum_for (fst d) ds)) ds.
Definition rates_ok (t : stxn) : bool :=
  forallb (fun p => match sp_cost p with
                    | Some c => negb (qc_zero (dec_value (oa_value c)))
                    | None => true
                    end
                    && nonempty (oa_commodity (sp_amount p))) (st_posts t).

Definition run_get (c : str) (m : list (str * Qc)) : Qc :=
  match sget c m with Some v => v | None => 0 end.
Fixpoint run_set (c : str) (v : Qc) (m : list (str * Qc)) : list (str * Qc) :=
  match m with
  | [] => [(c, v)]
  | (c', v') :: r => if str_eqb c' c then (c, v) :: r else (c', v') :: run_set c v r
  end.

(* exactly one posting on the account; the running balance agrees with every assertion *)
Fixpoint consistent (acct : str) (run : list (str * Qc)) (ts : list stxn) : option (list (str * Qc)) :=
  match ts with
  | [] => Some run
  | t :: r =>
      match filter (fun p => str_eqb (sp_account p) acct) (st_posts t) with
      | [p] =>
          let c := oa_commodity (sp_amount p) in
          let v := run_get c run + dec_value (oa_value (sp_amount p)) in
          let ok := match sp_balance p with
                    | Some b => str_eqb (oa_commodity b) c && Qc_eq_bool (dec_value (oa_value b)) v
                    | None => true
                    end in
          if ok then consistent acct (run_set c v run) r else None
      | _ => None
      end
  end.

(* when does the property claim acceptance: an asset account, printable names, non-zero rates,
   and a running balance that agrees with every stated balance (the result: the final balance) *)
Definition accept_claim (e : entry pat) (opening : list (str * dec)) (ts : list stxn) : option (list (str * Qc)) :=
  match e_account_type e with
  | Liability => None
  | Asset =>
      if forallb rates_ok ts && negb (str_eqb (e_account e) equity_opening)
         && forallb (fun cv => nonempty (fst cv)) opening
      then consistent (e_account e) (map (fun cv => (fst cv, dec_value (snd cv))) opening) ts
      else None
  end.

Definition accepted_as (final : list (str * Qc)) (p : proc_obs) : bool :=
  match p with
  | PAccepted f =>
      forallb (fun cv => Qc_eq_bool (run_get (fst cv) final)
                           (match sget (fst cv) f with Some d => dec_value d | None => 0 end))
              (final ++ map (fun cd => (fst cd, 0)) f)
  | _ => false
  end.

Definition spec_accepted (e : entry pat) (opening : list (str * dec)) (ts : list stxn) (p : proc_obs) : bool :=
  match accept_claim e opening ts with
  | Some final => accepted_as final p
  | None => true
  end.

(* known finding C16-K1: a consistent asset statement one of whose rows does not balance as
   printed (an extracted secondary amount that is not exactly amount x rate, e.g. rounded by the
   bank, or a charge without a conversion) is refused by the book-keeping as unbalanced *)
Definition known_class_unbalanced_row (e : entry pat) (opening : list (str * dec)) (ts : list stxn)
           (p : proc_obs) : bool :=
  match accept_claim e opening ts with
  | Some _ => negb (forallb txn_balanced ts)
              && match p with PRejected 1%N => true | _ => false end
  | None => false
  end.

Definition spec_holds (e : entry pat) (c : case) (m : ires (list stxn)) : bool :=
  match q_imp c with
  | ImpPanic => false
  | ImpNotRun => false
  | ImpErr _ => match m with IErr _ => true | _ => false end
  | ImpOk ts =>
      match fieldmap_new (fs_fields (e_format e)) (q_header c) with
      | IOk fm =>
          let live := live_rows fm (q_rows c) in
          let ordered := match fs_row_order (e_format e) with OldToNew => live | NewToOld => rev live end in
          spec_txns e fm ordered ts && spec_order e fm (q_rows c) ts
          && spec_accepted e (q_opening c) ts (q_proc c)
      | _ => false
      end
  end.

Definition classify (c : case) : N :=
  match select [q_doc c] (q_path c) with
  | Some (inl e) =>
      let m := model_import e (q_header c) (q_rows c) in
      let same := imp_agrees (q_imp c) m
                  && match m, q_proc c with
                     | IOk ts, p => proc_agrees (e_account e) p (model_process (e_account e) (q_opening c) ts)
                     | _, PNotRun => true
                     | _, _ => false
                     end in
      if negb (spec_holds e c m) then
        match q_imp c with
        | ImpOk ts => if same && known_class_unbalanced_row e (q_opening c) ts (q_proc c) then 101%N else 2%N
        | _ => 2%N
        end
      else if same then 0%N else 1%N
  | _ => 9%N
  end.

Definition verdicts (cs : list case) : list N := map classify cs.
