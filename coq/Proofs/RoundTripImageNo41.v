(* C05 round trip, provenance of the parser with respect to `)`.
   From an input that contains no `)` (RoundTripSpec.no41) the parser model can only build trees
   in which nothing would be printed with a `)` (RoundTripSpec.np_entry): every text field of a
   result is a piece of the input (possibly trimmed, lines joined with "\n"), and every construct
   that is printed with a `)` (parenthesised expression, transaction code, lot note) needs a `)`
   in the input to be parsed.  What the parser leaves is a piece of the input too.
   No assumption on the fuel: the statements are about successful results only. *)
From Coq Require Import List NArith ZArith Bool Lia Arith.
From Okv Require Import Model.Lit Model.Syntax Model.Comb Model.ParseExpr Model.ParseMeta
  Model.ParsePosting Model.ParseTxn Model.ParseDirective Model.ParseLedger Model.RoundTripSpec
  Proofs.CombSpec Proofs.ParseExprErase.
Import ListNotations.
Open Scope N_scope.

(* ================================================================================== *)
(* texts                                                                              *)
(* ================================================================================== *)
Lemma n41_app : forall a b, no41 (a ++ b) = true <-> no41 a = true /\ no41 b = true.
Proof. intros. unfold no41. rewrite forallb_app, andb_true_iff. tauto. Qed.

Lemma n41_cons : forall c s, no41 (c :: s) = true <-> (c =? 41) = false /\ no41 s = true.
Proof. intros. unfold no41. cbn [forallb]. rewrite andb_true_iff, negb_true_iff. tauto. Qed.

Lemma no41_suffix : forall r i, suffix r i -> no41 i = true -> no41 r = true.
Proof. intros r i [p ->] H. apply n41_app in H. tauto. Qed.

Lemma n41_firstn : forall n s, no41 s = true -> no41 (firstn n s) = true.
Proof.
  induction n as [| n IH]; intros [| c s] H; cbn [firstn]; auto.
  apply n41_cons in H. apply n41_cons. destruct H; split; auto.
Qed.

Lemma n41_trim_end : forall s, no41 s = true -> no41 (trim_end s) = true.
Proof.
  induction s as [| c s IH]; intros H; [exact H |]. apply n41_cons in H. destruct H as [Hc Hs].
  cbn [trim_end]. specialize (IH Hs). destruct (trim_end s) as [| d t].
  - destruct (is_white_space c); [reflexivity |]. apply n41_cons; auto.
  - apply n41_cons; auto.
Qed.

Lemma n41_trim_start : forall s, no41 s = true -> no41 (trim_start s) = true.
Proof.
  induction s as [| c s IH]; intros H; [exact H |]. cbn [trim_start].
  destruct (is_white_space c); [| exact H]. apply n41_cons in H. tauto.
Qed.

Lemma n41_trim : forall s, no41 s = true -> no41 (trim s) = true.
Proof. intros. unfold trim. apply n41_trim_end, n41_trim_start. assumption. Qed.

Lemma trim_start_spaces_cons : forall c r,
  trim_start_spaces (c :: r) = if c =? 32 then trim_start_spaces r else c :: r.
Proof.
  intros c r. destruct c as [| p]; [reflexivity |].
  do 6 (try (destruct p as [p | p |]; try reflexivity)).
Qed.

Lemma n41_trim_start_spaces : forall s, no41 s = true -> no41 (trim_start_spaces s) = true.
Proof.
  induction s as [| c s IH]; intros H; [exact H |]. rewrite trim_start_spaces_cons.
  destruct (c =? 32); [| exact H]. apply n41_cons in H. tauto.
Qed.

Lemma n41_lines : forall ls, forallb no41 ls = true ->
  no41 (concat (map (fun l => l ++ [10]) ls)) = true.
Proof.
  induction ls as [| l ls IH]; intros H; [reflexivity |]. cbn [forallb] in H.
  apply andb_true_iff in H. destruct H as [Hl Hls]. cbn [map concat].
  apply n41_app. split; [| auto]. apply n41_app. split; [exact Hl | reflexivity].
Qed.

(* trim_end keeps the first character of a non-empty result *)
Lemma trim_end_head : forall s c t, trim_end s = c :: t -> exists s', s = c :: s'.
Proof.
  intros [| d s] c t H; [discriminate |]. cbn [trim_end] in H.
  destruct (trim_end s); [destruct (is_white_space d); [discriminate |] |]; inversion H; subst; eauto.
Qed.

(* ================================================================================== *)
(* the provenance triple                                                              *)
(* ================================================================================== *)
Definition npv {A} (p : parser A) (P : A -> Prop) : Prop :=
  forall i a r, no41 i = true -> p i = POk a r -> P a /\ no41 r = true.
Definition npr {A} (p : parser A) : Prop := npv p (fun _ => True).

(* use:  H : p i = POk a r,  Hi : no41 i = true,  goal  P a /\ no41 r = true *)
Ltac use_npv P H Hi :=
  match type of H with
  | ?p ?i = POk ?a ?r =>
      let G := fresh "G" in assert (G : npv p P); [| exact (G i a r Hi H)]
  end.

Lemma npv_weaken : forall A (p : parser A) (P Q : A -> Prop),
  npv p P -> (forall a, P a -> Q a) -> npv p Q.
Proof. intros A p P Q Hp HQ i a r Hi H. destruct (Hp i a r Hi H). auto. Qed.
Lemma npv_npr : forall A (p : parser A) P, npv p P -> npr p.
Proof. intros. eapply npv_weaken; eauto. Qed.

Lemma npv_ret : forall A (a : A) (P : A -> Prop), P a -> npv (ret a) P.
Proof. intros A a P Pa i x r Hi H. inversion H; subst. auto. Qed.
Lemma npv_bind : forall A B (p : parser A) (k : A -> parser B) (P1 : A -> Prop) (P : B -> Prop),
  npv p P1 -> (forall a, P1 a -> npv (k a) P) -> npv (bind p k) P.
Proof.
  intros A B p k P1 P Hp Hk i b r Hi H. unfold bind in H.
  destruct (p i) as [a m | | |] eqn:E; try discriminate.
  destruct (Hp _ _ _ Hi E) as [Pa Hm]. exact (Hk a Pa m b r Hm H).
Qed.
Lemma npv_bind_r : forall A B (p : parser A) (k : A -> parser B) (P : B -> Prop),
  npr p -> (forall a, npv (k a) P) -> npv (bind p k) P.
Proof. intros. eapply npv_bind; eauto. Qed.
Lemma npv_pmap : forall A B (f : A -> B) p (P : B -> Prop),
  npv p (fun a => P (f a)) -> npv (pmap f p) P.
Proof. intros. unfold pmap. eapply npv_bind; eauto. intros a Ha. apply npv_ret. exact Ha. Qed.
Lemma npv_preceded : forall A B (p : parser A) (q : parser B) P, npr p -> npv q P -> npv (preceded p q) P.
Proof. intros. unfold preceded. apply npv_bind_r; auto. Qed.
Lemma npv_terminated : forall A B (p : parser A) (q : parser B) P, npv p P -> npr q -> npv (terminated p q) P.
Proof.
  intros. unfold terminated. eapply npv_bind; eauto. intros a Pa. apply npv_bind_r; auto.
  intros _. apply npv_ret. exact Pa.
Qed.
Lemma npv_delimited : forall A B C (p : parser A) (q : parser B) (r : parser C) P,
  npr p -> npv q P -> npr r -> npv (delimited p q r) P.
Proof.
  intros. unfold delimited. apply npv_bind_r; auto. intros _. eapply npv_bind; eauto.
  intros b Pb. apply npv_bind_r; auto. intros _. apply npv_ret. exact Pb.
Qed.

Lemma npr_ret : forall A (a : A), npr (ret a).
Proof. intros. apply npv_ret. exact I. Qed.
Lemma npr_bind : forall A B (p : parser A) (k : A -> parser B), npr p -> (forall a, npr (k a)) -> npr (bind p k).
Proof. intros. apply npv_bind_r; auto. Qed.
Lemma npr_pmap : forall A B (f : A -> B) p, npr p -> npr (pmap f p).
Proof. intros. apply npv_pmap. assumption. Qed.
Lemma npr_void : forall A (p : parser A), npr p -> npr (void p).
Proof. intros. unfold void. apply npr_bind; auto. intros _. apply npr_ret. Qed.
Lemma npr_preceded : forall A B (p : parser A) (q : parser B), npr p -> npr q -> npr (preceded p q).
Proof. intros. apply npv_preceded; auto. Qed.
Lemma npr_terminated : forall A B (p : parser A) (q : parser B), npr p -> npr q -> npr (terminated p q).
Proof. intros. apply npv_terminated; auto. Qed.
Lemma npr_delimited : forall A B C (p : parser A) (q : parser B) (r : parser C),
  npr p -> npr q -> npr r -> npr (delimited p q r).
Proof. intros. apply npv_delimited; auto. Qed.

(* ---- tokens ---- *)
Lemma npv_one_of : forall f, npv (one_of f) (fun c => f c = true).
Proof.
  intros f i a r Hi H. destruct i as [| c t]; cbn [one_of] in H; [discriminate |].
  destruct (f c) eqn:F; inversion H; subst. apply n41_cons in Hi. tauto.
Qed.
Lemma npr_one_of : forall f, npr (one_of f).
Proof. intros. eapply npv_npr, npv_one_of. Qed.
Lemma npr_chr : forall c, npr (chr c).
Proof. intros. apply npr_one_of. Qed.
Lemma npr_any : npr any.
Proof. intros i a r Hi H. destruct i; inversion H; subst. apply n41_cons in Hi. tauto. Qed.
Lemma npr_fail : forall A, npr (@fail A).
Proof. intros A i a r _ H. discriminate. Qed.
(* the closing parenthesis is not there *)
Lemma npv_chr41 : npv (chr 41) (fun _ => False).
Proof.
  intros i a r Hi H. destruct i as [| c t]; cbn [chr one_of] in H; [discriminate |].
  apply n41_cons in Hi. destruct Hi as [Hc _]. rewrite N.eqb_sym, Hc in H. discriminate.
Qed.
Lemma npr_literal : forall l, npr (literal l).
Proof.
  intros l i a r Hi H. unfold literal in H. destruct (strip_prefix l i) eqn:E; inversion H; subst.
  apply strip_prefix_app in E. subst. apply n41_app in Hi. tauto.
Qed.
Lemma npv_take_while0 : forall f, npv (take_while0 f) (fun a => no41 a = true).
Proof.
  intros f i a r Hi H. unfold take_while0 in H. destruct (span_while f i) eqn:E. inversion H; subst.
  apply span_while_app in E. subst. apply n41_app in Hi. exact Hi.
Qed.
Lemma npv_take_while1 : forall f, npv (take_while1 f) (fun a => no41 a = true).
Proof.
  intros f i a r Hi H. unfold take_while1 in H. destruct (span_while f i) as [x y] eqn:E.
  apply span_while_app in E. subst. apply n41_app in Hi. destruct x; inversion H; subst. exact Hi.
Qed.
Lemma npv_take_till0 : forall f, npv (take_till0 f) (fun a => no41 a = true).
Proof. intros. apply npv_take_while0. Qed.
Lemma npv_take_till1 : forall f, npv (take_till1 f) (fun a => no41 a = true).
Proof. intros. apply npv_take_while1. Qed.
Lemma npr_take_while0 : forall f, npr (take_while0 f).
Proof. intros. eapply npv_npr, npv_take_while0. Qed.
Lemma npr_take_while1 : forall f, npr (take_while1 f).
Proof. intros. eapply npv_npr, npv_take_while1. Qed.
Lemma npr_take_till0 : forall f, npr (take_till0 f).
Proof. intros. apply npr_take_while0. Qed.
Lemma npr_take_till1 : forall f, npr (take_till1 f).
Proof. intros. apply npr_take_while1. Qed.
Lemma npr_eof : npr eof.
Proof. intros i a r Hi H. destruct i; inversion H; subst. auto. Qed.
Lemma npr_space0 : npr space0. Proof. apply npr_take_while0. Qed.
Lemma npr_space1 : npr space1. Proof. apply npr_take_while1. Qed.
Lemma npr_digit1 : npr digit1. Proof. apply npr_take_while1. Qed.

(* ---- choice, lookahead, decoration ---- *)
Lemma npv_opt : forall A (p : parser A) P, npv p P ->
  npv (opt p) (fun o => match o with Some a => P a | None => True end).
Proof.
  intros A p P Hp i o r Hi H. unfold opt in H.
  destruct (p i) as [a m | [] l m | |] eqn:E; try discriminate; inversion H; subst.
  - eapply Hp; eauto.
  - auto.
Qed.
Lemma npr_opt : forall A (p : parser A), npr p -> npr (opt p).
Proof. intros. eapply npv_npr, npv_opt. eassumption. Qed.
Lemma npv_alt : forall A (p q : parser A) P, npv p P -> npv q P -> npv (alt p q) P.
Proof.
  intros A p q P Hp Hq i a r Hi H. unfold alt in H.
  destruct (p i) as [x m | [] l m | |] eqn:E; try discriminate.
  - inversion H; subst. eapply Hp; eauto.
  - eapply Hq; eauto.
Qed.
Lemma npr_alt : forall A (p q : parser A), npr p -> npr q -> npr (alt p q).
Proof. intros. apply npv_alt; auto. Qed.
Lemma npv_peek : forall A (p : parser A) P, npv p P -> npv (peek p) P.
Proof.
  intros A p P Hp i a r Hi H. unfold peek in H. destruct (p i) as [x m | | |] eqn:E; inversion H; subst.
  destruct (Hp _ _ _ Hi E). auto.
Qed.
Lemma npr_peek : forall A (p : parser A), npr (peek p).
Proof. intros A p i a r Hi H. unfold peek in H. destruct (p i); inversion H; subst. auto. Qed.
Lemma npr_pnot : forall A (p : parser A), npr (pnot p).
Proof.
  intros A p i a r Hi H. unfold pnot in H. destruct (p i) as [x m | [] l m | |]; inversion H; subst. auto.
Qed.
Lemma npr_has_peek : forall A (p : parser A), npr (has_peek p).
Proof.
  intros A p i a r Hi H. unfold has_peek, pmap, bind, ret, peek, opt in H.
  destruct (p i) as [x m | [] l m | |]; inversion H; subst; auto.
Qed.
Lemma npv_cut_err : forall A (p : parser A) P, npv p P -> npv (cut_err p) P.
Proof.
  intros A p P Hp i a r Hi H. unfold cut_err in H. destruct (p i) eqn:E; inversion H; subst.
  eapply Hp; eauto.
Qed.
Lemma npr_cut_err : forall A (p : parser A), npr p -> npr (cut_err p).
Proof. intros. apply npv_cut_err; auto. Qed.
Lemma npv_context : forall A lbl (p : parser A) P, npv p P -> npv (context lbl p) P.
Proof.
  intros A lbl p P Hp i a r Hi H. unfold context in H. destruct (p i) as [x m | c l m | |] eqn:E.
  - inversion H; subst. eapply Hp; eauto.
  - destruct l; discriminate.
  - discriminate.
  - discriminate.
Qed.
Lemma npr_context : forall A lbl (p : parser A), npr p -> npr (context lbl p).
Proof. intros. apply npv_context; auto. Qed.
Lemma npv_cond : forall A b (p : parser A) P, npv p P ->
  npv (cond b p) (fun o => match o with Some a => P a | None => True end).
Proof. intros. unfold cond. destruct b; [apply npv_pmap; assumption | apply npv_ret; exact I]. Qed.
Lemma npr_cond : forall A b (p : parser A), npr p -> npr (cond b p).
Proof. intros. eapply npv_npr, npv_cond. eassumption. Qed.
Lemma npv_cond_else : forall A b (p q : parser A) P, npv p P -> npv q P -> npv (cond_else b p q) P.
Proof. intros. unfold cond_else. destruct b; assumption. Qed.
Lemma npr_cond_else : forall A b (p q : parser A), npr p -> npr q -> npr (cond_else b p q).
Proof. intros. apply npv_cond_else; auto. Qed.
Lemma npv_taken : forall A (p : parser A), npr p -> npv (taken p) (fun x => no41 x = true).
Proof.
  intros A p Hp i a r Hi H. unfold taken in H. destruct (p i) as [x m | | |] eqn:E; inversion H; subst.
  destruct (Hp _ _ _ Hi E). split; [apply n41_firstn; assumption | assumption].
Qed.
Lemma npr_taken : forall A (p : parser A), npr p -> npr (taken p).
Proof. intros. eapply npv_npr, npv_taken. assumption. Qed.
Lemma npv_with_span : forall A (p : parser A) P, npv p P -> npv (with_span p) (fun x => P (fst x)).
Proof.
  intros A p P Hp i a r Hi H. unfold with_span in H. destruct (p i) as [x m | | |] eqn:E; inversion H; subst.
  eapply Hp; eauto.
Qed.
Lemma npr_with_span : forall A (p : parser A), npr p -> npr (with_span p).
Proof. intros A p Hp. eapply npv_npr. apply npv_with_span. exact Hp. Qed.
Lemma npv_try_map : forall A B (p : parser A) (f : A -> option B) (P1 : A -> Prop) (P : B -> Prop),
  npv p P1 -> (forall a b, P1 a -> f a = Some b -> P b) -> npv (try_map p f) P.
Proof.
  intros A B p f P1 P Hp Hf i b r Hi H. unfold try_map in H.
  destruct (p i) as [x m | | |] eqn:E; try discriminate.
  destruct (f x) eqn:F; inversion H; subst. destruct (Hp _ _ _ Hi E). eauto.
Qed.
Lemma npr_try_map : forall A B (p : parser A) (f : A -> option B), npr p -> npr (try_map p f).
Proof. intros. eapply npv_try_map; eauto. Qed.

(* ---- repetition ---- *)
Lemma npv_many0 : forall A (q : A -> bool) (p : parser A), npv p (fun a => q a = true) ->
  forall f, npv (many0 f p) (fun l => forallb q l = true).
Proof.
  intros A q p Hp. induction f as [| f IH]; intros i l r Hi H; simpl in H.
  - destruct (p i) as [a m | [] l0 m | |] eqn:E; try discriminate.
    + destruct (consumed i m); discriminate.
    + inversion H; subst. auto.
  - destruct (p i) as [a m | [] l0 m | |] eqn:E; try discriminate.
    + destruct (consumed i m); [| discriminate]. destruct (Hp _ _ _ Hi E) as [Qa Hm].
      destruct (many0 f p m) as [l1 r1 | | |] eqn:M; try discriminate. inversion H; subst.
      destruct (IH _ _ _ Hm M). split; [| assumption]. cbn [forallb]. rewrite Qa. assumption.
    + inversion H; subst. auto.
Qed.
Lemma npr_many0 : forall A (p : parser A) f, npr p -> npr (many0 f p).
Proof.
  intros A p f Hp. eapply npv_npr. apply (npv_many0 A (fun _ => true)).
  eapply npv_weaken; [exact Hp | reflexivity].
Qed.
Lemma npv_many1 : forall A (q : A -> bool) (p : parser A) f, npv p (fun a => q a = true) ->
  npv (many1 f p) (fun l => forallb q l = true).
Proof.
  intros A q p f Hp. unfold many1. eapply npv_bind; [exact Hp |]. intros a Qa.
  eapply npv_bind; [apply npv_many0; exact Hp |]. intros l Ql. apply npv_ret.
  cbn [forallb]. rewrite Qa. exact Ql.
Qed.
Lemma npr_many1 : forall A (p : parser A) f, npr p -> npr (many1 f p).
Proof.
  intros A p f Hp. eapply npv_npr. apply (npv_many1 A (fun _ => true)).
  eapply npv_weaken; [exact Hp | reflexivity].
Qed.

Lemma npv_repeat_till_loop : forall A B (f : parser A) (g : parser B) P, npr f -> npv g P ->
  forall fuel, npv (repeat_till_loop fuel f g) P.
Proof.
  intros A B f g P Hf Hg. induction fuel as [| n IH]; intros i b r Hi H; simpl in H.
  - destruct (g i) as [x m | [] l m | |] eqn:E; try discriminate.
    + inversion H; subst. eapply Hg; eauto.
    + destruct (f i) as [y m' | | |]; try discriminate. destruct (consumed i m'); discriminate.
  - destruct (g i) as [x m | [] l m | |] eqn:E; try discriminate.
    + inversion H; subst. eapply Hg; eauto.
    + destruct (f i) as [y m' | | |] eqn:F; try discriminate.
      destruct (consumed i m'); [| discriminate]. destruct (Hf _ _ _ Hi F) as [_ Hm].
      eapply IH; eauto.
Qed.
Lemma npv_repeat_till1 : forall A B fuel (f : parser A) (g : parser B) P, npr f -> npv g P ->
  npv (repeat_till1 fuel f g) P.
Proof.
  intros. unfold repeat_till1. apply npv_bind_r; auto. intros _. apply npv_repeat_till_loop; auto.
Qed.
Lemma npr_repeat_till1 : forall A B fuel (f : parser A) (g : parser B), npr f -> npr g ->
  npr (repeat_till1 fuel f g).
Proof. intros. apply npv_repeat_till1; auto. Qed.

Lemma npv_separated_loop : forall A B (q : A -> bool) (p : parser A) (sep : parser B),
  npv p (fun a => q a = true) -> npr sep ->
  forall f, npv (separated_loop f p sep) (fun l => forallb q l = true).
Proof.
  intros A B q p sep Hp Hs. induction f as [| f IH]; intros i l r Hi H; simpl in H.
  - destruct (sep i) as [x m | [] l0 m | |] eqn:E; try discriminate.
    + destruct (consumed i m); [| discriminate].
      destruct (p m) as [a m' | [] l1 m' | |]; try discriminate. inversion H; subst. auto.
    + inversion H; subst. auto.
  - destruct (sep i) as [x m | [] l0 m | |] eqn:E; try discriminate.
    + destruct (consumed i m); [| discriminate]. destruct (Hs _ _ _ Hi E) as [_ Hm].
      destruct (p m) as [a m' | [] l1 m' | |] eqn:F; try discriminate.
      * destruct (Hp _ _ _ Hm F) as [Qa Hm'].
        destruct (separated_loop f p sep m') as [l2 r2 | | |] eqn:M; try discriminate.
        inversion H; subst. destruct (IH _ _ _ Hm' M). split; [| assumption].
        cbn [forallb]. rewrite Qa. assumption.
      * inversion H; subst. auto.
    + inversion H; subst. auto.
Qed.
Lemma npv_separated1 : forall A B (q : A -> bool) f (p : parser A) (sep : parser B),
  npv p (fun a => q a = true) -> npr sep ->
  npv (separated1 f p sep) (fun l => forallb q l = true).
Proof.
  intros A B q f p sep Hp Hs. unfold separated1. eapply npv_bind; [exact Hp |]. intros a Qa.
  eapply npv_bind; [apply npv_separated_loop; eassumption |]. intros l Ql. apply npv_ret.
  cbn [forallb]. rewrite Qa. exact Ql.
Qed.

Lemma npr_foldl1_loop : forall A B (p : parser A) (sep : parser B) op, npr p -> npr sep ->
  forall fuel acc, npr (foldl1_loop fuel p sep op acc).
Proof.
  intros A B p sep op Hp Hs. induction fuel as [| n IH]; intros acc i a r Hi H; simpl in H.
  - destruct (sep i) as [x m | [] l0 m | |] eqn:E; try discriminate.
    + destruct (consumed i m); [| discriminate].
      destruct (p m) as [b m' | [] l1 m' | |]; try discriminate. inversion H; subst. auto.
    + inversion H; subst. auto.
  - destruct (sep i) as [x m | [] l0 m | |] eqn:E; try discriminate.
    + destruct (consumed i m); [| discriminate]. destruct (Hs _ _ _ Hi E) as [_ Hm].
      destruct (p m) as [b m' | [] l1 m' | |] eqn:F; try discriminate.
      * destruct (Hp _ _ _ Hm F) as [_ Hm']. eapply IH; eauto.
      * inversion H; subst. auto.
    + inversion H; subst. auto.
Qed.
Lemma npr_separated_foldl1 : forall A B fuel (p : parser A) (sep : parser B) op, npr p -> npr sep ->
  npr (separated_foldl1 fuel p sep op).
Proof.
  intros A B fuel p sep op Hp Hs i a r Hi H. unfold separated_foldl1 in H.
  destruct (p i) as [x m | | |] eqn:E; try discriminate. destruct (Hp _ _ _ Hi E) as [_ Hm].
  exact (npr_foldl1_loop A B p sep op Hp Hs fuel x m a r Hm H).
Qed.

(* ---- a structural solver for "the rest is a piece of the input" ---- *)
Create HintDb nprdb.
#[export] Hint Resolve npr_space0 npr_space1 npr_digit1 npr_eof npr_any : nprdb.

Ltac npr_step :=
  cbv beta;
  first
    [ assumption
    | solve [auto 1 with nprdb nocore]
    | apply npr_has_peek
    | apply npr_many0
    | apply npr_many1
    | apply npr_repeat_till1
    | apply npr_separated_foldl1
    | apply npr_cond
    | apply npr_cond_else
    | apply npr_ret
    | apply npr_pmap
    | apply npr_void
    | apply npr_preceded
    | apply npr_terminated
    | apply npr_delimited
    | apply npr_opt
    | apply npr_alt
    | apply npr_peek
    | apply npr_pnot
    | apply npr_cut_err
    | apply npr_context
    | apply npr_taken
    | apply npr_with_span
    | apply npr_try_map
    | apply npr_chr
    | apply npr_one_of
    | apply npr_literal
    | apply npr_take_while0
    | apply npr_take_while1
    | apply npr_take_till0
    | apply npr_take_till1
    | apply npr_fail
    | apply npr_bind; [| intros ?] ].
Ltac npr_t := repeat npr_step.

(* ================================================================================== *)
(* characters, primitives, expressions                                                *)
(* ================================================================================== *)
Lemma npr_line_ending : npr line_ending.
Proof. unfold line_ending. npr_t. Qed.
Lemma npr_line_ending_or_semi : npr line_ending_or_semi.
Proof. unfold line_ending_or_semi, line_ending. npr_t. Qed.
Lemma npr_line_ending_or_eof : npr line_ending_or_eof.
Proof. unfold line_ending_or_eof, line_ending. npr_t. Qed.

Lemma npv_till_line_ending : npv till_line_ending (fun a => no41 a = true).
Proof.
  intros i a r Hi H. unfold till_line_ending in H.
  destruct (span_while (fun c => negb (is_nl c)) i) as [x y] eqn:E.
  apply span_while_app in E. subst i. apply n41_app in Hi.
  assert (G : POk (A := list N) x y = POk a r -> no41 a = true /\ no41 r = true).
  { intros G. inversion G; subst. exact Hi. }
  destruct y as [| c y]; [exact (G H) |].
  destruct (N.eq_dec c 13) as [-> | Hc].
  - destruct y as [| d y]; [discriminate |].
    destruct (N.eq_dec d 10) as [-> | Hd]; [exact (G H) |].
    exfalso. clear - H Hd. destruct d as [| p]; [discriminate |].
    do 4 (try (destruct p as [p | p |]; try discriminate)). congruence.
  - apply G. clear - H Hc. destruct c as [| p]; [exact H |].
    do 4 (try (destruct p as [p | p |]; try exact H)). congruence.
Qed.
Lemma npr_till_line_ending : npr till_line_ending.
Proof. eapply npv_npr, npv_till_line_ending. Qed.
#[export] Hint Resolve npr_line_ending npr_line_ending_or_semi npr_line_ending_or_eof
  npr_till_line_ending : nprdb.

(* `( ... )` can not be read from a text without `)` *)
Lemma npv_paren : forall A (p : parser A), npr p -> npv (paren p) (fun _ => False).
Proof.
  intros A p Hp. unfold paren, delimited. apply npv_bind_r; [apply npr_chr |]. intros _.
  apply npv_bind_r; [exact Hp |]. intros x.
  eapply npv_bind; [exact npv_chr41 |]. intros _ [].
Qed.
Lemma npv_paren_str : npv paren_str (fun _ => False).
Proof. unfold paren_str. apply npv_paren. npr_t. Qed.

Lemma npr_decimal_token : npr decimal_token.
Proof. unfold decimal_token. npr_t. Qed.
Lemma npr_pretty_decimal : npr pretty_decimal.
Proof. unfold pretty_decimal. apply npr_try_map, npr_decimal_token. Qed.
Lemma npr_date : npr date.
Proof. unfold date, date_with. npr_t. Qed.
#[export] Hint Resolve npr_pretty_decimal npr_date : nprdb.

Lemma npv_amount : npv amount (fun a => no41 (sa_commodity a) = true).
Proof.
  unfold amount. apply npv_bind_r; [npr_t |]. intros v.
  eapply npv_bind; [apply npv_take_till0 |]. intros c Hc. apply npv_ret. exact Hc.
Qed.
Lemma npr_amount : npr amount.
Proof. eapply npv_npr, npv_amount. Qed.
Lemma npr_add_op : npr add_op.
Proof. unfold add_op. npr_t. Qed.
Lemma npr_mul_op : npr mul_op.
Proof. unfold mul_op. npr_t. Qed.
#[export] Hint Resolve npr_amount npr_add_op npr_mul_op : nprdb.

Lemma npr_chain_loop : forall (op : parser s_binop) (p : parser s_expr), npr op -> npr p ->
  forall fuel lhs, npr (chain_loop fuel op p lhs).
Proof.
  intros op p Hop Hp.
  assert (Hs : npr (delimited space0 op space0)) by npr_t.
  induction fuel as [| n IH]; intros lhs i a r Hi H; cbn [chain_loop] in H.
  - destruct (delimited space0 op space0 i) as [x m | [] l0 m | |] eqn:E; try discriminate.
    + destruct (p m) as [b m' | [] l1 m' | |]; try discriminate.
      * destruct (fits_under _); discriminate.
      * inversion H; subst. auto.
    + inversion H; subst. auto.
  - destruct (delimited space0 op space0 i) as [x m | [] l0 m | |] eqn:E; try discriminate.
    + destruct (Hs _ _ _ Hi E) as [_ Hm].
      destruct (p m) as [b m' | [] l1 m' | |] eqn:F; try discriminate.
      * destruct (fits_under _); [| discriminate].
        destruct (Hp _ _ _ Hm F) as [_ Hm']. eapply IH; eauto.
      * inversion H; subst. auto.
    + inversion H; subst. auto.
Qed.
Lemma npr_infixl_e : forall fuel op operand, npr op -> npr operand -> npr (infixl_e fuel op operand).
Proof.
  intros fuel op p Hop Hp i a r Hi H. unfold infixl_e in H.
  destruct (p i) as [x m | | |] eqn:E; try discriminate. destruct (Hp _ _ _ Hi E) as [_ Hm].
  exact (npr_chain_loop op p Hop Hp fuel x m a r Hm H).
Qed.
Lemma npr_unary_e : forall ve, npr ve -> npr (unary_e ve).
Proof.
  intros ve Hve i a r Hi H. unfold unary_e in H. destruct i as [| c t]; [discriminate |].
  destruct (c =? 45).
  - use_npv (fun _ : s_expr => True) H Hi. unfold negate_e. apply npr_try_map. npr_t.
  - use_npv (fun _ : s_expr => True) H Hi. npr_t.
Qed.

Lemma npv_value_expr_d : forall fuel d, npv (value_expr_d fuel d) (fun v => np_vexpr v = true).
Proof.
  intros fuel.
  assert (GA : npv (pmap SAmount amount) (fun v => np_vexpr v = true)).
  { apply npv_pmap. exact npv_amount. }
  induction d as [| d IH]; intros i v r Hi H; cbn [value_expr_d] in H; destruct i as [| c t]; try discriminate.
  - destruct (c =? 40); [discriminate |]. exact (GA _ _ _ Hi H).
  - destruct (c =? 40); [| exact (GA _ _ _ Hi H)].
    use_npv (fun v : s_vexpr => np_vexpr v = true) H Hi.
    unfold paren_e. eapply npv_try_map with (P1 := fun _ => False); [| intros ? ? []].
    apply npv_paren.
    apply npr_delimited; [npr_t | | npr_t].
    apply npr_infixl_e; [npr_t |]. apply npr_infixl_e; [npr_t |]. apply npr_unary_e.
    eapply npv_npr, IH.
Qed.
Lemma npv_value_expr : forall fuel, npv (value_expr fuel) (fun v => np_vexpr v = true).
Proof. intros fuel i v r Hi H. rewrite value_expr_erase in H. exact (npv_value_expr_d fuel _ i v r Hi H). Qed.
Lemma npr_value_expr : forall fuel, npr (value_expr fuel).
Proof. intros. eapply npv_npr, npv_value_expr. Qed.
#[export] Hint Resolve npr_value_expr : nprdb.

(* ================================================================================== *)
(* metadata                                                                           *)
(* ================================================================================== *)
Lemma npr_clear_state : npr clear_state.
Proof. unfold clear_state. npr_t. Qed.
Lemma npv_tag_key : npv tag_key (fun k => no41 k = true).
Proof. unfold tag_key. apply npv_take_till1. Qed.
Lemma npr_tag_key : npr tag_key.
Proof. eapply npv_npr, npv_tag_key. Qed.
#[export] Hint Resolve npr_clear_state npr_tag_key : nprdb.

Lemma npv_metadata_value : npv metadata_value (fun v => np_meta_value v = true).
Proof.
  unfold metadata_value. apply npv_alt; apply npv_pmap; (apply npv_preceded; [npr_t |]);
    (eapply npv_weaken; [exact npv_till_line_ending |]); intros x Hx; cbn [np_meta_value];
    apply n41_trim; exact Hx.
Qed.
Lemma npv_metadata_kv : npv metadata_kv (fun m => np_metadata m = true).
Proof.
  unfold metadata_kv. eapply npv_bind; [apply npv_terminated; [exact npv_tag_key | npr_t] |].
  intros k Hk. eapply npv_bind; [exact npv_metadata_value |]. intros v Hv. apply npv_ret.
  cbn [np_metadata]. cbv beta in Hk. rewrite Hk, Hv. reflexivity.
Qed.
Lemma npv_metadata_tags : forall fuel, npv (metadata_tags fuel) (fun m => np_metadata m = true).
Proof.
  intros fuel. unfold metadata_tags. apply npv_pmap. cbn [np_metadata].
  apply npv_delimited; [npr_t | | npr_t]. apply (npv_many1 _ no41).
  apply npv_terminated; [exact npv_tag_key | npr_t].
Qed.
Lemma npv_line_metadata : forall fuel, npv (line_metadata fuel) (fun m => np_metadata m = true).
Proof.
  intros fuel. unfold line_metadata. apply npv_delimited; [npr_t | | npr_t].
  apply npv_alt; [apply npv_metadata_tags |]. apply npv_alt; [exact npv_metadata_kv |].
  apply npv_pmap. eapply npv_weaken; [exact npv_till_line_ending |]. intros x Hx.
  cbn [np_metadata]. apply n41_trim_end. exact Hx.
Qed.
Lemma npv_block_metadata : forall fuel,
  npv (block_metadata fuel) (fun l => forallb np_metadata l = true).
Proof.
  intros fuel i l r Hi H. unfold block_metadata in H.
  destruct (match i with c :: _ => c =? 59 | [] => false end).
  - use_npv (fun l => forallb np_metadata l = true) H Hi.
    apply npv_separated1; [apply npv_line_metadata | npr_t].
  - use_npv (fun l => forallb np_metadata l = true) H Hi.
    apply npv_preceded; [npr_t |]. apply npv_many0. apply npv_preceded; [npr_t |]. apply npv_line_metadata.
Qed.
Lemma npr_block_metadata : forall fuel, npr (block_metadata fuel).
Proof. intros. eapply npv_npr, npv_block_metadata. Qed.
#[export] Hint Resolve npr_block_metadata : nprdb.

(* ================================================================================== *)
(* postings                                                                           *)
(* ================================================================================== *)
Lemma npv_posting_account : forall fuel, npv (posting_account fuel) (fun x => no41 (fst x) = true).
Proof.
  intros fuel. unfold posting_account. apply npv_terminated; [| npr_t].
  apply (npv_with_span _ _ (fun x => no41 x = true)).
  eapply npv_try_map with (P1 := fun x => no41 x = true).
  - apply npv_pmap. eapply npv_weaken; [apply npv_taken |].
    + npr_t.
    + intros x Hx. apply n41_trim_start_spaces. exact Hx.
  - intros a b Ha Hf. cbv beta in Hf. destruct (trim a); inversion Hf; subst. exact Ha.
Qed.

Lemma npv_lot_amount : forall fuel, npv (lot_amount fuel) (fun x => np_exchange x = true).
Proof.
  intros fuel. unfold lot_amount. apply npv_bind_r; [npr_t |]. intros [|].
  - apply npv_pmap. cbn [np_exchange]. apply npv_delimited; [npr_t | apply npv_value_expr | npr_t].
  - apply npv_pmap. cbn [np_exchange]. apply npv_delimited; [npr_t | apply npv_value_expr | npr_t].
Qed.

Lemma npv_lot_loop : forall fuel n l psp, np_lot l = true ->
  npv (lot_loop fuel n l psp) (fun x => np_lot (fst x) = true).
Proof.
  intros fuel. induction n as [| n IH]; intros l psp Hl i x r Hi H; [discriminate |].
  cbn [lot_loop] in H. destruct i as [| c t]; [inversion H; subst; auto |].
  unfold np_lot in Hl. apply andb_true_iff in Hl. destruct Hl as [Hp Hn].
  destruct (c =? 123); [| destruct (c =? 91); [| destruct (c =? 40)]].
  - destruct (lot_price l) eqn:LP; [discriminate |].
    use_npv (fun x : s_lot * option rspan => np_lot (fst x) = true) H Hi.
    eapply npv_bind; [apply npv_with_span, npv_lot_amount |]. intros pr Hpr.
    apply npv_bind_r; [npr_t |]. intros _. apply IH.
    unfold np_lot. cbn [lot_price lot_note opt_all]. cbv beta in Hpr. rewrite Hpr, Hn. reflexivity.
  - destruct (lot_date l) eqn:LD; [discriminate |].
    use_npv (fun x : s_lot * option rspan => np_lot (fst x) = true) H Hi.
    apply npv_bind_r; [npr_t |]. intros d.
    apply npv_bind_r; [npr_t |]. intros _. apply IH.
    unfold np_lot. cbn [lot_price lot_note]. rewrite Hp, Hn. reflexivity.
  - destruct (lot_note l) eqn:LN; [discriminate |].
    use_npv (fun x : s_lot * option rspan => np_lot (fst x) = true) H Hi.
    eapply npv_bind; [apply npv_paren; npr_t |]. intros ? [].
  - inversion H; subst. split; [| exact Hi]. unfold np_lot. cbn [fst]. rewrite Hp, Hn. reflexivity.
Qed.
Lemma npv_lot : forall fuel, npv (lot fuel) (fun x => np_lot (fst x) = true).
Proof. intros. unfold lot. apply npv_bind_r; [npr_t |]. intros _. apply npv_lot_loop. reflexivity. Qed.

Lemma npv_total_cost : forall fuel, npv (total_cost fuel) (fun x => np_exchange x = true).
Proof.
  intros. unfold total_cost. apply npv_pmap. cbn [np_exchange]. apply npv_preceded; [npr_t | apply npv_value_expr].
Qed.
Lemma npv_rate_cost : forall fuel, npv (rate_cost fuel) (fun x => np_exchange x = true).
Proof.
  intros. unfold rate_cost. apply npv_pmap. cbn [np_exchange]. apply npv_preceded; [npr_t | apply npv_value_expr].
Qed.

Lemma npv_posting_amount : forall fuel,
  npv (posting_amount fuel) (fun x => np_posting_amount (fst x) = true).
Proof.
  intros fuel. unfold posting_amount.
  eapply npv_bind; [apply npv_terminated; [apply npv_with_span, npv_value_expr | npr_t] |].
  intros am Ham. eapply npv_bind; [apply npv_lot |]. intros lt Hlt.
  apply npv_bind_r; [npr_t |]. intros is_at. apply npv_bind_r; [npr_t |]. intros is_dat.
  eapply npv_bind.
  { apply npv_cond, npv_with_span, npv_cond_else; [apply npv_total_cost | apply npv_rate_cost]. }
  intros cost Hc. apply npv_ret. cbn [fst]. unfold np_posting_amount. cbn [pa_amount pa_cost pa_lot].
  cbv beta in Ham, Hlt. rewrite Ham, Hlt. destruct cost as [x |]; cbn [option_map opt_all]; [rewrite Hc |]; reflexivity.
Qed.

Lemma npv_posting_body : forall fuel, npv (posting_body fuel) (fun x => np_posting (fst x) = true).
Proof.
  intros fuel. unfold posting_body. apply npv_bind_r; [npr_t |]. intros cs.
  eapply npv_bind; [apply npv_context, npv_posting_account |]. intros acc Hacc. cbv beta in Hacc.
  apply npv_bind_r; [npr_t |]. intros [|].
  - eapply npv_bind; [apply npv_block_metadata |]. intros md Hmd. apply npv_ret.
    cbn [fst]. unfold np_posting. cbn [sp_account sp_amount sp_balance sp_metadata opt_all].
    rewrite Hacc, Hmd. reflexivity.
  - eapply npv_bind.
    { apply npv_context, npv_opt, npv_terminated; [apply npv_posting_amount | npr_t]. }
    intros am Ham. eapply npv_bind.
    { apply npv_opt, npv_context, npv_with_span, npv_delimited; [npr_t | apply npv_value_expr | npr_t]. }
    intros bal Hbal. eapply npv_bind; [apply npv_context, npv_block_metadata |]. intros md Hmd.
    apply npv_ret. cbn [fst]. unfold np_posting. cbn [sp_account sp_amount sp_balance sp_metadata].
    rewrite Hacc, Hmd.
    destruct am as [x |]; cbn [option_map opt_all]; [rewrite Ham |];
      (destruct bal as [y |]; cbn [option_map opt_all]; [rewrite Hbal |]); reflexivity.
Qed.

Lemma npv_posting : forall fuel, npv (posting fuel) (fun x => np_posting (fst x) = true).
Proof.
  intros fuel. unfold posting. apply npv_pmap.
  eapply npv_weaken; [apply npv_with_span, npv_context, npv_posting_body |].
  intros [[p [[[[a am] co] lp] ba]] sp] H. exact H.
Qed.

(* ================================================================================== *)
(* transactions                                                                       *)
(* ================================================================================== *)
Lemma bind_inv : forall A B (p : parser A) (k : A -> parser B) i b r,
  bind p k i = POk b r -> exists a m, p i = POk a m /\ k a m = POk b r.
Proof.
  intros A B p k i b r H. unfold bind in H. destruct (p i) as [a m | | |]; try discriminate. eauto.
Qed.

(* what `transaction` does once the date, the state and the code are read *)
Definition txn_tail (fuel : nat) (d : Syntax.date) (ed : option Syntax.date) (cs : Syntax.clear_state)
  (code : option str) : parser (s_txn * list posting_spans) :=
  payee <- opt (pmap trim_end till_line_ending_or_semi) ;;
  md <- block_metadata fuel ;;
  posts <- many0 fuel (preceded posting_indent (cut_err (posting fuel))) ;;
  ret ({| st_date := d; st_edate := ed; st_clear := cs; st_code := code;
          st_payee := match payee with Some p => p | None => [] end;
          st_posts := map fst posts; st_metadata := md |},
       map snd posts).

Lemma transaction_eq : forall fuel,
  transaction fuel =
  (d <- context L_txn_date ParseExpr.date ;;
   ed <- opt (preceded (chr 61) ParseExpr.date) ;;
   is_shortest <- has_peek (alt line_ending_or_eof (void (chr 59))) ;;
   cond (negb is_shortest) space1 ;;;
   cs <- ParseMeta.clear_state ;;
   code <- opt (terminated paren_str space0) ;;
   txn_tail fuel d ed cs code).
Proof. reflexivity. Qed.

Lemma npr_posting_indent : npr posting_indent.
Proof. unfold posting_indent. npr_t. Qed.

Lemma forallb_map_fst : forall A B (q : A -> bool) (l : list (A * B)),
  forallb (fun x => q (fst x)) l = true -> forallb q (map fst l) = true.
Proof.
  induction l as [| x l IH]; intros H; [reflexivity |]. cbn [forallb map] in *.
  apply andb_true_iff in H. destruct H as [H1 H2]. rewrite H1. auto.
Qed.

(* without a code, on a text without `)` *)
Lemma npv_txn_tail : forall fuel d ed cs,
  npv (txn_tail fuel d ed cs None) (fun x => np_txn (fst x) = true).
Proof.
  intros fuel d ed cs. unfold txn_tail.
  eapply npv_bind.
  { apply (npv_opt _ _ (fun p => no41 p = true)), npv_pmap. unfold till_line_ending_or_semi.
    eapply npv_weaken; [apply npv_take_till1 |]. intros x Hx. apply n41_trim_end. exact Hx. }
  intros payee Hpayee. eapply npv_bind; [apply npv_block_metadata |]. intros md Hmd.
  eapply npv_bind.
  { apply (npv_many0 _ (fun x => np_posting (fst x))).
    apply npv_preceded; [exact npr_posting_indent |]. apply npv_cut_err, npv_posting. }
  intros posts Hposts. apply npv_ret. cbn [fst]. unfold np_txn.
  cbn [st_code st_payee st_metadata st_posts is_none]. rewrite Hmd.
  rewrite (forallb_map_fst _ _ np_posting posts Hposts).
  destruct payee as [p |]; [rewrite Hpayee |]; reflexivity.
Qed.

Lemma txn_tail_inv : forall fuel d ed cs code j t sps r,
  txn_tail fuel d ed cs code j = POk (t, sps) r ->
  st_code t = code /\
  exists payee j3, opt (pmap trim_end till_line_ending_or_semi) j = POk payee j3 /\
                   st_payee t = match payee with Some p => p | None => [] end.
Proof.
  intros fuel d ed cs code j t sps r H. unfold txn_tail in H.
  apply bind_inv in H. destruct H as (payee & j3 & E1 & H).
  apply bind_inv in H. destruct H as (md & j4 & E2 & H).
  apply bind_inv in H. destruct H as (posts & j5 & E3 & H).
  inversion H; subst. cbn [st_code st_payee]. split; [reflexivity |]. eauto.
Qed.

Lemma npv_transaction : forall fuel, npv (transaction fuel) (fun x => np_txn (fst x) = true).
Proof.
  intros fuel. rewrite transaction_eq.
  apply npv_bind_r; [npr_t |]. intros d. apply npv_bind_r; [npr_t |]. intros ed.
  apply npv_bind_r; [npr_t |]. intros sh. apply npv_bind_r; [npr_t |]. intros _.
  apply npv_bind_r; [npr_t |]. intros cs.
  eapply npv_bind.
  { apply npv_opt. apply npv_terminated; [exact npv_paren_str | npr_t]. }
  intros [c |] Hc; [destruct Hc |]. apply npv_txn_tail.
Qed.

(* the code parser gave up on an input that starts with `(` : no `)` follows *)
Lemma paren_str_fail_no41 : forall j' c l m,
  terminated paren_str space0 (40 :: j') = PErr c l m -> no41 (40 :: j') = true.
Proof.
  intros j' c l m H. apply n41_cons. split; [reflexivity |].
  unfold terminated, paren_str, paren, delimited, bind, chr in H. cbn [one_of N.eqb Pos.eqb] in H.
  unfold take_till0, take_while0 in H.
  destruct (span_while (fun c0 => negb (41 =? c0)) j') as [a b] eqn:E.
  assert (Ha : no41 a = true).
  { clear - E. revert a b E. induction j' as [| x j' IH]; intros a b E; cbn [span_while] in E.
    - inversion E; subst. reflexivity.
    - destruct (negb (41 =? x)) eqn:F.
      + destruct (span_while (fun c0 => negb (41 =? c0)) j') as [a' b'] eqn:E'. inversion E; subst.
        apply n41_cons. split; [| eapply IH; reflexivity].
        apply negb_true_iff in F. rewrite N.eqb_sym. exact F.
      + inversion E; subst. reflexivity. }
  pose proof (span_while_app _ _ _ _ E) as Ej. subst j'.
  destruct b as [| x b].
  - rewrite app_nil_r. exact Ha.
  - exfalso.
    assert (F : (41 =? x) = true).
    { clear - E. revert a E. induction a as [| y a IH]; intros E.
      - cbn [app span_while] in E. destruct (negb (41 =? x)) eqn:F.
        + destruct (span_while (fun c0 => negb (41 =? c0)) b). discriminate.
        + apply negb_false_iff in F. exact F.
      - cbn [app span_while] in E. destruct (negb (41 =? y)); [| discriminate].
        destruct (span_while (fun c0 => negb (41 =? c0)) (a ++ x :: b)) as [a' b'] eqn:E'.
        inversion E; subst. apply IH. reflexivity. }
    cbn [one_of] in H. rewrite F in H. unfold space0, take_while0, ret in H.
    destruct (span_while is_sp b). discriminate.
Qed.

Theorem transaction_open_paren_np : forall fuel i t sps r,
  transaction fuel i = POk (t, sps) r -> open_paren_payee t = true -> np_txn t = true /\ no41 r = true.
Proof.
  intros fuel i t sps r H Hop. rewrite transaction_eq in H.
  apply bind_inv in H. destruct H as (d & i1 & _ & H).
  apply bind_inv in H. destruct H as (ed & i2 & _ & H).
  apply bind_inv in H. destruct H as (sh & i3 & _ & H).
  apply bind_inv in H. destruct H as (u & i4 & _ & H).
  apply bind_inv in H. destruct H as (cs & j & _ & H).
  apply bind_inv in H. destruct H as (code & j2 & Ecode & H).
  destruct (txn_tail_inv _ _ _ _ _ _ _ _ _ H) as (Hcode & payee & j3 & Epayee & Hpayee).
  unfold open_paren_payee in Hop. rewrite Hcode in Hop. destruct code as [cd |]; [discriminate |].
  (* the code parser failed without consuming *)
  unfold opt in Ecode.
  destruct (terminated paren_str space0 j) as [x m | [] l m | |] eqn:Et; try discriminate.
  inversion Ecode; subst j2. clear Ecode.
  (* the payee is a prefix of j that starts with `(` *)
  rewrite Hpayee in Hop. destruct payee as [p |]; [| discriminate].
  unfold opt, pmap, bind, ret in Epayee.
  destruct (till_line_ending_or_semi j) as [x j3' | [] l' m' | |] eqn:Ex; try discriminate.
  injection Epayee as Hp Hj3. subst p j3'. clear Hpayee.
  revert Hop. destruct (trim_end x) as [| c p'] eqn:Etrim; intros Hop; [discriminate |]. cbn [starts] in Hop.
  apply N.eqb_eq in Hop. subst c.
  destruct (trim_end_head _ _ _ Etrim) as [x' ->].
  unfold till_line_ending_or_semi, take_till1, take_while1 in Ex.
  destruct (span_while (fun c => negb (is_payee_stop c)) j) as [a b] eqn:Es.
  apply span_while_app in Es. destruct a as [| a0 a]; [discriminate |]. inversion Ex; subst.
  assert (Hj : no41 ((40 :: x') ++ j3) = true) by (exact (paren_str_fail_no41 _ _ _ _ Et)).
  use_npv (fun x : s_txn * list posting_spans => np_txn (fst x) = true) H Hj.
  apply npv_txn_tail.
Qed.

(* ================================================================================== *)
(* directives                                                                         *)
(* ================================================================================== *)
Lemma npv_multiline_text : forall A fuel (prefix : parser A), npr prefix ->
  npv (multiline_text fuel prefix) (fun s => no41 s = true).
Proof.
  intros A fuel prefix Hp. unfold multiline_text. apply npv_pmap.
  eapply npv_weaken; [apply (npv_many1 _ no41) | intros ls Hls; apply n41_lines; exact Hls].
  apply npv_delimited; [exact Hp | exact npv_till_line_ending | npr_t].
Qed.
Lemma npv_detail_comment : forall fuel, npv (detail_comment fuel) (fun s => no41 s = true).
Proof. intros. unfold detail_comment. apply npv_multiline_text. npr_t. Qed.
Lemma npv_detail_note : forall fuel, npv (detail_note fuel) (fun s => no41 s = true).
Proof. intros. unfold detail_note. apply npv_multiline_text. npr_t. Qed.
Lemma npv_detail_alias : npv detail_alias (fun s => no41 s = true).
Proof.
  unfold detail_alias. apply npv_pmap.
  eapply npv_weaken; [apply npv_delimited; [npr_t | exact npv_till_line_ending | npr_t] |].
  intros x Hx. apply n41_trim_end. exact Hx.
Qed.

(* a line: keyword, text, line end *)
Lemma npv_kw_line : forall A (kw : parser A), npr kw ->
  npv (delimited kw till_line_ending line_ending_or_eof) (fun s => no41 s = true).
Proof. intros. apply npv_delimited; [assumption | exact npv_till_line_ending | npr_t]. Qed.

Lemma npv_account_declaration : forall fuel,
  npv (account_declaration fuel) (fun e => np_entry e = true).
Proof.
  intros fuel. unfold account_declaration.
  eapply npv_bind; [apply npv_kw_line; npr_t |]. intros name Hname. cbv beta in Hname.
  eapply npv_bind.
  { apply (npv_many0 _ np_account_detail).
    apply npv_alt; [apply npv_pmap; cbn [np_account_detail]; apply npv_detail_comment |].
    apply npv_alt; [apply npv_pmap; cbn [np_account_detail]; apply npv_detail_note |].
    apply npv_pmap; cbn [np_account_detail]. exact npv_detail_alias. }
  intros ds Hds. apply npv_ret. cbn [np_entry]. rewrite (n41_trim_end _ Hname), Hds. reflexivity.
Qed.

Lemma npv_commodity_declaration : forall fuel,
  npv (commodity_declaration fuel) (fun e => np_entry e = true).
Proof.
  intros fuel. unfold commodity_declaration.
  eapply npv_bind; [apply npv_kw_line; npr_t |]. intros name Hname. cbv beta in Hname.
  eapply npv_bind.
  { apply (npv_many0 _ np_commodity_detail).
    apply npv_alt; [apply npv_pmap; cbn [np_commodity_detail]; apply npv_detail_comment |].
    apply npv_alt; [apply npv_pmap; cbn [np_commodity_detail]; apply npv_detail_note |].
    apply npv_alt; [apply npv_pmap; cbn [np_commodity_detail]; exact npv_detail_alias |].
    apply npv_pmap; cbn [np_commodity_detail].
    apply npv_delimited; [npr_t | exact npv_amount | npr_t]. }
  intros ds Hds. apply npv_ret. cbn [np_entry]. rewrite (n41_trim_end _ Hname), Hds. reflexivity.
Qed.

Lemma npv_apply_tag : npv apply_tag (fun e => np_entry e = true).
Proof.
  unfold apply_tag.
  eapply npv_bind; [apply npv_preceded; [npr_t | exact npv_tag_key] |]. intros key Hkey.
  eapply npv_bind.
  { apply npv_delimited; [npr_t | apply npv_opt; exact npv_metadata_value | npr_t]. }
  intros v Hv. apply npv_ret. cbn [np_entry]. cbv beta in Hkey. rewrite Hkey.
  destruct v as [v |]; cbn [opt_all]; [exact Hv | reflexivity].
Qed.

Lemma npv_end_apply_tag : npv end_apply_tag (fun e => np_entry e = true).
Proof.
  unfold end_apply_tag.
  repeat (apply npv_bind_r; [npr_t | intros _]). apply npv_ret. reflexivity.
Qed.

Lemma npv_include : npv include (fun e => np_entry e = true).
Proof.
  unfold include. apply npv_pmap. cbn [np_entry].
  eapply npv_weaken; [apply npv_kw_line; npr_t |]. intros x Hx. apply n41_trim_end. exact Hx.
Qed.

Lemma npv_top_comment : forall fuel, npv (top_comment fuel) (fun e => np_entry e = true).
Proof.
  intros. unfold top_comment. apply npv_pmap. cbn [np_entry]. apply npv_multiline_text. npr_t.
Qed.

(* ================================================================================== *)
(* entries                                                                            *)
(* ================================================================================== *)
Lemma npv_entry_of : forall (p : parser s_entry), npv p (fun e => np_entry e = true) ->
  npv (pmap (fun e => (e, @nil posting_spans)) p) (fun x => np_entry (fst x) = true).
Proof. intros p Hp. apply npv_pmap. exact Hp. Qed.

Lemma npv_parse_ledger_entry : forall fuel,
  npv (parse_ledger_entry fuel) (fun x => np_entry (fst x) = true).
Proof.
  intros fuel i x r Hi H. unfold parse_ledger_entry in H. destruct i as [| c t]; [discriminate |].
  destruct (c =? 97);
    [| destruct (c =? 99);
       [| destruct (c =? 101);
          [| destruct (c =? 105);
             [| destruct (is_comment_prefix c); [| destruct (is_digit c); [| discriminate]]]]]];
    use_npv (fun x : s_entry * list posting_spans => np_entry (fst x) = true) H Hi.
  - apply npv_alt; (apply npv_preceded; [npr_t |]); apply npv_cut_err, npv_entry_of.
    + apply npv_account_declaration.
    + exact npv_apply_tag.
  - apply npv_entry_of, npv_commodity_declaration.
  - apply npv_entry_of. exact npv_end_apply_tag.
  - apply npv_entry_of. exact npv_include.
  - apply npv_entry_of, npv_top_comment.
  - apply npv_pmap. cbn [fst np_entry]. apply npv_transaction.
Qed.

Theorem parse_ledger_entry_np : forall fuel i e sps r,
  no41 i = true -> parse_ledger_entry fuel i = POk (e, sps) r -> np_entry e = true /\ no41 r = true.
Proof. intros fuel i e sps r Hi H. exact (npv_parse_ledger_entry fuel i (e, sps) r Hi H). Qed.

Theorem vertical_space_np : forall fuel i u r,
  no41 i = true -> vertical_space fuel i = POk u r -> no41 r = true.
Proof.
  intros fuel i u r Hi H.
  assert (G : npr (vertical_space fuel)) by (unfold vertical_space; npr_t).
  exact (proj2 (G i u r Hi H)).
Qed.

(* the transaction parser, on a text without `)` *)
Theorem transaction_np : forall fuel i t sps r,
  no41 i = true -> transaction fuel i = POk (t, sps) r -> np_txn t = true /\ no41 r = true.
Proof. intros fuel i t sps r Hi H. exact (npv_transaction fuel i (t, sps) r Hi H). Qed.

Print Assumptions no41_suffix.
Print Assumptions vertical_space_np.
Print Assumptions parse_ledger_entry_np.
Print Assumptions transaction_open_paren_np.
