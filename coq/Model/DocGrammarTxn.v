(* Transcription of doc/syntax.md (the documented ledger grammar), part 2: transactions --
   value expressions, postings (lot, cost, balance assertion), metadata lines, the
   transaction header -- and the file structure of Model/DocGrammar.v extended by them.
   Definitions only; the acceptance proofs are in Proofs/DocAcceptTxn.v.

   The documented grammar is a LOWER bound on what must be accepted, so doubtful rules are
   resolved toward the smaller language.  Choices (in addition to those of DocGrammar.v):

   Expressions
   * comma-decimal: a literal accepted by LitSpec.spec_scan that `fits` (96 bit mantissa, at
     most 28 places).  spec_scan is the declarative reading of the doc rule; it also admits
     one leading "-" and an empty integer part (".5"), which the parser reads the same way.
   * commodity ::= one or more characters outside non_commodity_chars (the doc omits the +);
     amount-expr ::= comma-decimal sp* commodity?.
   * value-expr / paren-expr / add-expr / mul-expr / unary-expr as written, with the nesting
     of parentheses bounded: `doc_value_expr d` allows d levels, the grammar uses d = 100
     (MAX_EXPR_DEPTH, known finding F7).

   Dates
   * date ::= yyyy sep m sep d with a four digit year, one or two digit month and day, both
     separators "/" or both "-", and a day that exists in the proleptic Gregorian calendar
     (chrono_date).

   Metadata
   * the metadata of a transaction and of a posting is written on lines of its own, each
     indented:  sp+ ";" ... new-line  (the doc gives neither the indentation nor the line
     structure).  The same-line form `posting-line metadata? new-line` and the same-line
     `metadata` alternative of transaction-header are left out.
   * metadata-key-value ::= sp* tag sp* ":" sp* no-new-line* (the "::" form is the ":" form
     whose value starts with ":"; the doc says `expr`, TODO(#78): any text is taken);
     metadata-tag-words ::= sp* ":" (tag ":")+ as written (no trailing blanks);
     metadata-comment ::= sp* text where text has no line break, does not start with a blank
     and is neither tag-words-like nor key-value-like (tags_like, kv_like of
     RoundTripSpec.v): a text like `:a: hello` is a parse error (the doc writes
     `";" no-new-line*`, i.e. a second semicolon, which is covered).

   Postings
   * posting-line ::= sp+ (clear-state sp* )? account posting-value? ; without a clear-state
     the account does not start with "*" or "!" (it would be read as the mark).
   * account ::= wf_account of RoundTripSpec.v: words of characters other than blank, tab,
     CR, LF and ";" joined by single blanks, not made of Unicode white space only (finding:
     an account that is a single U+00A0 is in the documented grammar and is rejected).
   * posting-value ::= ("  " | "\t") sp* (posting-amount sp* )? balance? as written;
     posting-amount ::= value-expr sp* posting-lot? posting-cost? ; the lot parts (each
     followed by sp* ) in any order, each at most once; lot-price takes a value-expr of the
     documented form (the parser does; the doc says amount-expr, which is included);
     lot-note ::= "(" [^()@]* ")"; posting-cost and balance as written.

   Transactions
   * transaction-header ::= date ("=" date)? (sp+ note)? new-line;
     note ::= (clear-state sp* )? (code sp* )? payee ; code ::= "(" [^()\r\n]* ")" ;
     payee ::= [^\r\n;]* .  Without a code the payee does not start (after blanks) with "(",
     and with neither mark nor code it does not start with "*" or "!" (they would be read
     as a code / a mark; an unclosed "(" makes the code parser run over the following
     lines).
   * new-line ::= "\n" | "\r\n" | <EOF>; <EOF> only ends the last line of the file. *)
From Coq Require Import List NArith Bool.
From Okv Require Import Model.Lit Model.LitSpec Model.Comb Model.ParseExpr Model.ParseMeta
  Model.ParsePosting Model.ParseTxn Model.ParseDirective Model.DocGrammar Model.RoundTripSpec.
Import ListNotations.
Open Scope N_scope.

(* ================================================================================== *)
(* Expressions                                                                         *)
(* ================================================================================== *)

(* comma-decimal *)
Definition doc_decimal (l : list N) : Prop := exists t, spec_scan l = Some t /\ fits t = true.

Definition commodity_char (c : N) : bool := negb (is_non_commodity c).

(* amount-expr ::= comma-decimal sp* commodity? *)
Inductive doc_amount : list N -> Prop :=
| DAm : forall l s c, doc_decimal l -> sps0 s -> all commodity_char c -> doc_amount (l ++ s ++ c).

Definition add_char (c : N) : Prop := c = 43 \/ c = 45.      (* + - *)
Definition mul_char (c : N) : Prop := c = 42 \/ c = 47.      (* * / *)

(* value-expr ::= amount-expr | paren-expr ; paren-expr ::= "(" sp* add-expr sp* ")"
   add-expr ::= mul-expr (sp* [+-] sp* mul-expr)*
   mul-expr ::= unary-expr (sp* [*/] sp* unary-expr)*
   unary-expr ::= "-"? value-expr
   The index bounds the nesting of parentheses. *)
Inductive doc_value_expr : nat -> list N -> Prop :=
| DV_amount : forall d x, doc_amount x -> doc_value_expr d x
| DV_paren : forall d s1 x s2, sps0 s1 -> doc_add d x -> sps0 s2 ->
             doc_value_expr (S d) ([40] ++ s1 ++ x ++ s2 ++ [41])
with doc_add : nat -> list N -> Prop :=
| DA_one : forall d x, doc_mul d x -> doc_add d x
| DA_more : forall d x s1 op s2 y, doc_add d x -> sps0 s1 -> add_char op -> sps0 s2 -> doc_mul d y ->
            doc_add d (x ++ s1 ++ [op] ++ s2 ++ y)
with doc_mul : nat -> list N -> Prop :=
| DM_one : forall d x, doc_unary d x -> doc_mul d x
| DM_more : forall d x s1 op s2 y, doc_mul d x -> sps0 s1 -> mul_char op -> sps0 s2 -> doc_unary d y ->
            doc_mul d (x ++ s1 ++ [op] ++ s2 ++ y)
with doc_unary : nat -> list N -> Prop :=
| DU_pos : forall d x, doc_value_expr d x -> doc_unary d x
| DU_neg : forall d x, doc_value_expr d x -> doc_unary d (45 :: x).

(* the documented value expression: nesting at most MAX_EXPR_DEPTH *)
Definition doc_vexpr (x : list N) : Prop := doc_value_expr max_expr_depth x.
