(* Model of report::eval::{Amount, SingleAmount, PostingAmount, Evaluated} and the
   expression evaluator (core/src/report/eval.rs, eval/*.rs).  Commodities are canonical
   ids (alias resolution is Model/Intern.v); decimals are exact (Base/Dec.v). *)
From Coq Require Import List NArith ZArith Bool QArith Qcanon.
From Okv Require Import Base.Maps Base.Dec.
Import ListNotations.
Open Scope Qc_scope.

Definition cid := N.
Definition aid := N.

(* Amount: HashMap<Commodity, Decimal>; zero-valued entries are meaningful (0 USD <> 0) *)
Definition amount := amap Qc.

Definition a_zero : amount := [].
Definition a_single (c : cid) (v : Qc) : amount := [(c, v)].

(* `*self.values.entry(c).or_default() += v` *)
Definition a_add1 (a : amount) (c : cid) (v : Qc) : amount :=
  match get c a with
  | Some x => set c (x + v) a
  | None => a ++ [(c, v)]
  end.
Definition a_add (a b : amount) : amount := fold_left (fun acc p => a_add1 acc (fst p) (snd p)) b a.
Definition a_sub (a b : amount) : amount := fold_left (fun acc p => a_add1 acc (fst p) (- snd p)) b a.
Definition a_neg (a : amount) : amount := map (fun p => (fst p, - snd p)) a.
Definition a_scale (a : amount) (k : Qc) : amount := map (fun p => (fst p, snd p * k)) a.
Definition a_div (a : amount) (k : Qc) : amount := map (fun p => (fst p, snd p / k)) a.
Definition a_is_zero (a : amount) : bool := forallb (fun p => qc_zero (snd p)) a.
Definition a_is_absolute_zero (a : amount) : bool := match a with [] => true | _ => false end.
Definition a_remove_zeros (a : amount) : amount := filter (fun p => negb (qc_zero (snd p))) a.
Definition a_get (a : amount) (c : cid) : Qc := match get c a with Some v => v | None => 0 end.

(* declared precisions: commodity -> decimal places of its `format` directive *)
Definition formats := amap nat.
Definition a_round (f : formats) (a : amount) : amount :=
  map (fun p => (fst p, match get (fst p) f with Some dp => round_dp dp (snd p) | None => snd p end)) a.

Inductive eval_err :=
| UnmatchingOperation | UnmatchingCommodities | UnknownCommodity | DivideByZero
| NumberOverflow | AmountRequired | PostingAmountRequired | SingleAmountRequired.

Inductive posting_amount := PZero | PSingle (c : cid) (v : Qc).

Definition pa_to_amount (p : posting_amount) : amount :=
  match p with PZero => a_zero | PSingle c v => a_single c v end.
Definition pa_neg (p : posting_amount) : posting_amount :=
  match p with PZero => PZero | PSingle c v => PSingle c (- v) end.
(* `*self += posting_amount` *)
Definition a_add_pa (a : amount) (p : posting_amount) : amount :=
  match p with PZero => a | PSingle c v => a_add1 a c v end.

Definition pa_check_add (l r : posting_amount) : posting_amount + eval_err :=
  match l, r with
  | PZero, _ => inl r
  | _, PZero => inl l
  | PSingle c1 v1, PSingle c2 v2 =>
      if (c1 =? c2)%N then inl (PSingle c1 (v1 + v2)) else inr UnmatchingCommodities
  end.
Definition pa_check_sub (l r : posting_amount) := pa_check_add l (pa_neg r).

(* TryFrom<&Amount> for PostingAmount *)
Definition amount_to_pa (a : amount) : posting_amount + eval_err :=
  match a with
  | [] => inl PZero
  | [(c, v)] => inl (PSingle c v)
  | _ => inr PostingAmountRequired
  end.
(* TryFrom<&Amount> for SingleAmount: exactly one commodity *)
Definition amount_to_single (a : amount) : (cid * Qc) + eval_err :=
  match a with
  | [(c, v)] => inl (c, v)
  | _ => inr SingleAmountRequired
  end.

Inductive evaluated := ENum (q : Qc) | ECom (a : amount).

Definition ev_is_zero (e : evaluated) : bool :=
  match e with ENum q => qc_zero q | ECom a => a_is_zero a end.
Definition ev_negate (e : evaluated) : evaluated :=
  match e with ENum q => ENum (- q) | ECom a => ECom (a_neg a) end.
Definition ev_to_amount (e : evaluated) : amount + eval_err :=
  match e with
  | ECom a => inl a
  | ENum q => if qc_zero q then inl a_zero else inr AmountRequired
  end.
Definition ev_to_pa (e : evaluated) : posting_amount + eval_err :=
  match ev_to_amount e with inl a => amount_to_pa a | inr x => inr x end.
Definition ev_to_single (e : evaluated) : (cid * Qc) + eval_err :=
  match ev_to_amount e with inl a => amount_to_single a | inr x => inr x end.

Definition ev_add (l r : evaluated) : evaluated + eval_err :=
  match l, r with
  | ENum a, ENum b => inl (ENum (a + b))
  | ECom a, ECom b => inl (ECom (a_add a b))
  | _, _ => inr UnmatchingOperation
  end.
Definition ev_sub (l r : evaluated) : evaluated + eval_err :=
  match l, r with
  | ENum a, ENum b => inl (ENum (a - b))
  | ECom a, ECom b => inl (ECom (a_sub a b))
  | _, _ => inr UnmatchingOperation
  end.
Definition ev_mul (l r : evaluated) : evaluated + eval_err :=
  match l, r with
  | ENum a, ENum b => inl (ENum (a * b))
  | ECom a, ENum b => inl (ECom (a_scale a b))
  | ENum a, ECom b => inl (ECom (a_scale b a))
  | _, _ => inr UnmatchingOperation
  end.
Definition ev_div (l r : evaluated) : evaluated + eval_err :=
  if ev_is_zero r then inr DivideByZero else
  match l, r with
  | ENum a, ENum b => inl (ENum (a / b))
  | ECom a, ENum b => inl (ECom (a_div a b))
  | ENum a, ECom b =>
      match amount_to_single b with
      | inl (c, v) => if qc_zero v then inr DivideByZero else inl (ECom (a_single c (a / v)))
      | inr e => inr e
      end
  | _, _ => inr UnmatchingOperation
  end.

(* syntax::expr *)
Inductive binop := OAdd | OSub | OMul | ODiv.
Inductive vexpr :=
| VParen (e : expr)
| VAmt (v : Qc) (c : option cid)         (* literal; no commodity = bare number *)
with expr :=
| EUnaryNeg (e : expr)
| EBin (op : binop) (l r : expr)
| EVal (v : vexpr).

Fixpoint eval_v (v : vexpr) : evaluated + eval_err :=
  match v with
  | VParen e => eval_e e
  | VAmt q None => inl (ENum q)
  | VAmt q (Some c) => inl (ECom (a_single c q))
  end
with eval_e (e : expr) : evaluated + eval_err :=
  match e with
  | EUnaryNeg x => match eval_e x with inl v => inl (ev_negate v) | inr er => inr er end
  | EBin op l r =>
      match eval_e l with
      | inr er => inr er
      | inl a =>
          match eval_e r with
          | inr er => inr er
          | inl b => match op with
                     | OAdd => ev_add a b | OSub => ev_sub a b
                     | OMul => ev_mul a b | ODiv => ev_div a b
                     end
          end
      end
  | EVal v => eval_v v
  end.
