#!/bin/sh
# MANIFEST.setup_cmd: build the Coq development (full .vo build) and the harness, offline.
set -e
cd "$(dirname "$0")"
export CARGO_NET_OFFLINE=true
python3 - <<'PY'
import sys, os
sys.path.insert(0, os.path.join(os.getcwd(), "lib"))
import okv
okv.ensure_makefile()
rc, out = okv.run(["make", "-j16"], cwd=okv.COQ, timeout=3000)
print(out[-3000:])
if rc != 0:
    sys.exit("coq build failed")
st, log = okv.build_harness()
print(st, log[-1500:])
ok, log2, _ = okv.build_okane_bin()
print("okane bin", ok, log2[-500:])
PY
