(* C02 — theorems only (placeholder until the proof files land). *)
From Coq Require Import List NArith ZArith Bool QArith Qcanon.
From Okv Require Import Base.Maps Base.Dec Model.Amount Model.Book.
Import ListNotations.

Theorem C02_nop_entry : forall s, process_entry s ENop = Ok s.
Proof. reflexivity. Qed.
Print Assumptions C02_nop_entry.
