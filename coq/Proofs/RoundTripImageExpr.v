(* C05 round trip, the image side: the parser model only returns well-formed trees (wf_X of
   Model/RoundTripSpec.v) for numbers, dates, amounts, value expressions, lots and the amount
   part of a posting. *)
From Coq Require Import List NArith ZArith Bool Lia Arith.
From Okv Require Import Model.Lit Model.LitSpec Model.Syntax Model.Comb Model.ParseExpr Model.ParseMeta
  Model.ParsePosting Model.DocGrammar Model.RoundTripSpec
  Proofs.LitProofs Proofs.LitShow Proofs.CombSpec Proofs.ParseExprErase Proofs.ParseTotal Proofs.DocAccept
  Proofs.RoundTripNum Proofs.RoundTripExpr.
Import ListNotations.
Open Scope N_scope.

Local Arguments N.eqb : simpl never.
Local Arguments N.leb : simpl never.
Local Arguments N.ltb : simpl never.
Local Arguments N.add : simpl never.
Local Arguments N.mul : simpl never.
Local Arguments N.sub : simpl never.

(* ---- more ok_val plumbing ---- *)
Lemma okv_weaken : forall A (p : parser A) (P Q : A -> Prop),
  ok_val p P -> (forall a, P a -> Q a) -> ok_val p Q.
Proof. intros A p P Q Hp HPQ i a r H. apply HPQ. eapply Hp; eauto. Qed.

Lemma okv_ret : forall A (a : A) (P : A -> Prop), P a -> ok_val (ret a) P.
Proof. intros A a P Ha i b r H. inversion H; subst. exact Ha. Qed.

Lemma okv_with_span : forall A (p : parser A) (P : A -> Prop),
  ok_val p P -> ok_val (with_span p) (fun x => P (fst x)).
Proof.
  intros A p P Hp i x r H. unfold with_span in H.
  destruct (p i) as [a m | | |] eqn:E; try discriminate. inversion H; subst. simpl. eapply Hp; eauto.
Qed.

Lemma okv_terminated : forall A B (p : parser A) (q : parser B) (P : A -> Prop),
  ok_val p P -> ok_val (terminated p q) P.
Proof.
  intros. unfold terminated. eapply okv_bind; [eassumption |]. intros a Ha.
  eapply okv_bind; [apply okv_any |]. intros _ _. apply okv_ret. exact Ha.
Qed.

Lemma okv_preceded : forall A B (p : parser A) (q : parser B) (P : B -> Prop),
  ok_val q P -> ok_val (preceded p q) P.
Proof.
  intros. unfold preceded. eapply okv_bind; [apply okv_any |]. intros _ _. assumption.
Qed.

Lemma okv_alt : forall A (p q : parser A) (P : A -> Prop),
  ok_val p P -> ok_val q P -> ok_val (alt p q) P.
Proof.
  intros A p q P Hp Hq i a r H. unfold alt in H.
  destruct (p i) as [a' m | [] l m | |] eqn:E; try discriminate.
  - inversion H; subst. eapply Hp; eauto.
  - eapply Hq; eauto.
Qed.

Lemma okv_try_map : forall A B (p : parser A) (f : A -> option B) (P1 : A -> Prop) (P : B -> Prop),
  ok_val p P1 -> (forall a b, P1 a -> f a = Some b -> P b) -> ok_val (try_map p f) P.
Proof.
  intros A B p f P1 P Hp Hf i b r H. unfold try_map in H.
  destruct (p i) as [a m | | |] eqn:E; try discriminate.
  destruct (f a) as [b' |] eqn:Ef; try discriminate. inversion H; subst.
  eapply Hf; [| eassumption]. eapply Hp; eauto.
Qed.

Lemma okv_take_while0 : forall f, ok_val (take_while0 f) (fun a => forallb f a = true).
Proof.
  intros f i a r H. unfold take_while0 in H.
  destruct (span_while_split f i) as (x & y & E1 & _ & E3 & _). rewrite E1 in H.
  inversion H; subst. exact E3.
Qed.

Lemma okv_take_while1 : forall f, ok_val (take_while1 f) (fun a => forallb f a = true).
Proof.
  intros f i a r H. unfold take_while1 in H.
  destruct (span_while_split f i) as (x & y & E1 & _ & E3 & _). rewrite E1 in H.
  destruct x; [discriminate |]. inversion H; subst. exact E3.
Qed.

(* ---- numbers ---- *)
Theorem pretty_decimal_wf : forall i d r, pretty_decimal i = POk d r -> wf_num d = true.
Proof.
  intros i d r H. unfold pretty_decimal, try_map in H.
  destruct (decimal_token i) as [s m | | |]; try discriminate.
  destruct (scan s) as [d' | e] eqn:E; try discriminate. inversion H; subst.
  eapply scan_wf_num; eauto.
Qed.

Lemma minus_head : forall (l : list N),
  fst (match l with 45 :: r => (true, r) | _ => (false, l) end) = true -> exists r, l = 45 :: r.
Proof.
  intros [| c r]; [discriminate |].
  destruct (N.eqb_spec c 45) as [-> | Hne]; [eauto |].
  intros H. exfalso.
  destruct c as [| p]; [discriminate |].
  repeat (destruct p as [p | p |]; try discriminate). congruence.
Qed.

Lemma spec_scan_neg : forall l t, spec_scan l = Some t -> l_neg t = true -> exists r, l = 45 :: r.
Proof.
  intros l t H Hn. apply minus_head. unfold spec_scan in H.
  destruct (match l with 45 :: r => (true, r) | _ => (false, l) end) as [ng body].
  simpl. destruct (span_digits body) as [g0 r1].
  destruct (if (1 <=? length g0)%nat && (length g0 <=? 3)%nat then groups r1 else ([], r1)) as [gs r2].
  destruct r2 as [| c r3].
  - destruct (nonempty (g0 ++ gs)); [| discriminate]. inversion H; subst. exact Hn.
  - destruct (N.eqb_spec c 46) as [-> | Hne].
    + destruct (span_digits r3) as [fp r4]. destruct r4; [| discriminate].
      destruct (nonempty ((g0 ++ gs) ++ fp)); [| discriminate]. inversion H; subst. exact Hn.
    + exfalso. destruct c as [| p]; [discriminate |].
      repeat (destruct p as [p | p |]; try discriminate). congruence.
Qed.

Lemma scan_nonneg : forall c s d, scan (c :: s) = SOk d -> (c =? 45) = false -> neg d = false.
Proof.
  intros c s d H Hc. destruct (accept_only_wf _ _ H) as (t & Ht & _ & ->).
  cbn [pdec_of neg]. destruct (l_neg t) eqn:En; [| reflexivity].
  destruct (spec_scan_neg _ _ Ht En) as [r Hr]. inversion Hr; subst. discriminate.
Qed.

(* a number read from a text that does not start with '-' is not negative *)
Theorem pretty_decimal_nonneg : forall c i d r,
  pretty_decimal (c :: i) = POk d r -> (c =? 45) = false -> neg d = false.
Proof.
  intros c i d r H Hc. unfold pretty_decimal, try_map in H.
  destruct (decimal_token (c :: i)) as [s m | | |] eqn:ET; try discriminate.
  destruct (scan s) as [d' | e] eqn:E; try discriminate. inversion H; subst d' m. clear H.
  unfold decimal_token, try_map in ET.
  match type of ET with match ?t with _ => _ end = _ => destruct t as [s0 m0 | | |] eqn:EK end;
    try discriminate.
  destruct s0 as [| c0 s0]; cbv beta iota in ET; [discriminate |]. inversion ET; subst s r. clear ET.
  unfold taken in EK.
  match type of EK with match ?t with _ => _ end = _ => destruct t as [u m1 | | |] end;
    try discriminate.
  inversion EK as [[EF Em]]. clear EK.
  assert (c0 = c) as ->.
  { revert EF. generalize (match length m1 with 0 => S (length i) | S l => length i - l end)%nat.
    intros [| n] EF; [discriminate |]. cbn [firstn] in EF. inversion EF; reflexivity. }
  eapply scan_nonneg; eauto.
Qed.

(* ---- dates ---- *)
Lemma forallb_dig : forall l, forallb Comb.is_digit l = true -> Forall dig l.
Proof.
  intros l H. rewrite forallb_forall in H. apply Forall_forall. intros c Hc.
  unfold dig. change (Lit.is_digit c) with (Comb.is_digit c). auto.
Qed.

Lemma okv_date_with : forall sep,
  ok_val (date_with sep) (fun t => forallb Comb.is_digit (fst (fst t)) = true).
Proof.
  intros sep. unfold date_with.
  eapply okv_bind; [apply okv_take_while1 |]. intros y Hy.
  eapply okv_bind; [apply okv_any |]. intros _ _.
  eapply okv_bind; [apply okv_any |]. intros m _.
  eapply okv_bind; [apply okv_any |]. intros _ _.
  eapply okv_bind; [apply okv_any |]. intros d _.
  apply okv_ret. exact Hy.
Qed.

Lemma chrono_date_wf : forall y m d dt,
  forallb Comb.is_digit y = true -> chrono_date y m d = Some dt -> wf_date dt = true.
Proof.
  intros y m d dt Hy H. unfold chrono_date in H.
  destruct ((length y <=? 4) && (length m <=? 2) && (length d <=? 2))%nat eqn:EL; [| discriminate].
  destruct ((1 <=? ParseExpr.digits_val m) && (ParseExpr.digits_val m <=? 12) &&
            (1 <=? ParseExpr.digits_val d) &&
            (ParseExpr.digits_val d <=? days_in_month (ParseExpr.digits_val y) (ParseExpr.digits_val m)))
    eqn:EV; [| discriminate].
  inversion H; subst dt. clear H.
  rewrite !andb_true_iff in EL. rewrite !andb_true_iff in EV. destruct EL as [[Ly _] _]. destruct EV as [[[V1 V2] V3] V4].
  apply Nat.leb_le in Ly.
  assert (B : ParseExpr.digits_val y < 10000).
  { pose proof (digits_val_bound y (forallb_dig y Hy)) as B0.
    change (LitSpec.digits_val y) with (ParseExpr.digits_val y) in B0.
    pose proof (pow10_N_mono _ _ Ly) as B1. change (pow10_N 4) with 10000 in B1. lia. }
  unfold wf_date. cbn [d_year d_month d_day]. rewrite N2Z.id.
  rewrite V1, V2, V3, V4. rewrite !andb_true_r.
  apply andb_true_iff. split; [apply Z.leb_le | apply Z.leb_le]; lia.
Qed.

Theorem date_wf : forall i d r, ParseExpr.date i = POk d r -> wf_date d = true.
Proof.
  assert (G : ok_val ParseExpr.date (fun d => wf_date d = true)).
  { unfold ParseExpr.date. eapply okv_try_map.
    - apply okv_alt; apply okv_date_with.
    - intros [[y m] d] b Hy Hb. simpl in Hy. eapply chrono_date_wf; eauto. }
  intros i d r H. eapply G; eauto.
Qed.

(* ---- amounts ---- *)
Lemma okv_pretty_decimal : ok_val pretty_decimal (fun d => wf_num d = true).
Proof. intros i d r H. eapply pretty_decimal_wf; eauto. Qed.

Lemma okv_amount : ok_val amount (fun a => wf_amount a = true).
Proof.
  unfold amount.
  eapply okv_bind; [apply okv_terminated, okv_pretty_decimal |]. intros v Hv.
  eapply okv_bind; [unfold commodity, take_till0; apply okv_take_while0 |]. intros c Hc.
  apply okv_ret. unfold wf_amount, wf_commodity. cbn [sa_value sa_commodity].
  rewrite Hv. exact Hc.
Qed.

Theorem amount_wf : forall i a r, amount i = POk a r -> wf_amount a = true.
Proof. intros i a r H. eapply okv_amount; eauto. Qed.

Lemma amount_nonneg : forall c i a r,
  amount (c :: i) = POk a r -> (c =? 45) = false -> neg (sa_value a) = false.
Proof.
  intros c i a r H Hc. unfold amount, terminated, bind in H.
  destruct (pretty_decimal (c :: i)) as [v m | | |] eqn:E; try discriminate.
  destruct (space0 m) as [s m1 | | |]; try discriminate.
  unfold ret in H. destruct (commodity m1) as [cm m2 | | |]; try discriminate.
  inversion H; subst. cbn [sa_value]. eapply pretty_decimal_nonneg; eauto.
Qed.

(* ---- value expressions ---- *)
Lemma okv_add_op : ok_val add_op (fun o => is_add o = true).
Proof.
  unfold add_op. apply okv_alt; (eapply okv_bind; [apply okv_any |]); intros _ _; apply okv_ret; reflexivity.
Qed.
Lemma okv_mul_op : ok_val mul_op (fun o => is_mul o = true).
Proof.
  unfold mul_op. apply okv_alt; (eapply okv_bind; [apply okv_any |]); intros _ _; apply okv_ret; reflexivity.
Qed.

Lemma okv_mul_chain : forall fuel operand,
  ok_val operand (fun e => wf_e LUn e = true) ->
  ok_val (infixl_e fuel mul_op operand) (fun e => wf_e LMul e = true).
Proof.
  intros fuel operand Hop.
  eapply okv_infixl_e_gen with (Q := fun e => wf_e LUn e = true) (isop := is_mul);
    [exact Hop | exact okv_mul_op | exact wf_un_mul |].
  intros o acc b Ha Ho Hb _. destruct o; try discriminate; simpl; rewrite Ha, Hb; reflexivity.
Qed.

Lemma okv_add_chain : forall fuel operand,
  ok_val operand (fun e => wf_e LMul e = true) ->
  ok_val (infixl_e fuel add_op operand) (fun e => wf_e LAdd e = true).
Proof.
  intros fuel operand Hop.
  eapply okv_infixl_e_gen with (Q := fun e => wf_e LMul e = true) (isop := is_add);
    [exact Hop | exact okv_add_op | exact wf_mul_add |].
  intros o acc b Ha Ho Hb _. destruct o; try discriminate; simpl; rewrite Ha, Hb; reflexivity.
Qed.

Lemma ved_amount : forall fuel d c t, (c =? 40) = false ->
  value_expr_d fuel d (c :: t) = pmap SAmount amount (c :: t).
Proof. intros fuel d c t H. destruct d; simpl; rewrite H; reflexivity. Qed.

Lemma ved_paren : forall fuel d c t v r, (c =? 40) = true ->
  value_expr_d fuel d (c :: t) = POk v r -> exists e, v = SParen e.
Proof.
  intros fuel d c t v r Hc H. destruct d; simpl in H; rewrite Hc in H; [discriminate |].
  unfold paren_e, try_map in H.
  match type of H with match ?t with _ => _ end = _ => destruct t as [e m | | |] end; try discriminate.
  destruct (fits_under (expr_height e)); [| discriminate].
  inversion H; subst. eauto.
Qed.

(* the operand parser, over value_expr_d itself: a bare amount is only reached on a text that
   does not start with a minus sign, so it is not negative *)
Lemma okv_unary_ved : forall fuel d,
  ok_val (value_expr_d fuel d) (fun v => wf_v v = true) ->
  ok_val (unary_e (value_expr_d fuel d)) (fun e => wf_e LUn e = true).
Proof.
  intros fuel d Hve i e r H. unfold unary_e in H. destruct i as [| c t]; [discriminate |].
  destruct (c =? 45) eqn:Ec.
  - assert (G : ok_val (negate_e (value_expr_d fuel d)) (fun e => wf_e LUn e = true)).
    { unfold negate_e. apply okv_try_map_some. apply okv_preceded.
      intros j v r' Hv b Hb. destruct (fits_under (vexpr_height v)); [| discriminate].
      inversion Hb; subst. simpl. eapply Hve; eauto. }
    eapply G; eauto.
  - unfold pmap, bind in H.
    destruct (value_expr_d fuel d (c :: t)) as [v m | | |] eqn:E; try discriminate.
    inversion H; subst e m. clear H.
    pose proof (Hve _ _ _ E) as Hv.
    destruct (c =? 40) eqn:Ep.
    + destruct (ved_paren _ _ _ _ _ _ Ep E) as [e1 ->]. exact Hv.
    + rewrite (ved_amount _ _ _ _ Ep) in E. unfold pmap, bind in E.
      destruct (amount (c :: t)) as [a m | | |] eqn:EA; try discriminate.
      inversion E; subst v m. clear E. simpl in Hv |- *.
      rewrite Hv, (amount_nonneg _ _ _ _ EA Ec). reflexivity.
Qed.

Lemma value_expr_d_wf : forall fuel d, ok_val (value_expr_d fuel d) (fun v => wf_v v = true).
Proof.
  intros fuel.
  assert (GA : ok_val (pmap SAmount amount) (fun v => wf_v v = true)).
  { apply okv_pmap. intros j a r' Ha. simpl. eapply okv_amount; eauto. }
  induction d; intros i v r H; simpl in H; destruct i as [| c t]; try discriminate.
  - destruct (N.eqb c 40); [discriminate |]. eapply GA; eauto.
  - destruct (N.eqb c 40); [| eapply GA; eauto].
    match type of H with paren_e ?p _ = _ =>
      assert (G : ok_val (paren_e p) (fun v => wf_v v = true)) end.
    { apply okv_paren_e with (P := fun e => wf_e LAdd e = true).
      - apply okv_add_chain, okv_mul_chain, okv_unary_ved. exact IHd.
      - intros e He _. simpl. exact He. }
    eapply G; eauto.
Qed.

Theorem value_expr_wf : forall fuel i v r, value_expr fuel i = POk v r -> wf_vexpr v = true.
Proof.
  intros fuel i v r H. unfold wf_vexpr. rewrite !andb_true_iff. split; [split |].
  - rewrite value_expr_erase in H. eapply value_expr_d_wf. exact H.
  - apply Nat.leb_le. eapply value_expr_depth_bounded. exact H.
  - apply Nat.leb_le. eapply value_expr_height_bounded. exact H.
Qed.

Lemma okv_value_expr : forall fuel, ok_val (value_expr fuel) (fun v => wf_vexpr v = true).
Proof. intros fuel i v r H. eapply value_expr_wf; eauto. Qed.

(* ---- lots ---- *)
Lemma okv_lot_amount : forall fuel, ok_val (lot_amount fuel) (fun x => wf_exchange x = true).
Proof.
  intros fuel. unfold lot_amount. eapply okv_bind; [apply okv_any |]. intros b _.
  destruct b; apply okv_pmap, okv_delimited; exact (okv_value_expr fuel).
Qed.

Lemma okv_lot_loop : forall fuel n l psp, wf_lot l = true ->
  ok_val (lot_loop fuel n l psp) (fun x => wf_lot (fst x) = true).
Proof.
  intros fuel. induction n; intros l psp Hl i x r H; cbn [lot_loop] in H; [discriminate |].
  destruct i as [| c t]; [inversion H; subst; exact Hl |].
  unfold wf_lot in Hl. rewrite !andb_true_iff in Hl. destruct Hl as [[Hp Hd] Hn].
  destruct (c =? 123).
  { destruct (lot_price l) eqn:EP; [discriminate |].
    revert H. generalize (c :: t). intros j H.
    match type of H with ?p j = _ => assert (G : ok_val p (fun x => wf_lot (fst x) = true)) end.
    { eapply okv_bind; [apply okv_with_span, okv_lot_amount |]. intros pr Hpr.
      eapply okv_bind; [apply okv_any |]. intros _ _. apply IHn.
      unfold wf_lot. cbn [lot_price lot_date lot_note opt_all]. rewrite Hpr, Hd, Hn. reflexivity. }
    eapply G; eauto. }
  destruct (c =? 91).
  { destruct (lot_date l) eqn:ED; [discriminate |].
    revert H. generalize (c :: t). intros j H.
    match type of H with ?p j = _ => assert (G : ok_val p (fun x => wf_lot (fst x) = true)) end.
    { eapply okv_bind; [apply okv_delimited; intros j' d' r' Hd'; eapply date_wf; exact Hd' |].
      intros dt Hdt.
      eapply okv_bind; [apply okv_any |]. intros _ _. apply IHn.
      unfold wf_lot. cbn [lot_price lot_date lot_note opt_all]. rewrite Hp, Hdt, Hn. reflexivity. }
    eapply G; eauto. }
  destruct (c =? 40).
  { destruct (lot_note l) eqn:EN; [discriminate |].
    revert H. generalize (c :: t). intros j H.
    match type of H with ?p j = _ => assert (G : ok_val p (fun x => wf_lot (fst x) = true)) end.
    { eapply okv_bind; [unfold paren, take_till0; apply okv_delimited, okv_take_while0 |].
      intros nt Hnt.
      eapply okv_bind; [apply okv_any |]. intros _ _. apply IHn.
      unfold wf_lot, wf_note. cbn [lot_price lot_date lot_note opt_all]. rewrite Hp, Hd, Hnt. reflexivity. }
    eapply G; eauto. }
  inversion H; subst. unfold wf_lot. cbn [fst]. rewrite Hp, Hd, Hn. reflexivity.
Qed.

Lemma okv_lot : forall fuel, ok_val (lot fuel) (fun x => wf_lot (fst x) = true).
Proof.
  intros fuel. unfold lot. eapply okv_bind; [apply okv_any |]. intros _ _.
  apply okv_lot_loop. reflexivity.
Qed.

Theorem lot_wf : forall fuel i l psp r, lot fuel i = POk (l, psp) r -> wf_lot l = true.
Proof. intros fuel i l psp r H. apply (okv_lot fuel) in H. exact H. Qed.

(* ---- the amount part of a posting ---- *)
Lemma okv_cost : forall fuel b,
  ok_val (cond_else b (total_cost fuel) (rate_cost fuel)) (fun x => wf_exchange x = true).
Proof.
  intros fuel b. unfold cond_else, total_cost, rate_cost.
  destruct b; apply okv_pmap, okv_preceded; exact (okv_value_expr fuel).
Qed.

Lemma okv_posting_amount : forall fuel,
  ok_val (posting_amount fuel) (fun x => wf_posting_amount (fst x) = true).
Proof.
  intros fuel. unfold posting_amount.
  eapply okv_bind; [apply okv_terminated, okv_with_span, okv_value_expr |]. intros am Ham.
  eapply okv_bind; [apply okv_lot |]. intros lt Hlt.
  eapply okv_bind; [apply okv_any |]. intros is_at _.
  eapply okv_bind; [apply okv_any |]. intros is_dat _.
  eapply okv_bind with (P1 := fun cost => opt_all wf_exchange (option_map fst cost) = true).
  - unfold cond. destruct is_at; [| apply okv_ret; reflexivity].
    apply okv_pmap. apply (okv_with_span _ _ (fun x => wf_exchange x = true)). apply okv_cost.
  - intros cost Hc. apply okv_ret. unfold wf_posting_amount.
    cbn [fst pa_amount pa_cost pa_lot]. rewrite Ham, Hc, Hlt. reflexivity.
Qed.

Theorem posting_amount_wf : forall fuel i pa sps r,
  posting_amount fuel i = POk (pa, sps) r -> wf_posting_amount pa = true.
Proof. intros fuel i pa sps r H. apply (okv_posting_amount fuel) in H. exact H. Qed.

Print Assumptions value_expr_wf.
Print Assumptions posting_amount_wf.
