//! C05: documented syntax is read; formatting preserves meaning and is idempotent.
//! Implementation under test: parse::parse_ledger and format::FormatOptions::format, run in
//! child processes.
use crate::child::{self, ChildObs};
use crate::coq::{Shards, Stats};
use crate::parseobs;
use crate::pgen;
use crate::prng::Rng;
use crate::Opts;
use serde_json::{json, Value};

thread_local! {
    pub static LAST_PANIC: std::cell::RefCell<String> = std::cell::RefCell::new(String::new());
}

pub fn install_panic_capture() {
    std::panic::set_hook(Box::new(|info| {
        let msg = if let Some(s) = info.payload().downcast_ref::<&str>() {
            s.to_string()
        } else if let Some(s) = info.payload().downcast_ref::<String>() {
            s.clone()
        } else {
            "panic".to_string()
        };
        LAST_PANIC.with(|p| *p.borrow_mut() = msg);
    }));
}

pub fn last_panic() -> String {
    LAST_PANIC.with(|p| p.borrow().chars().take(200).collect())
}

/// child side: one JSON object per text
pub fn child_observe(input: &[u8]) -> String {
    child_observe_with(input, &|t: &str| parseobs::format(t))
}

/// the same with the formatter given: FormatOptions::format on the bytes in memory (above), or
/// `okane format FILE` on a real file (c05long)
pub fn child_observe_with(input: &[u8], format: &dyn Fn(&str) -> Result<String, String>) -> String {
    let text = match std::str::from_utf8(input) {
        Ok(t) => t,
        Err(_) => return json!({"harness_error": "input is not UTF-8"}).to_string(),
    };
    let r = std::panic::catch_unwind(|| parseobs::observe_parse(text));
    let o = match r {
        Ok(o) => o,
        Err(_) => return json!({"panic": last_panic()}).to_string(),
    };
    let mut v = json!({
        "obs": parseobs::obs_term(&o),
        "json": parseobs::obs_json(&o),
        "accepted": o.err.is_none(),
        "resolve_ok": o.resolve_ok,
        "decl_or_txn": o.kinds.iter().any(|k| *k != "comment"),
    });
    if o.err.is_none() {
        // format, re-parse, format again
        let f = std::panic::catch_unwind(std::panic::AssertUnwindSafe(|| format(text)));
        match f {
            Err(_) => {
                v["fmt"] = json!({"panic": last_panic()});
            }
            Ok(Err(e)) => {
                v["fmt"] = json!({ "err": e });
            }
            Ok(Ok(f1)) => {
                let o1 = std::panic::catch_unwind(|| parseobs::observe_parse(&f1));
                let f2 = std::panic::catch_unwind(std::panic::AssertUnwindSafe(|| format(&f1)));
                match (o1, f2) {
                    (Ok(o1), Ok(f2)) => {
                        v["fmt"] = json!({
                            "f1": f1,
                            "o1": parseobs::obs_term(&o1),
                            "o1_json": parseobs::obs_json(&o1),
                            "f2": match f2 { Ok(s) => json!(s), Err(e) => json!({"err": e}) },
                        });
                    }
                    _ => {
                        v["fmt"] = json!({"f1": f1, "panic": last_panic()});
                    }
                }
            }
        }
    }
    v.to_string()
}

pub(crate) struct Item {
    pub(crate) text: String,
    pub(crate) doc: bool,
    pub(crate) stream: &'static str,
    pub(crate) tags: Vec<&'static str>,
}

fn fmt_term(v: &Value) -> String {
    match v.get("fmt") {
        None => "FNone".to_string(),
        Some(f) => {
            if f.get("panic").is_some() {
                return "FPanic".to_string();
            }
            if f.get("err").is_some() {
                return "FErr".to_string();
            }
            let f1 = f["f1"].as_str().unwrap_or("");
            let o1 = f["o1"].as_str().unwrap_or("OPanic");
            match f["f2"].as_str() {
                Some(f2) => format!("(FOk {} {} (Some {}))", parseobs::text(f1), o1, parseobs::text(f2)),
                None => format!("(FOk {} {} None)", parseobs::text(f1), o1),
            }
        }
    }
}

pub fn header(classify: &str) -> String {
    format!(
        "From Coq Require Import List NArith ZArith Uint63.\nFrom Okv Require Import Model.Lit Model.Syntax Model.ParseLedger Run.Unpack Run.{}.\nImport ListNotations.\nOpen Scope N_scope.",
        classify
    )
}

pub(crate) fn emit(sh: &mut Shards, st: &mut Stats, it: &Item, co: &ChildObs) {
    let (obs, fmt, js, accepted, nontrivial) = match co {
        ChildObs::Timeout => ("OTimeout".to_string(), "FNone".to_string(), json!("timeout"), false, false),
        ChildObs::Abort(s) => (format!("(OAbort {})", s.unsigned_abs()), "FNone".to_string(), json!({ "abort": s }), false, false),
        ChildObs::Line(l) => {
            let v: Value = serde_json::from_str(l).unwrap_or(json!({"harness_error": l}));
            if v.get("harness_error").is_some() {
                ("OHarness".to_string(), "FNone".to_string(), v, false, false)
            } else if v.get("panic").is_some() {
                ("OPanic".to_string(), "FNone".to_string(), v, false, false)
            } else {
                let acc = v["accepted"].as_bool().unwrap_or(false);
                let nt = acc && v["decl_or_txn"].as_bool().unwrap_or(false);
                let mut js = json!({"parse": v["json"].clone()});
                if let Some(f) = v.get("fmt") {
                    let mut f = f.clone();
                    if let Some(m) = f.as_object_mut() {
                        m.remove("o1");
                    }
                    js["format"] = f;
                }
                (v["obs"].as_str().unwrap_or("OHarness").to_string(), fmt_term(&v), js, acc, nt)
            }
        }
    };
    st.eval(&it.text, nontrivial);
    st.count(&format!("stream:{}", it.stream));
    st.count(if it.doc { "in_doc_grammar" } else { "not_in_doc_grammar" });
    st.count(match co {
        ChildObs::Timeout => "impl:timeout",
        ChildObs::Abort(_) => "impl:abort",
        ChildObs::Line(_) => {
            if accepted {
                "impl:accepted"
            } else if obs == "OPanic" {
                "impl:panic"
            } else {
                "impl:rejected"
            }
        }
    });
    for t in &it.tags {
        st.count(&format!("construct:{}", t));
    }
    st.add("bytes", it.text.len() as u64);
    let rep = json!({"property": "C05", "text": it.text, "in_doc_grammar": it.doc, "stream": it.stream,
                     "constructs": it.tags, "impl": js,
                     "reproduce": "okane_core::parse::parse_ledger(&ParseOptions::default(), text) / FormatOptions::new().format"});
    if accepted && nontrivial && it.doc {
        st.sample(rep.clone(), 5);
    }
    let term = format!(
        "(Short {{| c_text := {}; c_doc := {}; c_obs := {}; c_fmt := {} |}})",
        parseobs::text(&it.text),
        if it.doc { "true" } else { "false" },
        obs,
        fmt
    );
    sh.push(term, vec![rep]);
}

/// value expressions around the bound on the height of the syntax tree (MAX_EXPR_HEIGHT = 256,
/// finding C06-F23): the tallest accepted tree and the shortest rejected one, for each way a
/// tree grows (a chain of n operands is n high, parentheses and a minus sign add one, a
/// negative literal as an operand is a negation: 2).  The flag says whether the text is in the
/// documented grammar of Model/DocGrammarTxn.v (height index at most 256): those must be
/// accepted; for the others the error position and label are compared with the model.
fn height_boundary() -> Vec<(String, bool)> {
    let mut v = Vec::new();
    let chain = |first: &str, more: &str, n: usize| format!("{}{}", first, more.repeat(n - 1));
    let post = |e: String| format!("2024/01/01 x\n  A  {}\n  B\n", e);
    for (n, ok) in [(200usize, true), (255, true), (256, false), (257, false), (700, false)] {
        v.push((post(format!("({})", chain("1", "+1", n))), ok));
        v.push((post(format!("({})", chain("1 USD", " + 1 USD", n))), ok));
        v.push((post(format!("( {} )", chain("1 USD", "*2", n))), ok));
        // n terms `x / 1` (2 high each but the last) subtracted: n + 1 high, + 1 for the parentheses
        v.push((post(format!("({})", chain("9 USD", " / 1 - 0 USD", n))), n + 2 <= 256));
        v.push((post(format!("1 AAA @ ({})", chain("1 USD", " + 1 USD", n))), ok));
        v.push((post(format!("1 AAA {{({})}}", chain("1 USD", " + 1 USD", n))), ok));
        v.push((format!("2024/01/01 x\n  A  1 USD = ({})\n  B\n", chain("1 USD", " + 0 USD", n)), ok));
        // the parentheses are what makes it too tall: the chain alone is allowed
        v.push((post(format!("(({}) * 2)", chain("1 USD", " + 1 USD", n.saturating_sub(2).max(1)))), ok));
        v.push((post(format!("(-({}))", chain("1", "+1", n.saturating_sub(2).max(1)))), ok));
    }
    // a negative literal as an operand counts 2: it is the first operand, so n operands are n + 1 high
    for (n, ok) in [(254usize, true), (255, false)] {
        v.push((post(format!("({})", chain("-1", "+1", n))), ok));
        v.push((post(format!("({})", chain("--1", "+1", n))), ok));
    }
    // ... and as the last operand it does not matter
    v.push((post(format!("({}+-1)", chain("1", "+1", 254))), true));
    v.push((post(format!("({}*-1)", chain("1", "*1", 255))), false));
    // chains inside nested parentheses: each level of (x + 1 + 1) is 3 taller: 1 + 3n
    for (n, ok) in [(84usize, true), (85, true), (86, false), (100, false), (101, false)] {
        v.push((post(format!("{}1 USD{}", "(".repeat(n), " + 1 USD + 1 USD)".repeat(n))), ok));
        v.push((post(format!("{}1 USD{}", "(1 USD + 1 USD * ".repeat(n), ")".repeat(n))), ok));
        v.push((post(format!("{}1 USD{}", "(-".repeat(n), " + 1 USD - 1 USD)".repeat(n))), false));
    }
    for (n, ok) in [(63usize, true), (64, false)] {
        // (-x + 1 + 1) is 4 taller than x
        v.push((post(format!("{}1 USD{}", "(-".repeat(n), " + 1 USD + 1 USD)".repeat(n))), ok));
    }
    v
}

fn corpus_items(o: &Opts) -> Vec<Item> {
    let mut items = Vec::new();
    let builtin: [(&str, bool); 27] = [
        ("2024/01/01 x", true),                               // F3: last line without newline
        ("2024/01/01 x\n  A  1 USD\n  B", true),              // F3
        ("2024/01/01 x\n  A  1 USD\n  B ; c", true),
        ("2024/01/01 x\n  A  1 USD\n  \n2024/01/02 y\n", true), // F15
        ("; c\n \t\n; d\n", true),                             // F15
        ("account A\n  \nAccount\n", false),
        ("2024/01/01 x\n  A  1 USD\n  ", true),               // blanks at EOF
        ("", true),
        ("\n\n", true),
        ("   ", true),
        ("2024/01/01 x\n  A  ((((1))))\n", true),
        ("2024/01/01\n", true),
        ("2024/01/01;c\n", true),                              // was not read (fixed 7e9ec2a)
        ("2024/01/01 x\n  A  1 USD ()\n", true),               // empty lot note was not read (fixed 665189b)
        ("2024/01/01 x\n  A  (1-2)\n", true),                  // was one invalid number (fixed f8c7ec3)
        ("2024/01/01 x\n  A  (1- 2 * 3-4)\n", true),
        ("2024/01/01 x\n  \u{3000}  1 USD\n  B\n", false),     // blank account: format output did not re-parse (fixed 00d550a)
        ("2024/01/01 x\n \t\u{b} \t; :a:\n", false),
        ("2024/01/01 (abc\n  A  1 USD\n", false),
        ("2024/01/01 x\r  A\n", false),                        // lone CR
        ("2024/01/01 x ; :a: rest\n", false),
        ("account Foo\n  ; c1\n", true),                       // F10
        ("commodity USD\n  format 1,000.00 USD\n", false),
        ("2024/02/30 x\n", false),
        ("20240/01/01 x\n", false),
        ("2024/01/01 x\n  A  1 USD {1} {2}\n", false),
        ("2024/01/01 日本語\n  資産  1,000 円 ; メモ\n  \u{3000}負債\u{3000}\n", true),
    ];
    for (t, d) in builtin {
        items.push(Item { text: t.to_string(), doc: d, stream: "corpus", tags: vec![] });
    }
    for (t, d) in height_boundary() {
        items.push(Item { text: t, doc: d, stream: "height-boundary", tags: vec![] });
    }
    if let Ok(rd) = std::fs::read_dir(&o.corpus) {
        let mut files: Vec<_> = rd.filter_map(|e| e.ok()).map(|e| e.path()).collect();
        files.sort();
        for p in files {
            if let Ok(text) = std::fs::read_to_string(&p) {
                if let Ok(v) = serde_json::from_str::<Value>(&text) {
                    if let Some(t) = v.get("text").and_then(|x| x.as_str()) {
                        let d = v.get("in_doc_grammar").and_then(|x| x.as_bool()).unwrap_or(false);
                        items.push(Item { text: t.to_string(), doc: d, stream: "corpus-file", tags: vec![] });
                    }
                }
            }
        }
    }
    items
}

fn replay_items(o: &Opts) -> Option<Vec<Item>> {
    let k = o.extra.iter().position(|a| a == "--replay")?;
    let p = o.extra.get(k + 1)?;
    let text = std::fs::read_to_string(p).ok()?;
    let v: Value = serde_json::from_str(&text).ok()?;
    let t = v.get("text").and_then(|x| x.as_str())?;
    if v.get("stream").and_then(|x| x.as_str()) == Some("long-file") {
        return Some(vec![]);
    }
    let d = v.get("in_doc_grammar").and_then(|x| x.as_bool()).unwrap_or(false);
    Some(vec![Item { text: t.to_string(), doc: d, stream: "replay", tags: vec![] }])
}

pub fn run(o: &Opts) {
    let mut st = Stats::new();
    let mut sh = Shards::new(&o.out, o.shards, &header("Classify_C05"));
    st.rule = "a case is one ledger text: grammar-directed texts over doc/syntax.md (flagged in_doc_grammar), one-character mutations and truncations of them, random strings over the ledger alphabet, the .ledger files shipped with the repository, and the corpus; observed: parse_ledger entry list with spans or the error position, format output, its re-parse, format of the format; plus the stream long-file: texts of 4-205 KiB (generated entries with multi-byte accounts, payees, commodities, codes, comments, metadata, directive arguments; raw and already formatted) padded so that a 2-, 3- or 4-byte character of a chosen field lies across or beside a multiple of 4096 (4096 ... 196608), formatted by `okane format FILE` on a real file, by `okane format` on that output again, and by FormatOptions::format through readers returning at most 1, 2, 3, 7, 4095, 4096, 4097, 8191, 8192, 8193, 65536 or a changing number of bytes per read; all outputs compared in Coq byte for byte with the printing of parse_ledger(text) computed on the string in memory, the command's second output with its first, an already formatted text with the command's output; those of at most 11 KB also as ordinary cases (whole model leg) whose format observations come from the command on a file; non-trivial = parses and contains at least one transaction or declaration; distinct by text".to_string();
    st.assumptions.push("texts are valid UTF-8; those of the model leg are at most 11 kB (the parser model is quadratic in the length under vm_compute: 3 s at 10 kB, 47 s at 40 kB), longer ones (to 205 KiB) are compared with the in-memory printing of the implementation's own parse, and the comparison of their entries before and after formatting is made by the harness on canonical entry terms (flag l_meaning); literals stay within 28 digits".to_string());
    let replaying = replay_items(o).is_some();
    let mut items = match replay_items(o) {
        Some(i) => i,
        None => {
            let mut items = corpus_items(o);
            for (p, t) in pgen::seed_files() {
                let _ = p;
                items.push(Item { text: t, doc: false, stream: "repo-ledger-file", tags: vec![] });
            }
            let n = if o.thorough { 12000 } else { 1200 };
            let mut r = Rng::new(o.seed, 5);
            for k in 0..n {
                let mut rr = Rng::new(o.seed.wrapping_mul(1000003).wrapping_add(k as u64), 505);
                let ext = if k % 3 == 0 { 300 } else { 0 };
                let mut g = pgen::Gen::new(&mut rr, ext);
                let max_entries = if k % 10 == 0 { 8 } else { 3 };
                let text = g.ledger(max_entries);
                let doc = g.doc;
                let tags = g.tags.clone();
                if k % 2 == 0 {
                    let m = pgen::mutate(&mut r, &text);
                    items.push(Item { text: m, doc: false, stream: "mutation", tags: vec![] });
                }
                items.push(Item { text, doc, stream: if doc { "doc-grammar" } else { "grammar+extensions" }, tags });
            }
            for k in 0..n / 4 {
                items.push(Item { text: pgen::random_text(&mut r, k % 2 == 0), doc: false, stream: "random", tags: vec![] });
            }
            items
        }
    };
    // keep case terms small enough for coqc
    items.retain(|i| i.text.len() <= 6000);
    for chunk in items.chunks(200) {
        let inputs: Vec<Vec<u8>> = chunk.iter().map(|i| i.text.as_bytes().to_vec()).collect();
        let obs = child::run_batch("c05", &inputs, 5000);
        for (it, co) in chunk.iter().zip(obs.iter()) {
            emit(&mut sh, &mut st, it, co);
        }
    }
    // files of 4-200 KiB through `okane format FILE` and through short reads
    let long = if replaying { crate::c05long::replay_items(o) } else { crate::c05long::items(o.seed, o.thorough) };
    crate::c05long::run(&long, &mut sh, &mut st);
    sh.finish(&st);
}
