(* Shared by the C09 and C10 classifiers: price-DB lines and conversion answers as the
   harness writes them, and the spec rate of a pair computed from the events alone. *)
From Coq Require Import List NArith ZArith Bool QArith Qcanon.
From Okv Require Import Base.Maps Base.Dec Model.Amount Model.Book Model.PriceDb Model.PriceSpec Run.LedgerCase.
Import ListNotations.

Definition PL (d : Z) (t : N) (r : Qc) (c : N) : pline :=
  {| pl_date := d; pl_target := t; pl_rate := r; pl_comm := c |}.

(* what a conversion answered: an amount, RateNotFound naming a commodity, anything else *)
Inductive robs := ROk (a : amount) | RNotFound (c : N) | ROther.

(* exact stream: equality; arbitrary-rate stream: relative 1e-18 (Decimal division rounds) *)
Definition rate_eqb (exact : bool) (a b : Qc) : bool := if exact then qc_eqb a b else qc_close a b.

Fixpoint amount_close_sorted (exact : bool) (a b : amount) : bool :=
  match a, b with
  | [], [] => true
  | (c1, v1) :: r1, (c2, v2) :: r2 => (c1 =? c2)%N && rate_eqb exact v1 v2 && amount_close_sorted exact r1 r2
  | _, _ => false
  end.
Definition amount_close (exact : bool) (a b : amount) : bool :=
  amount_close_sorted exact (sort_keys a) (sort_keys b).

Fixpoint distinct_rates (exact : bool) (l : list Qc) : list Qc :=
  match l with
  | [] => []
  | x :: r => if existsb (rate_eqb exact x) r then distinct_rates exact r else x :: distinct_rates exact r
  end.
Definition is_tie (exact : bool) (rates : list Qc) : bool :=
  match distinct_rates exact rates with _ :: _ :: _ => true | _ => false end.

Definition worst (a b : N) : N := N.max a b.

(* A command run with `-X T` where T is a name neither the ledger nor the price DB mentions
   (never written anywhere, or differing from a known commodity only by case).  The command
   has nothing to convert into: it must fail saying `commodity T not found`
   (Model/CliOptions.v to_conversion; C10: never leaves an amount unconverted).
   UNotFound: it did.  UReport: it printed a report / a value (exit 0).  UOther: it failed
   with something else. *)
Inductive uobs := UNotFound | UReport | UOther.
Definition classify_unknown (u : uobs) : N :=
  match u with UNotFound => 0 | UReport => 2 | UOther => 1 end%N.
Definition classify_unknowns (us : list uobs) : N :=
  fold_left (fun acc u => worst acc (classify_unknown u)) us 0%N.
