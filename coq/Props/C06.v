(* C06 — every input yields output or a diagnostic: no crash, no hang (parser side).
   The model returns hazards as values (Model/Comb.v PPanic/PFuel, Model/ParseLedger.v
   LPanic/LDiverge/LFuel); these theorems say they are unreachable, for every text. *)
From Coq Require Import List NArith.
From Okv Require Import Model.Syntax Model.Comb Model.ParseExpr Model.ParseLedger Proofs.ParseTotal.

(* parse_ledger s is LOk or LErr: winnow's "repeat parsers must always consume" assertion never
   fires (every loop body consumes), the entry iterator always advances, compute_line_number's
   range assertion holds, ParseError::new finds its span end within the text, and the model's
   recursion budget (length of the text) is never exhausted *)
Theorem C06_parse_total : forall s : list N, no_hazard (parse_ledger s).
Proof. exact parse_total. Qed.
Print Assumptions C06_parse_total.

(* the expression parser nests at most max_expr_depth (= MAX_EXPR_DEPTH = 100) parentheses,
   whatever the input: its recursion depth is bounded *)
Theorem C06_depth_bounded : forall fuel i v r,
  value_expr fuel i = POk v r -> (vexpr_depth v <= max_expr_depth)%nat.
Proof. exact value_expr_depth_bounded. Qed.
Print Assumptions C06_depth_bounded.
