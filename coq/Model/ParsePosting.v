(* Model of core/src/parse/posting.rs with the Tracking decoration (every decorate_parser is
   a with_span).  Definitions only. *)
From Coq Require Import List NArith ZArith Bool.
From Okv Require Import Model.Lit Model.Syntax Model.Comb Model.ParseExpr Model.ParseMeta.
Import ListNotations.
Open Scope N_scope.

(* spans tracked inside one posting, in "bytes remaining" form *)
Record posting_spans := {
  ps_posting : rspan; ps_account : rspan; ps_amount : option rspan; ps_cost : option rspan;
  ps_lot_price : option rspan; ps_balance : option rspan }.

Definition is_account_stop (c : N) : bool := (c =? 10) || (c =? 13) || (c =? 59) || (c =? 32) || (c =? 9).
Definition is_account_term (c : N) : bool := (c =? 9) || (c =? 59) || (c =? 13) || (c =? 10).

(* str::trim_start_matches(' '): only the ASCII space the first opt(" ") may have taken *)
Fixpoint trim_start_spaces (s : list N) : list N :=
  match s with
  | 32 :: r => trim_start_spaces r
  | _ => s
  end.

Definition posting_account (fuel : nat) : parser (list N * rspan) :=
  terminated
    (with_span
       (try_map
          (pmap trim_start_spaces
             (taken (repeat_till1 fuel
                       (opt (literal [32]) ;;; take_till1 is_account_stop)
                       (peek (alt (void (literal [32; 32]))
                                  (alt (void (taken (opt (literal [32]) ;;; one_of is_account_term)))
                                       eof))))))
          (* .verify(!x.trim().is_empty()): a name made only of white space is rejected *)
          (fun x => match trim x with [] => None | _ => Some x end)))
    space0.

Definition lot_amount (fuel : nat) : parser s_exchange :=
  is_total <- has_peek (literal [123; 123]) ;;
  if is_total
  then pmap STotal (delimited (literal [123; 123] ;;; space0) (value_expr fuel) (space0 ;;; literal [125; 125]))
  else pmap SRate (delimited (literal [123] ;;; space0) (value_expr fuel) (space0 ;;; literal [125])).

Definition is_lot_open (c : N) : bool := (c =? 40) || (c =? 91) || (c =? 123).
Definition is_note_stop (c : N) : bool := (c =? 40) || (c =? 41) || (c =? 64).

(* the `loop` of posting::lot; n bounds the iterations (each part at most once: 3 parts + exit) *)
Fixpoint lot_loop (fuel : nat) (n : nat) (l : s_lot) (psp : option rspan) : parser (s_lot * option rspan) :=
  fun i =>
    match n with
    | O => PFuel
    | S n' =>
        match i with
        | [] => POk (l, psp) i
        | c :: _ =>
            if c =? 123 then
              match lot_price l with
              | None =>
                  (pr <- with_span (lot_amount fuel) ;;
                   space0 ;;;
                   lot_loop fuel n' {| lot_price := Some (fst pr); lot_date := lot_date l; lot_note := lot_note l |}
                            (Some (snd pr))) i
              | Some _ => PErr false L_lot_price_dup i
              end
            else if c =? 91 then
              match lot_date l with
              | None =>
                  (d <- delimited (chr 91 ;;; space0) date (space0 ;;; chr 93) ;;
                   space0 ;;;
                   lot_loop fuel n' {| lot_price := lot_price l; lot_date := Some d; lot_note := lot_note l |} psp) i
              | Some _ => PErr false L_lot_date_dup i
              end
            else if c =? 40 then
              match lot_note l with
              | None =>
                  (nt <- paren (take_till0 is_note_stop) ;;
                   space0 ;;;
                   lot_loop fuel n' {| lot_price := lot_price l; lot_date := lot_date l; lot_note := Some nt |} psp) i
              | Some _ => PErr false L_lot_note_dup i
              end
            else POk (l, psp) i
        end
    end.

Definition lot (fuel : nat) : parser (s_lot * option rspan) :=
  space0 ;;; lot_loop fuel 4 {| lot_price := None; lot_date := None; lot_note := None |} None.

Definition total_cost (fuel : nat) : parser s_exchange :=
  pmap STotal (preceded (literal [64; 64] ;;; space0) (value_expr fuel)).
Definition rate_cost (fuel : nat) : parser s_exchange :=
  pmap SRate (preceded (literal [64] ;;; space0) (value_expr fuel)).

(* amount span, cost span, lot price span *)
Definition posting_amount (fuel : nat) : parser (s_posting_amount * (rspan * option rspan * option rspan)) :=
  am <- terminated (with_span (value_expr fuel)) space0 ;;
  lt <- lot fuel ;;
  is_at <- has_peek (chr 64) ;;
  is_double_at <- has_peek (literal [64; 64]) ;;
  cost <- cond is_at (with_span (cond_else is_double_at (total_cost fuel) (rate_cost fuel))) ;;
  ret ({| pa_amount := fst am; pa_cost := option_map fst cost; pa_lot := fst lt |},
       (snd am, option_map snd cost, snd lt)).

(* the body of posting::posting, before the outer context and span *)
Definition posting_body (fuel : nat) : parser (s_posting * (rspan * option rspan * option rspan * option rspan * option rspan)) :=
  cs <- preceded space0 clear_state ;;
  acc <- context L_account (posting_account fuel) ;;
  shortcut <- has_peek line_ending_or_semi ;;
  if shortcut then
    md <- block_metadata fuel ;;
    ret ({| sp_account := fst acc; sp_clear := cs; sp_amount := None; sp_balance := None; sp_metadata := md |},
         (snd acc, None, None, None, None))
  else
    am <- context L_amount (opt (terminated (posting_amount fuel) space0)) ;;
    bal <- opt (context L_balance (with_span (delimited (chr 61 ;;; space0) (value_expr fuel) space0))) ;;
    md <- context L_post_meta (block_metadata fuel) ;;
    ret ({| sp_account := fst acc; sp_clear := cs; sp_amount := option_map fst am;
            sp_balance := option_map fst bal; sp_metadata := md |},
         (snd acc,
          option_map (fun x => fst (fst (snd x))) am,
          match am with Some x => snd (fst (snd x)) | None => None end,
          match am with Some x => snd (snd x) | None => None end,
          option_map snd bal)).

(* Tracking::decorate_parser(posting::posting) *)
Definition posting (fuel : nat) : parser (s_posting * posting_spans) :=
  pmap (fun x => match x with
                 | ((p, (a, am, co, lp, ba)), sp) =>
                     (p, {| ps_posting := sp; ps_account := a; ps_amount := am; ps_cost := co;
                            ps_lot_price := lp; ps_balance := ba |})
                 end)
       (with_span (context L_posting (posting_body fuel))).
