(* Declarative side of C10: the value of an amount in the target commodity given the rate
   table of (target, date), and the sums a converted report must equal. *)
From Coq Require Import List NArith ZArith Bool QArith Qcanon.
From Okv Require Import Base.Maps Base.Dec Model.Amount Model.Book Model.Query Model.PriceDb Model.Convert.
Import ListNotations.
Open Scope Qc_scope.

(* the rate of c in target: 1 for the target itself, else the table's *)
Definition rate_of (t : table) (target c : cid) : option Qc :=
  if (c =? target)%N then Some 1 else option_map snd (get c t).
Definition rate_or0 (t : table) (target c : cid) : Qc :=
  match rate_of t target c with Some r => r | None => 0 end.

(* sum over the entries of the amount of value x rate *)
Definition conv_value (t : table) (target : cid) (a : amount) : Qc :=
  fold_right (fun cv acc => snd cv * rate_or0 t target (fst cv) + acc) 0 a.

Definition convertible (t : table) (target : cid) (a : amount) : Prop :=
  forall c v, In (c, v) a -> rate_of t target c <> None.

(* what convert_amount returns: nothing for the empty amount, else one entry in the target *)
Definition conv_result (t : table) (target : cid) (a : amount) : amount :=
  match a with [] => [] | _ => [(target, conv_value t target a)] end.

(* an account of a converted balance: its non-zero total in the target commodity *)
Definition norm_amt (target : cid) (x : Qc) : amount := if qc_zero x then [] else [(target, x)].

(* ---- reports as sums ---- *)

(* historical: per transaction in range, per posting of the account, the posting's amount at
   the rates of the transaction date (tbl d = the rate table of (target, d)) *)
Definition posts_sum (t : table) (target : cid) (ps : list oposting) (acct : aid) : Qc :=
  fold_right (fun p acc => if (o_account p =? acct)%N then conv_value t target (o_amount p) + acc else acc) 0 ps.
Definition hist_sum (tbl : Z -> table) (target : cid) (ts : list otxn) (start end_ : option Z) (acct : aid) : Qc :=
  fold_right (fun t acc => if range_contains start end_ (o_date t)
                           then posts_sum (tbl (o_date t)) target (o_posts t) acct + acc else acc) 0 ts.

(* the same sum spelled out over every (posting, entry) pair of the transactions in range,
   each pair exactly once: nothing dropped, nothing counted twice *)
Definition posting_entries (ts : list otxn) (start end_ : option Z) : list (Z * aid * cid * Qc) :=
  flat_map (fun t => if range_contains start end_ (o_date t)
                     then flat_map (fun p => map (fun cv => (o_date t, o_account p, fst cv, snd cv)) (o_amount p))
                                   (o_posts t)
                     else []) ts.
Definition entries_sum (tbl : Z -> table) (target : cid) (es : list (Z * aid * cid * Qc)) (acct : aid) : Qc :=
  fold_right (fun x acc => let '(d, a, c, v) := x in
                           if (a =? acct)%N then v * rate_or0 (tbl d) target c + acc else acc) 0 es.

(* up-to-date: the entries of the (unconverted) balance `src` at the rates of `now` *)
Definition utd_sum (t : table) (target : cid) (src : balance) (acct : aid) : Qc :=
  fold_right (fun ax acc => if (fst ax =? acct)%N then conv_value t target (snd ax) + acc else acc) 0 src.

(* the balance an up-to-date report converts: the running balance, or the re-fold (NOT rounded) *)
Definition utd_source (s : bstate) (start end_ : option Z) : balance :=
  if range_bypass start end_ then s_bal s else refold (s_txns s) start end_.
