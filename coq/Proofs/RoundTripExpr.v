(* C05 round trip: value expressions.  A tree in left-fold normal form (wf_v / wf_e), printed
   and followed by a continuation that can not extend it, is read back as the same tree. *)
From Coq Require Import List NArith ZArith Bool Lia Arith.
From Okv Require Import Model.Lit Model.LitSpec Model.Syntax Model.Comb Model.ParseExpr Model.Display
  Model.DocGrammar Model.RoundTripSpec
  Proofs.LitShowGen Proofs.CombSpec Proofs.ParseExprErase Proofs.DocAccept Proofs.RoundTripBase Proofs.RoundTripNum.
Import ListNotations.
Open Scope N_scope.

Lemma space0_none : forall i, starts_not is_sp i -> space0 i = POk [] i.
Proof. intros i H. exact (space0_ok [] i (all_nil _) H). Qed.

Definition pe (e : s_expr) : str := fst (fmt_expr e).
Definition pv (v : s_vexpr) : str := fst (fmt_vexpr v).

Lemma pv_show : forall v, pv v = show_vexpr v. Proof. reflexivity. Qed.
Lemma pe_unary : forall e, pe (SUnaryNeg e) = 45 :: pe e. Proof. reflexivity. Qed.
Lemma pe_binary : forall op l r, pe (SBinary op l r) = pe l ++ [32; binop_char op; 32] ++ pe r.
Proof. reflexivity. Qed.
Lemma pe_value : forall v, pe (SValue v) = pv v. Proof. reflexivity. Qed.
Lemma pv_paren : forall e, pv (SParen e) = 40 :: pe e ++ [41]. Proof. reflexivity. Qed.
Lemma pv_amount : forall a, pv (SAmount a) = fst (fmt_amount a). Proof. reflexivity. Qed.

(* ---- first characters ---- *)
Definition expr_head (c : N) : Prop := Lit.is_digit c = true \/ c = 45 \/ c = 40.

Lemma fmt_amount_head : forall a, exists c r, fst (fmt_amount a) = c :: r /\
  (if neg (sa_value a) then c = 45 else Lit.is_digit c = true).
Proof.
  intros a. destruct (show_shape (sa_value a)) as (c & body & Hs & Hc & _).
  unfold fmt_amount, rescale. destruct (sa_commodity a); cbn [fst]; rewrite Hs;
    destruct (neg (sa_value a)); cbn [app]; eauto.
Qed.

Lemma pe_pv_head :
  (forall v, exists c r, pv v = c :: r /\ expr_head c) /\
  (forall e, exists c r, pe e = c :: r /\ expr_head c).
Proof.
  assert (V : forall v, (forall e, exists c r, pe e = c :: r /\ expr_head c) ->
                        exists c r, pv v = c :: r /\ expr_head c).
  { intros [e | a] He.
    - rewrite pv_paren. eexists _, _. split; [reflexivity |]. right; right; reflexivity.
    - rewrite pv_amount. destruct (fmt_amount_head a) as (c & r & E & H). rewrite E.
      eexists _, _. split; [reflexivity |]. destruct (neg (sa_value a)); [right; left; exact H | left; exact H]. }
  assert (E : forall e, exists c r, pe e = c :: r /\ expr_head c).
  { fix IH 1. intros [e1 | op l r | v].
    - rewrite pe_unary. eexists _, _. split; [reflexivity |]. right; left; reflexivity.
    - rewrite pe_binary. destruct (IH l) as (c & r0 & E & H). rewrite E. cbn [app]. eauto.
    - rewrite pe_value. destruct v as [e | a].
      + rewrite pv_paren. eexists _, _. split; [reflexivity |]. right; right; reflexivity.
      + rewrite pv_amount. destruct (fmt_amount_head a) as (c & r & E & H). rewrite E.
        eexists _, _. split; [reflexivity |].
        destruct (neg (sa_value a)); [right; left; exact H | left; exact H]. }
  split; [intros v; apply V; exact E | exact E].
Qed.

Lemma expr_head_not_sp : forall c, expr_head c -> is_sp c = false.
Proof.
  intros c [H | [-> | ->]]; [| reflexivity | reflexivity].
  unfold Lit.is_digit in H. unfold is_sp. apply andb_true_iff in H. destruct H as [H1 H2].
  apply N.leb_le in H1. apply N.leb_le in H2.
  destruct (N.eqb_spec c 32); [lia |]. destruct (N.eqb_spec c 9); [lia | reflexivity].
Qed.

Lemma pe_not_sp : forall e k, starts_not is_sp (pe e ++ k).
Proof.
  intros e k. destruct (proj2 pe_pv_head e) as (c & r & E & H). rewrite E. simpl.
  apply expr_head_not_sp. exact H.
Qed.
Lemma pv_not_sp : forall v k, starts_not is_sp (pv v ++ k).
Proof.
  intros v k. destruct (proj1 pe_pv_head v) as (c & r & E & H). rewrite E. simpl.
  apply expr_head_not_sp. exact H.
Qed.

(* ---- what follows an expression ---- *)
Definition follow_v (v : s_vexpr) (k : str) : Prop :=
  match v with SAmount a => follow_amount a k | SParen _ => True end.
Fixpoint follow_e (e : s_expr) (k : str) : Prop :=
  match e with
  | SUnaryNeg e1 => follow_e e1 k
  | SBinary _ _ r => follow_e r k
  | SValue v => follow_v v k
  end.
Fixpoint rest_e (e : s_expr) (k : str) : str :=
  match e with
  | SUnaryNeg e1 => rest_e e1 k
  | SBinary _ _ r => rest_e r k
  | SValue v => rest_vexpr v k
  end.

(* a continuation after which any number / commodity ends *)
Definition good_follow (k : str) : Prop :=
  starts_not is_decimal_char k /\ starts_not (fun c => negb (is_non_commodity c)) k /\
  starts_not (fun c => negb (is_non_commodity c)) (skip_sp k).

Lemma good_follow_amount : forall a k, good_follow k -> follow_amount a k.
Proof. intros a k (H1 & H2 & H3). unfold follow_amount. destruct (sa_commodity a); auto. Qed.
Lemma good_follow_v : forall v k, good_follow k -> follow_v v k.
Proof. intros [e | a] k H; simpl; auto using good_follow_amount. Qed.
Lemma good_follow_e : forall e k, good_follow k -> follow_e e k.
Proof. induction e; intros k H; simpl; auto using good_follow_v. Qed.

Lemma skip_rest_amount : forall a k, skip_sp (rest_amount a k) = skip_sp k.
Proof. intros a k. unfold rest_amount. destruct (sa_commodity a); [apply skip_sp_idem | reflexivity]. Qed.
Lemma skip_rest_v : forall v k, skip_sp (rest_vexpr v k) = skip_sp k.
Proof. intros [e | a] k; simpl; [reflexivity | apply skip_rest_amount]. Qed.
Lemma skip_rest_e : forall e k, skip_sp (rest_e e k) = skip_sp k.
Proof. induction e; intros k; simpl; auto using skip_rest_v. Qed.

Lemma rest_amount_cases : forall a k, rest_amount a k = k \/ rest_amount a k = skip_sp k.
Proof. intros a k. unfold rest_amount. destruct (sa_commodity a); auto. Qed.
Lemma rest_v_cases : forall v k, rest_vexpr v k = k \/ rest_vexpr v k = skip_sp k.
Proof. intros [e | a] k; simpl; auto using rest_amount_cases. Qed.
Lemma rest_e_cases : forall e k, rest_e e k = k \/ rest_e e k = skip_sp k.
Proof. induction e; intros k; simpl; auto using rest_v_cases. Qed.

Lemma rest_e_nosp : forall e k, starts_not is_sp k -> rest_e e k = k.
Proof. intros e k H. destruct (rest_e_cases e k) as [E | E]; rewrite E; [| apply skip_sp_id]; auto. Qed.
Lemma rest_v_nosp : forall v k, starts_not is_sp k -> rest_vexpr v k = k.
Proof. intros v k H. destruct (rest_v_cases v k) as [E | E]; rewrite E; [| apply skip_sp_id]; auto. Qed.

Lemma rest_e_length : forall e k, (length (skip_sp k) <= length (rest_e e k))%nat.
Proof.
  intros e k. destruct (rest_e_cases e k) as [E | E]; rewrite E; [apply skip_sp_length | lia].
Qed.

(* ---- levels ---- *)
Definition is_add (op : s_binop) : bool := match op with SAdd | SSub => true | _ => false end.
Definition is_mul (op : s_binop) : bool := match op with SMul | SDiv => true | _ => false end.
Fixpoint nops (isop : s_binop -> bool) (e : s_expr) : nat :=
  match e with
  | SBinary op l _ => if isop op then S (nops isop l) else O
  | _ => O
  end.

Lemma nops_le : forall isop e, (nops isop e <= length (pe e))%nat.
Proof.
  induction e; simpl; try lia. destruct (isop op); [| lia].
  rewrite pe_binary, !app_length. simpl. lia.
Qed.

Lemma wf_un_mul : forall e, wf_e LUn e = true -> wf_e LMul e = true.
Proof. intros [e1 | op l r | v] H; simpl in *; auto. discriminate. Qed.
Lemma wf_mul_add : forall e, wf_e LMul e = true -> wf_e LAdd e = true.
Proof. intros [e1 | op l r | v] H; simpl in *; auto. destruct op; auto; discriminate. Qed.

(* ---- the operators ---- *)
Lemma add_op_ok : forall op r, is_add op = true -> add_op (binop_char op :: r) = POk op r.
Proof. intros [] r H; try discriminate; reflexivity. Qed.
Lemma mul_op_ok : forall op r, is_mul op = true -> mul_op (binop_char op :: r) = POk op r.
Proof. intros [] r H; try discriminate; reflexivity. Qed.

Definition is_add_char (c : N) : bool := (c =? 43) || (c =? 45).
Definition is_mul_char (c : N) : bool := (c =? 42) || (c =? 47).

Lemma add_op_fail : forall i, starts_not is_add_char i -> add_op i = PErr false 0 i.
Proof.
  intros [| c r] H; [reflexivity |]. simpl in H. unfold is_add_char in H. apply orb_false_iff in H.
  destruct H as [H1 H2]. unfold add_op, alt, bind, chr, one_of.
  rewrite (N.eqb_sym 43 c), H1, (N.eqb_sym 45 c), H2. reflexivity.
Qed.
Lemma mul_op_fail : forall i, starts_not is_mul_char i -> mul_op i = PErr false 0 i.
Proof.
  intros [| c r] H; [reflexivity |]. simpl in H. unfold is_mul_char in H. apply orb_false_iff in H.
  destruct H as [H1 H2]. unfold mul_op, alt, bind, chr, one_of.
  rewrite (N.eqb_sym 42 c), H1, (N.eqb_sym 47 c), H2. reflexivity.
Qed.

Definition sep (op : parser s_binop) : parser s_binop := delimited space0 op space0.

Lemma sep_fail : forall (op : parser s_binop) i,
  op (skip_sp i) = PErr false 0 (skip_sp i) -> exists r, sep op i = PErr false 0 r.
Proof.
  intros op i H. unfold sep, delimited, bind. destruct (space0_skip i) as [s Es]. rewrite Es.
  rewrite H. eauto.
Qed.

(* the separator in front of a printed right operand *)
Lemma sep_ok : forall (opp : parser s_binop) op i x,
  opp (binop_char op :: 32 :: x) = POk op (32 :: x) -> starts_not is_sp x ->
  skip_sp i = binop_char op :: 32 :: x ->
  sep opp i = POk op x.
Proof.
  intros opp op i x H Hx Hi. unfold sep, delimited, bind. destruct (space0_skip i) as [s Es]. rewrite Es.
  rewrite Hi, H. change (32 :: x) with ([32] ++ x).
  rewrite (space0_ok [32] x ltac:(reflexivity) Hx). reflexivity.
Qed.

Lemma binop_char_not_sp : forall op, is_sp (binop_char op) = false.
Proof. intros []; reflexivity. Qed.

Definition mk (l : s_expr) (o : s_binop) (r : s_expr) : s_expr := SBinary o l r.

Lemma loop_stop : forall f (p : parser s_expr) (opp : parser s_binop) acc i r,
  sep opp i = PErr false 0 r -> chain_loop f opp p acc i = POk acc i.
Proof. intros. unfold sep in H. destruct f; cbn [chain_loop]; rewrite H; reflexivity. Qed.

Lemma loop_step : forall f (p : parser s_expr) (opp : parser s_binop) acc i op x b r,
  sep opp i = POk op x -> p x = POk b r ->
  fits_under (Nat.max (expr_height acc) (expr_height b)) = true ->
  chain_loop (S f) opp p acc i = chain_loop f opp p (SBinary op acc b) r.
Proof. intros. unfold sep in H. cbn [chain_loop]. rewrite H, H0, H1. reflexivity. Qed.

(* the first operand, then the loop *)
Definition chain_from (f : nat) (opp : parser s_binop) (p : parser s_expr) : parser s_expr :=
  infixl_e f opp p.

Scheme vexpr_ind2 := Induction for s_vexpr Sort Prop
  with expr_ind2 := Induction for s_expr Sort Prop.
Combined Scheme vexpr_expr_ind from vexpr_ind2, expr_ind2.

(* trees that differ in the spelling of numbers only have the same shape *)
Lemma same_height :
  (forall v v', same_v v v' -> vexpr_height v' = vexpr_height v) /\
  (forall e e', same_e e e' -> expr_height e' = expr_height e).
Proof.
  apply vexpr_expr_ind.
  - intros e IH [e' | a'] H; simpl in H; [| contradiction]. cbn [vexpr_height]. f_equal. apply IH. exact H.
  - intros a [e' | a'] H; simpl in H; [contradiction | reflexivity].
  - intros e IH [e1 | o l r | v] H; simpl in H; try contradiction. cbn [expr_height]. f_equal. apply IH. exact H.
  - intros o l IHl r IHr [e1 | o' l' r' | v] H; simpl in H; try contradiction.
    destruct H as (_ & Hl & Hr). cbn [expr_height]. rewrite (IHl _ Hl), (IHr _ Hr). reflexivity.
  - intros v IH [e1 | o l r | v'] H; simpl in H; try contradiction. cbn [expr_height]. apply IH. exact H.
Qed.
Definition same_v_height := proj1 same_height.
Definition same_e_height := proj2 same_height.

Lemma fits_under_le : forall h, (S h <= max_expr_height)%nat -> fits_under h = true.
Proof. intros h H. unfold fits_under. apply Nat.ltb_lt. lia. Qed.

Notation HMAX := max_expr_height.

Section Expr.
Variable fuel : nat.

Definition VE (d : nat) : parser s_vexpr := value_expr_d fuel d.
Definition U (d : nat) : parser s_expr := unary_e (VE d).
Definition M (d : nat) : parser s_expr := infixl_e fuel mul_op (U d).
Definition A (d : nat) : parser s_expr := infixl_e fuel add_op (M d).

Lemma VE_paren : forall d i, VE (S d) (40 :: i) = paren_e (A d) (40 :: i).
Proof. reflexivity. Qed.

Lemma VE_amount : forall d c i, (c =? 40) = false -> VE d (c :: i) = pmap SAmount amount (c :: i).
Proof. intros d c i H. unfold VE. destruct d; simpl; rewrite H; reflexivity. Qed.

Definition no_mul (k : str) : Prop := starts_not is_mul_char (skip_sp k).
Definition no_add (k : str) : Prop := starts_not is_add_char (skip_sp k).

(* the statements, per level *)
Definition V_ok (v : s_vexpr) : Prop := forall d k,
  wf_v v = true -> (vexpr_depth v <= d)%nat -> (vexpr_height v <= HMAX)%nat ->
  follow_v v k -> (length (pv v) <= fuel)%nat ->
  exists v', VE d (pv v ++ k) = POk v' (rest_vexpr v k) /\ same_v v v'.

Definition U_ok (e : s_expr) : Prop := forall d k,
  wf_e LUn e = true -> (expr_depth e <= d)%nat -> (expr_height e <= HMAX)%nat ->
  follow_e e k -> (length (pe e) <= fuel)%nat ->
  exists e', U d (pe e ++ k) = POk e' (rest_e e k) /\ same_e e e'.

Definition M_open (e : s_expr) : Prop := forall d k f,
  wf_e LMul e = true -> (expr_depth e <= d)%nat -> (expr_height e <= HMAX)%nat ->
  follow_e e k -> (length (pe e) <= fuel)%nat ->
  exists e', infixl_e (f + nops is_mul e) mul_op (U d) (pe e ++ k)
             = chain_loop f mul_op (U d) e' (rest_e e k) /\ same_e e e'.

Definition M_ok (e : s_expr) : Prop := forall d k,
  wf_e LMul e = true -> (expr_depth e <= d)%nat -> (expr_height e <= HMAX)%nat ->
  follow_e e k -> no_mul k ->
  (length (pe e) <= fuel)%nat ->
  exists e', M d (pe e ++ k) = POk e' (rest_e e k) /\ same_e e e'.

Definition A_open (e : s_expr) : Prop := forall d k f,
  wf_e LAdd e = true -> (expr_depth e <= d)%nat -> (expr_height e <= HMAX)%nat ->
  follow_e e k -> no_mul k ->
  (length (pe e) <= fuel)%nat ->
  exists e', infixl_e (f + nops is_add e) add_op (M d) (pe e ++ k)
             = chain_loop f add_op (M d) e' (rest_e e k) /\ same_e e e'.

Definition A_ok (e : s_expr) : Prop := forall d k,
  wf_e LAdd e = true -> (expr_depth e <= d)%nat -> (expr_height e <= HMAX)%nat ->
  follow_e e k -> no_mul k -> no_add k ->
  (length (pe e) <= fuel)%nat ->
  exists e', A d (pe e ++ k) = POk e' (rest_e e k) /\ same_e e e'.

Lemma M_close : forall e, M_open e -> M_ok e.
Proof.
  intros e H d k W D HT F NM L.
  pose proof (nops_le is_mul e) as NL.
  destruct (H d k (fuel - nops is_mul e)%nat W D HT F L) as (e' & E & S).
  exists e'. split; [| exact S].
  unfold M.
  replace fuel with (fuel - nops is_mul e + nops is_mul e)%nat at 1 by lia.
  rewrite E.
  destruct (sep_fail mul_op (rest_e e k)) as [r Er].
  { rewrite skip_rest_e. apply mul_op_fail. exact NM. }
  eapply loop_stop. exact Er.
Qed.

Lemma A_close : forall e, A_open e -> A_ok e.
Proof.
  intros e H d k W D HT F NM NA L.
  pose proof (nops_le is_add e) as NL.
  destruct (H d k (fuel - nops is_add e)%nat W D HT F NM L) as (e' & E & S).
  exists e'. split; [| exact S].
  unfold A.
  replace fuel with (fuel - nops is_add e + nops is_add e)%nat at 1 by lia.
  rewrite E.
  destruct (sep_fail add_op (rest_e e k)) as [r Er].
  { rewrite skip_rest_e. apply add_op_fail. exact NA. }
  eapply loop_stop. exact Er.
Qed.

(* the continuation  " op " ++ printed right operand ++ k *)
Lemma op_follow_good : forall op x, good_follow ([32; binop_char op; 32] ++ x).
Proof.
  intros op x. unfold good_follow. cbn [app]. repeat split; try reflexivity.
  rewrite skip_sp_cons. rewrite skip_sp_id by (simpl; apply binop_char_not_sp).
  destruct op; reflexivity.
Qed.

Lemma skip_op : forall op x, skip_sp ([32; binop_char op; 32] ++ x) = binop_char op :: 32 :: x.
Proof.
  intros. cbn [app]. rewrite skip_sp_cons. apply skip_sp_id. simpl. apply binop_char_not_sp.
Qed.

(* one step of a chain: given the left part already folded into l', read  " op " r  *)
Lemma chain_step : forall (p : parser s_expr) (opp : parser s_binop) f op l l' r r' k x,
  (forall y, opp (binop_char op :: 32 :: y) = POk op (32 :: y)) ->
  p (pe r ++ k) = POk r' x ->
  fits_under (Nat.max (expr_height l') (expr_height r')) = true ->
  chain_loop (S f) opp p l' (rest_e l ([32; binop_char op; 32] ++ pe r ++ k))
  = chain_loop f opp p (SBinary op l' r') x.
Proof.
  intros p opp f op l l' r r' k x Hop Hp Hh.
  eapply loop_step; [| exact Hp | exact Hh].
  apply (sep_ok opp op _ (pe r ++ k)); [apply Hop | apply pe_not_sp |].
  rewrite skip_rest_e. apply skip_op.
Qed.

Lemma height_binary : forall op l r l' r', (expr_height (SBinary op l r) <= HMAX)%nat ->
  same_e l l' -> same_e r r' ->
  (expr_height l <= HMAX)%nat /\ (expr_height r <= HMAX)%nat /\
  fits_under (Nat.max (expr_height l') (expr_height r')) = true.
Proof.
  intros op l r l' r' H Sl Sr. cbn [expr_height] in H.
  rewrite (same_e_height _ _ Sl), (same_e_height _ _ Sr).
  split; [lia |]. split; [lia |]. apply fits_under_le. exact H.
Qed.

Lemma depth_binary : forall op l r d, (expr_depth (SBinary op l r) <= d)%nat ->
  (expr_depth l <= d)%nat /\ (expr_depth r <= d)%nat.
Proof. intros. simpl in H. lia. Qed.

Lemma len_binary : forall op l r, (length (pe (SBinary op l r)) <= fuel)%nat ->
  (length (pe l) <= fuel)%nat /\ (length (pe r) <= fuel)%nat.
Proof. intros op l r H. rewrite pe_binary, !app_length in H. lia. Qed.

Lemma M_binary : forall op l r, is_mul op = true -> M_open l -> U_ok r -> M_open (SBinary op l r).
Proof.
  intros op l r Hop Hl Hr d k f W D HT F L.
  assert (W' : wf_e LMul l = true /\ wf_e LUn r = true).
  { destruct op; try discriminate; simpl in W; apply andb_true_iff in W; exact W. }
  destruct W' as [Wl Wr]. destruct (depth_binary _ _ _ _ D) as [Dl Dr].
  assert (HT' : (expr_height l <= HMAX)%nat /\ (expr_height r <= HMAX)%nat) by (cbn [expr_height] in HT; lia).
  destruct HT' as [Tl Tr].
  destruct (len_binary _ _ _ L) as [Ll Lr]. simpl in F.
  destruct (Hr d k Wr Dr Tr F Lr) as (r' & Er & Sr).
  destruct (Hl d ([32; binop_char op; 32] ++ pe r ++ k) (S f) Wl Dl Tl
              (good_follow_e _ _ (op_follow_good _ _)) Ll) as (l' & El & Sl).
  destruct (height_binary op l r l' r' HT Sl Sr) as (_ & _ & Hfit).
  exists (SBinary op l' r'). split; [| simpl; auto].
  rewrite pe_binary, <- !app_assoc. cbn [nops]. rewrite Hop.
  replace (f + S (nops is_mul l))%nat with (S f + nops is_mul l)%nat by lia.
  rewrite El. cbn [rest_e].
  apply chain_step; [| exact Er | exact Hfit].
  intros y. apply mul_op_ok. exact Hop.
Qed.

Lemma M_unary : forall e, (match e with SBinary _ _ _ => False | _ => True end) -> U_ok e -> M_open e.
Proof.
  intros e Hne Hu d k f W D HT F L.
  assert (Wu : wf_e LUn e = true) by (destruct e; [exact W | contradiction | exact W]).
  destruct (Hu d k Wu D HT F L) as (e' & E & S). exists e'. split; [| exact S].
  assert (N0 : nops is_mul e = O) by (destruct e; [reflexivity | contradiction | reflexivity]).
  rewrite N0. unfold infixl_e at 1. rewrite E. rewrite Nat.add_0_r. reflexivity.
Qed.

Lemma A_binary : forall op l r, is_add op = true -> A_open l -> M_ok r -> A_open (SBinary op l r).
Proof.
  intros op l r Hop Hl Hr d k f W D HT F NM L.
  assert (W' : wf_e LAdd l = true /\ wf_e LMul r = true).
  { destruct op; try discriminate; simpl in W; apply andb_true_iff in W; exact W. }
  destruct W' as [Wl Wr]. destruct (depth_binary _ _ _ _ D) as [Dl Dr].
  assert (HT' : (expr_height l <= HMAX)%nat /\ (expr_height r <= HMAX)%nat) by (cbn [expr_height] in HT; lia).
  destruct HT' as [Tl Tr].
  destruct (len_binary _ _ _ L) as [Ll Lr]. simpl in F.
  destruct (Hr d k Wr Dr Tr F NM Lr) as (r' & Er & Sr).
  assert (NM' : no_mul ([32; binop_char op; 32] ++ pe r ++ k)).
  { unfold no_mul. rewrite skip_op. destruct op; try discriminate; reflexivity. }
  destruct (Hl d ([32; binop_char op; 32] ++ pe r ++ k) (S f) Wl Dl Tl
              (good_follow_e _ _ (op_follow_good _ _)) NM' Ll) as (l' & El & Sl).
  destruct (height_binary op l r l' r' HT Sl Sr) as (_ & _ & Hfit).
  exists (SBinary op l' r'). split; [| simpl; auto].
  rewrite pe_binary, <- !app_assoc. cbn [nops]. rewrite Hop.
  replace (f + S (nops is_add l))%nat with (S f + nops is_add l)%nat by lia.
  rewrite El. cbn [rest_e].
  apply chain_step; [| exact Er | exact Hfit].
  intros y. apply add_op_ok. exact Hop.
Qed.

Lemma A_mul : forall e, (match e with SBinary op _ _ => is_add op = false | _ => True end) ->
  M_ok e -> A_open e.
Proof.
  intros e Hne Hm d k f W D HT F NM L.
  assert (Wm : wf_e LMul e = true).
  { destruct e as [e1 | op l r | v]; [exact W | | exact W]. destruct op; try discriminate; exact W. }
  destruct (Hm d k Wm D HT F NM L) as (e' & E & S). exists e'. split; [| exact S].
  assert (N0 : nops is_add e = O).
  { destruct e as [e1 | op l r | v]; [reflexivity | | reflexivity]. simpl. rewrite Hne. reflexivity. }
  rewrite N0. unfold infixl_e at 1. rewrite E. rewrite Nat.add_0_r. reflexivity.
Qed.

(* ---- operands ---- *)
Lemma U_value : forall v, V_ok v -> U_ok (SValue v).
Proof.
  intros v Hv d k W D HT F L. rewrite pe_value in *.
  assert (Wv : wf_v v = true).
  { destruct v as [e | a]; simpl in *; [exact W |]. apply andb_true_iff in W. tauto. }
  destruct (Hv d k Wv D HT F L) as (v' & E & S).
  exists (SValue v'). split; [| exact S].
  (* the first character is not a minus sign *)
  assert (H : exists c r, pv v = c :: r /\ (c =? 45) = false).
  { destruct v as [e | a].
    - rewrite pv_paren. eauto.
    - rewrite pv_amount. destruct (fmt_amount_head a) as (c & r & Ea & Hc).
      simpl in W. apply andb_true_iff in W. destruct W as [_ W]. apply negb_true_iff in W.
      rewrite W in Hc. exists c, r. split; [exact Ea |].
      rewrite N.eqb_sym. apply digit_not_minus. exact Hc. }
  destruct H as (c & r & Ec & Hc).
  unfold U, unary_e. rewrite Ec. cbn [app]. rewrite Hc.
  change (c :: r ++ k) with ((c :: r) ++ k). rewrite <- Ec.
  apply pmap_ok. exact E.
Qed.

Lemma U_neg : forall v, V_ok v -> U_ok (SUnaryNeg (SValue v)).
Proof.
  intros v Hv d k W D HT F L. simpl in W, D, F. cbn [expr_height] in HT. rewrite pe_unary, pe_value in *.
  assert (Lv : (length (pv v) <= fuel)%nat) by (simpl in L; lia).
  destruct (Hv d k W D ltac:(lia) F Lv) as (v' & E & S).
  exists (SUnaryNeg (SValue v')). split; [| exact S].
  unfold U, unary_e. cbn [app]. rewrite N.eqb_refl.
  unfold negate_e, try_map, preceded, bind. rw (chr_ok 45 (pv v ++ k)).
  fold (VE d). rw E.
  rewrite (fits_under_le (vexpr_height v')) by (rewrite (same_v_height _ _ S); exact HT).
  reflexivity.
Qed.

(* ---- value expressions ---- *)
Lemma V_amount : forall a, V_ok (SAmount a).
Proof.
  intros a d k W D _ F L. simpl in W, F.
  destruct (amount_fmt a k W F) as (a' & E & S).
  exists (SAmount a'). split; [| exact S].
  rewrite pv_amount in *. destruct (fmt_amount_head a) as (c & r & Ea & Hc).
  assert (H40 : (c =? 40) = false).
  { destruct (neg (sa_value a)); [subst; reflexivity |].
    unfold Lit.is_digit in Hc. apply andb_true_iff in Hc. destruct Hc as [H1 H2].
    apply N.leb_le in H1. apply N.eqb_neq. lia. }
  rewrite Ea in *. cbn [app] in *. rewrite (VE_amount d c (r ++ k) H40).
  cbn [rest_vexpr]. apply pmap_ok. exact E.
Qed.

Lemma close_paren_good : forall k, good_follow (41 :: k).
Proof. intros k. unfold good_follow. rewrite skip_sp_id by reflexivity. repeat split. Qed.

Lemma V_paren : forall e, A_ok e -> V_ok (SParen e).
Proof.
  intros e He d k W D HT F L. simpl in W. cbn [vexpr_height] in HT.
  destruct d as [| d]; [simpl in D; lia |]. assert (De : (expr_depth e <= d)%nat) by (simpl in D; lia).
  assert (Le : (length (pe e) <= fuel)%nat) by (rewrite pv_paren in L; simpl in L; rewrite app_length in L; lia).
  destruct (He d (41 :: k) W De ltac:(lia) (good_follow_e _ _ (close_paren_good k))
              ltac:(unfold no_mul; rewrite skip_sp_id; reflexivity)
              ltac:(unfold no_add; rewrite skip_sp_id; reflexivity) Le) as (e' & E & S).
  exists (SParen e'). split; [| exact S].
  rewrite pv_paren. cbn [app]. rewrite <- app_assoc. cbn [app]. rewrite VE_paren.
  unfold paren_e, try_map, paren, delimited, bind. rw (chr_ok 40 (pe e ++ 41 :: k)).
  rw (space0_none (pe e ++ 41 :: k) (pe_not_sp e _)).
  rw E. rewrite (rest_e_nosp e (41 :: k)) by reflexivity.
  rw (space0_none (41 :: k) ltac:(reflexivity)).
  unfold ret. rw (chr_ok 41 k).
  rewrite (fits_under_le (expr_height e')) by (rewrite (same_e_height _ _ S); exact HT).
  reflexivity.
Qed.

(* ---- all levels, by induction on the tree ---- *)

Definition E_all (e : s_expr) : Prop :=
  (wf_e LUn e = true -> U_ok e) /\ (wf_e LMul e = true -> M_open e) /\ (wf_e LAdd e = true -> A_open e) /\
  (forall v, e = SValue v -> V_ok v).

Lemma all_levels : (forall v, V_ok v) /\ (forall e, E_all e).
Proof.
  apply vexpr_expr_ind.
  - (* SParen *)
    intros e (_ & _ & HA & _). intros d k W. apply V_paren; [| exact W].
    apply A_close. apply HA. exact W.
  - (* SAmount *)
    apply V_amount.
  - (* SUnaryNeg *)
    intros e (_ & _ & _ & HV).
    assert (HU : wf_e LUn (SUnaryNeg e) = true -> U_ok (SUnaryNeg e)).
    { intros W. destruct e as [e1 | op l r | v]; try discriminate. apply U_neg. apply HV. reflexivity. }
    assert (HM : wf_e LMul (SUnaryNeg e) = true -> M_open (SUnaryNeg e)).
    { intros W. apply M_unary; [exact I | apply HU; exact W]. }
    split; [exact HU |]. split; [exact HM |]. split; [| intros v Ev; discriminate].
    intros W. apply A_mul; [exact I |]. apply M_close. apply HM. exact W.
  - (* SBinary *)
    intros op l (HUl & HMl & HAl & _) r (HUr & HMr & HAr & _).
    assert (HM : wf_e LMul (SBinary op l r) = true -> M_open (SBinary op l r)).
    { intros W. destruct op; try discriminate; simpl in W; apply andb_true_iff in W; destruct W as [Wl Wr];
        apply M_binary; auto. }
    split; [intros W; discriminate |]. split; [exact HM |]. split; [| intros v Ev; discriminate].
    intros W. destruct op.
    + simpl in W. apply andb_true_iff in W. destruct W as [Wl Wr].
      apply A_binary; [reflexivity | auto | apply M_close; auto].
    + simpl in W. apply andb_true_iff in W. destruct W as [Wl Wr].
      apply A_binary; [reflexivity | auto | apply M_close; auto].
    + apply A_mul; [reflexivity |]. apply M_close. apply HM. exact W.
    + apply A_mul; [reflexivity |]. apply M_close. apply HM. exact W.
  - (* SValue *)
    intros v HV.
    assert (HU : wf_e LUn (SValue v) = true -> U_ok (SValue v)) by (intros _; apply U_value; exact HV).
    assert (HM : wf_e LMul (SValue v) = true -> M_open (SValue v)).
    { intros W. apply M_unary; [exact I | apply HU; exact W]. }
    split; [exact HU |]. split; [exact HM |]. split; [| intros v' Ev; inversion Ev; subst; exact HV].
    intros W. apply A_mul; [exact I |]. apply M_close. apply HM. exact W.
Qed.

End Expr.

(* ---- the round trip of a value expression ---- *)
Lemma value_expr_VE : forall fuel i, value_expr fuel i = VE fuel max_expr_depth i.
Proof. intros. apply value_expr_erase. Qed.

Theorem value_expr_fmt : forall fuel v k,
  wf_vexpr v = true -> follow_v v k -> (length (show_vexpr v) <= fuel)%nat ->
  exists v', value_expr fuel (show_vexpr v ++ k) = POk v' (rest_vexpr v k) /\ same_v v v'.
Proof.
  intros fuel v k W F L. unfold wf_vexpr in W. rewrite !andb_true_iff in W. destruct W as [[W D] HT].
  apply Nat.leb_le in D. apply Nat.leb_le in HT. rewrite value_expr_VE.
  exact (proj1 (all_levels fuel) v max_expr_depth k W D HT F L).
Qed.
