(* C05 — documented syntax is read (parser side).
   The print-parse round trip (formatting preserves meaning, is idempotent) is assembled with
   the printer model elsewhere; on every run it is checked at implementation level by the C05
   correspondence (parse(format s) field by field, format(format s) = format s).

   C05_grammar_accepted_partial covers these constructs of doc/syntax.md (Model/DocGrammar.v,
   where every transcription choice is listed): ledger-file structure, vertical-space
   (sp* new-line), new-line including <EOF> for the last line, top-level comments (all five
   prefixes, blocks of lines), include, apply tag (key, key: value, key:: expr),
   end apply tag, account and commodity declarations with note / alias / comment
   sub-directives, LF and CRLF line ends, any Unicode text in names and comments.
   NOT covered (checked by the correspondence run only, on texts produced by the grammar
   generator of harness/src/pgen.rs): transaction, posting, metadata, value expressions,
   lot / cost / balance assertion. *)
From Coq Require Import List NArith.
From Okv Require Import Model.ParseLedger Model.DocGrammar Proofs.DocAccept.

Theorem C05_grammar_accepted_partial : forall s : list N,
  In_doc_grammar s -> exists es, parse_ledger s = LOk es.
Proof. exact doc_grammar_accepted. Qed.
Print Assumptions C05_grammar_accepted_partial.
