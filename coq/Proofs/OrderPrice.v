(* C13: conversion rates.  The rate table of compute_price_table is the same for every pop order
   of the heap and every iteration order of the two record maps, unless two optimal chains
   (same Distance) have different rates. *)
From Coq Require Import List NArith ZArith Bool QArith Qcanon Lia.
From Okv Require Import Base.Maps Base.Dec Model.Amount Model.Book Model.PriceDb Model.PriceSpec Model.OrderSpec
     Proofs.MapsSort Proofs.OrderMaps Proofs.PriceProofs Proofs.PriceGraph Proofs.PriceTable Proofs.PriceMain.
Import ListNotations.
Open Scope Qc_scope.

Lemma rec_equiv_sym r r' : rec_equiv r r' -> rec_equiv r' r.
Proof.
  intros [A [B C]]. split; [exact B|split; [exact A|]]. intros w. specialize (C w).
  destruct (get w r), (get w r'); try contradiction; [apply map_equiv_sym, C|exact I].
Qed.

(* the same edges leave every commodity *)
Lemma out_edges_equiv recs recs' date a e : rec_equiv recs recs' ->
  In e (out_edges recs date a) -> In e (out_edges recs' date a).
Proof.
  intros [_ [_ H]]. specialize (H a). unfold out_edges.
  destruct (get a recs) as [i|], (get a recs') as [i'|]; try contradiction.
  rewrite !in_omap. intros [x [Hx Hf]]. exists x. split; [|exact Hf]. eapply map_equiv_in; eauto.
Qed.

Lemma out_edges_same recs recs' date : rec_equiv recs recs' ->
  forall a e, In e (out_edges recs date a) <-> In e (out_edges recs' date a).
Proof.
  intros H a e. split; apply out_edges_equiv; [exact H|apply rec_equiv_sym, H].
Qed.

Lemma best_equiv recs recs' date target c : rec_equiv recs recs' -> c <> target ->
  best (out_edges recs date) (length (rec_comms recs)) target c =
  best (out_edges recs' date) (length (rec_comms recs')) target c.
Proof.
  intros H Hct.
  apply (best_same (out_edges recs date) (out_edges recs' date) (out_edges_same recs recs' date H)
                   (rec_comms recs) (rec_comms recs')
                   (out_edges_in_rec_comms recs date) (out_edges_in_rec_comms recs' date) target c Hct).
Qed.

Lemma best_rates_equiv recs recs' date target c r : rec_equiv recs recs' -> c <> target ->
  In r (best_rates (out_edges recs date) (length (rec_comms recs)) target c) ->
  In r (best_rates (out_edges recs' date) (length (rec_comms recs')) target c).
Proof.
  intros H Hct.
  apply (best_rates_same (out_edges recs date) (out_edges recs' date) (out_edges_same recs recs' date H)
                         (rec_comms recs) (rec_comms recs')
                         (out_edges_in_rec_comms recs date) (out_edges_in_rec_comms recs' date) target c r Hct).
Qed.

(* the label of c is the same in both tables: same distance, same rate, or absent in both *)
Theorem table_determined_without_ties recs recs' date target c choose choose' fuel fuel' t t' :
  rec_equiv recs recs' -> c <> target -> tie_free recs date target c ->
  price_table fuel choose recs target date = PTDone t ->
  price_table fuel' choose' recs' target date = PTDone t' ->
  get c t = get c t'.
Proof.
  intros H Hct Hfree HT HT'.
  destruct (table_vs_best_rec choose fuel recs target date t c HT Hct) as [A B].
  destruct (table_vs_best_rec choose' fuel' recs' target date t' c HT' Hct) as [A' B'].
  pose proof (best_equiv recs recs' date target c H Hct) as EB.
  destruct (get c t) as [[d r]|] eqn:G, (get c t') as [[d' r']|] eqn:G'.
  - destruct (A d r eq_refl) as [X Y]. destruct (A' d' r' eq_refl) as [X' Y'].
    assert (d = d') by congruence. subst d'.
    apply (best_rates_equiv recs' recs date target c r' (rec_equiv_sym _ _ H) Hct) in Y'.
    rewrite (Hfree r r' Y Y'). reflexivity.
  - destruct (A d r eq_refl) as [X _]. pose proof (proj1 B' eq_refl) as X'. congruence.
  - destruct (A' d' r' eq_refl) as [X' _]. pose proof (proj1 B eq_refl) as X. congruence.
  - reflexivity.
Qed.

(* a single optimal rate: that is the rate in the table, whatever the orders *)
Theorem table_rate_singleton recs recs' date target c r0 choose choose' fuel fuel' t t' :
  rec_equiv recs recs' -> c <> target ->
  best_rates (out_edges recs date) (length (rec_comms recs)) target c = [r0] ->
  price_table fuel choose recs target date = PTDone t ->
  price_table fuel' choose' recs' target date = PTDone t' ->
  exists d, get c t = Some (d, r0) /\ get c t' = Some (d, r0).
Proof.
  intros H Hct E HT HT'.
  assert (tie_free recs date target c) as Hfree.
  { intros r1 r2 H1 H2. rewrite E in H1, H2. destruct H1 as [<-|[]], H2 as [<-|[]]. reflexivity. }
  pose proof (table_determined_without_ties recs recs' date target c choose choose' fuel fuel' t t' H Hct Hfree HT HT') as EQ.
  destruct (table_vs_best_rec choose fuel recs target date t c HT Hct) as [A B].
  destruct (get c t) as [[d r]|] eqn:G.
  - destruct (A d r eq_refl) as [_ Y]. rewrite E in Y. destruct Y as [<-|[]]. exists d. split; [reflexivity|symmetry; exact EQ].
  - exfalso. pose proof (proj1 B eq_refl) as X. apply best_rates_nil_iff in X. congruence.
Qed.

(* so a conversion of one commodity gives the same answer (value or RateNotFound) *)
Theorem convert_single_determined recs recs' date target c v choose choose' fuel fuel' t t' :
  rec_equiv recs recs' -> (c <> target -> tie_free recs date target c) ->
  price_table fuel choose recs target date = PTDone t ->
  price_table fuel' choose' recs' target date = PTDone t' ->
  convert_single fuel choose recs c v target date = convert_single fuel' choose' recs' c v target date.
Proof.
  intros H Hfree HT HT'. destruct (N.eq_dec c target) as [->|Hct].
  - unfold convert_single. rewrite N.eqb_refl. reflexivity.
  - rewrite (convert_single_cases _ _ _ _ _ _ _ _ HT Hct), (convert_single_cases _ _ _ _ _ _ _ _ HT' Hct).
    rewrite (table_determined_without_ties recs recs' date target c choose choose' fuel fuel' t t' H Hct (Hfree Hct) HT HT').
    reflexivity.
Qed.

(* ---- the hypotheses are satisfiable ---- *)
Definition rec_reverse (recs : records) : records := map (fun wi => (fst wi, rev (snd wi))) (rev recs).

Lemma rec_equiv_reverse (recs : records) :
  NoDup (keys recs) -> (forall w i, In (w, i) recs -> NoDup (keys i)) -> rec_equiv recs (rec_reverse recs).
Proof.
  intros ND NDi.
  assert (K : keys (rec_reverse recs) = rev (keys recs)).
  { unfold rec_reverse, keys. rewrite map_map. cbn [fst]. rewrite map_rev. reflexivity. }
  assert (ND' : NoDup (keys (rec_reverse recs))) by (rewrite K; apply NoDup_rev, ND).
  split; [exact ND|split; [exact ND'|]]. intros w.
  destruct (get w recs) as [i|] eqn:G.
  - pose proof (get_in _ _ _ G) as HI.
    assert (In (w, rev i) (rec_reverse recs)) as HI'.
    { unfold rec_reverse. apply in_map_iff. exists (w, i). split; [reflexivity|]. apply -> in_rev. exact HI. }
    rewrite (in_get _ _ _ ND' HI'). apply perm_map_equiv; [apply (NDi w i HI)|apply Permutation.Permutation_rev].
  - destruct (get w (rec_reverse recs)) as [i'|] eqn:G'; [|exact I].
    apply get_in in G'. apply (get_none_notin _ _ G).
    assert (In w (keys (rec_reverse recs))) as X by (unfold keys; change w with (fst (w, i')); apply in_map, G').
    rewrite K in X. apply in_rev in X. exact X.
Qed.

(* the chain of price_db::tests iterated forwards and backwards: JPY -> CHF through USD and EUR is
   the only chain, so every heap order and both record orders give the same rate *)
Example ex_rec_equiv : rec_equiv ex_recs (rec_reverse ex_recs) /\ keys ex_recs <> keys (rec_reverse ex_recs).
Proof.
  split.
  - apply rec_equiv_reverse.
    + apply nodupb_sound. vm_compute. reflexivity.
    + assert (forallb (fun wi => nodupb (keys (snd wi))) ex_recs = true) as H by (vm_compute; reflexivity).
      rewrite forallb_forall in H. intros w i HI. apply nodupb_sound. apply (H (w, i) HI).
  - vm_compute. discriminate.
Qed.

Example ex_tie_free : exists r0, best_rates (out_edges ex_recs 3) (length (rec_comms ex_recs)) 3%N 1%N = [r0].
Proof. eexists. vm_compute. reflexivity. Qed.

Example ex_same_rate : forall choose choose' fuel fuel' t t',
  price_table fuel choose ex_recs 3%N 3%Z = PTDone t ->
  price_table fuel' choose' (rec_reverse ex_recs) 3%N 3%Z = PTDone t' ->
  get 1%N t = get 1%N t' /\ get 1%N t <> None.
Proof.
  intros choose choose' fuel fuel' t t' HT HT'. destruct ex_tie_free as [r0 E].
  destruct (table_rate_singleton ex_recs (rec_reverse ex_recs) 3 3%N 1%N r0 choose choose' fuel fuel' t t'
              (proj1 ex_rec_equiv) ltac:(discriminate) E HT HT') as [d [G G']].
  rewrite G, G'. split; [reflexivity|discriminate].
Qed.

(* ---- the repository built from the recorded price events ---- *)
Lemma rec_equiv_trans r1 r2 r3 : rec_equiv r1 r2 -> rec_equiv r2 r3 -> rec_equiv r1 r3.
Proof.
  intros [A [_ C]] [_ [B D]]. split; [exact A|split; [exact B|]]. intros a. specialize (C a). specialize (D a).
  destruct (get a r1), (get a r2), (get a r3); try contradiction; [eapply map_equiv_trans; eauto|exact I].
Qed.

Lemma rec_equiv_nil : rec_equiv [] [].
Proof. split; [constructor|split; [constructor|]]. intros w. exact I. Qed.

Lemma rec_set_equiv (r r' : records) w (x x' : inner) :
  rec_equiv r r' -> map_equiv x x' -> rec_equiv (set w x r) (set w x' r').
Proof.
  intros [A [B C]] Hx. split; [apply BookA_Maps.NoDup_keys_set, A|split; [apply BookA_Maps.NoDup_keys_set, B|]].
  intros k. rewrite !BookA_Maps.get_set. destruct (w =? k)%N; [exact Hx|apply C].
Qed.

(* the inner map insert_impl writes back under wc *)
Definition new_cell (recs : records) (src : source) (date : Z) (oc : cid) (ov : Qc) (wc : cid) (wv : Qc) : inner :=
  let inn := match get wc recs with Some i => i | None => [] end in
  let en := match get oc inn with Some e => e | None => {| pe_source := SLedger; pe_rates := [] |} end in
  let en' := if source_ltb (pe_source en) src then {| pe_source := src; pe_rates := [] |} else en in
  set oc {| pe_source := pe_source en'; pe_rates := pe_rates en' ++ [(date, wv / ov)] |} inn.

Lemma insert_impl_cell recs src date oc ov wc wv :
  insert_impl recs src date oc ov wc wv = set wc (new_cell recs src date oc ov wc wv) recs.
Proof. reflexivity. Qed.

Lemma new_cell_local (r r2 : records) src date oc ov wc wv :
  get wc r = get wc r2 -> new_cell r src date oc ov wc wv = new_cell r2 src date oc ov wc wv.
Proof. intros H. unfold new_cell. cbv zeta. rewrite H. reflexivity. Qed.

Lemma mm_get_default {V} (r r' : amap (amap V)) w :
  match get w r, get w r' with Some x, Some y => map_equiv x y | None, None => True | _, _ => False end ->
  map_equiv (match get w r with Some i => i | None => [] end) (match get w r' with Some i => i | None => [] end).
Proof. destruct (get w r), (get w r'); try contradiction; [auto|intros _; apply map_equiv_refl; constructor]. Qed.

Lemma new_cell_equiv (r r' : records) src date oc ov wc wv : rec_equiv r r' ->
  map_equiv (new_cell r src date oc ov wc wv) (new_cell r' src date oc ov wc wv).
Proof.
  intros [_ [_ C]]. specialize (C wc). pose proof (mm_get_default r r' wc C) as HI.
  unfold new_cell. cbv zeta. unfold inner in *.
  rewrite (map_equiv_get _ _ oc HI). apply map_equiv_set, HI.
Qed.

Lemma insert_impl_equiv (r r' : records) src date oc ov wc wv : rec_equiv r r' ->
  rec_equiv (insert_impl r src date oc ov wc wv) (insert_impl r' src date oc ov wc wv).
Proof. intros H. rewrite !insert_impl_cell. apply rec_set_equiv; [exact H|apply new_cell_equiv, H]. Qed.

(* insertions under two different outer keys commute *)
Lemma insert_impl_comm (r r' : records) s1 d1 oc1 ov1 wc1 wv1 s2 d2 oc2 ov2 wc2 wv2 :
  wc1 <> wc2 -> rec_equiv r r' ->
  rec_equiv (insert_impl (insert_impl r s1 d1 oc1 ov1 wc1 wv1) s2 d2 oc2 ov2 wc2 wv2)
            (insert_impl (insert_impl r' s2 d2 oc2 ov2 wc2 wv2) s1 d1 oc1 ov1 wc1 wv1).
Proof.
  intros Hne H. pose proof H as [A [B C]]. rewrite !insert_impl_cell.
  rewrite (new_cell_local (set wc1 _ r) r s2 d2 oc2 ov2 wc2 wv2)
    by (apply BookA_Maps.get_set_other; congruence).
  rewrite (new_cell_local (set wc2 _ r') r' s1 d1 oc1 ov1 wc1 wv1)
    by (apply BookA_Maps.get_set_other; congruence).
  split; [apply BookA_Maps.NoDup_keys_set, BookA_Maps.NoDup_keys_set, A|].
  split; [apply BookA_Maps.NoDup_keys_set, BookA_Maps.NoDup_keys_set, B|].
  intros k. rewrite !BookA_Maps.get_set.
  destruct (N.eqb_spec wc2 k) as [->|E2].
  - destruct (N.eqb_spec wc1 k) as [E|_]; [contradiction|]. apply new_cell_equiv, H.
  - destruct (N.eqb_spec wc1 k) as [->|E1]; [apply new_cell_equiv, H|apply C].
Qed.

Lemma insert_price_equiv (r r' : records) e e' : rec_equiv r r' -> ev_equiv e e' ->
  rec_equiv (insert_price r e) (insert_price r' e').
Proof.
  intros H [->|[-> Hne]]; unfold insert_price.
  - destruct (qc_zero (e_xv e) || qc_zero (e_yv e)); [exact H|]. apply insert_impl_equiv, insert_impl_equiv, H.
  - destruct e as [src d xc xv yc yv]. cbn [ev_swap e_source e_date e_xc e_xv e_yc e_yv] in *.
    rewrite (orb_comm (qc_zero yv)). destruct (qc_zero xv || qc_zero yv); [exact H|].
    apply insert_impl_comm; [congruence|exact H].
Qed.

Lemma fold_insert_price_equiv evs evs' : Forall2 ev_equiv evs evs' -> forall r r', rec_equiv r r' ->
  rec_equiv (fold_left insert_price evs r) (fold_left insert_price evs' r').
Proof. induction 1 as [|e e' l l' He _ IH]; intros r r' Hr; cbn [fold_left]; [exact Hr|]. apply IH, insert_price_equiv; assumption. Qed.

Lemma load_price_db_equiv db : forall r r', rec_equiv r r' -> rec_equiv (load_price_db r db) (load_price_db r' db).
Proof.
  unfold load_price_db. induction db as [|l db IH]; intros r r' H; cbn [fold_left]; [exact H|].
  apply IH, insert_price_equiv; [exact H|left; reflexivity].
Qed.

Lemma build_equiv (r r' : records) : rec_equiv r r' -> rec_equiv (build r) (build r').
Proof.
  intros [A [B C]]. unfold build.
  set (fi := fun wi : cid * inner =>
               map (fun oe => (fst oe, {| pe_source := pe_source (snd oe); pe_rates := dr_sort (pe_rates (snd oe)) |})) (snd wi)).
  change (rec_equiv (map (fun wi => (fst wi, fi wi)) r) (map (fun wi => (fst wi, fi wi)) r')).
  split; [rewrite BookA_Maps.keys_map_snd; exact A|split; [rewrite BookA_Maps.keys_map_snd; exact B|]].
  intros k. rewrite !(BookA_Maps.get_map_snd fi (fun w i => fi (w, i))) by (intros [? ?]; reflexivity).
  specialize (C k). destruct (get k r), (get k r'); cbn [option_map]; try contradiction; [|exact I].
  unfold fi. cbn [snd].
  apply (map_equiv_map_snd (fun oe => {| pe_source := pe_source (snd oe); pe_rates := dr_sort (pe_rates (snd oe)) |})), C.
Qed.

Theorem repository_equiv evs evs' db : Forall2 ev_equiv evs evs' ->
  rec_equiv (repository evs db) (repository evs' db).
Proof.
  intros H. unfold repository. apply build_equiv, load_price_db_equiv, fold_insert_price_equiv; [exact H|apply rec_equiv_nil].
Qed.
