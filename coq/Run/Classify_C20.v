(* Correspondence classifier for C20 (golden-file helper).  One verdict per case:
   0 Agree | 1 ModelMismatch | 2 PropertyFail | 9 harness error.
   A case is one use of the real okane_golden::Golden on a scratch file: the file's bytes (or
   its absence) and UPDATE_GOLDEN before Golden::new, UPDATE_GOLDEN before Golden::assert, the
   `got` string, and what was observed. *)
From Coq Require Import List NArith Bool.
From Okv Require Import Model.Golden.
Import ListNotations.
Open Scope N_scope.

(* Long texts are written by the harness in a lossless run-length form (coq::bytes_term): the
   text is the concatenation of `unit` repeated `count` times, segment after segment.
   Evaluation glue only; every comparison below is made on the expanded text. *)
Definition RLE (segs : list (N * text)) : text :=
  flat_map (fun '(n, u) => N.iter n (fun acc => u ++ acc) []) segs.

Record obs := {
  o_new : N;              (* 0 Ok | 1 Err NotFound | 2 Err of another kind | 3 panic *)
  o_file1 : option text;  (* bytes at the path after Golden::new (None: nothing there) *)
  o_touched1 : bool;      (* existence or mtime changed during Golden::new *)
  o_assert : N;           (* 0 not called | 1 returned | 2 panicked with the comparison message | 3 other panic *)
  o_file2 : option text;  (* bytes at the path at the end *)
  o_touched2 : bool       (* existence or mtime changed during Golden::assert *)
}.

(* the rest of the directory of the golden file - every entry but the golden file itself, as
   (relative name, bytes), directories with a trailing `/`, sorted by name - listed before
   Golden::new, after it and after Golden::assert, and whether any name or modification time
   changed during the one or the other *)
Record dirobs := {
  d_before : list (text * text);
  d_new : list (text * text);
  d_assert : list (text * text);
  d_touched1 : bool;
  d_touched2 : bool
}.
Definition DirObs a b c t1 t2 :=
  {| d_before := a; d_new := b; d_assert := c; d_touched1 := t1; d_touched2 := t2 |}.

Fixpoint dir_eqb (a b : list (text * text)) : bool :=
  match a, b with
  | [], [] => true
  | (n1, c1) :: a', (n2, c2) :: b' => text_eqb n1 n2 && text_eqb c1 c2 && dir_eqb a' b'
  | _, _ => false
  end.

(* "never creates or modifies any file" for every file that is not the golden file: whatever
   UPDATE_GOLDEN holds, nothing appears, disappears, changes or is rewritten beside it *)
Definition dir_untouched (d : dirobs) : bool :=
  dir_eqb (d_new d) (d_before d) && dir_eqb (d_assert d) (d_before d) &&
  negb (d_touched1 d) && negb (d_touched2 d).

Inductive case :=
| One (f : option text) (env_new env_assert : option text) (got : text) (o : obs) (d : dirobs).

Definition Obs a b c d e f := {| o_new := a; o_file1 := b; o_touched1 := c; o_assert := d; o_file2 := e; o_touched2 := f |}.

Definition opt_text_eqb (a b : option text) : bool :=
  match a, b with
  | None, None => true
  | Some x, Some y => text_eqb x y
  | _, _ => false
  end.

(* "set to a non-empty value", read off the case, not off the model *)
Definition nonempty (e : option text) : bool :=
  match e with Some (_ :: _) => true | _ => false end.

(* The property, evaluated on what the implementation did. *)
Definition spec_holds (f : option text) (e1 e2 : option text) (got : text) (o : obs) : bool :=
  let u1 := nonempty e1 in
  let u2 := nonempty e2 in
  negb (o_new o =? 3) &&
  (* unless the variable is set to a non-empty value: no file created or modified by new,
     and a missing golden file is an error (a present one is not) *)
  (u1 || (opt_text_eqb (o_file1 o) f && negb (o_touched1 o))) &&
  (u1 || match f with None => o_new o =? 1 | Some _ => o_new o =? 0 end) &&
  match o_new o with
  | 0 =>
      if u2 then
        (* when it is set, the file afterwards contains exactly got (and the assertion holds) *)
        opt_text_eqb (o_file2 o) (Some got) && (o_assert o =? 1)
      else
        opt_text_eqb (o_file2 o) (o_file1 o) && negb (o_touched2 o) &&
        match f with
        | Some c =>
            (* succeeds exactly when got equals the content with CRLF normalised; panics otherwise *)
            if text_eqb got (normalise c) then o_assert o =? 1 else o_assert o =? 2
        | None => (o_assert o =? 1) || (o_assert o =? 2)
        end
  | _ => (o_assert o =? 0) && opt_text_eqb (o_file2 o) (o_file1 o) && negb (o_touched2 o)
  end.

Definition model_obs (f : option text) (e1 e2 : option text) (got : text) : obs :=
  let w := {| file := f; env := e1 |} in
  match golden_new w with
  | (w1, NewErr NotFound) => Obs 1 (file w1) false 0 (file w1) false
  | (w1, NewOk g) =>
      let wa := set_env w1 e2 in
      let (w2, r) := golden_assert wa g got in
      Obs 0 (file w1) false (match r with Pass => 1 | AssertPanic => 2 end) (file w2) (is_update_golden wa)
  end.

Definition obs_eqb (a b : obs) : bool :=
  (o_new a =? o_new b) && opt_text_eqb (o_file1 a) (o_file1 b) && Bool.eqb (o_touched1 a) (o_touched1 b) &&
  (o_assert a =? o_assert b) && opt_text_eqb (o_file2 a) (o_file2 b) && Bool.eqb (o_touched2 a) (o_touched2 b).

(* the model on the whole directory (Model/Golden.v dirworld): what it leaves beside the file *)
Definition model_dir (f : option text) (e1 e2 : option text) (got : text) (d : dirobs) : list (text * text) :=
  others (fst (dir_session {| dw := {| file := f; env := e1 |}; others := d_before d |} e2 got)).

Definition classify (c : case) : N :=
  match c with
  | One f e1 e2 got o d =>
      if negb (spec_holds f e1 e2 got o && dir_untouched d) then 2
      else if obs_eqb o (model_obs f e1 e2 got) && dir_eqb (d_assert d) (model_dir f e1 e2 got d) then 0 else 1
  end.

Definition verdicts (cs : list case) : list N := map classify cs.
