(* Declarative meaning of a pattern of literals, `?` and `*` under okane's match options:
   `gmatch follows ts s` — the tokens ts match the whole string s, where `follows` says that
   s begins right after a separator (or at the start of the path).
   - a literal matches itself (a separator and a dot included);
   - `?` matches one character that is neither a separator nor a dot right after a separator;
   - `*` matches a possibly empty run of such characters (only its first character can be
     right after a separator).  *)
From Coq Require Import List NArith Bool.
From Okv Require Import Model.Glob.
Import ListNotations.
Open Scope N_scope.

Definition wild_ok (follows : bool) (c : N) : bool :=
  negb (is_sep c) && negb (follows && (c =? DOT)).

Inductive gmatch : bool -> list token -> str -> Prop :=
| GM_nil : forall f, gmatch f [] []
| GM_char : forall f c ts s,
    gmatch (is_sep c) ts s -> gmatch f (Char c :: ts) (c :: s)
| GM_any : forall f c ts s,
    wild_ok f c = true -> gmatch false ts s -> gmatch f (AnyChar :: ts) (c :: s)
| GM_seq_nil : forall f ts s,
    gmatch f ts s -> gmatch f (AnySequence :: ts) s
| GM_seq_cons : forall f c ts s,
    wild_ok f c = true -> gmatch false (AnySequence :: ts) s -> gmatch f (AnySequence :: ts) (c :: s).
