(* The importers' matcher adapters as instances of the abstract `matches` of
   Model/ImpExtract.v: what a `payee` matcher of a later rule is applied to, and the Viseca
   record view in terms of the rules that hit (Model/ImpVisecaMatch.v). *)
From Coq Require Import List NArith Bool.
From Okv Require Import Model.ImpConfig Model.ImpConfigSpec Model.ImpExtract Model.ImpExtractSpec
     Model.ImpSingleEntry Model.ImpCsv Model.ImpCamtMatch Model.ImpVisecaMatch
     Proofs.ImpExtractProofs.
Import ListNotations.

Section Adapters.
  Context {P : Type}.
  Variable cap : P -> str -> option captures.

  (* the payee left by the rules before: the one the last hit that set or captured a payee gave *)
  Lemma payee_after_rules : forall R (matches : rewrite_field * P -> R -> frag -> option captures)
      (rs : list (rule P)) (e : R),
    g_payee (extract matches rs e) = spec_payee (hits matches frag0 rs e).
  Proof. intros. rewrite extract_hits. reflexivity. Qed.

  Lemma viseca_payee_seen : forall (rs : list (rule P)) (e : viseca_entity) (p : P),
    viseca_matches cap (RPayee, p) e (extract (viseca_matches cap) rs e)
    = cap p (match spec_payee (hits (viseca_matches cap) frag0 rs e) with
             | Some q => q | None => ve_payee e end).
  Proof. intros. unfold viseca_matches. cbn [fst snd]. rewrite payee_after_rules. reflexivity. Qed.

  Lemma viseca_category_seen : forall (e : viseca_entity) (p : P) (f : frag),
    viseca_matches cap (RCategory, p) e f = cap p (ve_category e).
  Proof. reflexivity. Qed.

  Lemma csv_payee_seen : forall (rs : list (rule P)) (e : record) (p : P),
    csv_matches cap (RPayee, p) e (extract (csv_matches cap) rs e)
    = cap p (match spec_payee (hits (csv_matches cap) frag0 rs e) with
             | Some q => q | None => rc_payee e end).
  Proof. intros. unfold csv_matches. cbn [fst snd]. rewrite payee_after_rules. reflexivity. Qed.

  Lemma camt_payee_seen : forall (rs : list (rule P)) (e : camt_entity) (p : P),
    camt_matches cap (RPayee, p) e (extract (camt_matches cap) rs e)
    = match spec_payee (hits (camt_matches cap) frag0 rs e) with
      | Some q => cap p q | None => None end.
  Proof. intros. unfold camt_matches. cbn [fst snd]. rewrite payee_after_rules. reflexivity. Qed.

  Lemma viseca_view_hits : forall (rules : list (rule P)) (e : viseca_entity),
    let hs := hits (viseca_matches cap) frag0 (compile rules) e in
    viseca_record_view cap rules e
    = {| vv_payee := one_line (match spec_payee hs with Some q => q | None => ve_payee e end);
         vv_code := option_map one_line (spec_code hs);
         vv_dest := spec_account hs;
         vv_pending := negb (spec_cleared hs) |}.
  Proof.
    intros. subst hs. unfold viseca_record_view, viseca_fragment. rewrite extract_hits. reflexivity.
  Qed.
End Adapters.

(* satisfiable: a rule that rewrites the payee, then a rule on the rewritten payee *)
Definition ex_cap (p : str) (s : str) : option captures :=
  if contains s p then Some {| m_payee := Some p; m_code := None |} else None.
Definition ex_v_rules : list (rule str) :=
  [ {| r_matcher := [[(RPayee, [77;105;103]%N)]]; r_pending := false; r_payee := None; r_account := None;
       r_conversion := None |};
    {| r_matcher := [[(RPayee, [77;105]%N)]]; r_pending := false; r_payee := None;
       r_account := Some [70]%N; r_conversion := None |} ].
Definition ex_v_record : viseca_entity :=
  {| ve_payee := [77;105;103;114;111;115]%N; ve_category := []; ve_debit := true; ve_fee := false |}.
Example ex_viseca_view :
  viseca_record_view ex_cap ex_v_rules ex_v_record
  = {| vv_payee := [77;105]%N; vv_code := None; vv_dest := Some [70]%N; vv_pending := false |}.
Proof. reflexivity. Qed.
