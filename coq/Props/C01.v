(* C01 — accepted transactions balance; unbalanced ones are rejected, not crashed on.
   Theorems only.  Vocabulary: Model/BookSpec.v (all_zero, two_opposite, balanced,
   unconstrained, posting_bv, spec_bv, sum_bvs, bal_before).  All theorems hold for every
   state s (reachable or not), every transaction and every entry list. *)
From Coq Require Import List NArith ZArith Bool QArith Qcanon Permutation.
From Okv Require Import Base.Maps.
From Okv Require Import Base.Dec.
From Okv Require Import Model.Amount.
From Okv Require Import Model.Book.
From Okv Require Import Model.BookSpec.
From Okv Require Import Proofs.BookA_Amount.
From Okv Require Import Proofs.BookA_Check.
From Okv Require Import Proofs.BookA_Posting.
From Okv Require Import Proofs.BookA_Loop.
From Okv Require Import Proofs.BookA_Txn.
From Okv Require Import Proofs.BookA_Examples.
Import ListNotations.
Open Scope Qc_scope.

(* (1) check_balance accepts exactly the balanced residuals: the rounded residual is all zero,
   or, zero entries dropped, exactly two entries remain, one negative and one positive
   (`balanced`, stated without reference to the list order); every other residual yields
   UnbalancedPostings carrying the rounded residual without its zero entries.  In particular
   it never returns Panic (the Decimal division is not reachable with a zero divisor). *)
Theorem C01_check_balance_iff : forall f d posts r,
  ((exists x, check_balance f d posts r = Ok x) <-> balanced f r) /\
  (~ balanced f r ->
   check_balance f d posts r = Err (UnbalancedPostings (a_remove_zeros (a_round f r)))).
Proof. exact check_balance_iff. Qed.
Print Assumptions C01_check_balance_iff.

(* the verdict does not depend on the iteration order of the residual map *)
Theorem C01_check_balance_order_independent : forall f d posts r r',
  Permutation r r' ->
  ((exists x, check_balance f d posts r = Ok x) <-> (exists x, check_balance f d posts r' = Ok x)).
Proof. exact check_balance_perm_accept. Qed.
Print Assumptions C01_check_balance_order_independent.

(* nor do the postings it returns, when the residual has distinct commodities (only the
   orientation of the implied price event follows the order) *)
Theorem C01_check_balance_posts_order_independent : forall f d posts r r' ps ev ps' ev',
  NoDup (keys r) -> Permutation r r' ->
  check_balance f d posts r = Ok (ps, ev) ->
  check_balance f d posts r' = Ok (ps', ev') ->
  ps = ps'.
Proof. exact check_balance_perm_posts. Qed.
Print Assumptions C01_check_balance_posts_order_independent.

(* a rejected residual is rejected in any order, the error listing the same entries *)
Theorem C01_check_balance_error_order_independent : forall f d posts r r' e,
  Permutation r r' -> check_balance f d posts r = Err e ->
  exists z z', e = UnbalancedPostings z /\
               check_balance f d posts r' = Err (UnbalancedPostings z') /\ Permutation z z'.
Proof. exact check_balance_perm_err. Qed.
Print Assumptions C01_check_balance_error_order_independent.

(* (2) no transaction makes book-keeping panic, in any state: the unreachable!() of
   posting_price_event and the division of check_balance are not reachable *)
Theorem C01_no_panic : forall s t, add_transaction s t <> Panic.
Proof. exact add_transaction_no_panic. Qed.
Print Assumptions C01_no_panic.

Theorem C01_process_no_panic : forall es, fst (process es) <> Panic.
Proof. exact process_no_panic. Qed.
Print Assumptions C01_process_no_panic.

(* (3) when the posting loop succeeds (expressions evaluate, annotations are admissible,
   assertions hold, at most one posting is unconstrained) the transaction is accepted iff one
   amount was omitted or the residual balances; otherwise the error is UnbalancedPostings *)
Theorem C01_accept_iff : forall s t st,
  txn_loop s t = Ok st ->
  ((exists s', add_transaction s t = Ok s') <->
   (l_unfilled st <> None \/ balanced (s_fmt s) (l_residual st))) /\
  (~ (l_unfilled st <> None \/ balanced (s_fmt s) (l_residual st)) ->
   add_transaction s t =
     Err (UnbalancedPostings (a_remove_zeros (a_round (s_fmt s) (l_residual st))))).
Proof. exact accept_iff. Qed.
Print Assumptions C01_accept_iff.

(* ... and a failure of the loop is the transaction's result *)
Theorem C01_loop_failure_propagates : forall s t,
  (forall e, txn_loop s t = Err e -> add_transaction s t = Err e) /\
  (txn_loop s t = Panic -> add_transaction s t = Panic).
Proof. exact loop_failure_propagates. Qed.
Print Assumptions C01_loop_failure_propagates.

(* `l_unfilled st = Some k` says exactly that posting k is the one written without amount and
   balance; a successful loop has at most one such posting *)
Theorem C01_unfilled_is_the_omitted_posting : forall s t st k p,
  txn_loop s t = Ok st -> nth_error (t_posts t) k = Some p ->
  (unconstrained p <-> l_unfilled st = Some k).
Proof. exact loop_unfilled_iff. Qed.
Print Assumptions C01_unfilled_is_the_omitted_posting.

(* (4) one omitted amount, or a residual that rounds to zero, is always accepted *)
Theorem C01_mandatory_accept : forall s t st,
  txn_loop s t = Ok st ->
  (l_unfilled st <> None \/ all_zero (a_round (s_fmt s) (l_residual st))) ->
  exists s', add_transaction s t = Ok s'.
Proof. exact mandatory_accept. Qed.
Print Assumptions C01_mandatory_accept.

(* (5) the residual is the sum of the postings' balancing values: posting_bv b p o, with b the
   running balance just before the posting, is None for the omitted posting, X - current for
   an assignment, and spec_bv (lot price applied, else cost applied, else the amount) for an
   explicit amount *)
Theorem C01_residual_is_sum_of_balancing_values : forall s t st,
  txn_loop s t = Ok st ->
  exists bvs,
    length bvs = length (t_posts t) /\
    l_residual st = sum_bvs bvs /\
    forall k p, nth_error (t_posts t) k = Some p ->
      exists b o, bal_before s t k b /\ nth_error bvs k = Some o /\ posting_bv b p o.
Proof. exact residual_sum. Qed.
Print Assumptions C01_residual_is_sum_of_balancing_values.

(* read commodity by commodity *)
Theorem C01_residual_pointwise : forall bvs c,
  a_get (sum_bvs bvs) c = qc_sum (map (fun o => bv_get o c) bvs).
Proof. exact a_get_sum_bvs. Qed.
Print Assumptions C01_residual_pointwise.

(* the total-price rule of spec_bv in terms of the model's with_sign_of *)
Theorem C01_with_sign_of_spec : forall t q,
  with_sign_of t q = if Qclt_le_dec q 0 then - Qcabs.Qcabs t else Qcabs.Qcabs t.
Proof. exact with_sign_of_spec. Qed.
Print Assumptions C01_with_sign_of_spec.

(* (6) a failing run reports the index of a transaction; everything before it was processed,
   and the error is that transaction's *)
Theorem C01_error_names_transaction : forall es e k,
  process es = (Err e, k) ->
  (k < length es)%nat /\
  exists t s', nth_error es k = Some (ETxn t) /\
               process (firstn k es) = (Ok s', k) /\
               process_entry s' (ETxn t) = Err e.
Proof. exact error_names_transaction. Qed.
Print Assumptions C01_error_names_transaction.
