(* Declarative specification of loading (property C11): the big-step relation `expands`, and
   `cut_of`, the ways of cutting an entry sequence into a tree of files. *)
From Coq Require Import List NArith Bool Sorting.Sorted.
From Okv Require Import Model.Glob Model.GlobSpec Model.Load.
Import ListNotations.
Open Scope N_scope.

(* PathBuf order: component-wise *)
Definition path_lt (a b : path) : Prop := path_cmp a b = Lt.

(* file systems are finite maps: no path twice (HashMap keys; directory entries) *)
Definition wf_fs (fs : fsys) : Prop := NoDup (map fst fs).

(* the pattern that `include written` in the file at canonical path cp stands for: the written
   path joined to the directory of the including file, canonicalised, as one glob pattern *)
Definition target_tokens (cp : path) (written : str) : option (list token) :=
  match parent cp with
  | None => None
  | Some dir =>
      match parse_pattern (path_string (canonicalize (join dir written))) with
      | Tokens ts => Some ts
      | _ => None
      end
  end.

(* k is a file the include matches *)
Definition matching (fs : fsys) (cp : path) (written : str) (k : path) : Prop :=
  exists ts, target_tokens cp written = Some ts /\ In k (map fst fs) /\ gmatch true ts (path_string k).

(* ps is what the include stands for: all the files it matches, in increasing path order; at least one *)
Definition include_set (fs : fsys) (cp : path) (written : str) (ps : list path) : Prop :=
  ps <> [] /\ StronglySorted path_lt ps /\ (forall k, In k ps <-> matching fs cp written k).

(* expands fs p out: loading p delivers exactly out.  An include is replaced, in place, by the
   concatenation of the expansions of the files it stands for; every other entry is delivered
   with the canonical path of its file. *)
Inductive expands (fs : fsys) : path -> list (path * N) -> Prop :=
| Ex_file : forall p content out,
    In (canonicalize p, content) fs ->
    expands_entries fs (canonicalize p) content out ->
    expands fs p out
with expands_entries (fs : fsys) : path -> list entry -> list (path * N) -> Prop :=
| EE_nil : forall cp, expands_entries fs cp [] []
| EE_ent : forall cp id r out,
    expands_entries fs cp r out ->
    expands_entries fs cp (Ent id :: r) ((cp, id) :: out)
| EE_inc : forall cp w r ps o1 o2,
    include_set fs cp w ps ->
    expands_list fs ps o1 ->
    expands_entries fs cp r o2 ->
    expands_entries fs cp (Inc w :: r) (o1 ++ o2)
with expands_list (fs : fsys) : list path -> list (path * N) -> Prop :=
| EL_nil : expands_list fs [] []
| EL_cons : forall p ps o1 o2,
    expands fs p o1 -> expands_list fs ps o2 -> expands_list fs (p :: ps) (o1 ++ o2).

Scheme expands_mind := Minimality for expands Sort Prop
  with expands_entries_mind := Minimality for expands_entries Sort Prop
  with expands_list_mind := Minimality for expands_list Sort Prop.
Combined Scheme expands_mutind from expands_mind, expands_entries_mind, expands_list_mind.

(* cut_of fs p L: the tree of files reachable from p is a way of cutting the entry sequence L
   (entry ids, in order) at entry boundaries: each file holds some of the entries in order, and
   in between them includes — literal or glob — each standing for the files that hold the next
   stretch of L, taken in path order. *)
Inductive cut_of (fs : fsys) : path -> list N -> Prop :=
| Cut_file : forall p content L,
    In (canonicalize p, content) fs ->
    cut_entries fs (canonicalize p) content L ->
    cut_of fs p L
with cut_entries (fs : fsys) : path -> list entry -> list N -> Prop :=
| CE_nil : forall cp, cut_entries fs cp [] []
| CE_ent : forall cp id r L,
    cut_entries fs cp r L -> cut_entries fs cp (Ent id :: r) (id :: L)
| CE_inc : forall cp w r ps L1 L2,
    include_set fs cp w ps ->
    cut_list fs ps L1 ->
    cut_entries fs cp r L2 ->
    cut_entries fs cp (Inc w :: r) (L1 ++ L2)
with cut_list (fs : fsys) : list path -> list N -> Prop :=
| CL_nil : cut_list fs [] []
| CL_cons : forall p ps L1 L2,
    cut_of fs p L1 -> cut_list fs ps L2 -> cut_list fs (p :: ps) (L1 ++ L2).

Scheme cut_of_mind := Minimality for cut_of Sort Prop
  with cut_entries_mind := Minimality for cut_entries Sort Prop
  with cut_list_mind := Minimality for cut_list Sort Prop.
Combined Scheme cut_mutind from cut_of_mind, cut_entries_mind, cut_list_mind.
