//! C13: determinism.  The freshly built okane binary is run N times in fresh processes per
//! (input, command); all (exit, stdout, stderr) triples must be identical, and what the
//! first run printed must be what the model's render functions say, in printing order.
use crate::cli::Scratch;
use crate::coq::{self, Shards, Stats};
use crate::ledger::*;
use crate::price::{comm_of, from_iso, iso_date};
use crate::prng::Rng;
use crate::Opts;
use rust_decimal::Decimal;
use serde_json::json;
use std::collections::HashSet;
use std::process::Command;

struct RunOut {
    code: i32,
    stdout: String,
    stderr: String,
}

fn run_bin(bin: &str, args: &[String]) -> RunOut {
    let o = Command::new(bin)
        .args(args)
        .env_clear()
        .env("RUST_BACKTRACE", "0")
        .output()
        .expect("spawn okane");
    RunOut {
        code: o.status.code().unwrap_or(-1),
        stdout: String::from_utf8_lossy(&o.stdout).into_owned(),
        stderr: String::from_utf8_lossy(&o.stderr).into_owned(),
    }
}

/// "0" | "v C" | "(v C + v C)" -> sequence in printed order
fn parse_seq(s: &str) -> Vec<(usize, Decimal)> {
    let s = s.trim();
    let mut out = Vec::new();
    if s == "0" {
        return out;
    }
    let body = s.trim_start_matches('(').trim_end_matches(')');
    for part in body.split(" + ") {
        let mut it = part.trim().splitn(2, ' ');
        let v = it.next().unwrap_or("0");
        let c = it.next().unwrap_or("");
        if let Ok(d) = v.parse::<Decimal>() {
            out.push((COMMODITIES.iter().position(|x| *x == c).unwrap_or(999), d));
        }
    }
    out
}

fn strip_ansi(s: &str) -> String {
    let mut out = String::new();
    let mut it = s.chars().peekable();
    while let Some(c) = it.next() {
        if c == '\u{1b}' {
            // ESC [ ... letter
            for d in it.by_ref() {
                if d.is_ascii_alphabetic() {
                    break;
                }
            }
        } else {
            out.push(c);
        }
    }
    out
}

fn seq_term(s: &[(usize, Decimal)]) -> String {
    coq::list(s.iter().map(|(c, v)| format!("({}, {})", c, dec_term(v))))
}

fn account_id(s: &str) -> usize {
    ACCOUNTS.iter().position(|a| *a == s).unwrap_or(999)
}


/// one command line on a ledger file
#[derive(Clone, Debug)]
enum Cmd {
    Plain(&'static str),
    /// balance -X T (--historical | --now D) [--start S] [--end E]
    Bal { target: usize, now: Option<i32>, start: Option<i32>, end: Option<i32> },
    /// primitive eval --date D -X T "(v1 C1 + v2 C2 ...)"
    Eval { terms: Vec<(usize, i64)>, target: usize, date: i32 },
}

impl Cmd {
    fn args(&self, path: &str) -> Vec<String> {
        let s = |x: &str| x.to_string();
        match self {
            Cmd::Plain(c) => vec![s(c), s(path)],
            Cmd::Bal { target, now, start, end } => {
                let mut a = vec![s("balance"), s(path), s("-X"), s(COMMODITIES[*target]), s("--now"), iso_date(now.unwrap_or(0))];
                if now.is_none() {
                    a.push(s("--historical"));
                }
                if let Some(d) = start {
                    a.push(s("--start"));
                    a.push(iso_date(*d));
                }
                if let Some(d) = end {
                    a.push(s("--end"));
                    a.push(iso_date(*d));
                }
                a
            }
            Cmd::Eval { terms, target, date } => {
                let e: Vec<String> = terms.iter().map(|(c, v)| format!("{} {}", v, COMMODITIES[*c])).collect();
                vec![s("primitive"), s("eval"), s("--date"), iso_date(*date), s("-f"), s(path), s("-X"), s(COMMODITIES[*target]), e.join(" + ")]
            }
        }
    }
    fn label(&self) -> String {
        match self {
            Cmd::Plain(c) => c.to_string(),
            Cmd::Bal { now: None, start, end, .. } => format!("balance-X-historical{}", if start.is_some() || end.is_some() { "-ranged" } else { "" }),
            Cmd::Bal { start, end, .. } => format!("balance-X{}", if start.is_some() || end.is_some() { "-ranged" } else { "" }),
            Cmd::Eval { .. } => "eval-X".to_string(),
        }
    }
    fn query_term(&self) -> Option<String> {
        let od = |d: &Option<i32>| coq::opt(d.map(|x| coq::z(x as i128)));
        match self {
            Cmd::Plain(_) => None,
            Cmd::Bal { target, now, start, end } => Some(format!("(XQ {} {} {} {})", target, od(now), od(start), od(end))),
            Cmd::Eval { terms, target, date } => Some(format!(
                "(XE {} {} {})",
                coq::list(terms.iter().map(|(c, v)| format!("({}, {})", c, dec_term(&Decimal::new(*v, 0))))),
                target,
                coq::z(*date as i128)
            )),
        }
    }
}

/// N fresh processes: number of distinct (exit, stdout, stderr) triples and the first run
fn run_n(bin: &str, args: &[String], n: usize) -> (usize, RunOut) {
    let mut seen: HashSet<(i32, String, String)> = HashSet::new();
    let mut first: Option<RunOut> = None;
    for _ in 0..n {
        let out = run_bin(bin, args);
        seen.insert((out.code, out.stdout.clone(), out.stderr.clone()));
        if first.is_none() {
            first = Some(out);
        }
    }
    (seen.len(), first.unwrap())
}

/// `--> path:line:col` of a rendered diagnostic
fn arrow_line(plain: &str) -> Option<usize> {
    for l in plain.lines() {
        if let Some(rest) = l.trim_start().strip_prefix("--> ") {
            let parts: Vec<&str> = rest.rsplitn(3, ':').collect();
            if parts.len() == 3 {
                return parts[1].parse().ok();
            }
        }
    }
    None
}

/// what a failed run on a generated ledger said: a missing rate, or a diagnostic placed in an entry
fn fail_term(first: &RunOut, rd: &Rendered, multi: &mut bool) -> String {
    let plain = strip_ansi(&first.stderr);
    if let Some(i) = plain.find("commodity rate ") {
        // commodity rate V C into T at YYYY-MM-DD not found
        let rest = &plain[i + "commodity rate ".len()..];
        let line = rest.lines().next().unwrap_or("");
        let w: Vec<&str> = line.split(' ').collect();
        if w.len() == 8 && w[2] == "into" && w[4] == "at" && w[6] == "not" {
            if let (Ok(v), Some(c), Some(t), Some(d)) = (w[0].parse::<Decimal>(), comm_of(w[1]), comm_of(w[3]), from_iso(w[5])) {
                return format!("(OConvErr {} {} {} {})", c, dec_term(&v), t, coq::z(d as i128));
            }
        }
        return "OOpaque".to_string();
    }
    if let Some(line) = arrow_line(&plain) {
        let k = rd.entry_line.iter().rposition(|l| *l <= line).unwrap_or(0);
        let (kind, res) = if let Some(l) = plain.lines().find(|l| l.contains("unbalanced postings: ")) {
            let sq = parse_seq(l.split("unbalanced postings: ").nth(1).unwrap_or(""));
            if sq.len() >= 2 {
                *multi = true;
            }
            (1, format!("(Some {})", seq_term(&sq)))
        } else if plain.contains("balance assertion off by") {
            (2, "None".to_string())
        } else {
            (3, "None".to_string())
        };
        return format!("(OBookErr {}%nat {} {})", k, kind, res);
    }
    "OOpaque".to_string()
}

fn commodities_of(es: &[Entry]) -> Vec<usize> {
    fn ve(v: &VE, out: &mut std::collections::BTreeSet<usize>) {
        match v {
            VE::Amt(l) => {
                if let Some(c) = l.comm {
                    out.insert(c);
                }
            }
            VE::Paren(e) => ex(e, out),
        }
    }
    fn ex(e: &Ex, out: &mut std::collections::BTreeSet<usize>) {
        match e {
            Ex::Neg(a) => ex(a, out),
            Ex::Bin(_, a, b) => {
                ex(a, out);
                ex(b, out);
            }
            Ex::Val(v) => ve(v, out),
        }
    }
    let mut out = std::collections::BTreeSet::new();
    for e in es {
        match e {
            Entry::Format(c, _, _) => {
                out.insert(*c);
            }
            Entry::Comment => {}
            Entry::Txn(t) => {
                for p in &t.posts {
                    for v in [&p.amount, &p.balance].into_iter().flatten() {
                        ve(v, &mut out);
                    }
                    for x in [&p.cost, &p.lot].into_iter().flatten() {
                        match x {
                            Exch::Total(v) | Exch::Rate(v) => ve(v, &mut out),
                        }
                    }
                }
            }
        }
    }
    out.into_iter().collect()
}

fn dates_of(es: &[Entry]) -> Vec<i32> {
    let mut d: Vec<i32> = es.iter().filter_map(|e| if let Entry::Txn(t) = e { Some(t.date) } else { None }).collect();
    d.sort();
    d.dedup();
    d
}

// ---- ledgers with several independent failures ----
const REAL_ACCOUNTS: [usize; 5] = [0, 1, 3, 4, 5]; // every account but Equity:Opening
const EQUITY_ACCT: usize = 2;

fn lit(m: i64, scale: u32, c: usize) -> VE {
    VE::Amt(Lit { m, scale, comm: Some(c), grouped: false })
}
fn post(account: usize, amount: Option<VE>) -> Posting {
    Posting { account, amount, cost: None, lot: None, balance: None }
}
/// holdings booked against an omitted Equity:Opening posting
fn hold(date: i32, ps: &[(usize, i64, u32, usize)]) -> Entry {
    let mut posts: Vec<Posting> = ps.iter().map(|(a, m, s, c)| post(*a, Some(lit(*m, *s, *c)))).collect();
    posts.push(post(EQUITY_ACCT, None));
    Entry::Txn(Txn { date, effective: None, posts, head: Head::default() })
}
/// a rate x -> y on `date`: `Equity:Opening  0 X @ r Y` (the form the C10 cases use)
fn quote(date: i32, x: usize, m: i64, s: u32, y: usize) -> Entry {
    let mut p = post(EQUITY_ACCT, Some(lit(0, 0, x)));
    p.cost = Some(Exch::Rate(lit(m, s, y)));
    Entry::Txn(Txn { date, effective: None, posts: vec![p, post(EQUITY_ACCT, None)], head: Head::default() })
}
fn nonzero(r: &mut Rng) -> (i64, u32) {
    let scale = *r.pick(&[0u32, 0, 2, 3]);
    let m = r.range(1, 5000) * if r.chance(1, 3) { -1 } else { 1 };
    (m, scale)
}

#[derive(Clone, Copy, Debug)]
enum Failing {
    Assertion,
    Unbalanced2,
    Unbalanced3,
    EvalError,
    Undeducible,
    ZeroRate,
}

/// one transaction that book-keeping rejects, built from accounts / commodities chosen by the caller
fn failing_txn(r: &mut Rng, f: Failing, date: i32, k: usize) -> Entry {
    let a = REAL_ACCOUNTS[k % 5];
    let b = REAL_ACCOUNTS[(k + 1 + r.below(4) as usize) % 5];
    let c1 = (k + r.below(5) as usize) % 5;
    let c2 = (c1 + 1 + r.below(2) as usize) % 5;
    let c3 = (c2 + 1 + r.below(2) as usize) % 5;
    let v = r.range(1, 900);
    let posts = match f {
        Failing::Assertion => {
            // the asserted total of (account, commodity) is off by a whole amount whatever was held before
            let mut p = post(a, Some(lit(v, 0, c1)));
            p.balance = Some(lit(1_000_000 + v + r.range(1, 50), 0, c1));
            vec![p, post(EQUITY_ACCT, None)]
        }
        Failing::Unbalanced2 => vec![post(a, Some(lit(v + 10, 0, c1))), post(b, Some(lit(-v, 0, c1)))],
        Failing::Unbalanced3 => {
            let c3 = (0..5).map(|i| (c3 + i) % 5).find(|c| *c != c1 && *c != c2).unwrap();
            vec![post(a, Some(lit(v, 0, c1))), post(b, Some(lit(v + 3, 0, c2))), post(EQUITY_ACCT, Some(lit(-v - 7, 0, c3)))]
        }
        Failing::EvalError => {
            let e = Ex::Bin(Op::Mul, Box::new(Ex::Val(Box::new(lit(v, 0, c1)))), Box::new(Ex::Val(Box::new(lit(2, 0, c2)))));
            vec![post(a, Some(VE::Paren(Box::new(e)))), post(EQUITY_ACCT, None)]
        }
        Failing::Undeducible => vec![post(a, Some(lit(v, 0, c1))), post(b, None), post(EQUITY_ACCT, None)],
        Failing::ZeroRate => {
            let mut p = post(a, Some(lit(v, 0, c1)));
            p.cost = Some(Exch::Rate(lit(0, 0, c2)));
            vec![p, post(EQUITY_ACCT, None)]
        }
    };
    Entry::Txn(Txn { date, effective: None, posts, head: Head::default() })
}

/// a ledger with several independent failures and the commands to run on it
fn gen_multi_failure(r: &mut Rng, k: usize) -> (Vec<Entry>, Vec<Cmd>, &'static str) {
    let mut comms: Vec<usize> = (0..COMMODITIES.len()).collect();
    r.shuffle(&mut comms);
    let target = comms[0];
    let others: Vec<usize> = comms[1..].to_vec();
    // distinct dates, NOT in file order: "the first in the file" and "the earliest" differ
    let mut dates: Vec<i32> = (0..12).map(|i| 3 + 7 * i + r.below(6) as i32).collect();
    r.shuffle(&mut dates);
    let mut es: Vec<Entry> = Vec::new();
    let valid = |r: &mut Rng, date: i32| {
        let (m, s) = nonzero(r);
        hold(date, &[(*r.pick(&REAL_ACCOUNTS), m, s, target)])
    };
    match k % 4 {
        0 => {
            // several amounts without a rate into the target: different dates, accounts, commodities
            let n = 3 + r.below(3) as usize;
            for i in 0..n {
                let c = others[i % others.len()];
                let (m, s) = nonzero(r);
                let mut ps = vec![(*r.pick(&REAL_ACCOUNTS), m, s, c)];
                if r.chance(1, 2) {
                    let (m2, s2) = nonzero(r);
                    ps.push((*r.pick(&REAL_ACCOUNTS), m2, s2, others[(i + 1 + r.below(3) as usize) % others.len()]));
                }
                if r.chance(1, 3) {
                    let (m3, s3) = nonzero(r);
                    ps.push((*r.pick(&REAL_ACCOUNTS), m3, s3, target));
                }
                es.push(hold(dates[i], &ps));
                if r.chance(1, 3) {
                    es.push(valid(r, dates[6 + i % 5]));
                }
            }
            // one of the commodities may get a rate, somewhere in the file, at some date
            let dq = dates[11];
            if r.chance(2, 3) {
                let at = r.below(es.len() as u64 + 1) as usize;
                es.insert(at, quote(dq, others[r.below(2) as usize], r.range(2, 300), *r.pick(&[0u32, 2]), target));
            }
            let mut sd = dates[..n].to_vec();
            sd.sort();
            let lo = sd[r.below(n as u64) as usize];
            let hi = sd[r.below(n as u64) as usize].max(lo) + r.below(3) as i32;
            let terms: Vec<(usize, i64)> = others.iter().take(2 + r.below(3) as usize).map(|c| (*c, r.range(1, 90))).collect();
            let cmds = vec![
                Cmd::Plain("balance"),
                Cmd::Bal { target, now: None, start: None, end: None },
                Cmd::Bal { target, now: None, start: Some(lo), end: Some(hi + 1) },
                Cmd::Bal { target, now: None, start: if r.chance(1, 2) { Some(lo) } else { None }, end: if r.chance(1, 2) { Some(hi) } else { None } },
                Cmd::Bal { target, now: Some(120), start: None, end: None },
                Cmd::Bal { target, now: Some(dq - 1), start: Some(lo), end: None },
                Cmd::Eval { terms: terms.clone(), target, date: 120 },
                Cmd::Eval { terms, target, date: dq - 1 },
                Cmd::Eval { terms: vec![(target, 3), (others[r.below(2) as usize], 2)], target, date: 120 },
            ];
            (es, cmds, "several-missing-rates")
        }
        1 => {
            let n = 2 + r.below(3) as usize;
            for i in 0..n {
                if r.chance(1, 2) {
                    es.push(valid(r, dates[6 + i]));
                }
                es.push(failing_txn(r, Failing::Assertion, dates[i], k / 4 + i));
            }
            let cmds = vec![Cmd::Plain("balance"), Cmd::Plain("register"), Cmd::Bal { target, now: None, start: None, end: None }];
            (es, cmds, "several-failing-assertions")
        }
        2 => {
            let n = 2 + r.below(3) as usize;
            for i in 0..n {
                if r.chance(1, 2) {
                    es.push(valid(r, dates[6 + i]));
                }
                let f = if r.chance(2, 3) { Failing::Unbalanced3 } else { Failing::Unbalanced2 };
                es.push(failing_txn(r, f, dates[i], k / 4 + i));
            }
            let cmds = vec![Cmd::Plain("balance"), Cmd::Plain("register"), Cmd::Bal { target, now: Some(120), start: None, end: None }];
            (es, cmds, "several-unbalanced")
        }
        _ => {
            let mut kinds = vec![Failing::Assertion, Failing::Unbalanced3, Failing::EvalError, Failing::Undeducible, Failing::ZeroRate, Failing::Unbalanced2];
            r.shuffle(&mut kinds);
            kinds.truncate(3 + r.below(3) as usize);
            for (i, f) in kinds.iter().enumerate() {
                if r.chance(1, 2) {
                    es.push(valid(r, dates[6 + i]));
                }
                if r.chance(1, 2) {
                    // an amount without a rate, in front of the entries that fail
                    let (m, s) = nonzero(r);
                    es.push(hold(dates[11 - i % 2], &[(*r.pick(&REAL_ACCOUNTS), m, s, others[i % others.len()])]));
                }
                es.push(failing_txn(r, *f, dates[i], k / 4 + i));
            }
            let cmds = vec![
                Cmd::Plain("balance"),
                Cmd::Plain("register"),
                Cmd::Plain("accounts"),
                Cmd::Plain("format"),
                Cmd::Bal { target, now: None, start: None, end: None },
                Cmd::Eval { terms: vec![(others[0], 1), (others[1], 2)], target, date: 60 },
            ];
            (es, cmds, "several-mixed-failures")
        }
    }
}

// ---- CSV imports: headers with near-duplicates of the configured labels, several failures ----
#[derive(Clone, Debug)]
enum Pos {
    Label(String),
    BadTemplate(String),
}

struct ImportCase {
    yml: String,
    csv: String,
    header: Vec<String>,
    /// (FieldKey code as in Run/ImpCase.v FK, position)
    fields: Vec<(usize, Pos)>,
    tag: &'static str,
}

/// (FieldKey code, yaml key, canonical label)
const FAMILIES: [(usize, &str, &str); 5] = [(0, "date", "Date"), (1, "payee", "Description"), (3, "note", "Memo"), (4, "amount", "Amount"), (2, "category", "Reference")];

fn label_variants(l: &str) -> Vec<String> {
    let mut v = vec![l.to_uppercase(), l.to_lowercase(), format!(" {}", l), format!("{} ", l), format!(" {} ", l), format!("  {}", l.to_lowercase()), format!("{} ", l.to_uppercase())];
    v.retain(|x| x != l);
    v.dedup();
    v
}

fn cell(fam: usize, row: usize, col: usize) -> String {
    match fam {
        0 => format!("2024-{:02}-{:02}", row + 1, 10 + col),
        1 => format!("Shop{}c{}", row, col),
        3 => format!("N{}c{}", row, col),
        4 => format!("-{}", 100 * (row + 1) + col),
        2 => "cat".to_string(),
        _ => "x".to_string(),
    }
}

fn gen_import_case(r: &mut Rng, k: usize) -> ImportCase {
    // columns of the statement: (label, family)
    let mut cols: Vec<(String, usize)> = Vec::new();
    let mut fields: Vec<(usize, Pos)> = Vec::new();
    // which families are perturbed, and how
    let mode = k % 8;
    let n_pert = match mode {
        6 => 2 + r.below(2) as usize, // several labels missing at once
        _ => 1 + r.below(2) as usize,
    };
    let mut order: Vec<usize> = (0..FAMILIES.len()).collect();
    r.shuffle(&mut order);
    let perturbed: Vec<usize> = order[..n_pert].to_vec();
    let mut tag = "import-near-duplicate-header";
    // templates that do not parse: two or three of payee / note / category
    let mut bad_templates: Vec<usize> = Vec::new();
    if mode == 7 {
        tag = "import-several-invalid-templates";
        let mut cand = vec![1usize, 2, 3];
        r.shuffle(&mut cand);
        cand.truncate(2 + r.below(2) as usize);
        bad_templates = cand;
    }
    for (fi, (key, _, canon)) in FAMILIES.iter().enumerate() {
        if *key == 2 && !perturbed.contains(&fi) && !bad_templates.contains(key) && r.chance(1, 2) {
            continue; // category is optional
        }
        if bad_templates.contains(key) {
            let t = match r.below(3) {
                0 => format!("{{bad_{}}} x", key),
                1 => format!("{{nokey{}", key),
                _ => format!("a {{{}x}} b", 90 + key),
            };
            fields.push((*key, Pos::BadTemplate(t)));
            continue;
        }
        let vars = label_variants(canon);
        if !perturbed.contains(&fi) {
            cols.push((canon.to_string(), *key));
            fields.push((*key, Pos::Label(canon.to_string())));
            continue;
        }
        let scenario = match mode {
            6 => *r.pick(&[1usize, 2, 4]),
            7 => *r.pick(&[0usize, 3, 0, 3, 1]),
            m => m,
        };
        let mut pick_vars = |r: &mut Rng, n: usize, not: &str| -> Vec<String> {
            let mut v: Vec<String> = vars.iter().filter(|x| x.as_str() != not).cloned().collect();
            r.shuffle(&mut v);
            v.truncate(n);
            v
        };
        let mut cfg = canon.to_string();
        match scenario {
            0 => {
                // the exact label and look-alikes
                cols.push((cfg.clone(), *key));
                let n_v = 1 + r.below(3) as usize;
                for v in pick_vars(r, n_v, "") {
                    cols.push((v, *key));
                }
            }
            1 => {
                // one look-alike only: not found
                let n_v = 1;
                for v in pick_vars(r, n_v, "") {
                    cols.push((v, *key));
                }
            }
            2 => {
                // several look-alikes, no exact label: not found
                let n_v = 2 + r.below(2) as usize;
                for v in pick_vars(r, n_v, "") {
                    cols.push((v, *key));
                }
            }
            3 => {
                // the exact label two or three times (the last column wins), maybe look-alikes
                for _ in 0..2 + r.below(2) {
                    cols.push((cfg.clone(), *key));
                }
                let n_v = r.below(3) as usize;
                for v in pick_vars(r, n_v, "") {
                    cols.push((v, *key));
                }
            }
            4 => {
                // the config spells the label in a third way: the canonical one and others are there
                cfg = vars[r.below(vars.len() as u64) as usize].clone();
                cols.push((canon.to_string(), *key));
                let n_v = 1 + r.below(2) as usize;
                for v in pick_vars(r, n_v, &cfg) {
                    cols.push((v, *key));
                }
            }
            _ => {
                // ... and the config's own spelling is there too
                cfg = vars[r.below(vars.len() as u64) as usize].clone();
                cols.push((canon.to_string(), *key));
                cols.push((cfg.clone(), *key));
                let n_v = r.below(3) as usize;
                for v in pick_vars(r, n_v, &cfg) {
                    cols.push((v, *key));
                }
            }
        }
        fields.push((*key, Pos::Label(cfg)));
    }
    for _ in 0..r.below(3) {
        cols.push((r.pick(&["Extra", "Saldo", "amount due", ""]).to_string(), 99));
    }
    r.shuffle(&mut cols);
    if mode == 6 {
        tag = "import-several-missing-labels";
    }
    let quote_all = r.chance(1, 3);
    let q = |x: &str| if quote_all || x.contains(',') { format!("\"{}\"", x) } else { x.to_string() };
    let mut csv = cols.iter().map(|(l, _)| q(l)).collect::<Vec<_>>().join(",");
    csv.push('\n');
    for row in 0..2 {
        csv.push_str(&cols.iter().enumerate().map(|(j, (_, fam))| q(&cell(*fam, row, j))).collect::<Vec<_>>().join(","));
        csv.push('\n');
    }
    let mut yml = String::from("path: stmt\nencoding: UTF-8\naccount: Assets:Bank\naccount_type: asset\ncommodity: CHF\nformat:\n  date: \"%Y-%m-%d\"\n  fields:\n");
    let mut fl = fields.clone();
    r.shuffle(&mut fl);
    for (key, pos) in &fl {
        let name = FAMILIES.iter().find(|f| f.0 == *key).unwrap().1;
        match pos {
            Pos::Label(l) => yml.push_str(&format!("    {}: {}\n", name, crate::impgen::yq(l))),
            Pos::BadTemplate(t) => yml.push_str(&format!("    {}:\n      template: {}\n", name, crate::impgen::yq(t))),
        }
    }
    ImportCase { yml, csv, header: cols.into_iter().map(|c| c.0).collect(), fields, tag }
}

/// run one import N times; -> (Coq term of the observation, replay json, status)
fn observe_import(bin: &str, scratch: &Scratch, dir: &str, yml: &str, csv: &str, fields: &[(usize, Pos)], n: usize) -> (String, serde_json::Value, u8) {
    let cfg = scratch.write(&format!("{}/config.yml", dir), yml);
    let src = scratch.write(&format!("{}/stmt.csv", dir), csv);
    let args = vec!["import".to_string(), "--config".to_string(), cfg.to_string_lossy().to_string(), src.to_string_lossy().to_string()];
    let (distinct, first) = run_n(bin, &args, n);
    let err = strip_ansi(&first.stderr);
    let mut picks: Vec<(usize, usize)> = Vec::new();
    let mut bad: Option<usize> = None;
    let status = if first.code == 0 {
        // the first transaction is the first row: which columns did its values come from?
        let mut lines = first.stdout.lines();
        if let Some(h) = lines.next() {
            let mut w = h.splitn(2, ' ');
            let date = w.next().unwrap_or("");
            if let Some(day) = date.rsplit('/').next().and_then(|d| d.parse::<usize>().ok()) {
                if day >= 10 {
                    picks.push((0, day - 10));
                }
            }
            let rest = w.next().unwrap_or("").trim_start_matches(|c| c == '*' || c == '!' || c == ' ');
            if let Some(j) = rest.strip_prefix("Shop0c").and_then(|x| x.parse::<usize>().ok()) {
                picks.push((1, j));
            }
        }
        for l in lines {
            let t = l.trim();
            if t.is_empty() {
                break;
            }
            if let Some(j) = t.strip_prefix("; N0c").and_then(|x| x.parse::<usize>().ok()) {
                picks.push((3, j));
            }
            if t.contains("Assets:Bank") {
                if let Some(v) = t.split_whitespace().rev().nth(1).and_then(|x| x.parse::<i64>().ok()) {
                    picks.push((4, (v.unsigned_abs() % 100) as usize));
                }
            }
        }
        0
    } else if err.contains("specified labels not found") {
        1
    } else if let Some((k, _)) = fields.iter().find(|(_, p)| matches!(p, Pos::BadTemplate(t) if err.contains(t.as_str()))) {
        bad = Some(*k);
        3
    } else {
        2
    };
    let term = format!(
        "(IO {} {} {} {})",
        distinct,
        status,
        coq::list(picks.iter().map(|(k, c)| format!("({}, {}%nat)", k, c))),
        coq::opt(bad.map(|k| k.to_string()))
    );
    let rep = json!({"property": "C13", "import_config": yml, "statement": csv, "distinct_outputs": distinct, "exit": first.code,
                     "stdout": first.stdout.chars().take(500).collect::<String>(), "stderr": err.chars().take(500).collect::<String>(),
                     "reproduce": "okane import --config config.yml stmt.csv, repeated in fresh processes"});
    (term, rep, status)
}

/// corpus / replay files that hold an import (`import_config` + `statement`)
fn corpus_imports(dir: &std::path::Path, extra: &[String]) -> Vec<(String, String)> {
    let mut files: Vec<std::path::PathBuf> = Vec::new();
    if let Some(i) = extra.iter().position(|a| a == "--replay") {
        if let Some(p) = extra.get(i + 1) {
            files.push(std::path::PathBuf::from(p));
        }
    } else if let Ok(rd) = std::fs::read_dir(dir) {
        files = rd.filter_map(|e| e.ok()).map(|e| e.path()).collect();
        files.sort();
    }
    let mut out = Vec::new();
    for p in files {
        if let Ok(text) = std::fs::read_to_string(&p) {
            if let Ok(v) = serde_json::from_str::<serde_json::Value>(&text) {
                if let (Some(c), Some(s)) = (v["import_config"].as_str(), v["statement"].as_str()) {
                    if !s.starts_with("cli/tests/") {
                        out.push((c.to_string(), s.to_string()));
                    }
                }
            }
        }
    }
    out
}

fn fields_term(fields: &[(usize, Pos)]) -> String {
    coq::list(fields.iter().map(|(k, p)| match p {
        Pos::Label(l) => format!("({}, LBL {})", k, crate::impgen::s_term(l)),
        Pos::BadTemplate(_) => format!("({}, BADT)", k),
    }))
}

/// split "Account name amount-text" where the account has no spaces in our generator
fn split_first_space(l: &str) -> (&str, &str) {
    match l.find(' ') {
        Some(i) => (&l[..i], &l[i + 1..]),
        None => (l, ""),
    }
}

/// an inline amount is either "0", "v C" or "( ... )": cut the first one off the front
fn take_inline(s: &str) -> (&str, &str) {
    let s = s.trim_start();
    if s.starts_with('(') {
        match s.find(')') {
            Some(i) => (&s[..=i], &s[i + 1..]),
            None => (s, ""),
        }
    } else if s.starts_with("0 ") || s == "0" {
        // "0" followed by the next amount, or "0 C"?  commodities never start with '(' or a digit
        let rest = &s[1..];
        let next = rest.trim_start();
        if next.is_empty() || next.starts_with('(') || next.starts_with('-') || next.chars().next().map(|c| c.is_ascii_digit()).unwrap_or(false) {
            ("0", rest)
        } else {
            // "0 USD ..."
            let mut it = next.splitn(2, ' ');
            let c = it.next().unwrap_or("");
            let after = it.next().unwrap_or("");
            (&s[..1 + (rest.len() - next.len()) + c.len()], after)
        }
    } else {
        // v C
        let mut parts = s.splitn(3, ' ');
        let v = parts.next().unwrap_or("");
        let c = parts.next().unwrap_or("");
        let rest = parts.next().unwrap_or("");
        (&s[..v.len() + 1 + c.len()], rest)
    }
}

pub fn run(o: &Opts) {
    let bin = std::env::var("OKV_OKANE_BIN").expect("OKV_OKANE_BIN");
    let mut st = Stats::new();
    let mut sh = Shards::new(&o.out, o.shards, &header("Classify_C13"));
    let n_runs = if o.thorough { 20 } else { 5 };
    st.rule = format!("generated ledgers biased to multi-commodity accounts, multi-commodity residuals and expression amounts; for each, `okane balance|register|accounts|format` and `balance -X T` (historical and up-to-date, with and without --start/--end, T a commodity of the ledger) run in {} fresh processes (fresh hash keys each); ledgers with SEVERAL independent failures (gen:several-*: amounts without a rate on different dates / accounts / commodities with dates out of file order, failing assertions, unbalanced transactions, a mix with ill-typed expressions, two unconstrained postings and zero rates, several syntax errors) under every command that can fail incl. `primitive eval -X`; what a failing run names (the entry of the `-->` line and the residual, or the amount, target and date of the missing rate) is compared with the model's first failure (book-keeping in file order; conversion in file order / account and commodity order: Model/CanonState.v balance_query_keyed); CSV imports whose header holds near-duplicates of the configured labels (case, blanks, repeated labels), several missing labels, several templates that do not parse, several bad rows: same outcome in every process and the outcome of FieldMap::try_new as modelled (Model/ImpCsv.v fieldmap_new: not found / which column); layered import configurations (2-4 documents whose paths all occur in the SOURCE string as given: all of equal length and different, two of equal length among others, the same path twice, all of different lengths; conflicting account / account_type / commodity and rewrite rules in every document) run as `okane import --config CFG SOURCE` in fresh processes: same output in every process, and the printed ledger read back equals what the C17 model makes of the records under select = stable sort of the matching documents by path length, file order among equals (Run/Classify_C13L.v wraps Run/Classify_C17.v classify); plus import of the repository's samples, generated rewrite rules, names differing in case, tied conversion chains; a case is one ledger with all its commands, or one import; non-trivial = some printed amount or error carried >= 2 commodities, or the case belongs to a several-failures / import stream; distinct by ledger text or (config, statement)", n_runs);
    st.assumptions.push("the clock is an input: no command that reads today's date is run without --now".into());
    let scratch = Scratch::new("c13");
    let (corpus, replay) = corpus_entries(&o.corpus, &o.extra);
    let mut r = Rng::new(o.seed, 113);
    let n = if replay { 0 } else if o.thorough { 600 } else { 110 };
    let plain4 = || vec![Cmd::Plain("balance"), Cmd::Plain("register"), Cmd::Plain("accounts"), Cmd::Plain("format")];
    // corpus and replay ledgers: the plain commands and, for every commodity of the ledger, both conversions
    let mut ledgers: Vec<(Vec<Entry>, &str, Vec<Cmd>, usize)> = corpus
        .into_iter()
        .map(|e| {
            let mut cmds = plain4();
            let last = dates_of(&e).last().copied().unwrap_or(0);
            for c in commodities_of(&e) {
                cmds.push(Cmd::Bal { target: c, now: None, start: None, end: None });
                cmds.push(Cmd::Bal { target: c, now: Some(last + 1), start: None, end: None });
            }
            (e, "corpus", cmds, n_runs.max(8))
        })
        .collect();
    for k in 0..n {
        let mut b = Bias::default_bias();
        b.max_txns = 6;
        b.expr_pct = 20;
        b.assert_pct = 5;
        b.wrong_assert_pct = 0;
        b.unbalanced_pct = if k % 3 == 0 { 70 } else { 5 };
        b.omit_pct = 45;
        let es = gen_ledger(&mut r, &b);
        // converted reports of the same ledger: a commodity of the ledger as target, at the
        // transaction dates (historical) and as of a date among them (up-to-date), now and then
        // over a date range; most have several amounts without a rate
        let mut cmds = plain4();
        let cs = commodities_of(&es);
        let ds = dates_of(&es);
        if !cs.is_empty() && !ds.is_empty() {
            let range = |r: &mut Rng| -> (Option<i32>, Option<i32>) {
                if r.chance(2, 3) {
                    (None, None)
                } else {
                    let a = *r.pick(&ds);
                    let b = *r.pick(&ds);
                    (if r.chance(2, 3) { Some(a.min(b)) } else { None }, if r.chance(2, 3) { Some(a.max(b) + r.below(2) as i32) } else { None })
                }
            };
            let (s1, e1) = range(&mut r);
            cmds.push(Cmd::Bal { target: *r.pick(&cs), now: None, start: s1, end: e1 });
            let (s2, e2) = range(&mut r);
            cmds.push(Cmd::Bal { target: *r.pick(&cs), now: Some(*r.pick(&ds) + r.below(3) as i32 - 1), start: s2, end: e2 });
        }
        ledgers.push((es, "random", cmds, n_runs));
    }
    // several independent failures in one ledger, for every command that can fail
    let n_multi = if replay { 0 } else if o.thorough { 160 } else { 32 };
    let mut rm = Rng::new(o.seed, 1130);
    for k in 0..n_multi {
        let (mut es, cmds, tag) = gen_multi_failure(&mut rm, k);
        vary_shapes_nth(&mut es, k);
        ledgers.push((es, tag, cmds, n_runs.max(8)));
    }
    for (idx, (es, tag, cmds, runs)) in ledgers.iter().enumerate() {
        let rd = render(es);
        let path = scratch.write(&format!("l{}.ledger", idx), &rd.text);
        let p = path.to_string_lossy().to_string();
        let mut runs_terms = Vec::new();
        let mut multi = false;
        let mut rep_runs = Vec::new();
        for cmd in cmds {
            let args = cmd.args(&p);
            let (distinct, first) = run_n(&bin, &args, *runs);
            let label = cmd.label();
            st.count(&format!("cmd:{}:{}", label, if first.code == 0 { "ok" } else { "fail" }));
            if distinct > 1 {
                st.count("nondeterministic");
            }
            let out_term = if first.code == 0 && label == "balance" {
                let lines: Vec<String> = first
                    .stdout
                    .lines()
                    .map(|l| {
                        let (a, rest) = l.split_once(": ").unwrap_or((l, ""));
                        let s = parse_seq(rest);
                        if s.len() >= 2 {
                            multi = true;
                        }
                        format!("({}, {})", account_id(a), seq_term(&s))
                    })
                    .collect();
                format!("(OBalance {})", coq::list(lines))
            } else if first.code == 0 && label == "register" {
                let lines: Vec<String> = first
                    .stdout
                    .lines()
                    .map(|l| {
                        let (a, rest) = split_first_space(l);
                        let (x, rest2) = take_inline(rest);
                        let (t, _) = take_inline(rest2);
                        let (sx, stt) = (parse_seq(x), parse_seq(t));
                        if sx.len() >= 2 || stt.len() >= 2 {
                            multi = true;
                        }
                        format!("({}, {}, {})", account_id(a), seq_term(&sx), seq_term(&stt))
                    })
                    .collect();
                format!("(ORegister {})", coq::list(lines))
            } else if first.code == 0 && cmd.query_term().is_some() {
                "OConvOk".to_string()
            } else if first.code != 0 && !matches!(cmd, Cmd::Plain("accounts") | Cmd::Plain("format")) {
                let t = fail_term(&first, &rd, &mut multi);
                st.count(&format!("fail-obs:{}", t.trim_start_matches('(').split(' ').next().unwrap_or("")));
                t
            } else {
                "OOpaque".to_string()
            };
            runs_terms.push(match cmd.query_term() {
                Some(q) => format!("(RX {} {} {} {})", distinct, coq::bool_(first.code == 0), q, out_term),
                None => format!("(R {} {} {})", distinct, coq::bool_(first.code == 0), out_term),
            });
            rep_runs.push(json!({"args": args[..].iter().map(|a| if *a == p { "LEDGER".to_string() } else { a.clone() }).collect::<Vec<_>>(),
                                 "distinct_outputs": distinct, "exit": first.code,
                                 "stdout": first.stdout.chars().take(600).collect::<String>(),
                                 "stderr": strip_ansi(&first.stderr).chars().take(600).collect::<String>()}));
        }
        st.eval(&rd.text, multi || *tag != "random");
        st.count(&format!("gen:{}", tag));
        let rep = json!({"property": "C13", "ledger": rd.text, "runs": rep_runs, "entries": serde_json::to_value(es).unwrap(),
                         "reproduce": format!("write the ledger to a file, run each command {} times in fresh processes and diff the outputs", runs)});
        if st.samples.len() < 3 || (*tag != "random" && *tag != "corpus" && st.samples.len() < 5) {
            st.sample(rep.clone(), 5);
        }
        sh.push(format!("C {} {}", coq::list(es.iter().map(entry_term)), coq::list(runs_terms)), vec![rep]);
    }
    // imports kept in the corpus (past failures) or handed over for replay
    for (k, (yml, csv)) in corpus_imports(&o.corpus, &o.extra).iter().enumerate() {
        let (_, rep, _) = observe_import(&bin, &scratch, &format!("corpus-imp{}", k), yml, csv, &[], n_runs.max(20));
        let distinct = rep["distinct_outputs"].as_u64().unwrap_or(0);
        let ok = rep["exit"].as_i64() == Some(0);
        st.eval(&(yml.clone(), csv.clone()), true);
        st.count("gen:corpus-import");
        st.count(&format!("cmd:import-corpus:{}", if ok { "ok" } else { "fail" }));
        sh.push(format!("C [] [R {} {} OOpaque]", distinct, coq::bool_(ok)), vec![rep]);
    }
    // import: the repository's own statement samples, N fresh processes each (no model: opaque)
    if !replay {
        let base = format!("{}/cli/tests/testdata/import", std::env::var("OKV_REPO").unwrap_or_else(|_| "/repo".to_string()));
        for f in ["csv_multi_currency.csv", "csv_template.csv", "index_amount.csv", "label_credit_debit.csv", "iso_camt.xml", "viseca.txt"] {
            let args = vec!["import".to_string(), "--config".to_string(), format!("{}/test_config.yml", base), format!("{}/{}", base, f)];
            let mut seen: HashSet<(i32, String, String)> = HashSet::new();
            let mut code = 0;
            for _ in 0..n_runs.max(8) {
                let out = run_bin(&bin, &args);
                code = out.code;
                seen.insert((out.code, out.stdout, out.stderr));
            }
            st.eval(&f.to_string(), true);
            st.count(&format!("cmd:import:{}", if code == 0 { "ok" } else { "fail" }));
            let rep = json!({"property": "C13", "import": f, "distinct_outputs": seen.len()});
            sh.push(format!("C [] [R {} {} OOpaque]", seen.len(), coq::bool_(code == 0)), vec![rep]);
        }
    }
    // import with generated configurations: rules whose matcher combines several fields, each
    // with named groups, so that any order dependence between fields would show
    if !replay {
        let n_imp = if o.thorough { 60 } else { 12 };
        for k in 0..n_imp {
            let pats_payee = ["Card (?P<code>\\d+) (?P<payee>.*)", "Card", "(?P<payee>Migros|SBB).*", "Card \\d+ (?P<payee>\\w+)"];
            let pats_cat = ["POS (?P<code>\\d+) (?P<payee>.*)", "POS", "(?P<code>\\d+)", "POS \\d+ (?P<payee>\\w+)"];
            let mut yml = String::from("path: stmt\nencoding: UTF-8\naccount: Assets:Bank\naccount_type: asset\ncommodity: CHF\nformat:\n  date: \"%Y-%m-%d\"\n  fields:\n    date: Date\n    payee: Description\n    category: Reference\n    amount: Amount\nrewrite:\n");
            let n_rules = 1 + r.below(3);
            for _ in 0..n_rules {
                yml.push_str("  - matcher:\n");
                let both = r.chance(2, 3);
                if both || r.chance(1, 2) {
                    yml.push_str(&format!("      payee: {}\n", r.pick(&pats_payee)));
                    if both {
                        yml.push_str(&format!("      category: {}\n", r.pick(&pats_cat)));
                    }
                } else {
                    yml.push_str(&format!("      category: {}\n", r.pick(&pats_cat)));
                }
                if r.chance(2, 3) {
                    yml.push_str(&format!("    account: Expenses:R{}\n", r.below(4)));
                }
                if r.chance(1, 3) {
                    yml.push_str("    pending: true\n");
                }
            }
            let csv = "Date,Description,Reference,Amount\n2024-04-02,Card 4711 Migros Zurich,POS 900123 MIGROS ZH,-45.80\n2024-04-03,Salary April,WIRE 77 ACME AG,5200.00\n2024-04-05,Card 4711 SBB Ticket Shop,POS 900456 SBB CFF FFS,-23.00\n2024-04-06,Card 12 Coop,OTHER 1 X,-3.00\n";
            let cfg = scratch.write(&format!("imp{}/config.yml", k), &yml);
            let src = scratch.write(&format!("imp{}/stmt.csv", k), csv);
            let args = vec!["import".to_string(), "--config".to_string(), cfg.to_string_lossy().to_string(), src.to_string_lossy().to_string()];
            let mut seen: HashSet<(i32, String, String)> = HashSet::new();
            let mut code = 0;
            for _ in 0..n_runs.max(10) {
                let out = run_bin(&bin, &args);
                code = out.code;
                seen.insert((out.code, out.stdout, out.stderr));
            }
            st.eval(&yml, true);
            st.count(&format!("cmd:import-generated:{}", if code == 0 { "ok" } else { "fail" }));
            let rep = json!({"property": "C13", "import_config": yml, "statement": csv, "distinct_outputs": seen.len(),
                             "reproduce": "okane import --config config.yml stmt.csv, repeated in fresh processes"});
            sh.push(format!("C [] [R {} {} OOpaque]", seen.len(), coq::bool_(code == 0)), vec![rep]);
        }
    }
    // CSV imports whose header holds near-duplicates of the configured labels (letter case,
    // surrounding blanks, the same label several times), configs that spell a label in a third
    // way, several labels missing at once, several templates that do not parse: same outcome in
    // every process, and the outcome of FieldMap::try_new as modelled (Model/ImpCsv.v)
    if !replay {
        let n_hdr = if o.thorough { 160 } else { 40 };
        let mut ri = Rng::new(o.seed, 1131);
        for k in 0..n_hdr {
            let ic = gen_import_case(&mut ri, k);
            let (term, rep, status) = observe_import(&bin, &scratch, &format!("hdr{}", k), &ic.yml, &ic.csv, &ic.fields, n_runs.max(10));
            st.eval(&(ic.yml.clone(), ic.csv.clone()), true);
            st.count(&format!("gen:{}", ic.tag));
            st.count(&format!("cmd:import-header:{}", ["ok", "labels-not-found", "other-failure", "invalid-template"][status as usize]));
            if k < 2 {
                st.sample(rep.clone(), 7);
            }
            sh.push(format!("CI {} {} {}", coq::list(ic.header.iter().map(|h| crate::impgen::s_term(h))), fields_term(&ic.fields), term), vec![rep]);
        }
        // several rows that cannot be imported (dates, amounts): the first one in the file is reported
        let n_rows = if o.thorough { 24 } else { 6 };
        for k in 0..n_rows {
            let yml = "path: stmt\nencoding: UTF-8\naccount: Assets:Bank\naccount_type: asset\ncommodity: CHF\nformat:\n  date: \"%Y-%m-%d\"\n  fields:\n    date: Date\n    payee: Description\n    amount: Amount\n    balance: Balance\n";
            let mut csv = String::from("Date,Description,Amount,Balance\n2024-01-02,Shop,-1.50,100\n");
            let bads = ["2024-13-40,Shop,-2,98", "2024-02-03,Shop,1'000.5,98", "2024-02-04,Shop,-3,9 8 7", "02/05/2024,Shop,-4,94", "2024-02-06,Shop,,", "2024-02-07,Shop,abc,def"];
            let n_bad = 2 + ri.below(3) as usize;
            for i in 0..n_bad {
                csv.push_str(bads[(k + i * (1 + ri.below(3) as usize)) % bads.len()]);
                csv.push('\n');
                if ri.chance(1, 2) {
                    csv.push_str(&format!("2024-03-{:02},Ok,-1,90\n", 10 + i));
                }
            }
            let (_, rep, _) = observe_import(&bin, &scratch, &format!("rows{}", k), yml, &csv, &[], n_runs.max(10));
            let distinct = rep["distinct_outputs"].as_u64().unwrap_or(0);
            let ok = rep["exit"].as_i64() == Some(0);
            st.eval(&csv, true);
            st.count("gen:import-several-bad-rows");
            st.count(&format!("cmd:import-bad-rows:{}", if ok { "ok" } else { "fail" }));
            sh.push(format!("C [] [R {} {} OOpaque]", distinct, coq::bool_(ok)), vec![rep]);
        }
    }
    // layered import configurations: 2-4 documents whose paths all occur in the SOURCE string, of
    // equal and of different lengths, with conflicting scalars and rules; the command is run in N
    // fresh processes, every run must print the same, and what is printed (read back) must be the
    // merge of the C17 model: documents by path length, equal lengths in file order
    {
        let lay_header = format!("{} Run.Classify_C17 Run.Classify_C13L.\nImport ListNotations.\nOpen Scope N_scope.", crate::c17::HEADER);
        let g = sh.add_group(&lay_header, if o.thorough { 8 } else { 2 });
        let cmd_scratch = crate::c17x::CmdScratch::new();
        let root = cmd_scratch.root_str();
        let mut cases: Vec<(crate::c17x::Case17Cmd, String)> = Vec::new();
        // kept in the corpus (past failures) or handed over for replay
        {
            let mut files: Vec<std::path::PathBuf> = Vec::new();
            if let Some(i) = o.extra.iter().position(|a| a == "--replay") {
                if let Some(p) = o.extra.get(i + 1) {
                    files.push(p.into());
                }
            } else if let Ok(rd) = std::fs::read_dir(&o.corpus) {
                files = rd.filter_map(|e| e.ok()).map(|e| e.path()).collect();
                files.sort();
            }
            for p in files {
                if let Ok(v) = std::fs::read_to_string(&p).map_err(|_| ()).and_then(|t| serde_json::from_str::<serde_json::Value>(&t).map_err(|_| ())) {
                    if let Some(c) = v.get("cmd_case").and_then(|c| serde_json::from_value::<crate::c17x::Case17Cmd>(c.clone()).ok()) {
                        cases.push((c, "corpus".to_string()));
                    }
                }
            }
        }
        if !replay {
            let n_lay = if o.thorough { 400 } else { 60 };
            let mut rl = Rng::new(o.seed, 1133);
            for _ in 0..n_lay {
                let (c, mode) = crate::c17x::gen_layered_cmd_case(&mut rl, &root);
                cases.push((c, mode.to_string()));
            }
        }
        for (c, mode) in &cases {
            let (distinct, term, mut rep, how) = crate::c17x::observe_cmd_n(c, &bin, &cmd_scratch, n_runs.max(10));
            rep["property"] = json!("C13");
            rep["layered"] = json!(mode);
            let given = crate::c17x::given_string(&c.fs, &root);
            let matching: Vec<&crate::impgen::Doc> = c.docs.iter().filter(|d| given.contains(&d.path)).collect();
            let mut tie = false;
            for (i, a) in matching.iter().enumerate() {
                for b in matching.iter().skip(i + 1) {
                    if a.path.len() == b.path.len() && a.path != b.path {
                        tie = true;
                    }
                }
            }
            st.eval(&(rep["config_yaml"].as_str().unwrap_or("").to_string(), given.clone(), rep["statement"].as_str().unwrap_or("").to_string()), true);
            st.count("gen:import-layered");
            st.count(&format!("import-layered:paths:{}", mode));
            st.count(&format!("import-layered:documents matching the source:{}", matching.len()));
            if tie {
                st.count("import-layered:two matching documents with different paths of equal length");
            }
            st.count(&format!("cmd:import-layered:{}", how));
            if tie && how == "printed a ledger" && st.dist.get("import-layered:sampled").copied().unwrap_or(0) < 1 {
                st.count("import-layered:sampled");
                st.sample(rep.clone(), 12);
            }
            sh.push_group(g, format!("CL {} ({})", distinct, term), vec![rep]);
        }
        drop(cmd_scratch);
    }
    // ledgers with several syntax errors: every command stops at the first one in the file
    if !replay {
        let n_syn = if o.thorough { 30 } else { 8 };
        let mut rs = Rng::new(o.seed, 1132);
        let bads = ["foo bar baz", "2024/13/45 x\n    A  1 USD\n    B", "    A  1 USD", "account", "2024/01/05 x\n    A  1 USD USD\n    B", "apply tags k", "include", "2024/01/05 x\n    A  (1 USD +\n    B", "end apply tag"];
        for k in 0..n_syn {
            let mut ledger = String::new();
            let n_bad = 2 + rs.below(2) as usize;
            for i in 0..n_bad {
                if i > 0 || rs.chance(2, 3) {
                    ledger.push_str(&format!("2020/01/{:02} ok\n    Assets:Bank  {} USD\n    Equity:Opening\n\n", 5 + i, 1 + rs.below(90)));
                }
                ledger.push_str(bads[(k + i * (1 + rs.below(4) as usize)) % bads.len()]);
                ledger.push_str("\n\n");
            }
            let lp = scratch.write(&format!("syn{}/l.ledger", k), &ledger);
            let mut terms = Vec::new();
            let mut reps = Vec::new();
            for cmd in ["format", "accounts", "balance", "register"] {
                let args = vec![cmd.to_string(), lp.to_string_lossy().to_string()];
                let (distinct, first) = run_n(&bin, &args, n_runs.max(8));
                st.count(&format!("cmd:several-syntax-errors-{}:{}", cmd, if first.code == 0 { "ok" } else { "fail" }));
                terms.push(format!("(R {} {} OOpaque)", distinct, coq::bool_(first.code == 0)));
                reps.push(json!({"cmd": cmd, "distinct_outputs": distinct, "exit": first.code, "stderr": strip_ansi(&first.stderr).chars().take(300).collect::<String>()}));
            }
            st.eval(&ledger, true);
            st.count("gen:several-syntax-errors");
            let rep = json!({"property": "C13", "ledger": ledger, "runs": reps, "reproduce": "run each command repeatedly in fresh processes and diff"});
            sh.push(format!("C [] {}", coq::list(terms)), vec![rep]);
        }
    }
    // names that differ only in letter case, or only in a trailing character: any
    // "normalising" sort key would tie them and fall back to hash order
    if !replay {
        let n_names = if o.thorough { 30 } else { 8 };
        let variants = [
            ["Expenses:Food", "Expenses:food", "expenses:Food", "EXPENSES:FOOD"],
            ["Assets:Bank", "Assets:bank", "Assets:Bank ", "Assets:BANK"],
            ["Income:Job", "income:job", "Income:JOB", "INCOME:Job"],
        ];
        for k in 0..n_names {
            let set = &variants[k % variants.len()];
            let mut names: Vec<String> = set.iter().map(|s| s.trim_end().to_string()).collect();
            names.dedup();
            r.shuffle(&mut names);
            let mut ledger = String::from("2020/01/05 open\n");
            for (i, n) in names.iter().enumerate() {
                ledger.push_str(&format!("    {}  {} USD\n", n, 1 + i + k));
                if i % 2 == 0 {
                    ledger.push_str(&format!("    {}  {} EUR\n", n, 2 + i));
                }
            }
            ledger.push_str("    Equity:Opening\n");
            let lp = scratch.write(&format!("names{}/l.ledger", k), &ledger);
            for cmd in ["accounts", "balance", "register"] {
                let args = vec![cmd.to_string(), lp.to_string_lossy().to_string()];
                let mut seen: HashSet<(i32, String, String)> = HashSet::new();
                let mut code = 0;
                for _ in 0..n_runs.max(12) {
                    let out = run_bin(&bin, &args);
                    code = out.code;
                    seen.insert((out.code, out.stdout, out.stderr));
                }
                st.eval(&(ledger.clone(), cmd), true);
                st.count(&format!("cmd:case-variants-{}:{}", cmd, if code == 0 { "ok" } else { "fail" }));
                let rep = json!({"property": "C13", "ledger": ledger, "args": args, "distinct_outputs": seen.len(),
                                 "reproduce": "run the command repeatedly in fresh processes and diff"});
                sh.push(format!("C [] [R {} {} OOpaque]", seen.len(), coq::bool_(code == 0)), vec![rep]);
            }
        }
    }
    // error paths and implied exchanges whose outcome must not depend on map order
    if !replay {
        let n_fix = if o.thorough { 24 } else { 8 };
        let comm = ["AAPL", "CHF", "EUR", "JPY", "USD"];
        for k in 0..n_fix {
            let a = comm[k % 5];
            let b = comm[(k + 1 + r.below(3) as usize) % 5];
            if a == b {
                continue;
            }
            let v1 = 1000 + r.below(900);
            let v2 = v1 + 50 + r.below(40) * 3 + 1; // ratio without a finite decimal expansion, usually
            let scenarios = [
                // several commodities that all cancel inside one posting expression (ill-typed)
                (format!("2020/01/05 t\n    Assets:Bank  (10 {a} - 10 {a} + 5 {b} - 5 {b})\n    Equity:Opening\n", a = a, b = b), vec!["register", "balance"], None),
                // implied exchange with a non-terminating ratio, then converted both ways
                (format!("2020/01/05 t\n    Assets:Bank  -{v1}.00 {a}\n    Assets:Cash  {v2}.00 {b}\n\n2020/01/06 u\n    Assets:Cash  4000 {a}\n    Equity:Opening\n", a = a, b = b, v1 = v1, v2 = v2), vec!["balance"], Some((a, b))),
                // three-commodity residual without an omitted amount
                (format!("2020/01/05 t\n    Assets:Bank  50 {a}\n    Assets:Cash  20 {b}\n    Income:Job  -60 {c}\n", a = a, b = b, c = comm[(k + 4) % 5]), vec!["balance", "register"], None),
            ];
            for (si, (ledger, cmds, conv)) in scenarios.iter().enumerate() {
                let lp = scratch.write(&format!("fix{}_{}/l.ledger", k, si), ledger);
                let mut argsets: Vec<Vec<String>> = cmds.iter().map(|c| vec![c.to_string(), lp.to_string_lossy().to_string()]).collect();
                if let Some((x, y)) = conv {
                    for t in [x, y] {
                        argsets.push(vec!["balance".to_string(), lp.to_string_lossy().to_string(), "-X".to_string(), t.to_string(), "--now".to_string(), "2020-02-01".to_string()]);
                    }
                }
                for args in argsets {
                    let mut seen: HashSet<(i32, String, String)> = HashSet::new();
                    let mut code = 0;
                    for _ in 0..n_runs.max(16) {
                        let out = run_bin(&bin, &args);
                        code = out.code;
                        seen.insert((out.code, out.stdout, out.stderr));
                    }
                    st.eval(&(ledger.clone(), args.clone()), true);
                    st.count(&format!("cmd:order-sensitive-scenario{}:{}", si, if code == 0 { "ok" } else { "fail" }));
                    let rep = json!({"property": "C13", "ledger": ledger, "args": args, "distinct_outputs": seen.len(),
                                     "reproduce": "run the command repeatedly in fresh processes and diff"});
                    sh.push(format!("C [] [R {} {} OOpaque]", seen.len(), coq::bool_(code == 0)), vec![rep]);
                }
            }
        }
    }
    // conversions: equally good chains with different rates, and several missing rates
    if !replay {
        let n_conv = if o.thorough { 40 } else { 10 };
        let comm = ["AAPL", "CHF", "EUR", "JPY", "USD"];
        for k in 0..n_conv {
            let a = comm[(k + r.below(5) as usize) % 5];
            let others: Vec<&str> = comm.iter().copied().filter(|c| *c != a).collect();
            let (m1, m2, t) = (others[0], others[1], others[2]);
            // a -> m1 -> t and a -> m2 -> t on the same day: a genuine tie with different products
            let db = format!(
                "P 2020/01/11 {a} {r1} {m1}\nP 2020/01/11 {m1} {r2} {t}\nP 2020/01/11 {a} {r3} {m2}\nP 2020/01/11 {m2} {r4} {t}\n",
                a = a, m1 = m1, m2 = m2, t = t, r1 = 80 + r.below(5), r2 = "1.25", r3 = 50 + r.below(5), r4 = 4
            );
            let ledger = format!(
                "2020/01/05 open\n    Assets:Bank  10 {a}\n    Assets:Cash  3 {m1}\n    Assets:Cash  7 {m2}\n    Liabilities:Card  -2 {m1}\n    Income:Job  1 {t}\n    Equity:Opening\n",
                a = a, m1 = m1, m2 = m2, t = t
            );
            let lp = scratch.write(&format!("conv{}/l.ledger", k), &ledger);
            let dbp = scratch.write(&format!("conv{}/prices.db", k), &db);
            for (tag, args) in [
                ("tie", vec!["balance".to_string(), lp.to_string_lossy().to_string(), "-X".to_string(), t.to_string(), "--now".to_string(), "2020-02-01".to_string(), "--price-db".to_string(), dbp.to_string_lossy().to_string()]),
                ("missing", vec!["balance".to_string(), lp.to_string_lossy().to_string(), "-X".to_string(), t.to_string(), "--now".to_string(), "2020-02-01".to_string()]),
                ("eval-tie", vec!["primitive".to_string(), "eval".to_string(), "--date".to_string(), "2020-02-01".to_string(), "-f".to_string(), lp.to_string_lossy().to_string(), "-X".to_string(), t.to_string(), "--price-db".to_string(), dbp.to_string_lossy().to_string(), format!("1 {}", a)]),
            ] {
                let mut seen: HashSet<(i32, String, String)> = HashSet::new();
                let mut code = 0;
                let mut first_err = String::new();
                for _ in 0..n_runs.max(12) {
                    let out = run_bin(&bin, &args);
                    code = out.code;
                    if first_err.is_empty() {
                        first_err = strip_ansi(&out.stderr).chars().take(200).collect();
                    }
                    seen.insert((out.code, out.stdout, out.stderr));
                }
                st.eval(&(ledger.clone(), db.clone(), tag), true);
                st.count(&format!("cmd:convert-{}:{}", tag, if code == 0 { "ok" } else { "fail" }));
                let rep = json!({"property": "C13", "ledger": ledger, "price_db": db, "args": args, "distinct_outputs": seen.len(), "stderr": first_err,
                                 "reproduce": "run the command repeatedly in fresh processes and diff"});
                sh.push(format!("C [] [R {} {} OOpaque]", seen.len(), coq::bool_(code == 0)), vec![rep]);
            }
        }
        // Camt053: one rule whose matcher has several capturing fields
        let base = format!("{}/cli/tests/testdata/import", std::env::var("OKV_REPO").unwrap_or_else(|_| "/repo".to_string()));
        if let Ok(xml) = std::fs::read_to_string(format!("{}/iso_camt.xml", base)) {
            let fields = ["creditor_name", "debtor_name", "ultimate_debtor_name", "additional_transaction_info", "remittance_unstructured_info", "additional_entry_info"];
            let n_camt = if o.thorough { 20 } else { 6 };
            for k in 0..n_camt {
                let mut fs: Vec<&str> = fields.to_vec();
                r.shuffle(&mut fs);
                fs.truncate(2 + r.below(2) as usize);
                let mut yml = String::from("path: iso_camt.xml\nencoding: UTF-8\naccount: Assets:Okane Bank\naccount_type: asset\noperator: Okane Bank (fee)\ncommodity: CHF\nrewrite:\n  - matcher:\n");
                for f in &fs {
                    yml.push_str(&format!("      {}: \"(?P<payee>.*)\"\n", f));
                }
                yml.push_str("    account: Expenses:Any\n");
                let cfg = scratch.write(&format!("camt{}/config.yml", k), &yml);
                let src = scratch.write(&format!("camt{}/iso_camt.xml", k), &xml);
                let args = vec!["import".to_string(), "--config".to_string(), cfg.to_string_lossy().to_string(), src.to_string_lossy().to_string()];
                let mut seen: HashSet<(i32, String, String)> = HashSet::new();
                let mut code = 0;
                for _ in 0..n_runs.max(12) {
                    let out = run_bin(&bin, &args);
                    code = out.code;
                    seen.insert((out.code, out.stdout, out.stderr));
                }
                st.eval(&yml, true);
                st.count(&format!("cmd:import-camt-multifield:{}", if code == 0 { "ok" } else { "fail" }));
                let rep = json!({"property": "C13", "import_config": yml, "statement": "cli/tests/testdata/import/iso_camt.xml", "distinct_outputs": seen.len(),
                                 "reproduce": "okane import --config config.yml iso_camt.xml, repeated in fresh processes"});
                sh.push(format!("C [] [R {} {} OOpaque]", seen.len(), coq::bool_(code == 0)), vec![rep]);
            }
        }
    }
    sh.finish(&st);
}
