(* Correspondence classifier for C06: outcome classes of the parse / format / process / query
   steps and of the commands (okane format | balance [-X ..] | register | accounts, in-process
   and as fresh processes of the built binary) on malformed input.
   Verdicts: 0 Agree | 1 ModelMismatch | 2 PropertyFail | 9 harness. *)
From Coq Require Import List NArith ZArith Bool.
From Okv Require Import Model.Lit Model.Syntax Model.Comb Model.ParseLedger Run.Unpack.
Import ListNotations.
Open Scope N_scope.

Inductive outcome := ROk | RErr | RPanic | RTimeout | RAbort | RSkip.

(* o_cli: the commands on the text written to a file, `okane format` first, then the commands
   that load and book it (balance, balance -X .., register, accounts); [] = not run *)
Record obs := { o_parse : outcome; o_format : outcome; o_process : outcome; o_query : outcome;
                o_cli : list outcome }.

Inductive case :=
| Single (text : list N) (o : obs)
| Prefixes (text : list N) (os : list obs)       (* os[k] observed on firstn k text, k = 0..length *)
| LoadCase (fake_load fake : outcome) (real bin : list outcome)
    (* an include graph: Loader::load, and the worst of load / process / queries, on a
       FakeFileSystem; the commands on the same files of the real file system, `primitive
       flatten` (= load) first; the built binary, `primitive flatten` last *)
| CmdCase (os bin : list outcome)                (* commands in-process / the built binary *)
| OracleCase (head_len w_head w_whole w_space_tail : nat).
    (* unicode-width's width_cjk of HEAD, of HEAD ++ " " ++ TAIL and of " " ++ TAIL, HEAD being
       digits and expression punctuation: the hypotheses of C06_format_total / C06_format_oracles *)

Fixpoint rep (n : nat) (s : list N) : list N :=
  match n with O => [] | S k => s ++ rep k s end.

Definition crash (o : outcome) : bool :=
  match o with RPanic | RTimeout | RAbort => true | _ => false end.

(* the property, on what the implementation did: no step panicked, hung or aborted *)
Definition spec_holds (o : obs) : bool :=
  negb (crash (o_parse o) || crash (o_format o) || crash (o_process o) || crash (o_query o)
        || existsb crash (o_cli o)).

Definition outcome_eqb (a b : outcome) : bool :=
  match a, b with
  | ROk, ROk | RErr, RErr | RPanic, RPanic | RTimeout, RTimeout | RAbort, RAbort | RSkip, RSkip => true
  | _, _ => false
  end.

Definition model_class (s : list N) : outcome :=
  match parse_ledger s with
  | LOk _ => ROk
  | LErr _ _ => RErr
  | LPanic _ => RPanic
  | LDiverge _ => RTimeout
  | LFuel => RSkip
  end.

(* the commands against the model: `okane format` answers as the parser model does, and no
   command that loads the file succeeds on a text the model rejects *)
Definition cli_agrees (m : outcome) (cl : list outcome) : bool :=
  match cl with
  | [] => true
  | f :: rest =>
      outcome_eqb f m &&
      match m with
      | RErr => forallb (fun x => negb (outcome_eqb x ROk)) rest
      | _ => true
      end
  end.

(* format = parse + Display: it fails exactly when the parse does; process needs a parse *)
Definition classify1 (s : list N) (o : obs) : N :=
  if negb (spec_holds o) then 2
  else
    let m := model_class s in
    if outcome_eqb (o_parse o) m && outcome_eqb (o_format o) m &&
       (match m with RErr => negb (outcome_eqb (o_process o) ROk) | _ => true end) &&
       cli_agrees m (o_cli o)
    then 0 else 1.

Fixpoint classify_prefixes (k : nat) (text : list N) (os : list obs) : list N :=
  match os with
  | [] => []
  | o :: r => classify1 (firstn k text) o :: classify_prefixes (S k) text r
  end.

Definition classify (c : case) : list N :=
  match c with
  | Single t o => [classify1 t o]
  | Prefixes t os =>
      if Nat.eqb (length os) (S (length t)) then classify_prefixes 0 t os else [9]
  | LoadCase fake_load fake real bin =>
      [if crash fake_load || crash fake || existsb crash real || existsb crash bin then 2
       else
         (* loading the same files ends the same way on both file systems and in the binary *)
         let load_real := match real with f :: _ => [f] | [] => [] end in
         let load_bin := match rev bin with f :: _ => [f] | [] => [] end in
         if forallb (outcome_eqb fake_load) (load_real ++ load_bin) then 0 else 1]
  | CmdCase os bin => [if existsb crash os || existsb crash bin then 2 else 0]
  | OracleCase head_len w_head w_whole w_space_tail =>
      (* below its length the printer's subtraction underflows; otherwise ascii_width_ok and
         space_cut on this sample *)
      [if Nat.ltb w_whole head_len then 2
       else if Nat.eqb w_head head_len && Nat.eqb w_whole (head_len + w_space_tail) then 0 else 1]
  end.

Definition verdicts (cs : list case) : list N := flat_map classify cs.
