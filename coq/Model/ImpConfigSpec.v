(* Declarative reading of "the merge of every configuration document whose path occurs in the
   file's path, shortest path first; later documents override scalars, rules are concatenated":
   independent of the sort and the fold of Model/ImpConfig.v. *)
From Coq Require Import List NArith ZArith Bool Arith.
From Okv Require Import Model.ImpConfig.
Import ListNotations.

(* the last Some of a list *)
Definition last_some {A} (l : list (option A)) : option A :=
  fold_left (fun acc x => option_or x acc) l None.

Section Spec.
  Context {P : Type}.

  Definition applies (fp : str) (d : doc P) : bool := contains fp (d_path d).

  Definition max_len (l : list (doc P)) : nat := fold_right (fun d m => Nat.max (path_len d) m) 0 l.

  (* documents grouped by path length, shortest first, file order inside a group *)
  Definition by_length (l : list (doc P)) : list (doc P) :=
    flat_map (fun n => filter (fun d => path_len d =? n) l) (seq 0 (S (max_len l))).

  Definition applicable (docs : list (doc P)) (fp : str) : list (doc P) :=
    by_length (filter (applies fp) docs).

  (* field by field: the last document that sets it *)
  Definition combine_docs (first : doc P) (ds : list (doc P)) : doc P :=
    let all := first :: ds in
    {| d_path := d_path (last ds first);
       d_encoding := last_some (map d_encoding all);
       d_account := last_some (map d_account all);
       d_account_type := last_some (map d_account_type all);
       d_operator := last_some (map d_operator all);
       d_commodity := last_some (map d_commodity all);
       d_format := last_some (map d_format all);
       d_rewrite := concat (map d_rewrite all) |}.

  Definition spec_merged (docs : list (doc P)) (fp : str) : option (doc P) :=
    match applicable docs fp with
    | [] => None
    | d :: r => Some (combine_docs d r)
    end.
End Spec.
