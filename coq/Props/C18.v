(* C18 — Camt053 import conserves the statement.  Theorems only. *)
From Coq Require Import List NArith ZArith Bool QArith Qcanon.
From Okv Require Import Base.Dec Model.Lit Model.SingleEntry2 Model.Camt Model.CamtBook Model.CamtSpec
  Proofs.CamtBasics.
Import ListNotations.

(* credit is booked +, debit - (as rationals), in the statement's currency *)
Theorem C18_to_data_value : forall a cd,
  d_value (oa_value (to_data a cd)) = signed cd (d_value (xa_value a)) /\ oa_comm (to_data a cd) = xa_ccy a.
Proof. exact to_data_value. Qed.
Print Assumptions C18_to_data_value.
