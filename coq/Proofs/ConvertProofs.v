(* Lemmas about convert_amount (Model/PriceDb.v) and the converted reports (Model/Convert.v). *)
From Coq Require Import List NArith ZArith Bool QArith Qcanon Lia.
From Okv Require Import Base.Maps Base.Dec Model.Amount Model.Book Model.Query Model.PriceDb Model.Convert.
Import ListNotations.
Open Scope Qc_scope.

Lemma convert_amount_empty : forall fuel choose recs target date,
  convert_amount fuel choose recs a_zero target date = COk a_zero.
Proof. reflexivity. Qed.
