(* Model of the part of the `glob` crate (0.3.2) that okane's loader uses: Pattern::new and
   Pattern::matches_with for literal characters, `?` and `*`, under
   MatchOptions { case_sensitive: true, require_literal_separator: true,
                  require_literal_leading_dot: true }   (core/src/load.rs glob_match_options).
   `**` and `[...]` are outside the model: parse_pattern answers None for them.
   Strings are lists of Unicode scalar values (Pattern works on chars).  Definitions only. *)
From Coq Require Import List NArith Bool.
Import ListNotations.
Open Scope N_scope.

Definition str := list N.

Definition SLASH : N := 47.   (* path::is_separator on unix *)
Definition DOT : N := 46.
Definition STAR : N := 42.
Definition QUESTION : N := 63.
Definition LBRACKET : N := 91.

Definition is_sep (c : N) : bool := c =? SLASH.

Inductive token := Char (c : N) | AnyChar | AnySequence.

(* Pattern::new: `?` -> AnyChar; a single `*` -> AnySequence; anything else but `[` -> Char.
   Two or more `*` in a row (recursive wildcard or error) and `[` (character class or error)
   leave the model. *)
Fixpoint parse_pattern (s : str) : option (list token) :=
  match s with
  | [] => Some []
  | c :: r =>
      if c =? QUESTION then option_map (cons AnyChar) (parse_pattern r)
      else if c =? STAR then
        match r with
        | d :: _ => if d =? STAR then None else option_map (cons AnySequence) (parse_pattern r)
        | [] => Some [AnySequence]
        end
      else if c =? LBRACKET then None
      else option_map (cons (Char c)) (parse_pattern r)
  end.

Inductive mresult := Match | SubPatternDoesntMatch | EntirePatternDoesntMatch.

(* Pattern::matches_from(follows_separator, file, i, options), by recursion on tokens[i..].
   The AnySequence arm: first the empty match; then the while loop consuming one character at
   a time (a leading dot after a separator, or a separator, ends the attempt); when the loop
   runs out of characters the enclosing for loop goes on with the remaining tokens. *)
Fixpoint matches_from (ts : list token) : bool -> str -> mresult :=
  match ts with
  | [] => fun _ file => match file with [] => Match | _ => SubPatternDoesntMatch end
  | Char c2 :: rest => fun _ file =>
      match file with
      | [] => EntirePatternDoesntMatch
      | c :: file' => if c =? c2 then matches_from rest (is_sep c) file' else SubPatternDoesntMatch
      end
  | AnyChar :: rest => fun follows file =>
      match file with
      | [] => EntirePatternDoesntMatch
      | c :: file' =>
          if is_sep c || (follows && (c =? DOT)) then SubPatternDoesntMatch
          else matches_from rest (is_sep c) file'
      end
  | AnySequence :: rest => fun follows file =>
      match matches_from rest follows file with
      | SubPatternDoesntMatch =>
          (fix loop (follows : bool) (file : str) : mresult :=
             match file with
             | [] => matches_from rest follows []
             | c :: file' =>
                 if follows && (c =? DOT) then SubPatternDoesntMatch
                 else if is_sep c then SubPatternDoesntMatch
                 else match matches_from rest (is_sep c) file' with
                      | SubPatternDoesntMatch => loop (is_sep c) file'
                      | m => m
                      end
             end) follows file
      | m => m
      end
  end.

(* Pattern::matches_with(str, options) *)
Definition matches_with (ts : list token) (s : str) : bool :=
  match matches_from ts true s with Match => true | _ => false end.

(* Pattern::new(p)?.matches_with(s): None = pattern outside the model *)
Definition glob_match (pattern s : str) : option bool :=
  match parse_pattern pattern with
  | Some ts => Some (matches_with ts s)
  | None => None
  end.
