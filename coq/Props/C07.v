(* C07 — numeric literals mean exactly what is written.  Theorems only. *)
From Coq Require Import QArith.
From Coq Require Import List NArith ZArith Bool.
From Okv Require Import Model.Lit Model.LitSpec Proofs.LitProofs Proofs.LitShow Proofs.LitExamples.
From Okv Require Import Model.Syntax Model.Display Proofs.LitPrinted.
Import ListNotations.
Open Scope N_scope.

(* every well-formed literal is accepted with exactly the spec's meaning, unless it does not
   fit a Decimal, in which case it is rejected as InvalidDecimal *)
Theorem C07_wf_accepted : forall l t,
  spec_scan l = Some t ->
  scan l = if fits t then SOk (pdec_of t) else SErr InvalidDecimal.
Proof. exact wf_accepted. Qed.
Print Assumptions C07_wf_accepted.

(* only well-formed, representable literals are accepted *)
Theorem C07_accept_only_wf : forall l d,
  scan l = SOk d -> exists t, spec_scan l = Some t /\ fits t = true /\ d = pdec_of t.
Proof. exact accept_only_wf. Qed.
Print Assumptions C07_accept_only_wf.

Theorem C07_too_big_rejected : forall l t,
  spec_scan l = Some t -> fits t = false -> scan l = SErr InvalidDecimal.
Proof. exact too_big_rejected. Qed.
Print Assumptions C07_too_big_rejected.

(* the accepted value is exactly the written one, with the written number of places *)
Theorem C07_value_exact : forall l d,
  scan l = SOk d ->
  exists t, spec_scan l = Some t /\ (pdec_value d == lit_value t)%Q /\ scale d = lit_places t.
Proof. exact value_exact. Qed.
Print Assumptions C07_value_exact.

(* what the printer writes for a Decimal scans back to the same number, places and sign, and to
   the same style when the integer part has four or more digits (wf_pdec and big are defined in
   Proofs/LitShow.v) *)
Theorem C07_show_scan : forall d, wf_pdec d ->
  exists d', scan (show d) = SOk d' /\ mant d' = mant d /\ scale d' = scale d /\
             neg d' = neg d /\ (big d = true -> pfmt d' = pfmt d).
Proof. exact show_scan. Qed.
Print Assumptions C07_show_scan.

(* the round trip applies to everything the scanner returns *)
Theorem C07_scanned_wf : forall l d, scan l = SOk d -> wf_pdec d.
Proof. exact scan_wf. Qed.
Print Assumptions C07_scanned_wf.

(* "...preserved when printed", in every position where display.rs writes back a number the
   parser read: for every list of entries `okane format` prints (Model/Display.v
   format_entries, any width oracle) and every literal `d` of an entry - posting amount, operand
   of a value expression, lot price, cost, balance assertion or assignment, `format` line of a
   commodity directive (entry_lits, Proofs/LitPrinted.v) - the output contains `show d`, which
   scans back to the same number, places and sign, and to the same grouping style when the
   integer part has four or more digits *)
Theorem C07_printed_in_every_position : forall w es e d,
  In e es -> In d (entry_lits e) -> wf_pdec d ->
  exists pre post d',
    format_entries w es = pre ++ show d ++ post /\
    scan (show d) = SOk d' /\ mant d' = mant d /\ scale d' = scale d /\ neg d' = neg d /\
    (big d = true -> pfmt d' = pfmt d).
Proof. exact format_shows_every_literal. Qed.
Print Assumptions C07_printed_in_every_position.
