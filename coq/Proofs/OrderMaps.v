(* C13: map_equiv (same entries, any order) is an equivalence, is the same as Permutation of
   duplicate-free lists, and is respected by every operation of Base/Maps.v. *)
From Coq Require Import List NArith Bool Lia Permutation.
From Okv Require Import Base.Maps Proofs.MapsSort Proofs.BookA_Maps.
Import ListNotations.
Open Scope N_scope.

Section S.
Context {V : Type}.
Implicit Types m : amap V.

Lemma map_equiv_refl m : NoDup (keys m) -> map_equiv m m.
Proof. intros H. split; [exact H|split; [exact H|reflexivity]]. Qed.

Lemma map_equiv_sym m m' : map_equiv m m' -> map_equiv m' m.
Proof. intros [A [B C]]. split; [exact B|split; [exact A|]]. intros k. symmetry. apply C. Qed.

Lemma map_equiv_trans m1 m2 m3 : map_equiv m1 m2 -> map_equiv m2 m3 -> map_equiv m1 m3.
Proof.
  intros [A [_ C]] [_ [B D]]. split; [exact A|split; [exact B|]]. intros k. rewrite C. apply D.
Qed.

Lemma map_equiv_nodup_l m m' : map_equiv m m' -> NoDup (keys m).
Proof. intros [A _]. exact A. Qed.
Lemma map_equiv_nodup_r m m' : map_equiv m m' -> NoDup (keys m').
Proof. intros [_ [A _]]. exact A. Qed.
Lemma map_equiv_get m m' k : map_equiv m m' -> get k m = get k m'.
Proof. intros [_ [_ A]]. apply A. Qed.

Lemma NoDup_keys_list m : NoDup (keys m) -> NoDup m.
Proof. unfold keys. apply NoDup_map_inv. Qed.

Lemma map_equiv_in m m' x : map_equiv m m' -> In x m -> In x m'.
Proof.
  intros [A [B C]] H. destruct x as [k v]. apply get_some_in. rewrite <- C.
  apply NoDup_get_in; assumption.
Qed.

Lemma map_equiv_perm m m' : map_equiv m m' -> Permutation m m'.
Proof.
  intros H. apply NoDup_Permutation.
  - apply NoDup_keys_list. exact (map_equiv_nodup_l _ _ H).
  - apply NoDup_keys_list. exact (map_equiv_nodup_r _ _ H).
  - intros x. split; apply map_equiv_in; [exact H|apply map_equiv_sym; exact H].
Qed.

Lemma map_equiv_iff_perm m m' : map_equiv m m' <-> NoDup (keys m) /\ Permutation m m'.
Proof.
  split.
  - intros H. split; [exact (map_equiv_nodup_l _ _ H)|apply map_equiv_perm; exact H].
  - intros [A B]. apply perm_map_equiv; assumption.
Qed.

Lemma map_equiv_length m m' : map_equiv m m' -> length m = length m'.
Proof. intros H. apply Permutation_length, map_equiv_perm, H. Qed.

Lemma map_equiv_nil_l m : map_equiv [] m -> m = [].
Proof. intros H. apply map_equiv_length in H. destruct m; [reflexivity|discriminate]. Qed.

Lemma map_equiv_single k v m : map_equiv [(k, v)] m -> m = [(k, v)].
Proof. intros H. apply map_equiv_perm in H. apply Permutation_length_1_inv in H. exact H. Qed.

Lemma map_equiv_two k1 v1 k2 v2 m :
  map_equiv [(k1, v1); (k2, v2)] m -> m = [(k1, v1); (k2, v2)] \/ m = [(k2, v2); (k1, v1)].
Proof. intros H. apply map_equiv_perm in H. apply Permutation_length_2_inv in H. exact H. Qed.

(* the canonical presentation decides map_equiv *)
Lemma sort_keys_eq_equiv m m' :
  NoDup (keys m) -> NoDup (keys m') -> sort_keys m = sort_keys m' -> map_equiv m m'.
Proof.
  intros A B E. split; [exact A|split; [exact B|]]. intros k.
  rewrite <- (sort_keys_get m k A), <- (sort_keys_get m' k B), E. reflexivity.
Qed.

Lemma map_equiv_iff_sorted m m' :
  map_equiv m m' <-> NoDup (keys m) /\ NoDup (keys m') /\ sort_keys m = sort_keys m'.
Proof.
  split.
  - intros H. split; [exact (map_equiv_nodup_l _ _ H)|]. split; [exact (map_equiv_nodup_r _ _ H)|].
    apply sort_keys_canonical, H.
  - intros [A [B C]]. apply sort_keys_eq_equiv; assumption.
Qed.

(* ---- operations ---- *)
Lemma map_equiv_set k v m m' : map_equiv m m' -> map_equiv (set k v m) (set k v m').
Proof.
  intros [A [B C]]. split; [apply NoDup_keys_set, A|split; [apply NoDup_keys_set, B|]].
  intros j. rewrite !get_set, C. reflexivity.
Qed.

Lemma map_equiv_remove k m m' : map_equiv m m' -> map_equiv (remove k m) (remove k m').
Proof.
  intros [A [B C]]. split; [apply NoDup_keys_remove, A|split; [apply NoDup_keys_remove, B|]].
  intros j. destruct (N.eq_dec j k) as [->|E].
  - rewrite !get_remove_same by assumption. reflexivity.
  - rewrite !get_remove_other by exact E. apply C.
Qed.

Lemma map_equiv_filter (f : N * V -> bool) m m' :
  map_equiv m m' -> map_equiv (filter f m) (filter f m').
Proof.
  intros [A [B C]]. split; [apply NoDup_keys_filter, A|split; [apply NoDup_keys_filter, B|]].
  intros j. rewrite !get_filter by assumption. rewrite C. reflexivity.
Qed.

Lemma map_equiv_snoc k v m m' :
  map_equiv m m' -> get k m = None -> map_equiv (m ++ [(k, v)]) (m' ++ [(k, v)]).
Proof.
  intros H E. rewrite <- (set_absent k v m E).
  rewrite <- (set_absent k v m') by (rewrite <- (map_equiv_get _ _ k H); exact E).
  apply map_equiv_set, H.
Qed.

Lemma forallb_perm {A} (f : A -> bool) l l' : Permutation l l' -> forallb f l = forallb f l'.
Proof.
  induction 1; cbn [forallb]; try congruence.
  - rewrite !andb_assoc, (andb_comm (f y) (f x)). reflexivity.
Qed.

Lemma map_equiv_forallb (f : N * V -> bool) m m' : map_equiv m m' -> forallb f m = forallb f m'.
Proof. intros H. apply forallb_perm, map_equiv_perm, H. Qed.
End S.

(* mapping the values with a function that may look at the key *)
Lemma map_equiv_map_snd {V W} (f : N * V -> W) (m m' : amap V) :
  map_equiv m m' -> map_equiv (map (fun p => (fst p, f p)) m) (map (fun p => (fst p, f p)) m').
Proof.
  intros [A [B C]]. split; [rewrite keys_map_snd; exact A|split; [rewrite keys_map_snd; exact B|]].
  intros j. rewrite !(get_map_snd f (fun k v => f (k, v))) by (intros [? ?]; reflexivity).
  rewrite C. reflexivity.
Qed.

(* a checker for closed examples *)
Fixpoint nodupb (l : list N) : bool :=
  match l with [] => true | x :: r => negb (existsb (N.eqb x) r) && nodupb r end.

Lemma nodupb_sound l : nodupb l = true -> NoDup l.
Proof.
  induction l as [|x r IH]; cbn [nodupb]; intros H; constructor; apply andb_true_iff in H; destruct H as [H1 H2].
  - intros HI. apply negb_true_iff in H1. assert (existsb (N.eqb x) r = true); [|congruence].
    apply existsb_exists. exists x. split; [exact HI|apply N.eqb_refl].
  - apply IH, H2.
Qed.
