(* C05 round trip, the image of the directive parsers: include, end_apply_tag, apply_tag,
   top_comment, account_declaration and commodity_declaration only return entries that satisfy
   wf_entry.  The amount of a `format` sub-directive is covered by Proofs/RoundTripImageExpr.v
   (amount_wf); it is a premise of commodity_declaration_wf here. *)
From Coq Require Import List NArith ZArith Bool Lia Arith.
From Okv Require Import Model.Lit Model.LitSpec Model.Syntax Model.Comb Model.ParseExpr Model.ParseMeta
  Model.ParseDirective Model.Display Model.DocGrammar Model.RoundTripSpec
  Proofs.CombSpec Proofs.ParseTotal Proofs.DocAccept Proofs.DisplayLines Proofs.RoundTripBase
  Proofs.RoundTripMeta.
Import ListNotations.
Open Scope N_scope.

Local Notation not_nl := (fun c : N => negb (is_nl c)).

(* ---- generic inversions ---- *)
(* the parser fails without cut *)
Definition fails {A} (p : parser A) (i : str) : Prop := exists l r, p i = PErr false l r.

(* what the parser leaves does not start with a `bad` character (a greedy run took them all) *)
Definition ends_not {A} (bad : N -> bool) (p : parser A) : Prop :=
  forall i a r, p i = POk a r -> starts_not bad r.

Lemma bind_inv : forall A B (p : parser A) (k : A -> parser B) i b r,
  bind p k i = POk b r -> exists a r0, p i = POk a r0 /\ k a r0 = POk b r.
Proof.
  intros A B p k i b r H. unfold bind in H.
  destruct (p i) as [a r0 | | |]; try discriminate. eauto.
Qed.

Lemma pmap_inv : forall A B (f : A -> B) (p : parser A) i v r,
  pmap f p i = POk v r -> exists x, v = f x /\ p i = POk x r.
Proof.
  intros A B f p i v r H. unfold pmap in H. apply bind_inv in H.
  destruct H as (a & r0 & P & H). unfold ret in H. inversion H; subst. eauto.
Qed.

Lemma ends_bind : forall A B (p : parser A) (k : A -> parser B) bad,
  (forall a, ends_not bad (k a)) -> ends_not bad (bind p k).
Proof.
  intros A B p k bad Hk i b r H. apply bind_inv in H. destruct H as (a & r0 & _ & H).
  exact (Hk a r0 b r H).
Qed.

Lemma ends_take_while1 : forall f, ends_not f (take_while1 f).
Proof.
  intros f i a r H. unfold take_while1 in H.
  destruct (span_while_split f i) as (w & b & E & _ & _ & Hb). rewrite E in H.
  destruct w; [discriminate |]. inversion H; subst. exact Hb.
Qed.

Lemma ends_space1 : ends_not is_sp space1.
Proof. exact (ends_take_while1 is_sp). Qed.

(* repeat(0.., p) stops where p fails *)
Lemma many0_stops : forall A (p : parser A) f i l r, many0 f p i = POk l r -> fails p r.
Proof.
  intros A p. induction f as [| f IH]; intros i l r; simpl.
  - destruct (p i) as [a r0 | [|] l0 r0 | w |] eqn:E; try discriminate.
    + destruct (consumed i r0); discriminate.
    + intros H. inversion H; subst. exists l0, r0. exact E.
  - destruct (p i) as [a r0 | [|] l0 r0 | w |] eqn:E; try discriminate.
    + destruct (consumed i r0); [| discriminate].
      destruct (many0 f p r0) as [a1 r1 | c1 l1 r1 | w |] eqn:M; try discriminate.
      intros H. inversion H; subst. exact (IH _ _ _ M).
    + intros H. inversion H; subst. exists l0, r0. exact E.
Qed.

(* ---- one line behind a prefix ---- *)
Definition lp {A} (pfx : parser A) : parser (list N) :=
  delimited pfx till_line_ending line_ending_or_eof.

Lemma lp_inv : forall A (pfx : parser A) i x r, lp pfx i = POk x r ->
  exists a r0 r1, pfx i = POk a r0 /\ till_line_ending r0 = POk x r1.
Proof.
  intros A pfx i x r H. unfold lp, delimited in H.
  apply bind_inv in H. destruct H as (a & r0 & P & H).
  apply bind_inv in H. destruct H as (x0 & r1 & T & H).
  apply bind_inv in H. destruct H as (u & r2 & _ & H). unfold ret in H. inversion H; subst. eauto.
Qed.

(* names, paths, aliases *)
Lemma line_text_wf : forall A (pfx : parser A) i x r, ends_not is_sp pfx ->
  lp pfx i = POk x r -> wf_line_text (trim_end x) = true.
Proof.
  intros A pfx i x r He H. destruct (lp_inv _ _ _ _ _ H) as (a & r0 & r1 & P & T).
  pose proof (He _ _ _ P) as Hsp. destruct (tle_text _ _ _ T) as [Ei Hs].
  destruct (trim_end_prefix x) as [w Ew].
  unfold wf_line_text. rewrite !andb_true_iff. repeat split.
  - exact (trim_end_all _ _ Hs).
  - unfold end_trimmed. apply str_eqb_eq. apply trim_end_idem.
  - apply negb_true_iff. destruct (trim_end x) as [| c t]; [reflexivity |].
    rewrite Ei, Ew in Hsp. exact Hsp.
Qed.

(* the lines of a multi-line text *)
Definition good (bad : N -> bool) (l : str) : bool := no_nl l && negb (starts bad l).

Lemma lp_good : forall A (pfx : parser A) bad i x r, ends_not bad pfx ->
  lp pfx i = POk x r -> good bad x = true.
Proof.
  intros A pfx bad i x r He H. destruct (lp_inv _ _ _ _ _ H) as (a & r0 & r1 & P & T).
  pose proof (He _ _ _ P) as Hb. destruct (tle_text _ _ _ T) as [Ei Hs].
  unfold good. apply andb_true_iff. split; [exact Hs |].
  apply negb_true_iff. destruct x as [| c t]; [reflexivity |]. rewrite Ei in Hb. exact Hb.
Qed.

(* ---- str::lines of a text built line by line ---- *)
Lemma split_incl_line : forall l rest, all not_nl l ->
  split_incl (l ++ 10 :: rest) = (l, true) :: split_incl rest.
Proof.
  induction l as [| c l IH]; intros rest H.
  - reflexivity.
  - apply all_cons in H. destruct H as [Hc H]. cbn [app split_incl].
    assert (E : (c =? 10) = false).
    { apply negb_true_iff in Hc. unfold is_nl in Hc. apply orb_false_iff in Hc. tauto. }
    rewrite E, (IH rest H). reflexivity.
Qed.

Lemma strip_cr_id : forall l, all not_nl l -> strip_cr l = l.
Proof.
  intros l H. destruct (strip_cr_cases l) as [E | (r & El & _)]; [exact E |].
  rewrite El in H. apply all_app in H. destruct H as [_ H]. discriminate H.
Qed.

Lemma str_lines_concat : forall bad ls, forallb (good bad) ls = true ->
  str_lines (concat (map (fun l => l ++ [10]) ls)) = ls.
Proof.
  intros bad. induction ls as [| l ls IH]; intros H; [reflexivity |].
  cbn [forallb] in H. apply andb_true_iff in H. destruct H as [Hl Hls].
  unfold good in Hl. apply andb_true_iff in Hl. destruct Hl as [Hl _].
  cbn [map concat]. rewrite <- app_assoc. cbn [app].
  unfold str_lines in *. rewrite (split_incl_line l _ Hl). cbn [map fst snd].
  rewrite (strip_cr_id l Hl), (IH Hls). reflexivity.
Qed.

Lemma lines_text_wf : forall bad ls, ls <> [] -> forallb (good bad) ls = true ->
  wf_multiline bad (concat (map (fun l => l ++ [10]) ls)) = true.
Proof.
  intros bad ls Hne H. unfold wf_multiline.
  rewrite (str_lines_concat bad ls H), flat_map_concat_map. rewrite !andb_true_iff. repeat split.
  - destruct ls as [| l ls]; [congruence |]. cbn [map concat]. destruct l; reflexivity.
  - apply str_eqb_eq. reflexivity.
  - exact H.
Qed.

(* multiline_text: a well-formed text; it stops where its line parser fails, and it starts where
   its line parser does not fail *)
Lemma multiline_wf : forall A (pfx : parser A) bad fuel i s r, ends_not bad pfx ->
  multiline_text fuel pfx i = POk s r ->
  wf_multiline bad s = true /\ fails (lp pfx) r /\ ~ fails (lp pfx) i.
Proof.
  intros A pfx bad fuel i s r He H. unfold multiline_text in H.
  apply pmap_inv in H. destruct H as (ls & -> & H).
  change (delimited pfx till_line_ending line_ending_or_eof) with (lp pfx) in H.
  unfold many1 in H.
  apply bind_inv in H. destruct H as (a & r0 & L & H).
  apply bind_inv in H. destruct H as (ls' & r1 & M & H). unfold ret in H. inversion H; subst.
  split; [| split].
  - apply lines_text_wf; [discriminate |]. cbn [forallb]. rewrite (lp_good _ _ _ _ _ _ He L).
    exact (many0_forall _ (good bad) (lp pfx) (fun i0 a0 r2 => lp_good _ pfx bad i0 a0 r2 He) _ _ _ _ M).
  - exact (many0_stops _ _ _ _ _ _ M).
  - intros (l & r' & F). rewrite F in L. discriminate.
Qed.

(* ---- include ---- *)
Theorem include_wf : forall i e r, include i = POk e r -> wf_entry e = true.
Proof.
  intros i e r H. unfold include in H. apply pmap_inv in H. destruct H as (x & -> & H).
  cbn [wf_entry]. refine (line_text_wf _ _ _ _ _ _ H).
  apply ends_bind. intros _. exact ends_space1.
Qed.

(* ---- end apply tag ---- *)
Theorem end_apply_tag_wf : forall i e r, end_apply_tag i = POk e r -> wf_entry e = true.
Proof.
  assert (G : ok_val end_apply_tag (fun e => wf_entry e = true)).
  { unfold end_apply_tag. repeat (eapply okv_bind; [apply okv_any | intros _ _]).
    intros i e r H. unfold ret in H. inversion H; subst. reflexivity. }
  exact G.
Qed.

(* ---- apply tag ---- *)
Lemma okv_opt : forall A (p : parser A) (P : A -> bool),
  ok_val p (fun a => P a = true) -> ok_val (opt p) (fun o => opt_all P o = true).
Proof.
  intros A p P Hp i o r H. unfold opt in H.
  destruct (p i) as [a r0 | [|] l r0 | w |] eqn:E; try discriminate; inversion H; subst.
  - exact (Hp _ _ _ E).
  - reflexivity.
Qed.

Theorem apply_tag_wf : forall i e r, apply_tag i = POk e r -> wf_entry e = true.
Proof.
  assert (G : ok_val apply_tag (fun e => wf_entry e = true)).
  { unfold apply_tag.
    eapply okv_bind with (P1 := fun k => wf_tag k = true).
    - unfold preceded. eapply okv_bind; [apply okv_any | intros _ _]. exact tag_key_wf.
    - intros key Hk. eapply okv_bind with (P1 := fun v => opt_all wf_meta_value v = true).
      + apply okv_delimited. apply okv_opt. exact metadata_value_wf.
      + intros v Hv i e r H. unfold ret in H. inversion H; subst.
        cbn [wf_entry]. rewrite Hk, Hv. reflexivity. }
  exact G.
Qed.

(* ---- top-level comment ---- *)
Theorem top_comment_wf : forall fuel i e r, top_comment fuel i = POk e r -> wf_entry e = true.
Proof.
  intros fuel i e r H. unfold top_comment in H. apply pmap_inv in H. destruct H as (s & -> & H).
  cbn [wf_entry]. exact (proj1 (multiline_wf _ _ _ _ _ _ _ (ends_take_while1 is_comment_prefix) H)).
Qed.

(* ---- the sub-directives ---- *)
Definition cpfx : parser (list N) := space1 ;;; take_while1 is_comment_prefix.
Definition npfx : parser (list N) := space1 ;;; literal kw_note ;;; space1.
Definition apfx : parser (list N) := space1 ;;; literal kw_alias ;;; space1.

Lemma ends_cpfx : ends_not is_comment_prefix cpfx.
Proof. apply ends_bind. intros _. apply ends_take_while1. Qed.
Lemma ends_npfx : ends_not is_sp npfx.
Proof. apply ends_bind. intros _. apply ends_bind. intros _. exact ends_space1. Qed.
Lemma ends_apfx : ends_not is_sp apfx.
Proof. apply ends_bind. intros _. apply ends_bind. intros _. exact ends_space1. Qed.

Lemma detail_comment_wf : forall fuel i s r, detail_comment fuel i = POk s r ->
  wf_multiline is_comment_prefix s = true /\ fails (lp cpfx) r /\ ~ fails (lp cpfx) i.
Proof. intros fuel i s r H. exact (multiline_wf _ cpfx _ fuel i s r ends_cpfx H). Qed.

Lemma detail_note_wf : forall fuel i s r, detail_note fuel i = POk s r ->
  wf_multiline is_sp s = true /\ fails (lp npfx) r /\ ~ fails (lp npfx) i.
Proof. intros fuel i s r H. exact (multiline_wf _ npfx _ fuel i s r ends_npfx H). Qed.

Lemma detail_alias_wf : forall i s r, detail_alias i = POk s r -> wf_line_text s = true.
Proof.
  intros i s r H. unfold detail_alias in H. apply pmap_inv in H. destruct H as (x & -> & H).
  exact (line_text_wf _ apfx _ _ _ ends_apfx H).
Qed.

(* ---- the loop over the sub-directives: no two comment (note) blocks in a row ---- *)
Section Loop.
  Variable D : Type.
  Variable body : parser D.
  Variable wf : D -> bool.
  Variables isc isn : D -> bool.
  Variable merges : D -> D -> bool.
  Variables cl nl : parser (list N).
  Hypothesis Hmerges : forall a b, merges a b = true ->
    (isc a = true /\ isc b = true) \/ (isn a = true /\ isn b = true).
  Hypothesis Hbody : forall i d r, body i = POk d r ->
    wf d = true /\
    (isc d = true -> fails cl r /\ ~ fails cl i) /\
    (isn d = true -> fails nl r /\ ~ fails nl i).

  Definition head_not (k : D -> bool) (ds : list D) : Prop :=
    match ds with d :: _ => k d = false | [] => True end.

  Lemma loop_inv : forall f i ds r, many0 f body i = POk ds r ->
    forallb wf ds = true /\ no_adjacent merges ds = true /\
    (fails cl i -> head_not isc ds) /\ (fails nl i -> head_not isn ds).
  Proof.
    assert (Step : forall i d r0 ds,
      body i = POk d r0 ->
      (forallb wf ds = true /\ no_adjacent merges ds = true /\
       (fails cl r0 -> head_not isc ds) /\ (fails nl r0 -> head_not isn ds)) ->
      forallb wf (d :: ds) = true /\ no_adjacent merges (d :: ds) = true /\
      (fails cl i -> head_not isc (d :: ds)) /\ (fails nl i -> head_not isn (d :: ds))).
    { intros i d r0 ds B (Hw & Hn & Hc & Hnn).
      destruct (Hbody _ _ _ B) as (Wd & Cd & Nd). repeat split.
      - cbn [forallb]. rewrite Wd, Hw. reflexivity.
      - destruct ds as [| y t]; [reflexivity |].
        change (no_adjacent merges (d :: y :: t)) with (negb (merges d y) && no_adjacent merges (y :: t)).
        rewrite Hn, andb_true_r. apply negb_true_iff.
        destruct (merges d y) eqn:Em; [| reflexivity]. exfalso.
        destruct (Hmerges _ _ Em) as [[Ha Hb] | [Ha Hb]].
        + destruct (Cd Ha) as [F _]. specialize (Hc F). cbn [head_not] in Hc. congruence.
        + destruct (Nd Ha) as [F _]. specialize (Hnn F). cbn [head_not] in Hnn. congruence.
      - intros F. cbn [head_not]. destruct (isc d) eqn:E; [| reflexivity].
        exfalso. exact (proj2 (Cd eq_refl) F).
      - intros F. cbn [head_not]. destruct (isn d) eqn:E; [| reflexivity].
        exfalso. exact (proj2 (Nd eq_refl) F). }
    induction f as [| f IH]; intros i ds r; simpl.
    - destruct (body i) as [d r0 | [|] l0 r0 | w |] eqn:E; try discriminate.
      + destruct (consumed i r0); discriminate.
      + intros H. inversion H; subst. cbn. auto.
    - destruct (body i) as [d r0 | [|] l0 r0 | w |] eqn:E; try discriminate.
      + destruct (consumed i r0); [| discriminate].
        destruct (many0 f body r0) as [ds1 r1 | c1 l1 r1 | w |] eqn:M; try discriminate.
        intros H. inversion H; subst. exact (Step _ _ _ _ E (IH _ _ _ M)).
      + intros H. inversion H; subst. cbn. auto.
  Qed.
End Loop.

(* ---- account ---- *)
Definition is_adc (d : s_account_detail) : bool := match d with ADComment _ => true | _ => false end.
Definition is_adn (d : s_account_detail) : bool := match d with ADNote _ => true | _ => false end.

Definition ad_body (fuel : nat) : parser s_account_detail :=
  alt (pmap ADComment (detail_comment fuel))
      (alt (pmap ADNote (detail_note fuel)) (pmap ADAlias detail_alias)).

Lemma ad_merges_kind : forall a b, ad_merges a b = true ->
  (is_adc a = true /\ is_adc b = true) \/ (is_adn a = true /\ is_adn b = true).
Proof. intros [x | x | x] [y | y | y] H; try discriminate; cbn; auto. Qed.

Lemma ad_body_inv : forall fuel i d r, ad_body fuel i = POk d r ->
  wf_account_detail d = true /\
  (is_adc d = true -> fails (lp cpfx) r /\ ~ fails (lp cpfx) i) /\
  (is_adn d = true -> fails (lp npfx) r /\ ~ fails (lp npfx) i).
Proof.
  intros fuel i d r H. unfold ad_body in H.
  destruct (alt_inv _ _ _ _ _ _ H) as [H1 | H1]; [| destruct (alt_inv _ _ _ _ _ _ H1) as [H2 | H2]].
  - apply pmap_inv in H1. destruct H1 as (s & -> & H1).
    destruct (detail_comment_wf _ _ _ _ H1) as (W & F1 & F2).
    cbn [wf_account_detail is_adc is_adn]. repeat split; auto; discriminate.
  - apply pmap_inv in H2. destruct H2 as (s & -> & H2).
    destruct (detail_note_wf _ _ _ _ H2) as (W & F1 & F2).
    cbn [wf_account_detail is_adc is_adn]. repeat split; auto; discriminate.
  - apply pmap_inv in H2. destruct H2 as (s & -> & H2).
    cbn [wf_account_detail is_adc is_adn]. repeat split; try discriminate.
    exact (detail_alias_wf _ _ _ H2).
Qed.

Theorem account_declaration_wf : forall fuel i e r,
  account_declaration fuel i = POk e r -> wf_entry e = true.
Proof.
  intros fuel i e r H. unfold account_declaration in H.
  apply bind_inv in H. destruct H as (name & r0 & Hn & H).
  apply bind_inv in H. destruct H as (ds & r1 & Hd & H). unfold ret in H. inversion H; subst.
  fold (ad_body fuel) in Hd.
  destruct (loop_inv _ (ad_body fuel) wf_account_detail is_adc is_adn ad_merges (lp cpfx) (lp npfx)
              ad_merges_kind (ad_body_inv fuel) _ _ _ _ Hd) as (W & Nadj & _).
  cbn [wf_entry]. rewrite W, Nadj, !andb_true_r.
  refine (line_text_wf _ _ _ _ _ _ Hn). apply ends_bind. intros _. exact ends_space1.
Qed.

(* ---- commodity ---- *)
Definition is_cdc (d : s_commodity_detail) : bool := match d with CDComment _ => true | _ => false end.
Definition is_cdn (d : s_commodity_detail) : bool := match d with CDNote _ => true | _ => false end.

Definition cd_body (fuel : nat) : parser s_commodity_detail :=
  alt (pmap CDComment (detail_comment fuel))
      (alt (pmap CDNote (detail_note fuel))
           (alt (pmap CDAlias detail_alias)
                (pmap CDFormat
                      (delimited (space1 ;;; literal kw_format ;;; space1) amount line_ending_or_eof)))).

Lemma cd_merges_kind : forall a b, cd_merges a b = true ->
  (is_cdc a = true /\ is_cdc b = true) \/ (is_cdn a = true /\ is_cdn b = true).
Proof. intros [x | x | x | x] [y | y | y | y] H; try discriminate; cbn; auto. Qed.

Section Commodity.
  Hypothesis amount_wf : forall i a r, amount i = POk a r -> wf_amount a = true.

  Lemma cd_body_inv : forall fuel i d r, cd_body fuel i = POk d r ->
    wf_commodity_detail d = true /\
    (is_cdc d = true -> fails (lp cpfx) r /\ ~ fails (lp cpfx) i) /\
    (is_cdn d = true -> fails (lp npfx) r /\ ~ fails (lp npfx) i).
  Proof.
    intros fuel i d r H. unfold cd_body in H.
    destruct (alt_inv _ _ _ _ _ _ H) as [H1 | H1];
      [| destruct (alt_inv _ _ _ _ _ _ H1) as [H2 | H2];
         [| destruct (alt_inv _ _ _ _ _ _ H2) as [H3 | H3]]].
    - apply pmap_inv in H1. destruct H1 as (s & -> & H1).
      destruct (detail_comment_wf _ _ _ _ H1) as (W & F1 & F2).
      cbn [wf_commodity_detail is_cdc is_cdn]. repeat split; auto; discriminate.
    - apply pmap_inv in H2. destruct H2 as (s & -> & H2).
      destruct (detail_note_wf _ _ _ _ H2) as (W & F1 & F2).
      cbn [wf_commodity_detail is_cdc is_cdn]. repeat split; auto; discriminate.
    - apply pmap_inv in H3. destruct H3 as (s & -> & H3).
      cbn [wf_commodity_detail is_cdc is_cdn]. repeat split; try discriminate.
      exact (detail_alias_wf _ _ _ H3).
    - apply pmap_inv in H3. destruct H3 as (a & -> & H3).
      cbn [wf_commodity_detail is_cdc is_cdn]. repeat split; try discriminate.
      unfold delimited in H3.
      apply bind_inv in H3. destruct H3 as (u & r0 & _ & H3).
      apply bind_inv in H3. destruct H3 as (a0 & r1 & Ha & H3).
      apply bind_inv in H3. destruct H3 as (u1 & r2 & _ & H3). unfold ret in H3. inversion H3; subst.
      exact (amount_wf _ _ _ Ha).
  Qed.

  Theorem commodity_declaration_wf : forall fuel i e r,
    commodity_declaration fuel i = POk e r -> wf_entry e = true.
  Proof.
    intros fuel i e r H. unfold commodity_declaration in H.
    apply bind_inv in H. destruct H as (name & r0 & Hn & H).
    apply bind_inv in H. destruct H as (ds & r1 & Hd & H). unfold ret in H. inversion H; subst.
    fold (cd_body fuel) in Hd.
    destruct (loop_inv _ (cd_body fuel) wf_commodity_detail is_cdc is_cdn cd_merges (lp cpfx) (lp npfx)
                cd_merges_kind (cd_body_inv fuel) _ _ _ _ Hd) as (W & Nadj & _).
    cbn [wf_entry]. rewrite W, Nadj, !andb_true_r.
    refine (line_text_wf _ _ _ _ _ _ Hn). apply ends_bind. intros _. exact ends_space1.
  Qed.
End Commodity.

(* ---- every directive parser ---- *)
Theorem directive_image_wf :
  (forall i a r, amount i = POk a r -> wf_amount a = true) ->
  forall fuel i e r,
    (include i = POk e r \/ end_apply_tag i = POk e r \/ apply_tag i = POk e r \/
     top_comment fuel i = POk e r \/ account_declaration fuel i = POk e r \/
     commodity_declaration fuel i = POk e r) -> wf_entry e = true.
Proof.
  intros Ha fuel i e r [H | [H | [H | [H | [H | H]]]]].
  - exact (include_wf _ _ _ H).
  - exact (end_apply_tag_wf _ _ _ H).
  - exact (apply_tag_wf _ _ _ H).
  - exact (top_comment_wf _ _ _ _ H).
  - exact (account_declaration_wf _ _ _ _ H).
  - exact (commodity_declaration_wf Ha _ _ _ _ H).
Qed.

Check include_wf.
Check end_apply_tag_wf.
Check apply_tag_wf.
Check top_comment_wf.
Check account_declaration_wf.
Check commodity_declaration_wf.
Print Assumptions directive_image_wf.
Print Assumptions account_declaration_wf.
Print Assumptions commodity_declaration_wf.
